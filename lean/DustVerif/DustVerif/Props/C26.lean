import DustVerif.Model.CFilter
import DustVerif.Model.ReaderHist
import DustVerif.Proofs.HistLemmas
import DustVerif.Proofs.CFilterLemmas
/-! Property C26: a reader on a content-filtered topic presents exactly the samples that satisfy the filter, and a
    failing sample never causes a passing one to be lost, in whatever grouping the samples arrive.

    * part A — the per-datagram loop (`loopFixed` = the code with fixes/D32.patch, `loopAsIs` = the code as found):
      `C26_exact`, `C26_grouping_independent`; for the loop as found `C26_asis_batch_counterexample` (D32) and
      `C26_asis_prefix_partial`, `C26_asis_single_partial`.
    * part B — the evaluation of one sample equals the DDS meaning of `<member> (=|<=) <operand>` when the operand
      is parameter 0 (`C26_eval_spec_int`, `C26_eval_spec_str`); the code never reads the operand
      (`C26_operand_ignored_counterexample`, D61); invalid filters panic (`C26_invalid_filter_panics_counterexample`, D60).
    * part C — what reaches `add_reader_change` of an unlimited KEEP_ALL reader is stored, in order (`C26_presented`).
    * part D — with fixes/D60.patch a filter accepted at creation judges every sample of the type (`C26_validated_total`,
      `C26_exact_validated`). -/
namespace DustVerif.CFilter

/-! ### part A: the batch loop -/

/-- the change is handed to the reader history -/
def passes {α : Type} (f : Option Filter) (c : Change α) : Bool := evalChange f c == Eval.pass

/-- the evaluation of every change of the batch is a verdict (no structural failure, no panic) -/
def Clean {α : Type} (f : Option Filter) (l : List (Change α)) : Prop :=
  ∀ c ∈ l, evalChange f c = Eval.pass ∨ evalChange f c = Eval.fail

theorem loopFixed_clean {α : Type} (f : Option Filter) (l : List (Change α)) (h : Clean f l) :
    loopFixed f l = Out.ok (l.filter (passes f)) := by
  induction l with
  | nil => rfl
  | cons c cs ih =>
    have hc := h c (by simp)
    have ih' := ih (fun x hx => h x (by simp [hx]))
    unfold loopFixed
    rcases hc with hc | hc
    · simp [hc, ih', Out.cons, passes]
    · simp [hc, ih', passes]

theorem loopAsIs_clean {α : Type} (f : Option Filter) (l : List (Change α)) (h : Clean f l) :
    loopAsIs f l = Out.ok (l.takeWhile (passes f)) := by
  induction l with
  | nil => rfl
  | cons c cs ih =>
    have hc := h c (by simp)
    have ih' := ih (fun x hx => h x (by simp [hx]))
    unfold loopAsIs
    rcases hc with hc | hc
    · simp [hc, ih', Out.cons, passes]
    · simp [hc, passes]

theorem deliver_ok {α : Type} (loop : List (Change α) → Out α) (g : List (Change α) → List (Change α))
    (groups : List (List (Change α))) (h : ∀ b ∈ groups, loop b = Out.ok (g b)) :
    deliver loop groups = Out.ok (groups.flatMap g) := by
  induction groups with
  | nil => rfl
  | cons b bs ih =>
    have hb := h b (by simp)
    have ih' := ih (fun x hx => h x (by simp [hx]))
    simp [deliver, hb, ih']

theorem flatMap_filter_eq {β : Type} (p : β → Bool) (groups : List (List β)) :
    groups.flatMap (List.filter p) = groups.flatten.filter p := by
  induction groups with
  | nil => rfl
  | cons b bs ih => simp [List.flatMap_cons, List.filter_append, ih]

/-- C26 (repaired loop): for every filter, every list of datagrams and every content of each datagram whose
    samples the filter can judge, the reader history receives exactly the changes that pass — all of them, no
    others, in arrival order -/
theorem C26_exact {α : Type} (f : Option Filter) (groups : List (List (Change α)))
    (h : ∀ b ∈ groups, Clean f b) :
    deliver (loopFixed f) groups = Out.ok (groups.flatten.filter (passes f)) := by
  rw [deliver_ok (loopFixed f) (List.filter (passes f)) groups (fun b hb => loopFixed_clean f b (h b hb)),
    flatMap_filter_eq]

/-- C26 (repaired loop): the grouping of the same samples into datagrams does not matter -/
theorem C26_grouping_independent {α : Type} (f : Option Filter) (g1 g2 : List (List (Change α)))
    (hsame : g1.flatten = g2.flatten) (h1 : ∀ b ∈ g1, Clean f b) (h2 : ∀ b ∈ g2, Clean f b) :
    deliver (loopFixed f) g1 = deliver (loopFixed f) g2 := by
  rw [C26_exact f g1 h1, C26_exact f g2 h2, hsame]

/-- C26 (loop as found, D32): what it delivers is, per datagram, the prefix before the first failing sample -/
theorem C26_asis_prefix_partial {α : Type} (f : Option Filter) (groups : List (List (Change α)))
    (h : ∀ b ∈ groups, Clean f b) :
    deliver (loopAsIs f) groups = Out.ok (groups.flatMap (List.takeWhile (passes f))) :=
  deliver_ok (loopAsIs f) (List.takeWhile (passes f)) groups (fun b hb => loopAsIs_clean f b (h b hb))

theorem takeWhile_single {β : Type} (p : β → Bool) (b : List β) (hb : b.length ≤ 1) : b.takeWhile p = b.filter p := by
  match b, hb with
  | [], _ => rfl
  | [x], _ => cases hp : p x <;> simp [List.takeWhile, List.filter, hp]

/-- C26 (loop as found, partial): with at most one sample per datagram — the only arrival pattern the repository's
    tests produce — the loop as found is exact too. Excluded: any datagram carrying two or more DATA submessages. -/
theorem C26_asis_single_partial {α : Type} (f : Option Filter) (groups : List (List (Change α)))
    (h : ∀ b ∈ groups, Clean f b) (h1 : ∀ b ∈ groups, b.length ≤ 1) :
    deliver (loopAsIs f) groups = Out.ok (groups.flatten.filter (passes f)) := by
  rw [C26_asis_prefix_partial f groups h, ← flatMap_filter_eq]
  congr 1
  clear h
  induction groups with
  | nil => rfl
  | cons b bs ih =>
    simp [List.flatMap_cons, ih (fun x hx => h1 x (by simp [hx])), takeWhile_single (passes f) b (h1 b (by simp))]

/-- D32 witness (loop as found): a failing sample (50) followed by a passing one (5) in ONE datagram loses the
    passing one; in two datagrams it is delivered; the repaired loop delivers it in both groupings -/
theorem C26_asis_batch_counterexample :
    let f : Option Filter := some { expr := "value <= %0".toList, params := ["10".toList] }
    let s50 : Change Nat := { data := some [⟨"id".toList, .int 1⟩, ⟨"value".toList, .int 50⟩], tag := 1 }
    let s5 : Change Nat := { data := some [⟨"id".toList, .int 2⟩, ⟨"value".toList, .int 5⟩], tag := 2 }
    (match deliver (loopAsIs f) [[s50, s5]] with | .ok l => l.map (·.tag) | .panic _ => [99]) = [] ∧
    (match deliver (loopAsIs f) [[s50], [s5]] with | .ok l => l.map (·.tag) | .panic _ => [99]) = [2] ∧
    (match deliver (loopFixed f) [[s50, s5]] with | .ok l => l.map (·.tag) | .panic _ => [99]) = [2] ∧
    (match deliver (loopFixed f) [[s50], [s5]] with | .ok l => l.map (·.tag) | .panic _ => [99]) = [2] := by
  decide

/-! ### part B: the evaluation of one sample -/

/-- the text of a filter expression: member name, blanks, operator, anything -/
def exprOf (m : List Char) (n1 : Nat) (op : Op) (rest : List Char) : List Char :=
  m ++ List.replicate n1 ' ' ++ (match op with
    | .le => '<' :: '=' :: rest
    | .eq => '=' :: rest)

/-- member names the theorems speak about: non-empty, no blanks, no `<`, no `=` -/
def IsName (m : List Char) : Prop := m ≠ [] ∧ ∀ c ∈ m, isWs c = false ∧ c ≠ '<' ∧ c ≠ '='

/-- operand texts: anything without `<` (`%0`, ` %0`, `%1`, `10`, `'abc'` …) -/
def IsOperand (rest : List Char) : Prop := ∀ c ∈ rest, c ≠ '<'

/-- the operator is recognised and the member name recovered, whatever the operand text is -/
theorem detectFull_exprOf (m : List Char) (n1 : Nat) (op : Op) (rest : List Char) (hm : IsName m) (hr : IsOperand rest) :
    detectFull (exprOf m n1 op rest) = some (m ++ List.replicate n1 ' ', rest, op) := by
  have hpre : ∀ c ∈ m ++ List.replicate n1 ' ', c ≠ '<' ∧ c ≠ '=' := by
    intro c hc
    simp only [List.mem_append, List.mem_replicate] at hc
    rcases hc with hc | ⟨_, hc⟩
    · exact (hm.2 c hc).2
    · subst hc; decide
  cases op with
  | le => exact detectFull_le _ rest (fun c hc => (hpre c hc).1)
  | eq => exact detectFull_eq _ rest hpre hr

theorem detect_exprOf (m : List Char) (n1 : Nat) (op : Op) (rest : List Char) (hm : IsName m) (hr : IsOperand rest) :
    detect (exprOf m n1 op rest) = some (m ++ List.replicate n1 ' ', op) := by
  simp [detect, detectFull_exprOf m n1 op rest hm hr]

/-- DDS meaning of the two supported operators on INT32 -/
def SatInt : Op → Int → Int → Prop
  | .eq, x, k => x = k
  | .le, x, k => x ≤ k

/-- DDS meaning on strings: equality, and the lexicographic order of the code points (library order on lists) -/
def SatStr : Op → List Char → List Char → Prop
  | .eq, x, p => x = p
  | .le, x, p => x.map Char.toNat ≤ p.map Char.toNat

instance (op : Op) (x k : Int) : Decidable (SatInt op x k) := by cases op <;> simp only [SatInt] <;> infer_instance
instance (op : Op) (x p : List Char) : Decidable (SatStr op x p) := by cases op <;> simp only [SatStr] <;> infer_instance

/-- C26 (evaluation, INT32 member; with fixes/D61.patch): for every member name, spacing, operator and operand text that
    the code resolves to a value `o` (`%n` with an existing parameter, a quoted literal, an integer literal: see
    `C26_operand_param` / `_quoted` / `_literal`) denoting the integer `k`, a sample whose member is an INT32 `x` is judged
    by `x op k` — the DDS meaning of the expression, whatever the operand form and whatever the OTHER parameters are -/
theorem C26_eval_spec_int (m : List Char) (n1 : Nat) (op : Op) (rest o : List Char) (ps : List (List Char)) (d : Data)
    (x k : Int) (hm : IsName m) (hr : IsOperand rest) (hx : lookup m d = some (.int x))
    (ho : operandOf rest ps = some o) (hk : parseI32 o = some k) :
    eval { expr := exprOf m n1 op rest, params := ps } d = if SatInt op x k then Eval.pass else Eval.fail := by
  unfold eval
  simp only [detectFull_exprOf m n1 op rest hm hr, ho, trim_pad m n1 hm.1 (fun c hc => (hm.2 c hc).1), hx, hk]
  cases op <;> simp [cmpInt, SatInt]

/-- C26 (evaluation, string member): the same with the string order; the operand value is compared as it is -/
theorem C26_eval_spec_str (m : List Char) (n1 : Nat) (op : Op) (rest o : List Char) (ps : List (List Char)) (d : Data)
    (x : List Char) (hm : IsName m) (hr : IsOperand rest) (hx : lookup m d = some (.str x))
    (ho : operandOf rest ps = some o) :
    eval { expr := exprOf m n1 op rest, params := ps } d = if SatStr op x o then Eval.pass else Eval.fail := by
  unfold eval
  simp only [detectFull_exprOf m n1 op rest hm hr, ho, trim_pad m n1 hm.1 (fun c hc => (hm.2 c hc).1), hx]
  cases op
  · simp only [cmpStr, SatStr]
    by_cases h : strLe x o = true
    · simp [h, (strLe_iff x o).mp h]
    · have : ¬ (x.map Char.toNat ≤ o.map Char.toNat) := fun h' => h ((strLe_iff x o).mpr h')
      simp [h, this]
  · simp [cmpStr, SatStr]

/-! #### which operand texts denote what (topic_entity.rs `filter_operand`) -/

/-- `%<index>`: the parameter with that index, `none` (-> the filter is rejected at creation) when the index is not a
    number or lies beyond the parameter list; blanks around the operand do not matter -/
theorem C26_operand_param (a b : Nat) (idx : List Char) (ps : List (List Char)) (hidx : ∀ c ∈ idx, isWs c = false) :
    operandOf (List.replicate a ' ' ++ ('%' :: idx) ++ List.replicate b ' ') ps =
      match parseUsize idx with
      | some n => ps[n]?
      | none => none := by
  have hl : ∀ d ds, ('%' :: idx).reverse = d :: ds → isWs d = false := by
    intro d ds hd
    have : d ∈ ('%' :: idx).reverse := by rw [hd]; simp
    have hm := List.mem_reverse.mp this
    simp only [List.mem_cons] at hm
    rcases hm with h | h
    · subst h; decide
    · exact hidx d h
  unfold operandOf
  rw [trim_both a b '%' idx (by decide) hl]
  rfl

/-- C26: the value of `%n` is expression parameter n CHARACTER FOR CHARACTER: blanks around the `%n` token in the
    expression (`a`, `b`) are irrelevant, blanks (or anything else) inside the parameter `p` are kept — `p` is returned
    unchanged for every list of characters -/
theorem C26_param_not_trimmed (a b n : Nat) (idx p : List Char) (ps : List (List Char)) (hidx : ∀ c ∈ idx, isWs c = false)
    (hn : parseUsize idx = some n) (hp : ps[n]? = some p) :
    operandOf (List.replicate a ' ' ++ ('%' :: idx) ++ List.replicate b ' ') ps = some p := by
  rw [C26_operand_param a b idx ps hidx, hn]
  exact hp

/-- seeded change C26_d: `name = %0` with the parameter " RED" selects " RED" and not "RED" (a trimmed parameter would do the opposite) -/
example :
    eval { expr := "name =  %0 ".toList, params := [" RED".toList] } [⟨"id".toList, .int 1⟩, ⟨"name".toList, .str " RED".toList⟩] = Eval.pass ∧
    eval { expr := "name =  %0 ".toList, params := [" RED".toList] } [⟨"id".toList, .int 1⟩, ⟨"name".toList, .str "RED".toList⟩] = Eval.fail ∧
    eval { expr := "name <= %0".toList, params := ["RED ".toList] } [⟨"id".toList, .int 1⟩, ⟨"name".toList, .str "RED ".toList⟩] = Eval.pass ∧
    eval { expr := "name <= %0".toList, params := ["RED".toList] } [⟨"id".toList, .int 1⟩, ⟨"name".toList, .str "RED ".toList⟩] = Eval.fail := by
  decide

/-- `'text'`: the text between the quotes, whatever it is and whatever the parameters are -/
theorem C26_operand_quoted (a b : Nat) (t : List Char) (ps : List (List Char)) :
    operandOf (List.replicate a ' ' ++ ('\'' :: (t ++ ['\''])) ++ List.replicate b ' ') ps = some t := by
  have hl : ∀ d ds, ('\'' :: (t ++ ['\''])).reverse = d :: ds → isWs d = false := by
    intro d ds hd
    have : ('\'' :: (t ++ ['\''])).reverse = '\'' :: (t.reverse ++ ['\'']) := by
      rw [List.reverse_cons, List.reverse_append]; rfl
    rw [this] at hd
    cases hd
    decide
  unfold operandOf
  rw [trim_both a b '\'' (t ++ ['\'']) (by decide) hl]
  have hlen : ('\'' :: (t ++ ['\''])).length ≥ 2 := by simp
  have hlast : ('\'' :: (t ++ ['\''])).getLast? = some '\'' := by
    rw [show ('\'' :: (t ++ ['\''])) = ('\'' :: t) ++ ['\''] from rfl]
    exact List.getLast?_concat
  have hdrop : (List.drop 1 ('\'' :: (t ++ ['\'']))).dropLast = t := by simp
  split
  · rename_i idx heq
    cases heq
  · rename_i o hne
    simp only [hlen, List.head?_cons, hlast, and_self, if_true, hdrop]

/-- an integer literal (what `parse::<i32>` accepts): itself -/
theorem C26_operand_literal (a b : Nat) (c : Char) (cs : List Char) (k : Int) (ps : List (List Char))
    (hk : parseI32 (c :: cs) = some k) (hc : isWs c = false)
    (hl : ∀ d ds, (c :: cs).reverse = d :: ds → isWs d = false) :
    operandOf (List.replicate a ' ' ++ (c :: cs) ++ List.replicate b ' ') ps = some (c :: cs) := by
  unfold operandOf
  rw [trim_both a b c cs hc hl]
  have h1 : c ≠ '%' := fun e => by rw [e, parseI32_percent] at hk; cases hk
  have h2 : c ≠ '\'' := fun e => by rw [e, parseI32_quote] at hk; cases hk
  split
  · rename_i idx heq
    cases heq
    exact absurd rfl h1
  · simp [h2, hk]

/-- non-vacuity of the hypotheses: `value <= %1`, parameters ("100", "3"), sample value 5: the operand is "3" -/
example : IsName "value".toList ∧ IsOperand " %1".toList ∧ exprOf "value".toList 1 .le " %1".toList = "value <= %1".toList
    ∧ lookup "value".toList [⟨"id".toList, .int 1⟩, ⟨"value".toList, .int 5⟩] = some (.int 5)
    ∧ operandOf " %1".toList ["100".toList, "3".toList] = some "3".toList ∧ parseI32 "3".toList = some 3
    ∧ operandOf " 10".toList [] = some "10".toList ∧ operandOf "'ab c'".toList [] = some "ab c".toList
    ∧ operandOf "%2".toList ["1".toList] = none := by
  refine ⟨⟨by decide, by decide⟩, by unfold IsOperand; decide, by decide, by decide, by decide, by decide, by decide, by decide, by decide⟩

/-- a sample type: every alive change carries the member `m` with an INT32 value -/
def HasInt {α : Type} (m : List Char) (l : List (Change α)) : Prop :=
  ∀ c ∈ l, ∀ d, c.data = some d → ∃ x, lookup m d = some (.int x)

/-- DDS selection of a change by `m op k` (not-alive changes are always relevant) -/
def selInt {α : Type} (m : List Char) (op : Op) (k : Int) (c : Change α) : Bool :=
  match c.data with
  | none => true
  | some d => match lookup m d with
    | some (.int x) => decide (SatInt op x k)
    | _ => false

/-- C26 (end to end for the loop, INT32): for every valid filter `m (=|<=) %0`-shaped text whose parameter 0 denotes
    `k`, every list of datagrams over a type that has the INT32 member `m`: the reader history receives exactly the
    changes the DDS filter selects, in order — no panic, nothing lost, nothing extra -/
theorem C26_exact_int {α : Type} (m : List Char) (n1 : Nat) (op : Op) (rest o : List Char) (ps : List (List Char)) (k : Int)
    (hm : IsName m) (hr : IsOperand rest) (ho : operandOf rest ps = some o) (hk : parseI32 o = some k)
    (groups : List (List (Change α))) (hty : ∀ b ∈ groups, HasInt m b) :
    deliver (loopFixed (some { expr := exprOf m n1 op rest, params := ps })) groups =
      Out.ok (groups.flatten.filter (selInt m op k)) := by
  have hev : ∀ b ∈ groups, ∀ c ∈ b,
      evalChange (some { expr := exprOf m n1 op rest, params := ps }) c =
        if selInt m op k c then Eval.pass else Eval.fail := by
    intro b hb c hc
    unfold evalChange evalChangeWith selInt
    cases hd : c.data with
    | none => simp
    | some d =>
      obtain ⟨x, hx⟩ := hty b hb c hc d hd
      simp only [hx, C26_eval_spec_int m n1 op rest o ps d x k hm hr hx ho hk]
      by_cases hs : SatInt op x k <;> simp [hs]
  have hclean : ∀ b ∈ groups, Clean (some { expr := exprOf m n1 op rest, params := ps }) b := by
    intro b hb c hc
    rw [hev b hb c hc]
    cases selInt m op k c <;> simp
  rw [C26_exact _ groups hclean]
  congr 1
  apply List.filter_congr
  intro c hc
  obtain ⟨b, hb, hcb⟩ := List.mem_flatten.mp hc
  unfold passes
  rw [hev b hb c hcb]
  cases selInt m op k c <;> simp

/-- D61 regression witness (repaired by fixes/D61.patch): before, the operand text was never read. `value <= %1` with parameters ("100", "3") and a sample value 5:
    the code compares with parameter 0 and passes the sample; the DDS meaning (parameter 1 = 3) rejects it -/
theorem C26_operand_ignored_counterexample :
    evalOld { expr := "value <= %1".toList, params := ["100".toList, "3".toList] }
      [⟨"id".toList, .int 1⟩, ⟨"value".toList, .int 5⟩] = Eval.pass ∧
    eval { expr := "value <= %1".toList, params := ["100".toList, "3".toList] }
      [⟨"id".toList, .int 1⟩, ⟨"value".toList, .int 5⟩] = Eval.fail ∧ ¬ SatInt .le 5 3 := by
  refine ⟨by decide, by decide, ?_⟩
  simp [SatInt]

/-- D60 witness: filters that `create_contentfilteredtopic` accepts and that kill the worker with the first sample:
    no parameter, a parameter that is not an i32, a member of a kind the `match` answers with `todo!()` -/
theorem C26_invalid_filter_panics_counterexample :
    evalOld { expr := "value <= %0".toList, params := [] } [⟨"id".toList, .int 1⟩, ⟨"value".toList, .int 5⟩] = Eval.panic ∧
    evalOld { expr := "value <= %0".toList, params := ["abc".toList] } [⟨"id".toList, .int 1⟩, ⟨"value".toList, .int 5⟩] = Eval.panic ∧
    evalOld { expr := "value <= %0".toList, params := ["2147483648".toList] } [⟨"id".toList, .int 1⟩, ⟨"value".toList, .int 5⟩] = Eval.panic ∧
    evalOld { expr := "value = %0".toList, params := ["05".toList] } [⟨"id".toList, .int 1⟩, ⟨"value".toList, .other⟩] = Eval.panic := by
  decide

/-- C26 (partial, D60; about the evaluation before fixes/D60 + D61): a filter whose parameter 0 exists and, for an INT32 member, denotes an i32 never panics,
    whatever the expression text and the sample are, as long as the sample has no member of an unsupported kind -/
theorem C26_no_panic_partial (f : Filter) (d : Data) (p : List Char) (ps : List (List Char)) (hp : f.params = p :: ps)
    (hint : (parseI32 p).isSome) (hother : ∀ n, lookup n d ≠ some Val.other) : evalOld f d ≠ Eval.panic := by
  unfold evalOld
  split
  · simp
  · rename_i v op _
    cases hl : lookup (trim v) d with
    | none => simp
    | some val =>
      cases val with
      | int x =>
        obtain ⟨k, hk⟩ := Option.isSome_iff_exists.mp hint
        simp only [hp, hk]
        split <;> simp
      | str x =>
        simp only [hp]
        split <;> simp
      | other => exact absurd hl (hother _)

/-- a sample type: every alive change carries the member `m` with a string value -/
def HasStr {α : Type} (m : List Char) (l : List (Change α)) : Prop :=
  ∀ c ∈ l, ∀ d, c.data = some d → ∃ x, lookup m d = some (.str x)

def selStr {α : Type} (m : List Char) (op : Op) (p : List Char) (c : Change α) : Bool :=
  match c.data with
  | none => true
  | some d => match lookup m d with
    | some (.str x) => decide (SatStr op x p)
    | _ => false

/-- C26 (end to end for the loop, string member): as `C26_exact_int`; parameter 0 is the operand, compared as is -/
theorem C26_exact_str {α : Type} (m : List Char) (n1 : Nat) (op : Op) (rest p : List Char) (ps : List (List Char))
    (hm : IsName m) (hr : IsOperand rest) (ho : operandOf rest ps = some p)
    (groups : List (List (Change α))) (hty : ∀ b ∈ groups, HasStr m b) :
    deliver (loopFixed (some { expr := exprOf m n1 op rest, params := ps })) groups =
      Out.ok (groups.flatten.filter (selStr m op p)) := by
  have hev : ∀ b ∈ groups, ∀ c ∈ b,
      evalChange (some { expr := exprOf m n1 op rest, params := ps }) c =
        if selStr m op p c then Eval.pass else Eval.fail := by
    intro b hb c hc
    unfold evalChange evalChangeWith selStr
    cases hd : c.data with
    | none => simp
    | some d =>
      obtain ⟨x, hx⟩ := hty b hb c hc d hd
      simp only [hx, C26_eval_spec_str m n1 op rest p ps d x hm hr hx ho]
      by_cases hs : SatStr op x p <;> simp [hs]
  have hclean : ∀ b ∈ groups, Clean (some { expr := exprOf m n1 op rest, params := ps }) b := by
    intro b hb c hc
    rw [hev b hb c hc]
    cases selStr m op p c <;> simp
  rw [C26_exact _ groups hclean]
  congr 1
  apply List.filter_congr
  intro c hc
  obtain ⟨b, hb, hcb⟩ := List.mem_flatten.mp hc
  unfold passes
  rw [hev b hb c hcb]
  cases selStr m op p c <;> simp

/-! ### part C: from `add_reader_change` to what `take` can return -/

open DustVerif.Hist in
/-- the reader of the scenarios: KEEP_ALL, no resource limits, BY_RECEPTION, SHARED, no time-based filter -/
def Unlimited (q : Hist.Qos) : Prop :=
  q.depth = none ∧ q.maxSamples = none ∧ q.maxInst = none ∧ q.maxSpi = none ∧ q.bySource = false ∧
    q.exclusive = false ∧ q.minSep = some 0

open DustVerif.Hist in
theorem timeOk_zero (q : Hist.Qos) (hq : q.minSep = some 0) (l : List Hist.Sample) (h : Nat) (ts : Option Nat) :
    timeOk q l h ts = true := by
  unfold timeOk
  split
  · simp [hq]
  · rfl

open DustVerif.Hist in
/-- an ALIVE change handed to an unlimited KEEP_ALL reader is appended to the stored samples -/
theorem addChange_alive_unlimited (s : Hist.St) (hq : Unlimited s.qos) (w : Nat) (data : String) (h : Nat)
    (sts : Option Nat) (rts : Nat) :
    (addChange s w data .alive h sts rts).1.qos = s.qos ∧
    ∃ dgc nwgc, (addChange s w data .alive h sts rts).1.samples = s.samples ++ [mkSample w data .alive h sts dgc nwgc] := by
  obtain ⟨hd, hms, hmi, hspi, hbs, hex, hsep⟩ := hq
  have hc := addChange_cases s w data .alive h sts rts
  refine ⟨hc.1, ?_⟩
  have hstore : ∀ x : Hist.Sample, storeSample s.qos s.samples x = s.samples ++ [x] := by
    intro x
    simp [storeSample, replacedCount, hd, hbs]
  -- exclude the three other outcomes by computing the result tag
  have hres : (addChange s w data .alive h sts rts).2 = .added := by
    unfold addChange
    have ht : ∃ l, touchInst s.insts h .alive rts = some l := by
      unfold touchInst
      cases findInst h s.insts <;> simp [Kind.isAliveKind]
    obtain ⟨l, hl⟩ := ht
    simp only [hl, ownershipFilter, hex, Bool.false_eq_true, if_false]
    unfold afterOwnership
    simp only [timeOk_zero _ hsep, Bool.not_true, Bool.false_eq_true, if_false]
    unfold finishAdd
    simp [limitHit, hms, hmi, hspi]
  rcases hc.2 with ⟨h1, _⟩ | ⟨h1, _⟩ | ⟨why, h1, _⟩ | ⟨dgc, nwgc, _, h2, _⟩
  · rw [hres] at h1; cases h1
  · rw [hres] at h1; cases h1
  · rw [hres] at h1; cases h1
  · exact ⟨dgc, nwgc, by rw [h2, hstore]⟩

open DustVerif.Hist in
/-- hand a list of alive samples (writer, printed data, key, source stamp) to the reader, one after the other -/
def addAll (s : Hist.St) (rts : Nat) : List (Nat × String × Nat × Option Nat) → Hist.St
  | [] => s
  | (w, data, h, sts) :: rest => addAll (addChange s w data .alive h sts rts).1 rts rest

open DustVerif.Hist in
/-- C26 (presentation): whatever list of passing samples the loop hands over, the unlimited KEEP_ALL reader of the
    scenarios stores all of them, after what it had, in the same order — so `take` can return exactly them -/
theorem C26_presented (s : Hist.St) (hq : Unlimited s.qos) (rts : Nat) (l : List (Nat × String × Nat × Option Nat)) :
    ((addAll s rts l).samples.map (·.data)) = s.samples.map (·.data) ++ l.map (fun x => x.2.1) := by
  induction l generalizing s with
  | nil => simp [addAll]
  | cons x xs ih =>
    obtain ⟨w, data, h, sts⟩ := x
    obtain ⟨hq', dgc, nwgc, hs⟩ := addChange_alive_unlimited s hq w data h sts rts
    have := ih (addChange s w data .alive h sts rts).1 (by rw [hq']; exact hq)
    simp only [addAll, this, hs, List.map_append, List.map_cons, List.map_nil, mkSample, List.append_assoc,
      List.singleton_append]

/-- non-vacuity: the reader QoS of the driver is `Unlimited` -/
example : Unlimited { depth := none, maxSamples := none, maxInst := none, maxSpi := none, bySource := false,
                      exclusive := false, minSep := some 0 } := by
  simp [Unlimited]

/-! ### part D: validation at creation (fixes/D60.patch) closes the panics -/

/-- the sample is an instance of the type the filter was validated against: every member has the declared kind -/
def Conforms (ty : TypeDesc) (d : Data) : Prop := ∀ n, (lookup n d).map kindOf = lookupKind n ty

/-- C26 (D60 repaired): a filter that `create_contentfilteredtopic` accepts judges EVERY sample of the related topic's
    type — no panic (missing / non-numeric parameter, unsupported member kind) and no structural failure, whatever the
    expression text, the parameters and the sample are -/
theorem C26_validated_total (ty : TypeDesc) (f : Filter) (hv : validate ty f = true) (d : Data) (hc : Conforms ty d) :
    eval f d = Eval.pass ∨ eval f d = Eval.fail := by
  unfold validate at hv
  unfold eval
  cases hdet : detectFull f.expr with
  | none => simp [hdet] at hv
  | some vo =>
    obtain ⟨v, rest, op⟩ := vo
    simp only [hdet] at hv ⊢
    have hk := hc (trim v)
    cases hlk : lookupKind (trim v) ty with
    | none => simp [hlk] at hv
    | some k =>
      rw [hlk] at hk
      cases ho : operandOf rest f.params with
      | none => cases k <;> simp [hlk, ho] at hv
      | some o =>
        simp only []
        cases hl : lookup (trim v) d with
        | none => simp [hl] at hk
        | some val =>
          simp only [hl, Option.map_some, Option.some.injEq] at hk
          cases val with
          | int x =>
            simp only [kindOf] at hk
            subst hk
            simp only [hlk, ho] at hv
            obtain ⟨n, hn⟩ := Option.isSome_iff_exists.mp hv
            simp only [hn]
            split <;> simp
          | str x =>
            simp only []
            split <;> simp
          | other =>
            simp only [kindOf] at hk
            subst hk
            simp [hlk, ho] at hv

/-- C26 (end to end for the loop, validated filters): for EVERY filter the repaired `create_contentfilteredtopic` accepts
    and every grouping of samples of the related type into datagrams, the reader history receives exactly the changes
    that pass, in order — the hypothesis "the filter can judge the samples" of `C26_exact` is discharged by the validation -/
theorem C26_exact_validated {α : Type} (ty : TypeDesc) (f : Filter) (hv : validate ty f = true)
    (groups : List (List (Change α))) (hty : ∀ b ∈ groups, ∀ c ∈ b, ∀ d, c.data = some d → Conforms ty d) :
    deliver (loopFixed (some f)) groups = Out.ok (groups.flatten.filter (passes (some f))) := by
  apply C26_exact
  intro b hb c hc
  unfold evalChange evalChangeWith
  cases hd : c.data with
  | none => simp
  | some d => simpa using C26_validated_total ty f hv d (hty b hb c hc d hd)

/-- non-vacuity: `value <= %0` with parameter "10" is accepted for KeyedI32 and a KeyedI32 sample conforms -/
example : validate [("id".toList, .int32), ("value".toList, .int32)] { expr := "value <= %0".toList, params := ["10".toList] } = true := by
  decide

/-- D60 regression witness: the filters of `C26_invalid_filter_panics_counterexample` (and an unknown member, an
    unsupported operator) are rejected at creation with the patch -/
theorem C26_invalid_filter_rejected_counterexample :
    let ki : TypeDesc := [("id".toList, .int32), ("value".toList, .int32)]
    let kb : TypeDesc := [("id".toList, .int32), ("value".toList, .other)]
    validate ki { expr := "value <= %0".toList, params := [] } = false ∧
    validate ki { expr := "value <= %0".toList, params := ["abc".toList] } = false ∧
    validate ki { expr := "value <= %0".toList, params := ["2147483648".toList] } = false ∧
    validate kb { expr := "value = %0".toList, params := ["05".toList] } = false ∧
    validate ki { expr := "valu = %0".toList, params := ["5".toList] } = false ∧
    validate ki { expr := "value >= %0".toList, params := ["5".toList] } = false ∧
    validate ki { expr := "value <= %1".toList, params := ["100".toList, "3".toList] } = true ∧
    validate ki { expr := "value <= %2".toList, params := ["100".toList, "3".toList] } = false ∧
    validate ki { expr := "value <= 10".toList, params := [] } = true ∧
    validate ki { expr := "value <= abc".toList, params := ["5".toList] } = false ∧
    validate ki { expr := "value <= %0 AND id = %1".toList, params := ["5".toList, "6".toList] } = false ∧
    validateOld ki { expr := "value <= %2".toList, params := ["100".toList, "3".toList] } = true := by
  decide

end DustVerif.CFilter
