import DustVerif.Model.Match
/-! Property C15 (request/offered part): the two functions that decide QoS compatibility of a writer and a
    reader implement exactly the DDS 1.4 RxO table (and XTypes 7.6.3.1.1 for the data representation), for
    ALL QoS values; the writer-side and the reader-side evaluation agree; the reported policy list names
    exactly the offending policies. -/
namespace DustVerif.Match

/-! ### specification (written from the DDS table, not from the code) -/

/-- mathematical order on durations: infinite is the top element; finite ones compare by (sec, ns) -/
def DurLe : DurK → DurK → Prop
  | _, none => True
  | none, some _ => False
  | some a, some b => a.sec < b.sec ∨ (a.sec = b.sec ∧ a.ns ≤ b.ns)

/-- accepted representations of a reader: an empty list stands for [XCDR1] -/
def accepted (r : EndQos) : List Int := if r.representation.isEmpty then [XCDR1] else r.representation

/-- DDS 1.4 §2.2.3 "RxO" column, one clause per policy: when is the OFFERED value compatible with the REQUESTED one -/
def SpecCompatible (w r : EndQos) : Policy → Prop
  | .durability => r.durability.rank ≤ w.durability.rank
  | .presentation => r.presentation.scope.rank ≤ w.presentation.scope.rank
      ∧ (r.presentation.coherent = true → w.presentation.coherent = true)
      ∧ (r.presentation.ordered = true → w.presentation.ordered = true)
  | .deadline => DurLe w.deadline r.deadline
  | .latencyBudget => DurLe w.latency r.latency
  | .ownership => w.ownership = r.ownership
  | .liveliness => r.liveliness.kind.rank ≤ w.liveliness.kind.rank ∧ DurLe w.liveliness.lease r.liveliness.lease
  | .reliability => r.reliability.rank ≤ w.reliability.rank
  | .destinationOrder => r.destOrder.rank ≤ w.destOrder.rank
  | .dataRepresentation => offeredRepr w ∈ accepted r

theorem durLt_iff (a b : DurK) : durLt a b = true ↔ ¬ DurLe b a := by
  cases a with
  | none => cases b <;> simp [durLt, DurLe]
  | some x =>
    cases b with
    | none => simp [durLt, DurLe]
    | some y =>
      simp only [durLt, Dur.lt, DurLe, Bool.or_eq_true, Bool.and_eq_true, decide_eq_true_eq, beq_iff_eq]
      omega

theorem durGt_iff (a b : DurK) : durGt a b = true ↔ ¬ DurLe a b := durLt_iff b a

theorem mem_pushIf (c : Bool) (p q : Policy) (l : List Policy) :
    q ∈ pushIf c p l ↔ q ∈ l ∨ (c = true ∧ q = p) := by
  unfold pushIf
  cases c <;> simp

theorem reprIncompat_iff (w r : EndQos) : reprIncompat w r = true ↔ ¬ offeredRepr w ∈ accepted r := by
  unfold reprIncompat accepted
  cases hr : r.representation with
  | nil => simp [XCDR1]
  | cons x xs => simp

theorem presentationIncompat_iff (w r : Presentation) :
    presentationIncompat w r = true ↔
      ¬ (r.scope.rank ≤ w.scope.rank ∧ (r.coherent = true → w.coherent = true) ∧ (r.ordered = true → w.ordered = true)) := by
  unfold presentationIncompat
  cases hc : r.coherent <;> cases hc' : w.coherent <;> cases ho : r.ordered <;> cases ho' : w.ordered <;>
    simp <;> omega

theorem livelinessIncompat_iff (w r : Liveliness) :
    livelinessIncompat w r = true ↔ ¬ (r.kind.rank ≤ w.kind.rank ∧ DurLe w.lease r.lease) := by
  unfold livelinessIncompat
  simp only [Bool.or_eq_true, decide_eq_true_eq, durGt_iff]
  constructor
  · rintro (h | h) ⟨h1, h2⟩
    · omega
    · exact h h2
  · intro h
    by_cases h1 : w.kind.rank < r.kind.rank
    · exact Or.inl h1
    · exact Or.inr (fun h2 => h ⟨by omega, h2⟩)

/-- C15 (writer side): a policy is in the list the WRITER computes for a discovered reader exactly when the
    DDS table says the offered value is not compatible with the requested one — for all QoS values -/
theorem C15_writer_side_exact (w r : EndQos) (p : Policy) :
    p ∈ writerSideIncompat w r ↔ ¬ SpecCompatible w r p := by
  unfold writerSideIncompat
  simp only [mem_pushIf, List.not_mem_nil, false_or, decide_eq_true_eq, durGt_iff, reprIncompat_iff,
    presentationIncompat_iff, livelinessIncompat_iff, bne_iff_ne]
  cases p <;> simp [SpecCompatible] <;> omega

/-- C15 (reader side): the same for the list the READER computes for a discovered writer -/
theorem C15_reader_side_exact (w r : EndQos) (p : Policy) :
    p ∈ readerSideIncompat w r ↔ ¬ SpecCompatible w r p := by
  unfold readerSideIncompat
  simp only [mem_pushIf, List.not_mem_nil, false_or, decide_eq_true_eq, durLt_iff, reprIncompat_iff,
    presentationIncompat_iff, livelinessIncompat_iff, bne_iff_ne]
  cases p <;> simp [SpecCompatible] <;> first | omega | (constructor <;> intro h <;> exact fun e => h e.symm)

/-- C15 (both sides reach the same verdict and name the same policies) -/
theorem C15_both_sides_agree (w r : EndQos) (p : Policy) :
    p ∈ writerSideIncompat w r ↔ p ∈ readerSideIncompat w r := by
  rw [C15_writer_side_exact, C15_reader_side_exact]

/-- C15 (verdict): the pair is accepted (empty list) exactly when every RxO policy is compatible -/
theorem C15_compatible_iff (w r : EndQos) :
    writerSideIncompat w r = [] ↔ ∀ p, SpecCompatible w r p := by
  constructor
  · intro h p
    have := not_congr (C15_writer_side_exact w r p)
    rw [h] at this
    simpa using this
  · intro h
    cases hl : writerSideIncompat w r with
    | nil => rfl
    | cons x xs =>
      have hx : x ∈ writerSideIncompat w r := by rw [hl]; simp
      exact absurd (h x) ((C15_writer_side_exact w r x).mp hx)

/-- regression witness for the repaired defect D19: the derived lexicographic comparison of (kind, lease)
    called a SHORTER offered lease incompatible and a LONGER one compatible -/
theorem C15_liveliness_lexicographic_counterexample :
    livelinessIncompatLex { kind := .automatic, lease := some ⟨1, 0⟩ } { kind := .automatic, lease := some ⟨2, 0⟩ } = true ∧
    livelinessIncompatLex { kind := .automatic, lease := some ⟨2, 0⟩ } { kind := .automatic, lease := some ⟨1, 0⟩ } = false := by
  decide

/-- regression witness for the repaired defect D53: `!=` on the access flags rejected a publisher that OFFERS
    coherent/ordered access to a subscriber that does not request it -/
theorem C15_presentation_ne_counterexample :
    presentationIncompatNe { scope := .topic, coherent := true, ordered := true }
                           { scope := .instance, coherent := false, ordered := false } = true ∧
    presentationIncompat { scope := .topic, coherent := true, ordered := true }
                         { scope := .instance, coherent := false, ordered := false } = false := by
  decide

def exW : EndQos :=
  { durability := .transientLocal, presentation := ⟨.topic, true, false⟩, deadline := some ⟨1, 0⟩, latency := some ⟨0, 0⟩,
    liveliness := ⟨.manualByTopic, some ⟨1, 0⟩⟩, reliability := .reliable, destOrder := .bySource, ownership := .shared,
    representation := [2] }
def exR : EndQos :=
  { durability := .volatile, presentation := ⟨.instance, false, false⟩, deadline := some ⟨2, 0⟩, latency := none,
    liveliness := ⟨.automatic, none⟩, reliability := .bestEffort, destOrder := .byReception, ownership := .shared,
    representation := [0, 2] }

/-- non-vacuity: a non-default compatible pair, and the same pair with the roles swapped is incompatible in 8 policies -/
example : writerSideIncompat exW exR = [] ∧ (readerSideIncompat exR exW).length = 8 := by decide

end DustVerif.Match
