import DustVerif.Model.Time
/-! Property C38: set_fragment_size accepts exactly 8..=65000, rejection keeps the old value. -/
namespace DustVerif.Time

theorem C38_range (cur n : Nat) :
    ((setFragmentSize cur n).2 = true ↔ (8 ≤ n ∧ n ≤ 65000)) ∧
    ((setFragmentSize cur n).2 = true → (setFragmentSize cur n).1 = n) ∧
    ((setFragmentSize cur n).2 = false → (setFragmentSize cur n).1 = cur) := by
  unfold setFragmentSize FRAG_LO FRAG_HI
  split <;> simp_all

/-- consequence over any call sequence: the setting is always the default or within range -/
theorem C38_setting_in_range (ns : List Nat) :
    let s := ns.foldl (fun c n => (setFragmentSize c n).1) FRAG_DEFAULT
    8 ≤ s ∧ s ≤ 65000 := by
  suffices h : ∀ c, (8 ≤ c ∧ c ≤ 65000) →
      (8 ≤ ns.foldl (fun c n => (setFragmentSize c n).1) c ∧
       ns.foldl (fun c n => (setFragmentSize c n).1) c ≤ 65000) by
    exact h FRAG_DEFAULT (by decide)
  induction ns with
  | nil => intro c hc; simpa using hc
  | cons n ns ih =>
    intro c hc
    simp only [List.foldl_cons]
    apply ih
    unfold setFragmentSize FRAG_LO FRAG_HI
    split <;> simp_all

example : (setFragmentSize 1344 7).2 = false ∧ (setFragmentSize 1344 8).1 = 8 := by decide

end DustVerif.Time
