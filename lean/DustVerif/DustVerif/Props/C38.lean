import DustVerif.Model.Time
/-! Property C38: set_fragment_size accepts exactly 8..=65000, rejection keeps the old value. -/
namespace DustVerif.Time

theorem C38_range (cur n : Nat) :
    ((setFragmentSize cur n).2 = true ↔ (8 ≤ n ∧ n ≤ 65000)) ∧
    ((setFragmentSize cur n).2 = true → (setFragmentSize cur n).1 = n) ∧
    ((setFragmentSize cur n).2 = false → (setFragmentSize cur n).1 = cur) := by
  unfold setFragmentSize FRAG_LO FRAG_HI
  split <;> simp_all

/-- consequence over any call sequence: the setting is always the default or within range -/
theorem C38_setting_in_range (ns : List Nat) :
    let s := ns.foldl (fun c n => (setFragmentSize c n).1) FRAG_DEFAULT
    8 ≤ s ∧ s ≤ 65000 := by
  suffices h : ∀ c, (8 ≤ c ∧ c ≤ 65000) →
      (8 ≤ ns.foldl (fun c n => (setFragmentSize c n).1) c ∧
       ns.foldl (fun c n => (setFragmentSize c n).1) c ≤ 65000) by
    exact h FRAG_DEFAULT (by decide)
  induction ns with
  | nil => intro c hc; simpa using hc
  | cons n ns ih =>
    intro c hc
    simp only [List.foldl_cons]
    apply ih
    unfold setFragmentSize FRAG_LO FRAG_HI
    split <;> simp_all

/-- the documented range as a named Boolean predicate -/
def fragOk (n : Nat) : Bool := decide (8 ≤ n) && decide (n ≤ 65000)

theorem getLast?_cons_getD (n c : Nat) (l : List Nat) : ((n :: l).getLast?).getD c = (l.getLast?).getD n := by
  cases l with
  | nil => rfl
  | cons x xs =>
    rw [List.getLast?_cons_cons]
    have h : ∀ (d : Nat), ((x :: xs).getLast?).getD d = (x :: xs).getLast (by simp) := by
      intro d; rw [List.getLast?_eq_some_getLast (by simp)]; rfl
    rw [h c, h n]

/-- **C38_last_accepted**: after ANY sequence of calls from ANY previous setting, the setting is exactly the argument of
    the last call whose argument was inside 8..=65000, and the previous setting when there was none: a rejected call
    never leaves a trace, an accepted one always takes effect, whatever came before. -/
theorem C38_last_accepted (ns : List Nat) (c : Nat) :
    ns.foldl (fun c n => (setFragmentSize c n).1) c = ((ns.filter fragOk).getLast?).getD c := by
  induction ns generalizing c with
  | nil => rfl
  | cons n ns ih =>
    simp only [List.foldl_cons]
    rw [ih]
    by_cases hok : fragOk n = true
    · have h1 : (setFragmentSize c n).1 = n := by
        have := (C38_range c n).2.1
        apply this
        apply (C38_range c n).1.2
        simpa [fragOk] using hok
      rw [h1, List.filter_cons_of_pos hok, getLast?_cons_getD]
    · have h1 : (setFragmentSize c n).1 = c := by
        apply (C38_range c n).2.2
        cases hv : (setFragmentSize c n).2 with
        | false => rfl
        | true =>
          exfalso; apply hok
          have := (C38_range c n).1.1 hv
          simpa [fragOk] using this
      rw [h1, List.filter_cons_of_neg hok]

example : [7, 100, 65001, 9, 0].foldl (fun c n => (setFragmentSize c n).1) FRAG_DEFAULT = 9 := by decide

example : (setFragmentSize 1344 7).2 = false ∧ (setFragmentSize 1344 8).1 = 8 := by decide

end DustVerif.Time
