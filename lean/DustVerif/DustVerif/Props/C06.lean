import DustVerif.Model.Receiver
import DustVerif.Proofs.ReceiverLemmas
/-! Property C06 (dispatch part): whatever well-formed-decoded submessages a datagram carries — ARBITRARY field values,
    any sender, any claimed source, any state of the victim's proxies — the MessageReceiver / `handle_data` dispatch of the
    delivered tree (`Guards.all` = the repository's main branch, which contains the repairs D5 D62 D6 D7 D2+D8 D9 D63 D1+D44
    D-rtps-1 D-wire-3/4, + fixes/D64.patch + fixes/D65.patch) never panics and keeps the state invariant, hence the next
    datagram is processed too; every loop driven by attacker-controlled values is bounded by what the attacker paid for.
    `Guards.main` (main without the two patches) and `Guards.none` (the tree as first found) keep one-datagram witnesses
    for every repaired site. -/
namespace DustVerif.Receiver

/-- C06: one datagram. ∀ identities, ∀ state with the invariant, ∀ header prefix, ∀ submessage list (any kinds, any field
    values): the dispatch returns (no panic outcome) and the invariant holds again. -/
theorem C06_dispatch_total (ids : Ids) (v : Victim) (hinv : Inv v) (hdr : Prefix) (subs : List Sub) :
    ∃ v', handleDatagram Guards.all ids v hdr subs = some v' ∧ Inv v' := by
  unfold handleDatagram
  obtain ⟨l, hl⟩ := decodeAll_all subs
  simp only [hl]
  exact runSubs_all ids l _ v hinv

/-- a stream of datagrams, each with its own header prefix -/
def runDatagrams (g : Guards) (ids : Ids) : Victim → List (Prefix × List Sub) → Option Victim
  | v, [] => some v
  | v, d :: ds => match handleDatagram g ids v d.1 d.2 with
    | some v' => runDatagrams g ids v' ds
    | none => none

/-- C06: any sequence of datagrams interleaved in any way, starting from any state with the invariant (in particular
    the state right after matching, whose fragment buffer is empty): the worker survives all of them -/
theorem C06_sequence_total (ids : Ids) (v : Victim) (hinv : Inv v) (ds : List (Prefix × List Sub)) :
    ∃ v', runDatagrams Guards.all ids v ds = some v' ∧ Inv v' := by
  induction ds generalizing v with
  | nil => exact ⟨v, rfl, hinv⟩
  | cons d rest ih =>
    obtain ⟨v1, h1, hinv1⟩ := C06_dispatch_total ids v hinv d.1 d.2
    obtain ⟨v2, h2, hinv2⟩ := ih v1 hinv1
    exact ⟨v2, by simp [runDatagrams, h1, h2], hinv2⟩

/-- non-vacuity: the state after matching (empty fragment buffer) satisfies the invariant -/
example (w : WProxy) (hw : w.frags = []) (rp rq : RProxy) (n : Int) :
    Inv { wp := w, rp := rp, wbLast := n, rq := rq, delivered := [], replies := [], steps := 0 } := by
  intro f hf
  simp [hw] at hf

/-! ### bounded work -/

/-- C06 (GAP): with the range handled in O(1) the cost of a GAP is `1 + numBits ≤ 257` steps, whatever
    `gap_start` and `gap_list.base` are (as found: `base - start` iterations, see the witness below) -/
theorem C06_gap_steps (ids : Ids) (rc : Recv) (v : Victim) (writer : EntityId) (start : Int) (set : SnSet) :
    ∃ v', onGap Guards.all ids rc v writer start set = some v' ∧ v'.steps ≤ v.steps + 1 + set.numBits := by
  obtain ⟨v', h, _, hs⟩ := onGap_all ids rc v writer start set
  exact ⟨v', h, hs⟩

/-- C06 (HEARTBEAT): purging the fragment buffer and building the ACKNACK / NACK_FRAG reply costs at most 515 steps plus
    twice the length of the fragment buffer, whatever `first_sn`, `last_sn`, `count` are -/
theorem C06_heartbeat_steps (ids : Ids) (rc : Recv) (v : Victim) (hinv : Inv v) (writer : EntityId) (first last count : Int)
    (final live : Bool) :
    ∃ v', onHeartbeat Guards.all ids rc v writer first last count final live = some v' ∧
      v'.steps ≤ v.steps + 515 + 2 * v.wp.frags.length := by
  obtain ⟨v', h, _, hs⟩ := onHeartbeat_all ids rc v hinv writer first last count final live
  exact ⟨v', h, hs⟩

/-- C06 (DATA_FRAG, with fixes/D65.patch): the work for one DATA_FRAG submessage — duplicate test, fragment count,
    reassembly — is bounded by the NUMBER L of buffered fragments: 3(L+2) steps and one sort, whatever fragment numbers,
    fragments_in_submessage, fragment and sample sizes the submessage carries. (On main the reassembly costs
    (sum of fragments_in_submessage + 1)(L + 1): see C06_reassembly_quadratic_counterexample.) -/
theorem C06_datafrag_steps (ids : Ids) (rc : Recv) (v : Victim) (hinv : Inv v) (writer : EntityId) (f : Frag) :
    ∃ v', onDataFrag Guards.all ids rc v writer f = some v' ∧
      v'.steps ≤ v.steps + 3 * (v.wp.frags.length + 2) + sortCost v.wp.frags.length + sortCost (v.wp.frags.length + 1) :=
  onDataFrag_steps ids rc v hinv writer f

theorem insertReq_length (l : List Int) (s : Int) : (insertReq l s).length ≤ l.length + 1 := by
  unfold insertReq
  split <;> simp

theorem foldl_insertReq_length (xs l : List Int) : (xs.foldl insertReq l).length ≤ l.length + xs.length := by
  induction xs generalizing l with
  | nil => simp
  | cons x rest ih =>
    have h1 := ih (insertReq l x)
    have h2 := insertReq_length l x
    simp only [List.foldl, List.length_cons]
    omega

/-- C06 (ACKNACK): the work (and the number of DATA / GAP datagrams sent in reply) is bounded by the requests pending
    plus the bits set in the received set, whatever `base` and `count` are -/
theorem C06_acknack_steps (w : EntityId) (lastSn : Int) (p : RProxy) (set : SnSet) (count : Int) (r : RProxy × List Reply × Nat)
    (h : onAckNackAt Guards.all w lastSn p set count = some r) :
    r.2.2 ≤ set.numBits + p.requested.length + set.bits.length := by
  unfold onAckNackAt at h
  split at h
  · obtain ⟨a, ha⟩ := addG_sat set.base (-1)
    have ha' : addG Guards.all.d9 set.base (-1) = some a := ha
    obtain ⟨l, hl, hlen⟩ := snElems_all set.base set.bits
    simp only [ha', snSetElems, hl] at h
    split at h
    · cases h
    · cases h
      have := foldl_insertReq_length l p.requested
      simp only []
      omega
  · cases h
    simp

/-- as found: the GAP range is walked number by number. One 64-byte GAP(start = 2, base = 2^40) from the matched
    writer's GUID costs 2^40 - 2 iterations (the worker does not return; replayed: HANG) -/
theorem C06_gap_unbounded_counterexample :
    let ids : Ids := ⟨[1], 2, 7, 2, 0x10007, 0x10002⟩
    let v : Victim := ⟨⟨1, 2, 2, 2, 0, false, 2, 0, []⟩, ⟨2, 0, 2, [], 2⟩, 2, ⟨0, 0, 0, [], 0⟩, [], [], 0⟩
    (handleDatagram Guards.none ids v [1] [.gap 7 2 2 ⟨1099511627776, 0, []⟩]).map (·.steps) = some 1099511627775 ∧
    (handleDatagram Guards.all ids v [1] [.gap 7 2 2 ⟨1099511627776, 0, []⟩]).map (·.steps) = some 2 := by
  decide

/-! ### only a discovered peer's identity can touch protocol state -/

/-- what the protocol state of the victim consists of -/
def sameProto (v v' : Victim) : Prop :=
  v'.wp = v.wp ∧ v'.rp = v.rp ∧ v'.rq = v.rq ∧ v'.wbLast = v.wbLast ∧ v'.replies = v.replies ∧ v'.delivered = v.delivered

theorem sameProto_tick (v : Victim) (n : Nat) : sameProto v (tick v n) := ⟨rfl, rfl, rfl, rfl, rfl, rfl⟩

theorem stepSub_inert (ids : Ids) (rc : Recv) (v : Victim) (s : Sub) (hsrc : rc.src ≠ ids.peer)
    (hs : s ≠ Sub.infoSrc ids.peer) (rc' : Recv) (v' : Victim) (h : stepSub Guards.all ids rc v s = some (rc', v')) :
    rc'.src ≠ ids.peer ∧ sameProto v v' := by
  have hf : ∀ (q : Prop), ¬ (rc.src = ids.peer ∧ q) := fun q hq => hsrc hq.1
  cases s with
  | pad => simp [stepSub] at h; obtain ⟨h1, h2⟩ := h; subst h1 h2; exact ⟨hsrc, sameProto_tick v 1⟩
  | infoTs inv sec frac =>
    simp [stepSub] at h; obtain ⟨h1, h2⟩ := h; subst h1 h2
    refine ⟨?_, sameProto_tick v 1⟩
    split <;> exact hsrc
  | infoDst p => simp [stepSub] at h; obtain ⟨h1, h2⟩ := h; subst h1 h2; exact ⟨hsrc, sameProto_tick v 1⟩
  | infoSrc p =>
    simp [stepSub] at h; obtain ⟨h1, h2⟩ := h; subst h1 h2
    exact ⟨fun e => hs (by simp at e; rw [e]), sameProto_tick v 1⟩
  | infoReply => simp [stepSub, Guards.all] at h; obtain ⟨h1, h2⟩ := h; subst h1 h2; exact ⟨hsrc, sameProto_tick v 1⟩
  | data rd w sn pl =>
    simp [stepSub, onData, hf] at h; obtain ⟨h1, h2⟩ := h; subst h1 h2; exact ⟨hsrc, sameProto_tick v 1⟩
  | dataFrag rd w sn st n fs ds pl =>
    simp only [stepSub, onDataFrag, hf, if_false] at h
    split at h <;> simp at h <;> (obtain ⟨h1, h2⟩ := h; subst h1 h2; exact ⟨hsrc, sameProto_tick v 1⟩)
  | gap rd w st set =>
    simp [stepSub, onGap, hf] at h; obtain ⟨h1, h2⟩ := h; subst h1 h2; exact ⟨hsrc, sameProto_tick v 1⟩
  | heartbeat rd w f l c fin live =>
    simp only [stepSub, onHeartbeat, hf, if_false] at h
    obtain ⟨b, hb⟩ := histReceived_all (tick v 1).wp
    simp only [hb] at h
    simp at h; obtain ⟨h1, h2⟩ := h; subst h1 h2
    exact ⟨hsrc, ⟨rfl, rfl, rfl, rfl, rfl, rfl⟩⟩
  | hbFrag rd w sn lf c =>
    simp [stepSub, hf] at h; obtain ⟨h1, h2⟩ := h; subst h1 h2; exact ⟨hsrc, sameProto_tick v 1⟩
  | ackNack rd w set c =>
    simp [stepSub, onAckNack, hf] at h; obtain ⟨h1, h2⟩ := h; subst h1 h2; exact ⟨hsrc, sameProto_tick v 1⟩
  | nackFrag rd w sn set c =>
    simp only [stepSub] at h
    split at h
    · simp [onNackFrag, hf] at h; obtain ⟨h1, h2⟩ := h; subst h1 h2; exact ⟨hsrc, sameProto_tick v 1⟩
    · simp at h; obtain ⟨h1, h2⟩ := h; subst h1 h2; exact ⟨hsrc, sameProto_tick v 1⟩
    · cases h

theorem sameProto_trans {a b c : Victim} (h1 : sameProto a b) (h2 : sameProto b c) : sameProto a c := by
  obtain ⟨a1, a2, a3, a4, a5, a6⟩ := h1
  obtain ⟨b1, b2, b3, b4, b5, b6⟩ := h2
  exact ⟨b1.trans a1, b2.trans a2, b3.trans a3, b4.trans a4, b5.trans a5, b6.trans a6⟩

theorem runSubs_inert (ids : Ids) (subs : List Sub) (rc : Recv) (v : Victim) (hsrc : rc.src ≠ ids.peer)
    (hs : ∀ s ∈ subs, s ≠ Sub.infoSrc ids.peer) (v' : Victim) (h : runSubs Guards.all ids rc v subs = some v') :
    sameProto v v' := by
  induction subs generalizing rc v with
  | nil => simp [runSubs] at h; subst h; exact ⟨rfl, rfl, rfl, rfl, rfl, rfl⟩
  | cons s rest ih =>
    simp only [runSubs] at h
    split at h
    · cases h
    · rename_i rc1 v1 h1
      obtain ⟨hsrc1, hp1⟩ := stepSub_inert ids rc v s hsrc (hs s (by simp)) rc1 v1 h1
      exact sameProto_trans hp1 (ih rc1 v1 hsrc1 (fun x hx => hs x (by simp [hx])) h)

theorem decodeAll_sub (g : Guards) (subs l : List Sub) (h : decodeAll g subs = some l) : ∀ s ∈ l, s ∈ subs := by
  induction subs generalizing l with
  | nil => simp [decodeAll] at h; subst h; simp
  | cons x rest ih =>
    cases x with
    | nackFrag rd w sn set c =>
      simp only [decodeAll] at h
      split at h
      · cases h
      · intro s hs; exact List.mem_cons_of_mem _ (ih l h s hs)
      · cases hd : decodeAll g rest with
        | none => simp [hd] at h
        | some l' =>
          simp [hd] at h; subst h
          intro s hs
          simp only [List.mem_cons] at hs ⊢
          rcases hs with hs | hs
          · exact Or.inl hs
          · exact Or.inr (ih l' hd s hs)
    | gap rd w st set =>
      simp only [decodeAll] at h
      split at h
      · intro s hs; exact List.mem_cons_of_mem _ (ih l h s hs)
      · cases hd : decodeAll g rest with
        | none => simp [hd] at h
        | some l' =>
          simp [hd] at h; subst h
          intro s hs
          simp only [List.mem_cons] at hs ⊢
          rcases hs with hs | hs
          · exact Or.inl hs
          · exact Or.inr (ih l' hd s hs)
    | ackNack rd w set c =>
      simp only [decodeAll] at h
      split at h
      · intro s hs; exact List.mem_cons_of_mem _ (ih l h s hs)
      · cases hd : decodeAll g rest with
        | none => simp [hd] at h
        | some l' =>
          simp [hd] at h; subst h
          intro s hs
          simp only [List.mem_cons] at hs ⊢
          rcases hs with hs | hs
          · exact Or.inl hs
          · exact Or.inr (ih l' hd s hs)
    | _ =>
      simp only [decodeAll] at h
      cases hd : decodeAll g rest with
      | none => simp [hd] at h
      | some l' =>
        simp [hd] at h; subst h
        intro s hs
        simp only [List.mem_cons] at hs ⊢
        rcases hs with hs | hs
        · exact Or.inl hs
        · exact Or.inr (ih l' hd s hs)

/-- C06 (who can do what): a datagram whose header does not carry the GUID prefix of the discovered peer and that
    contains no INFO_SRC naming it — i.e. anything an outsider can send without spoofing a discovered participant —
    is processed without panic and leaves every proxy, the reader's samples and the reply queue untouched,
    whatever submessages with whatever field values it contains -/
theorem C06_unknown_sender_inert (ids : Ids) (v : Victim) (hinv : Inv v) (hdr : Prefix) (subs : List Sub)
    (hhdr : hdr ≠ ids.peer) (hs : ∀ s ∈ subs, s ≠ Sub.infoSrc ids.peer) :
    ∃ v', handleDatagram Guards.all ids v hdr subs = some v' ∧ sameProto v v' := by
  obtain ⟨v', h, _⟩ := C06_dispatch_total ids v hinv hdr subs
  refine ⟨v', h, ?_⟩
  unfold handleDatagram at h
  cases hd : decodeAll Guards.all subs with
  | none => simp [hd] at h
  | some l =>
    simp only [hd] at h
    exact runSubs_inert ids l _ v hhdr (fun s hs' => hs s (decodeAll_sub _ _ _ hd s hs')) v' h

/-! ### the tree as found: one witness per repaired site (each replayed on the real code, see notes/w2d.md) -/

def exIds : Ids := ⟨[1], 2, 7, 2, 0x10007, 0x10002⟩
/-- the victim after two real samples on each attacked pair -/
def exV : Victim := ⟨⟨1, 2, 2, 2, 0, false, 2, 0, []⟩, ⟨2, 0, 2, [], 2⟩, 2, ⟨0, 0, 0, [], 0⟩, [], [], 0⟩

def panics (g : Guards) (ds : List (Prefix × List Sub)) : Bool := (runDatagrams g exIds exV ds).isNone

/-- D5: NACK_FRAG with numBits = 300 from an UNKNOWN sender panics the decoder (`bitmap[8]`) -/
theorem C06_fragset_numbits_counterexample :
    panics Guards.none [([9], [.nackFrag 7 2 1 ⟨1, 300, [0]⟩ 1])] = true ∧
    panics Guards.all [([9], [.nackFrag 7 2 1 ⟨1, 300, [0]⟩ 1])] = false := by decide

/-- D62: NACK_FRAG with base = u32::MAX and bit 1 set: `base + delta_n as u32` overflows, any sender -/
theorem C06_fragset_base_overflow_counterexample :
    panics Guards.none [([9], [.nackFrag 7 2 1 ⟨4294967295, 2, [1]⟩ 1])] = true ∧
    panics Guards.all [([9], [.nackFrag 7 2 1 ⟨4294967295, 2, [1]⟩ 1])] = false := by decide

/-- D6: DATA_FRAG with fragment_size = 0 for the expected sequence number: division by zero -/
theorem C06_fragment_size_zero_counterexample :
    panics Guards.none [([1], [.dataFrag 7 2 3 1 1 0 100 []])] = true ∧
    panics Guards.all [([1], [.dataFrag 7 2 3 1 1 0 100 []])] = false := by decide

/-- D7: INFO_REPLY from anybody: `todo!()` -/
theorem C06_info_reply_counterexample :
    panics Guards.none [([9], [.infoReply])] = true ∧ panics Guards.all [([9], [.infoReply])] = false := by decide

/-- D9: HEARTBEAT(first_sn = i64::MIN) (`first - 1`) and ACKNACK(base = i64::MIN) (`base - 1`) -/
theorem C06_sequence_number_minus_one_counterexample :
    panics Guards.none [([1], [.heartbeat 7 2 (-9223372036854775808) 2 100 false false])] = true ∧
    panics Guards.none [([1], [.ackNack 7 2 ⟨-9223372036854775808, 0, []⟩ 100])] = true ∧
    panics Guards.all [([1], [.heartbeat 7 2 (-9223372036854775808) 2 100 false false])] = false ∧
    panics Guards.all [([1], [.ackNack 7 2 ⟨-9223372036854775808, 0, []⟩ 100])] = false := by decide

/-- D63: `+ 1` at i64::MAX — a GAP naming i64::MAX followed by any HEARTBEAT; an ACKNACK requesting i64::MAX; a
    NACK_FRAG for sequence number i64::MAX; a set whose base + offset leaves the i64 range -/
theorem C06_sequence_number_plus_one_counterexample :
    panics Guards.none [([1], [.gap 7 2 9223372036854775807 ⟨9223372036854775807, 1, [0]⟩]), ([9], [.heartbeat 0 0 1 1 1 true false])] = true ∧
    panics Guards.none [([1], [.ackNack 7 2 ⟨9223372036854775807, 1, [0]⟩ 100])] = true ∧
    panics Guards.none [([1], [.nackFrag 7 2 9223372036854775807 ⟨1, 0, []⟩ 100])] = true ∧
    panics Guards.none [([1], [.gap 7 2 3 ⟨9223372036854775806, 3, [2]⟩])] = true ∧
    panics Guards.all [([1], [.gap 7 2 9223372036854775807 ⟨9223372036854775807, 1, [0]⟩]), ([9], [.heartbeat 0 0 1 1 1 true false])] = false ∧
    panics Guards.all [([1], [.ackNack 7 2 ⟨9223372036854775807, 1, [0]⟩ 100])] = false ∧
    panics Guards.all [([1], [.nackFrag 7 2 9223372036854775807 ⟨1, 0, []⟩ 100])] = false ∧
    panics Guards.all [([1], [.gap 7 2 3 ⟨9223372036854775806, 3, [2]⟩])] = false := by decide

set_option maxRecDepth 8000 in
/-- D64: a DATA_FRAG whose fragments_in_submessage (5) does not match the announced size (1 fragment) stays in the
    buffer; the next HEARTBEAT finds no fragment NUMBER missing: `expect("At least a fragment must be missing")` -/
theorem C06_no_fragment_missing_counterexample :
    panics Guards.none [([1], [.dataFrag 7 2 3 1 5 100 100 []]), ([1], [.heartbeat 7 2 1 3 100 false false])] = true ∧
    panics Guards.main [([1], [.dataFrag 7 2 3 1 5 100 100 []]), ([1], [.heartbeat 7 2 1 3 100 false false])] = true ∧
    panics Guards.all [([1], [.dataFrag 7 2 3 1 5 100 100 []]), ([1], [.heartbeat 7 2 1 3 100 false false])] = false := by decide

set_option maxRecDepth 8000 in
/-- D44 reached by a crafted datagram: one DATA_FRAG numbered 300 of a 1000-fragment sample; the next HEARTBEAT
    builds a NACK_FRAG set from fragments 1..299, 301..: `bitmap[8]` -/
theorem C06_nackfrag_window_counterexample :
    panics Guards.none [([1], [.dataFrag 7 2 3 300 1 10 10000 []]), ([1], [.heartbeat 7 2 1 3 100 false false])] = true ∧
    panics Guards.all [([1], [.dataFrag 7 2 3 300 1 10 10000 []]), ([1], [.heartbeat 7 2 1 3 100 false false])] = false := by decide

/-- D65 (main, repaired by fixes/D65.patch): the reassembly loop `for frag_number in 0..=total_fragments { find(..) }` costs
    (sum of fragments_in_submessage + 1) x (buffered fragments + 1) steps. Four 36-byte DATA_FRAG submessages in one
    datagram (fragments_in_submessage = 65535, fragment_size = 1) cost 1.3 million steps on main and 40 with the patch;
    700 of them (one 30 KB datagram) cost 3.2 * 10^10 steps in the model of main and 20 s of worker time on the real code
    (replayed), 0.1 s with the patch. -/
theorem C06_reassembly_quadratic_counterexample :
    (handleDatagram Guards.main exIds exV [1]
      [.dataFrag 7 2 3 1 65535 1 262140 [], .dataFrag 7 2 3 65536 65535 1 262140 [],
       .dataFrag 7 2 3 131071 65535 1 262140 [], .dataFrag 7 2 3 196606 65535 1 262140 []]).map (·.steps) = some 1310718 ∧
    (handleDatagram Guards.all exIds exV [1]
      [.dataFrag 7 2 3 1 65535 1 262140 [], .dataFrag 7 2 3 65536 65535 1 262140 [],
       .dataFrag 7 2 3 131071 65535 1 262140 [], .dataFrag 7 2 3 196606 65535 1 262140 []]).map (·.steps) = some 40 := by
  decide

/-- D2 (main): a GAP that is not contiguous with what the reader has is not honoured (as found it made the reader skip
    the changes in between): GAP(5..6) while 3 is still missing leaves `highest` at 2 on main, moves it to 6 as found -/
theorem C06_gap_contiguous_counterexample :
    (handleDatagram Guards.none exIds exV [1] [.gap 7 2 5 ⟨7, 0, []⟩]).map (·.wp.highest) = some 6 ∧
    (handleDatagram Guards.all exIds exV [1] [.gap 7 2 5 ⟨7, 0, []⟩]).map (·.wp.highest) = some 2 ∧
    (handleDatagram Guards.all exIds exV [1] [.gap 7 2 3 ⟨7, 0, []⟩]).map (·.wp.highest) = some 6 := by
  decide

end DustVerif.Receiver
