import DustVerif.Model.Match
/-! Property C37 (QoS validation): `is_consistent` accepts exactly the combinations the DDS specification calls
    consistent, `check_immutability` accepts exactly the changes that leave every immutable policy untouched,
    and the `set_qos` sequence (validate, then check immutability when enabled, then store) is atomic:
    on any error the stored QoS is unchanged, on success it is the requested QoS. -/
namespace DustVerif.Match

/-- order on Length: Unlimited is the top element -/
def LenLe : Len → Len → Prop
  | _, none => True
  | none, some _ => False
  | some a, some b => a ≤ b

/-- DDS 1.4 §2.2.3.19/.18: max_samples ≥ max_samples_per_instance and depth ≤ max_samples_per_instance -/
def SpecLimitsConsistent (q : EntQos) : Prop :=
  LenLe q.limits.maxSpi q.limits.maxSamples ∧
  (∀ d, q.depth = some d → LenLe (some d) q.limits.maxSpi)

/-- mathematical order on durations (infinite = top) -/
def DurLe2 : DurK → DurK → Prop
  | _, none => True
  | none, some _ => False
  | some a, some b => a.sec < b.sec ∨ (a.sec = b.sec ∧ a.ns ≤ b.ns)

theorem lenLt_iff (a b : Len) : lenLt a b = true ↔ ¬ LenLe b a := by
  cases a <;> cases b <;> simp [lenLt, LenLe]

theorem historyInconsistent_iff (q : EntQos) :
    historyInconsistent q = true ↔ ¬ (∀ d, q.depth = some d → LenLe (some d) q.limits.maxSpi) := by
  unfold historyInconsistent
  cases hd : q.depth with
  | none => simp
  | some d =>
    cases hm : q.limits.maxSpi <;> simp [natGtLen, LenLe]

theorem durLt_iff2 (a b : DurK) : durLt a b = true ↔ ¬ DurLe2 b a := by
  cases a with
  | none => cases b <;> simp [durLt, DurLe2]
  | some x =>
    cases b with
    | none => simp [durLt, DurLe2]
    | some y =>
      simp only [durLt, Dur.lt, DurLe2, Bool.or_eq_true, Bool.and_eq_true, decide_eq_true_eq, beq_iff_eq]
      omega

/-- C37 (writer consistency): accepted ⇔ at most one offered representation ∧ the resource limits / history rules -/
theorem C37_writer_consistent_iff (q : EntQos) :
    writerConsistent q = true ↔ q.representation.length ≤ 1 ∧ SpecLimitsConsistent q := by
  unfold writerConsistent SpecLimitsConsistent
  have h1 := lenLt_iff q.limits.maxSamples q.limits.maxSpi
  have h2 := historyInconsistent_iff q
  cases ha : lenLt q.limits.maxSamples q.limits.maxSpi <;> cases hb : historyInconsistent q <;>
    simp [ha, hb] at h1 h2 ⊢ <;> simp_all <;> omega

/-- C37 (reader consistency): additionally deadline period ≥ time-based-filter minimum separation -/
theorem C37_reader_consistent_iff (q : EntQos) :
    readerConsistent q = true ↔ SpecLimitsConsistent q ∧ DurLe2 q.minSep q.deadline := by
  unfold readerConsistent SpecLimitsConsistent
  have h1 := lenLt_iff q.limits.maxSamples q.limits.maxSpi
  have h2 := historyInconsistent_iff q
  have h3 := durLt_iff2 q.deadline q.minSep
  cases ha : lenLt q.limits.maxSamples q.limits.maxSpi <;> cases hb : historyInconsistent q <;>
    cases hc : durLt q.deadline q.minSep <;> simp [ha, hb, hc] at h1 h2 h3 ⊢ <;> simp_all

/-- C37 (topic consistency) -/
theorem C37_topic_consistent_iff (q : EntQos) : topicConsistent q = true ↔ SpecLimitsConsistent q := by
  unfold topicConsistent SpecLimitsConsistent
  have h1 := lenLt_iff q.limits.maxSamples q.limits.maxSpi
  have h2 := historyInconsistent_iff q
  cases ha : lenLt q.limits.maxSamples q.limits.maxSpi <;> cases hb : historyInconsistent q <;>
    simp [ha, hb] at h1 h2 ⊢ <;> simp_all

/-- C37 (immutability): a change is accepted on an enabled entity exactly when DURABILITY, LIVELINESS, RELIABILITY
    (kind and max_blocking_time), DESTINATION_ORDER, HISTORY, RESOURCE_LIMITS and OWNERSHIP are all unchanged -/
theorem C37_immutable_iff (a b : EntQos) :
    immutableSame a b = true ↔
      a.durability = b.durability ∧ a.liveliness = b.liveliness ∧ a.reliability = b.reliability ∧
      a.maxBlocking = b.maxBlocking ∧ a.destOrder = b.destOrder ∧ a.depth = b.depth ∧ a.limits = b.limits ∧
      a.ownership = b.ownership := by
  unfold immutableSame
  simp only [Bool.and_eq_true, beq_iff_eq]
  constructor
  · rintro ⟨⟨⟨⟨⟨⟨⟨h1, h2⟩, h3⟩, h4⟩, h5⟩, h6⟩, h7⟩, h8⟩; exact ⟨h1, h2, h3, h4, h5, h6, h7, h8⟩
  · rintro ⟨h1, h2, h3, h4, h5, h6, h7, h8⟩; exact ⟨⟨⟨⟨⟨⟨⟨h1, h2⟩, h3⟩, h4⟩, h5⟩, h6⟩, h7⟩, h8⟩

/-- C37 (atomicity): whenever set_qos reports an error the stored QoS is the previous one -/
theorem C37_error_keeps_qos (cons : EntQos → Bool) (enabled : Bool) (cur new : EntQos) (e : QErr)
    (h : (setQos cons enabled cur new).2 = some e) : (setQos cons enabled cur new).1 = cur := by
  unfold setQos at h ⊢
  split
  · rfl
  · split
    · rfl
    · rename_i h1 h2; simp [h1, h2] at h

/-- C37 (get after set): on success the stored QoS is exactly the requested one -/
theorem C37_success_stores_new (cons : EntQos → Bool) (enabled : Bool) (cur new : EntQos)
    (h : (setQos cons enabled cur new).2 = none) : (setQos cons enabled cur new).1 = new := by
  unfold setQos at h ⊢
  split
  · rename_i h1; simp [h1] at h
  · split
    · rename_i h1 h2; simp [h1, h2] at h
    · rfl

/-- C37 (which error): inconsistent ⇒ InconsistentPolicy (checked first); consistent but immutable change on an
    enabled entity ⇒ ImmutablePolicy; otherwise accepted -/
theorem C37_result (cons : EntQos → Bool) (enabled : Bool) (cur new : EntQos) :
    (setQos cons enabled cur new).2 =
      if cons new = false then some .inconsistent
      else if enabled = true ∧ immutableSame cur new = false then some .immutable else none := by
  unfold setQos
  cases hc : cons new <;> cases enabled <;> cases hi : immutableSame cur new <;> simp

def exQ : EntQos :=
  { durability := .volatile, liveliness := ⟨.automatic, none⟩, reliability := .reliable, maxBlocking := some ⟨0, 100000000⟩,
    destOrder := .byReception, depth := some 2, limits := ⟨some 4, none, some 2⟩, ownership := .shared, deadline := none,
    minSep := some ⟨0, 0⟩, representation := [], userData := [] }

/-- non-vacuity: depth = max_samples_per_instance is consistent, depth 3 is not; changing user_data on an enabled
    writer is accepted, changing the history depth is ImmutablePolicy and keeps the QoS -/
example : writerConsistent exQ = true ∧ writerConsistent { exQ with depth := some 3 } = false
    ∧ (setQos writerConsistent true exQ { exQ with userData := [1] }).2 = none
    ∧ setQos writerConsistent true exQ { exQ with depth := some 1 } = (exQ, some .immutable) := by decide

end DustVerif.Match
