import DustVerif.Model.Tree
/-! Property C28: writer instance-management calls honour their documented contract.  Model: `wop` in
    `Model/Tree.lean` (data_writer_entity.rs:171-312 register/unregister/dispose, :70-169 write,
    writer_methods.rs:249-295 lookup_instance).  The instance handle of a sample is the 16-byte key hash of its key
    (for the i32 key of the test types: the big-endian key, zero padded — checked byte-wise by the harness, which
    then prints `h(<key>)`); in the model the handle of a keyed sample IS its key (`keyOf` injective), and every
    sample of a keyless type has the one handle `0`.

    Every clause is a statement about ONE call on an ARBITRARY writer state, hence about every call of every
    history.  As the code is, two clauses fail (D33): `lookup_instance` has no keyless check, and
    `unregister_instance` never removes the instance, so it stays known (lookup still answers, a second
    unregister / a dispose succeed, its slot of `max_instances` stays taken). -/
namespace DustVerif.Tree

/-- every operation on a writer that is not enabled → NotEnabled, nothing changes -/
theorem C28_not_enabled (w : Writer) (o : WOp) (h : w.enabled = false) : wop w o = (w, .err .notEnabled) := by
  cases o <;> simp [wop, h]

/-- register / unregister / dispose on a keyless type → IllegalOperation, nothing changes -/
theorem C28_keyless_illegal (w : Writer) (k : Int) (he : w.enabled = true) (hk : w.keyed = false) :
    wop w (.register k) = (w, .err .illegalOperation) ∧ wop w (.unregister k) = (w, .err .illegalOperation) ∧
    wop w (.dispose k) = (w, .err .illegalOperation) := by
  simp [wop, he, hk]

/-- register returns the handle of the sample's key (or OutOfResources when `max_instances` distinct instances
    are already known), and afterwards the instance is registered -/
theorem C28_register_returns_key_handle (w : Writer) (k : Int) (he : w.enabled = true) (hk : w.keyed = true) :
    ((wop w (.register k)).2 = .inst (some k) ∧ k ∈ (wop w (.register k)).1.registered) ∨
    ((wop w (.register k)).2 = .err .outOfResources ∧ (wop w (.register k)).1 = w ∧ k ∉ w.registered ∧
      hasRoom w = false) := by
  by_cases hm : k ∈ w.registered
  · left; simp [wop, he, hk, hm]
  · by_cases hr : hasRoom w = true
    · left; simp [wop, he, hk, hm, hr]
    · right; simp [wop, he, hk, hm, hr]

/-- register is idempotent: registering the same key again returns the same handle and changes nothing -/
theorem C28_register_idempotent (w : Writer) (k : Int) (h : (wop w (.register k)).2 = .inst (some k)) :
    wop (wop w (.register k)).1 (.register k) = ((wop w (.register k)).1, .inst (some k)) := by
  by_cases he : w.enabled = true
  · by_cases hk : w.keyed = true
    · by_cases hm : k ∈ w.registered
      · simp [wop, he, hk, hm]
      · by_cases hr : hasRoom w = true
        · simp [wop, he, hk, hm, hr]
        · simp [wop, he, hk, hm, hr] at h
    · simp [wop, he, hk] at h
  · simp [wop, he] at h

/-- lookup_instance on a keyed, enabled writer: the key's handle exactly when the instance is in the writer's
    instance list, `None` otherwise; nothing changes -/
theorem C28_lookup_iff_known (w : Writer) (k : Int) (he : w.enabled = true) (hk : w.keyed = true) :
    (wop w (.lookup k)).1 = w ∧
    ((wop w (.lookup k)).2 = .inst (some k) ↔ k ∈ w.registered) ∧
    ((wop w (.lookup k)).2 = .inst none ↔ k ∉ w.registered) := by
  by_cases hm : k ∈ w.registered <;> simp [wop, keyOfSample, he, hk, hm]

/-- dispose / unregister of an instance the writer does not know → BadParameter, nothing changes -/
theorem C28_unknown_instance_bad_parameter (w : Writer) (k : Int) (he : w.enabled = true) (hk : w.keyed = true)
    (hu : k ∉ w.registered) :
    wop w (.dispose k) = (w, .err .badParameter) ∧ wop w (.unregister k) = (w, .err .badParameter) := by
  simp [wop, he, hk, hu]

/-- a write that is refused (`max_instances`) leaves the writer as it was; one that succeeds makes the instance known -/
theorem C28_write_registers (w : Writer) (k : Int) (he : w.enabled = true) :
    ((wop w (.write k)).2 = .ok ∧ keyOfSample w k ∈ (wop w (.write k)).1.registered) ∨
    ((wop w (.write k)).2 = .err .outOfResources ∧ (wop w (.write k)).1 = w) := by
  by_cases hm : keyOfSample w k ∈ w.registered
  · left; simp [wop, he, hm]
  · by_cases hr : hasRoom w = true
    · left; simp [wop, he, hm, hr]
    · right; simp [wop, he, hm, hr]

/-! ### the contract as a specification, and where the code deviates (D33) -/

/-- the documented contract: like the code, except that `unregister_instance` forgets the instance and
    `lookup_instance` on a keyless type is an IllegalOperation -/
def specWop (w : Writer) (o : WOp) : Writer × Res :=
  match o with
  | .unregister k =>
    if !w.enabled then (w, .err .notEnabled)
    else if !w.keyed then (w, .err .illegalOperation)
    else if w.registered.contains k then ({ w with registered := w.registered.erase k }, .ok)
    else (w, .err .badParameter)
  | .lookup k =>
    if !w.enabled then (w, .err .notEnabled)
    else if !w.keyed then (w, .err .illegalOperation)
    else wop w (.lookup k)
  | o => wop w o

def isUnregister : WOp → Bool
  | .unregister _ => true
  | _ => false

def runW (f : Writer → WOp → Writer × Res) (w : Writer) : List WOp → List Res
  | [] => []
  | o :: os => (f w o).2 :: runW f (f w o).1 os

/-- C28 (partial): on a keyed writer, every history WITHOUT `unregister_instance` gets exactly the answers of the
    documented contract (return codes and handles of every call).  Excluded: keyless `lookup_instance` and anything
    after an `unregister_instance` (finding D33). -/
theorem C28_contract_partial (w : Writer) (ops : List WOp) (hk : w.keyed = true)
    (hu : ∀ o ∈ ops, isUnregister o = false) : runW wop w ops = runW specWop w ops := by
  induction ops generalizing w with
  | nil => rfl
  | cons o os ih =>
    have ho : specWop w o = wop w o := by
      cases o with
      | unregister k => have := hu (.unregister k) List.mem_cons_self; simp [isUnregister] at this
      | lookup k => unfold specWop; simp only [hk]; unfold wop; split <;> simp_all
      | register k => rfl
      | dispose k => rfl
      | write k => rfl
    have hk' : (wop w o).1.keyed = true := by
      cases o <;> simp only [wop] <;> (repeat' split) <;> simp_all
    simp only [runW, ho]
    rw [ih (wop w o).1 hk' (fun o' ho' => hu o' (List.mem_cons_of_mem _ ho'))]

def w0 (keyed : Bool) : Writer :=
  { part := 0, pub := 0, uid := 0, keyed := keyed, topic := "T", enabled := true, maxInst := some 1, registered := [] }

/-- as-is (D33): after register + unregister the instance is still known: lookup answers its handle, a second
    unregister and a dispose succeed (contract: `None`, BadParameter, BadParameter), and with `max_instances = 1`
    another instance cannot be registered (contract: there is room again) -/
theorem C28_unregister_counterexample :
    runW wop (w0 true) [.register 1, .unregister 1, .lookup 1, .unregister 1, .dispose 1, .register 2] =
      [.inst (some 1), .ok, .inst (some 1), .ok, .ok, .err .outOfResources] ∧
    runW specWop (w0 true) [.register 1, .unregister 1, .lookup 1, .unregister 1, .dispose 1, .register 2] =
      [.inst (some 1), .ok, .inst none, .err .badParameter, .err .badParameter, .inst (some 2)] := by
  decide

/-- as-is (D33): `lookup_instance` on a keyless type is not refused: `None` before the first write, the all-zero
    handle after it (contract: IllegalOperation) -/
theorem C28_lookup_keyless_counterexample :
    runW wop (w0 false) [.lookup 5, .write 5, .lookup 7] = [.inst none, .ok, .inst (some 0)] ∧
    runW specWop (w0 false) [.lookup 5, .write 5, .lookup 7] =
      [.err .illegalOperation, .ok, .err .illegalOperation] := by
  decide

/-! ### non-vacuity -/
example : (wop (w0 true) (.register 3)).2 = .inst (some 3) ∧ hasRoom (w0 true) = true := by decide
example : (w0 true).enabled = true ∧ (w0 true).keyed = true ∧ (3 : Int) ∉ (w0 true).registered := by decide
example : ∀ o ∈ [WOp.register 1, .write 2, .lookup 1, .dispose 1], isUnregister o = false := by decide

end DustVerif.Tree
