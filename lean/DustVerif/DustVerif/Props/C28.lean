import DustVerif.Model.Tree
import DustVerif.Model.TreeOld
/-! Property C28: writer instance-management calls honour their documented contract.  Model: `wop` in
    `Model/Tree.lean` = data_writer_entity.rs (register_w_timestamp / unregister_w_timestamp / dispose_w_timestamp /
    write_w_timestamp) and writer_methods.rs (lookup_instance) WITH fixes/D33.patch (unregister_instance clears the
    `registered` flag of the instance's entry; every look-up, the dispose/unregister precondition and the
    max_instances count see only flagged entries) and fixes/D33b.patch (lookup_instance refuses keyless types).
    The instance handle of a sample is the 16-byte key hash of its key (for the i32 key of the test types: the
    big-endian key, zero padded — checked byte-wise by the harness, which then prints `h(<key>)`); in the model the
    handle of a keyed sample IS its key (`keyOf` injective), and every sample of a keyless type has the one handle `0`.

    Every clause is a statement about ONE call on an ARBITRARY writer state, hence about every call of every
    history; `C28_contract` and `C28_lookup_tracks_history` are statements over all histories.  The behaviour before
    the patches (`wopOld` in `Model/TreeOld.lean`, finding D33 / D33b) is kept as regression witnesses. -/
namespace DustVerif.Tree

/-- every operation on a writer that is not enabled → NotEnabled, nothing changes -/
theorem C28_not_enabled (w : Writer) (o : WOp) (h : w.enabled = false) : wop w o = (w, .err .notEnabled) := by
  cases o <;> simp [wop, h]

/-- register / unregister / dispose / lookup on a keyless type → IllegalOperation, nothing changes -/
theorem C28_keyless_illegal (w : Writer) (k : Int) (he : w.enabled = true) (hk : w.keyed = false) :
    wop w (.register k) = (w, .err .illegalOperation) ∧ wop w (.unregister k) = (w, .err .illegalOperation) ∧
    wop w (.dispose k) = (w, .err .illegalOperation) ∧ wop w (.lookup k) = (w, .err .illegalOperation) := by
  simp [wop, he, hk]

/-- register returns the handle of the sample's key (or OutOfResources when `max_instances` distinct instances
    are registered), and afterwards the instance is registered -/
theorem C28_register_returns_key_handle (w : Writer) (k : Int) (he : w.enabled = true) (hk : w.keyed = true) :
    ((wop w (.register k)).2 = .inst (some k) ∧ k ∈ (wop w (.register k)).1.registered) ∨
    ((wop w (.register k)).2 = .err .outOfResources ∧ (wop w (.register k)).1 = w ∧ k ∉ w.registered ∧
      hasRoom w = false) := by
  by_cases hm : k ∈ w.registered
  · left; simp [wop, he, hk, hm]
  · by_cases hr : hasRoom w = true
    · left; simp [wop, he, hk, hm, hr]
    · right; simp [wop, he, hk, hm, hr]

/-- register is idempotent: registering the same key again returns the same handle and changes nothing -/
theorem C28_register_idempotent (w : Writer) (k : Int) (h : (wop w (.register k)).2 = .inst (some k)) :
    wop (wop w (.register k)).1 (.register k) = ((wop w (.register k)).1, .inst (some k)) := by
  by_cases he : w.enabled = true
  · by_cases hk : w.keyed = true
    · by_cases hm : k ∈ w.registered
      · simp [wop, he, hk, hm]
      · by_cases hr : hasRoom w = true
        · simp [wop, he, hk, hm, hr]
        · simp [wop, he, hk, hm, hr] at h
    · simp [wop, he, hk] at h
  · simp [wop, he] at h

/-- lookup_instance on a keyed, enabled writer: the key's handle exactly when the instance is registered,
    `None` otherwise; nothing changes -/
theorem C28_lookup_iff_registered (w : Writer) (k : Int) (he : w.enabled = true) (hk : w.keyed = true) :
    (wop w (.lookup k)).1 = w ∧
    ((wop w (.lookup k)).2 = .inst (some k) ↔ k ∈ w.registered) ∧
    ((wop w (.lookup k)).2 = .inst none ↔ k ∉ w.registered) := by
  by_cases hm : k ∈ w.registered <;> simp [wop, he, hk, hm]

/-- dispose / unregister of an instance that is not registered → BadParameter, nothing changes -/
theorem C28_unknown_instance_bad_parameter (w : Writer) (k : Int) (he : w.enabled = true) (hk : w.keyed = true)
    (hu : k ∉ w.registered) :
    wop w (.dispose k) = (w, .err .badParameter) ∧ wop w (.unregister k) = (w, .err .badParameter) := by
  simp [wop, he, hk, hu]

theorem not_mem_filter_notKey (l : List Int) (k : Int) : k ∉ l.filter (notKey k) := by
  intro h
  have := (List.mem_filter.mp h).2
  simp [notKey] at this

theorem length_filter_notKey_lt (l : List Int) (k : Int) (h : k ∈ l) : (l.filter (notKey k)).length < l.length := by
  induction l with
  | nil => simp at h
  | cons a l ih =>
    by_cases ha : a = k
    · subst ha
      have : ((a :: l).filter (notKey a)) = l.filter (notKey a) := by
        rw [List.filter_cons]; simp [notKey]
      rw [this]
      exact Nat.lt_succ_of_le (List.length_filter_le _ _)
    · have hk : k ∈ l := by
        rcases List.mem_cons.mp h with h | h
        · exact absurd h.symm ha
        · exact h
      have : ((a :: l).filter (notKey k)) = a :: l.filter (notKey k) := by
        rw [List.filter_cons]; simp [notKey, ha]
      rw [this]
      simp only [List.length_cons]
      exact Nat.succ_lt_succ (ih hk)

/-- unregister_instance of a registered instance succeeds and FORGETS it: afterwards the instance is not registered,
    lookup answers `None`, a second unregister and a dispose answer BadParameter, every other instance stays, and
    the number of registered instances (what `max_instances` limits) went down -/
theorem C28_unregister_forgets (w : Writer) (k : Int) (he : w.enabled = true) (hk : w.keyed = true)
    (hm : k ∈ w.registered) :
    let w' := (wop w (.unregister k)).1
    (wop w (.unregister k)).2 = .ok ∧ k ∉ w'.registered ∧ (wop w' (.lookup k)).2 = .inst none ∧
    wop w' (.unregister k) = (w', .err .badParameter) ∧ wop w' (.dispose k) = (w', .err .badParameter) ∧
    (∀ j, j ≠ k → (j ∈ w'.registered ↔ j ∈ w.registered)) ∧ w'.registered.length < w.registered.length := by
  have h1 : wop w (.unregister k) = ({ w with registered := w.registered.filter (notKey k) }, .ok) := by
    simp [wop, he, hk, hm]
  have hn := not_mem_filter_notKey w.registered k
  simp only [h1]
  refine ⟨trivial, hn, ?_, ?_, ?_, ?_, length_filter_notKey_lt _ _ hm⟩
  · simp [wop, he, hk, hn]
  · simp [wop, he, hk, hn]
  · simp [wop, he, hk, hn]
  · intro j hj
    simp [List.mem_filter, notKey, hj]

/-- a write that is refused (`max_instances`) leaves the writer as it was; one that succeeds makes the instance registered -/
theorem C28_write_registers (w : Writer) (k : Int) (he : w.enabled = true) :
    ((wop w (.write k)).2 = .ok ∧ keyOfSample w k ∈ (wop w (.write k)).1.registered) ∨
    ((wop w (.write k)).2 = .err .outOfResources ∧ (wop w (.write k)).1 = w) := by
  by_cases hm : keyOfSample w k ∈ w.registered
  · left; simp [wop, he, hm]
  · by_cases hr : hasRoom w = true
    · left; simp [wop, he, hm, hr]
    · right; simp [wop, he, hm, hr]

/-! ### the contract as a specification -/

/-- the documented contract, written from the DDS text: order of refusals NotEnabled, IllegalOperation (keyless),
    then per operation; the set of registered instances is a list of keys -/
def specWop (w : Writer) (o : WOp) : Writer × Res :=
  if !w.enabled then (w, .err .notEnabled)
  else match o with
    | .write k =>
      let key := if w.keyed then k else 0
      if key ∈ w.registered then (w, .ok)
      else if hasRoom w then ({ w with registered := w.registered ++ [key] }, .ok)
      else (w, .err .outOfResources)
    | .register k =>
      if !w.keyed then (w, .err .illegalOperation)
      else if k ∈ w.registered then (w, .inst (some k))
      else if hasRoom w then ({ w with registered := w.registered ++ [k] }, .inst (some k))
      else (w, .err .outOfResources)
    | .unregister k =>
      if !w.keyed then (w, .err .illegalOperation)
      else if k ∈ w.registered then ({ w with registered := w.registered.filter (notKey k) }, .ok)
      else (w, .err .badParameter)
    | .dispose k =>
      if !w.keyed then (w, .err .illegalOperation)
      else if k ∈ w.registered then (w, .ok)
      else (w, .err .badParameter)
    | .lookup k =>
      if !w.keyed then (w, .err .illegalOperation)
      else if k ∈ w.registered then (w, .inst (some k))
      else (w, .inst none)

def runW (f : Writer → WOp → Writer × Res) (w : Writer) : List WOp → List Res
  | [] => []
  | o :: os => (f w o).2 :: runW f (f w o).1 os

/-- final writer state of a history -/
def endW (f : Writer → WOp → Writer × Res) (w : Writer) : List WOp → Writer
  | [] => w
  | o :: os => endW f (f w o).1 os

/-- C28 (one call): from ANY writer state every call answers and changes exactly what the documented contract says -/
theorem C28_contract_step (w : Writer) (o : WOp) : wop w o = specWop w o := by
  unfold wop specWop keyOfSample
  cases o <;> cases he : w.enabled <;> cases hk : w.keyed <;> simp

/-- C28 (histories): EVERY history of instance calls on ANY writer (keyed or keyless, enabled or not, any
    max_instances) gets exactly the answers of the documented contract — no exclusion left -/
theorem C28_contract (w : Writer) (ops : List WOp) : runW wop w ops = runW specWop w ops := by
  induction ops generalizing w with
  | nil => rfl
  | cons o os ih => simp only [runW, C28_contract_step, ih]

/-- is the instance `k` registered after the calls seen so far?  (register / write register it, unregister forgets it) -/
def track (k : Int) (b : Bool) : WOp → Bool
  | .register j => if j = k then true else b
  | .write j => if j = k then true else b
  | .unregister j => if j = k then false else b
  | .dispose _ => b
  | .lookup _ => b

theorem wop_keeps (w : Writer) (o : WOp) :
    (wop w o).1.enabled = w.enabled ∧ (wop w o).1.keyed = w.keyed ∧ (wop w o).1.maxInst = w.maxInst := by
  unfold wop
  cases o <;> simp only <;> (repeat' split) <;> exact ⟨rfl, rfl, rfl⟩

/-- C28 (lookup over histories): on an enabled keyed writer without an instance limit, after ANY history an instance
    is registered — i.e. `lookup_instance` returns its handle — exactly when the last register / write / unregister
    of that key in the history was a register or a write -/
theorem C28_lookup_tracks_history (k : Int) (ops : List WOp) (w : Writer) (he : w.enabled = true) (hk : w.keyed = true)
    (hm : w.maxInst = none) :
    (k ∈ (endW wop w ops).registered ↔ ops.foldl (track k) (w.registered.contains k) = true) := by
  induction ops generalizing w with
  | nil => simp [endW]
  | cons o os ih =>
    have hkeep := wop_keeps w o
    have := ih (wop w o).1 (by rw [hkeep.1]; exact he) (by rw [hkeep.2.1]; exact hk) (by rw [hkeep.2.2]; exact hm)
    simp only [endW, List.foldl_cons]
    rw [this]
    have hstep : (wop w o).1.registered.contains k = track k (w.registered.contains k) o := by
      have hroom : hasRoom w = true := by simp [hasRoom, hm]
      cases o with
      | register j =>
        by_cases hj : j = k
        · subst hj
          by_cases hmem : j ∈ w.registered <;> simp [wop, track, he, hk, hmem, hroom]
        · by_cases hmem : j ∈ w.registered <;> simp [wop, track, he, hk, hmem, hroom, hj]
          intro h; exact absurd h.symm hj
      | write j =>
        by_cases hj : j = k
        · subst hj
          by_cases hmem : j ∈ w.registered <;> simp [wop, track, keyOfSample, he, hk, hmem, hroom]
        · by_cases hmem : j ∈ w.registered <;> simp [wop, track, keyOfSample, he, hk, hmem, hroom, hj]
          intro h; exact absurd h.symm hj
      | unregister j =>
        by_cases hj : j = k
        · subst hj
          by_cases hmem : j ∈ w.registered <;> simp [wop, track, he, hk, hmem, notKey]
        · by_cases hmem : j ∈ w.registered <;> simp [wop, track, he, hk, hmem, hj, notKey]
          intro _ h; exact absurd h.symm hj
      | dispose j => by_cases hmem : j ∈ w.registered <;> simp [wop, track, he, hk, hmem]
      | lookup j => by_cases hmem : j ∈ w.registered <;> simp [wop, track, he, hk, hmem]
    rw [hstep]

/-! ### regression witnesses: the code before fixes/D33.patch and fixes/D33b.patch (`wopOld`) -/

def w0 (keyed : Bool) : Writer :=
  { part := 0, pub := 0, uid := 0, keyed := keyed, topic := "T", enabled := true, maxInst := some 1, registered := [] }

/-- before fixes/D33.patch: after register + unregister the instance was still known — lookup answered its handle, a
    second unregister and a dispose succeeded, and with `max_instances = 1` another instance could not be registered.
    After: `None`, BadParameter, BadParameter, and the slot is free -/
theorem C28_unregister_counterexample :
    runW wopOld (w0 true) [.register 1, .unregister 1, .lookup 1, .unregister 1, .dispose 1, .register 2] =
      [.inst (some 1), .ok, .inst (some 1), .ok, .ok, .err .outOfResources] ∧
    runW wop (w0 true) [.register 1, .unregister 1, .lookup 1, .unregister 1, .dispose 1, .register 2] =
      [.inst (some 1), .ok, .inst none, .err .badParameter, .err .badParameter, .inst (some 2)] := by
  decide

/-- before fixes/D33b.patch: `lookup_instance` on a keyless type was not refused (`None` before the first write, the
    all-zero handle after it).  After: IllegalOperation -/
theorem C28_lookup_keyless_counterexample :
    runW wopOld (w0 false) [.lookup 5, .write 5, .lookup 7] = [.inst none, .ok, .inst (some 0)] ∧
    runW wop (w0 false) [.lookup 5, .write 5, .lookup 7] =
      [.err .illegalOperation, .ok, .err .illegalOperation] := by
  decide

/-! ### non-vacuity -/
example : (wop (w0 true) (.register 3)).2 = .inst (some 3) ∧ hasRoom (w0 true) = true := by decide
example : (w0 true).enabled = true ∧ (w0 true).keyed = true ∧ (3 : Int) ∉ (w0 true).registered := by decide
/-- `C28_unregister_forgets` and `C28_lookup_tracks_history` on a concrete history -/
example :
    let w : Writer := { (w0 true) with maxInst := none }
    (endW wop w [.register 1, .write 2, .unregister 1, .register 3, .unregister 3, .write 3]).registered = [2, 3] ∧
    [WOp.register 1, .write 2, .unregister 1].foldl (track 1) false = false := by decide

end DustVerif.Tree
