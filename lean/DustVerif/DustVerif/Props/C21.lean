import DustVerif.Proofs.HistCollect
/-! Property C21: with BY_SOURCE_TIMESTAMP the stored (hence the presented) samples are ordered by
    non-decreasing source timestamp whatever the arrival order. -/
namespace DustVerif.Hist

def OptLe (a b : Option Nat) : Prop := optLe a b = true

theorem optLe_trans {a b c : Option Nat} (h1 : OptLe a b) (h2 : OptLe b c) : OptLe a c := by
  unfold OptLe optLe at *
  cases a <;> cases b <;> cases c <;> simp_all
  omega

theorem optLe_of_lt {a b : Option Nat} (h : optLt a b = true) : OptLe a b := by
  unfold OptLe optLe; unfold optLt at h
  cases a <;> cases b <;> simp_all
  omega

theorem optLe_of_not_lt {a b : Option Nat} (h : optLt a b = false) : OptLe b a := by
  unfold OptLe optLe; unfold optLt at h
  cases a <;> cases b <;> simp_all

/-- the whole store is sorted by source timestamp (None < Some, ties allowed) -/
def SortedSts (l : List Sample) : Prop := List.Pairwise OptLe (l.map (·.sts))

theorem mem_insertAt (x : Sample) (n : Nat) (l : List Sample) (z : Sample) (h : z ∈ insertAt x n l) :
    z = x ∨ z ∈ l := by
  induction l generalizing n with
  | nil => cases n <;> simp [insertAt] at h <;> exact Or.inl h
  | cons y ys ih =>
    cases n with
    | zero => simp [insertAt] at h; rcases h with h | h | h <;> simp [h]
    | succ n =>
      simp [insertAt] at h
      rcases h with h | h
      · simp [h]
      · rcases ih n h with h | h <;> simp [h]

/-- inserting before the first strictly greater stamp (or at the end) keeps the store sorted -/
theorem insert_sorted (x : Sample) (l : List Sample) (hs : SortedSts l) :
    SortedSts (insertAt x (insertPos x.sts l) l) := by
  induction l with
  | nil => simp [insertPos, insertAt, SortedSts]
  | cons y ys ih =>
    unfold SortedSts at hs ih ⊢
    simp only [List.map_cons, List.pairwise_cons] at hs
    unfold insertPos
    by_cases hlt : optLt x.sts y.sts = true
    · simp only [hlt, if_true, insertAt, List.map_cons, List.pairwise_cons]
      refine ⟨?_, hs.1, hs.2⟩
      intro z hz
      simp only [List.mem_cons, List.mem_map] at hz
      rcases hz with hz | ⟨z', hz', rfl⟩
      · subst hz; exact optLe_of_lt hlt
      · exact optLe_trans (optLe_of_lt hlt) (hs.1 _ (List.mem_map.mpr ⟨z', hz', rfl⟩))
    · have hlt' : optLt x.sts y.sts = false := by simpa using hlt
      simp only [hlt', Bool.false_eq_true, if_false]
      have : 1 + insertPos x.sts ys = insertPos x.sts ys + 1 := by omega
      rw [this]
      simp only [insertAt, List.map_cons, List.pairwise_cons]
      refine ⟨?_, ih hs.2⟩
      intro z hz
      obtain ⟨z', hz', rfl⟩ := List.mem_map.mp hz
      rcases mem_insertAt x _ ys z' hz' with h | h
      · subst h; exact optLe_of_not_lt hlt'
      · exact hs.1 _ (List.mem_map.mpr ⟨z', h, rfl⟩)

theorem eraseFirst_sublist (p : Sample → Bool) (l : List Sample) : (eraseFirst p l).Sublist l := by
  induction l with
  | nil => simp
  | cons x xs ih =>
    rw [eraseFirst_cons]
    split
    · exact List.sublist_cons_self x xs
    · exact List.Sublist.cons₂ x ih

theorem sorted_of_sublist {l l' : List Sample} (h : (l'.map (·.sts)).Sublist (l.map (·.sts))) (hs : SortedSts l) :
    SortedSts l' := List.Pairwise.sublist h hs

/-- read/take keep a sub-sequence of the stamps -/
theorem collectLoop_sts_sublist (insts : List Inst) (m : Masks) (only : Option Nat) (take : Bool) (max : Int)
    (l : List Sample) (acc : List Info) (coll : List Inst) :
    ((collectLoop insts m only take max l acc coll).1.map (·.sts)).Sublist (l.map (·.sts)) := by
  induction l generalizing acc coll with
  | nil => simp [collectLoop]
  | cons s ss ih =>
    unfold collectLoop
    split
    · simp only [consKept, List.map_cons]; exact List.Sublist.cons₂ _ (ih acc coll)
    · split
      · split
        · simp only [consKept, List.map_cons]; exact List.Sublist.cons₂ _ (ih acc coll)
        · simp only []
          split
          · simp only [List.map_cons]; exact List.Sublist.cons _ (ih _ _)
          · simp only [consKept, List.map_cons]; exact List.Sublist.cons₂ _ (ih _ _)
      · simp only [consKept, List.map_cons]; exact List.Sublist.cons₂ _ (ih acc coll)

theorem readOrTake_sorted (s : St) (max : Int) (m : Masks) (only : Option Nat) (take : Bool)
    (hs : SortedSts s.samples) : SortedSts (readOrTake s max m only take).1.samples := by
  generalize hr : readOrTake s max m only take = r
  unfold readOrTake collect at hr
  have := collectLoop_sts_sublist s.insts m only take max s.samples [] []
  split at hr
  · subst hr; exact hs
  · split at hr
    · subst hr; exact hs
    · simp only [] at hr
      split at hr <;> (subst hr; exact sorted_of_sublist this hs)

theorem nextInstanceLoop_sorted (s : St) (max : Int) (m : Masks) (take : Bool) (fuel : Nat) (prev : Option Nat)
    (hs : SortedSts s.samples) : SortedSts (nextInstanceLoop s max m take fuel prev).1.samples := by
  induction fuel generalizing prev with
  | zero => exact hs
  | succ n ih =>
    generalize hr : nextInstanceLoop s max m take (n + 1) prev = r
    unfold nextInstanceLoop at hr
    split at hr
    · subst hr; exact hs
    · rename_i h _
      split at hr
      · subst hr; exact ih (some h)
      · subst hr; exact readOrTake_sorted s max m (some h) take hs

theorem storeSample_sorted (q : Qos) (hb : q.bySource = true) (l : List Sample) (x : Sample) (hs : SortedSts l) :
    SortedSts (storeSample q l x) := by
  unfold storeSample
  simp only [hb, if_true]
  apply insert_sorted
  split
  · exact sorted_of_sublist (List.Sublist.map _ (eraseFirst_sublist _ _)) hs
  · exact hs

theorem C21_step (s : St) (hb : s.qos.bySource = true) (hs : SortedSts s.samples) (op : Op) :
    SortedSts (applyOp s op).samples ∧ (applyOp s op).qos = s.qos := by
  cases op with
  | add w data k h sts rts =>
    obtain ⟨hqos, hc⟩ := addChange_cases s w data k h sts rts
    refine ⟨?_, hqos⟩
    show SortedSts (addChange s w data k h sts rts).1.samples
    rcases hc with ⟨_, h2⟩ | ⟨_, h2, _⟩ | ⟨_, _, h2, _⟩ | ⟨a, b, _, h2, _⟩
    · rw [h2]; exact hs
    · rw [h2]; exact hs
    · rw [h2]; exact hs
    · rw [h2]; exact storeSample_sorted s.qos hb s.samples _ hs
  | readTake max m only take =>
    exact ⟨readOrTake_sorted s max m only take hs, (readOrTake_cnt_le isAlive readBlind_isAlive s max m only take).2⟩
  | nextInstance max prev m take =>
    refine ⟨?_, (readTakeNextInstance_cnt_le isAlive readBlind_isAlive s max prev m take).2⟩
    show SortedSts (readTakeNextInstance s max prev m take).1.samples
    unfold readTakeNextInstance
    split
    · exact hs
    · exact nextInstanceLoop_sorted s max m take _ prev hs
  | pub w st => exact ⟨hs, rfl⟩
  | unpub w =>
    have e : applyOp s (Op.unpub w) = removePub s w := rfl
    rw [e]
    rcases removePub_cases s w with h | ⟨p, o, h⟩ <;> rw [h] <;> exact ⟨hs, rfl⟩
  | rejStatus => exact ⟨hs, rfl⟩

/-- C21: after ANY operation list (any arrival order, any stamps incl. equal and missing ones, any reads and
    takes in between) a BY_SOURCE_TIMESTAMP reader's store is sorted by source timestamp -/
theorem C21_sorted (q : Qos) (en : Bool) (hb : q.bySource = true) (ops : List Op) :
    SortedSts (run (St.init q en) ops).samples := by
  suffices h : ∀ s : St, s.qos.bySource = true → SortedSts s.samples → SortedSts (run s ops).samples by
    exact h _ hb (by simp [St.init, SortedSts])
  induction ops with
  | nil => intro s _ hs; exact hs
  | cons op ops ih =>
    intro s hbs hs
    have := C21_step s hbs hs op
    exact ih _ (by rw [this.2]; exact hbs) this.1

/-- hence the samples of any single instance are sorted too (what a read presents for an instance) -/
theorem C21_sorted_per_instance (l : List Sample) (hs : SortedSts l) (h : Nat) :
    SortedSts (l.filter (isInst h)) :=
  sorted_of_sublist (List.Sublist.map _ List.filter_sublist) hs

/-- regression witness for D27: inserting at index 0 when nothing is greater breaks the order -/
theorem C21_insert_at_zero_counterexample :
    let a : Sample := mkSample 1 "a" .alive 5 (some 10) 0 0
    let b : Sample := mkSample 1 "b" .alive 5 (some 20) 0 0
    ¬ SortedSts (insertAt b 0 [a]) := by
  simp [SortedSts, insertAt, mkSample, OptLe, optLe]

def exQos : Qos :=
  { depth := none
    maxSamples := none
    maxInst := none
    maxSpi := none
    bySource := true
    exclusive := false
    minSep := some 0 }

example : SortedSts (storeSample exQos
    [mkSample 1 "a" .alive 5 (some 10) 0 0, mkSample 1 "c" .alive 5 (some 30) 0 0]
    (mkSample 2 "b" .alive 5 (some 20) 0 0)) := by
  simp [SortedSts, storeSample, replacedCount, insertPos, insertAt, mkSample, optLt, OptLe, optLe, exQos]

end DustVerif.Hist
