import DustVerif.Proofs.ChanLemmas
/-! Property C34: the one-shot, mpsc and notification channels never lose values or wake-ups.

Every theorem quantifies over ALL step lists `ops` (= all interleavings of the critical sections of the threads
that own the handles; steps that Rust ownership forbids are no-ops). The ghost fields of `…Sys` (`sentVal`, `sent`,
`got`, `unseen`, `waiting`) are history variables that the code state does not influence.

The mpsc theorems are about the code WITH fixes/D39.patch (sender counting; the last drop closes the channel and wakes the
receiver): `C34_mpsc_poll_spec` is the full statement. The defect D39 of the code before the patch (mpsc never reports
disconnection) is kept as the regression witness `C34_mpsc_disconnect_counterexample` on `MpscSys.runOld`. -/
namespace DustVerif.Chan

/-! ## one-shot -/

/-- what a one-shot poll must answer, in terms of the history only: the value if it was sent and not yet received,
    `closed` if the sender is gone, otherwise wait -/
def onePollSpec (sentVal : Option Nat) (got : List Nat) (snd : SenderSt) : Res :=
  match sentVal, got with
  | some v, [] => .ready v
  | _, _ => if snd = .dropped then .closed else .pending

def readyVal : Out → Option Nat
  | .polled (.ready v) => some v
  | _ => none

/-- the ghost `got` is exactly the list of values that polls returned as `Ready(Ok(v))` -/
theorem one_got_is_output (s : OneSys) (ops : List OneOp) :
    (s.run ops).got = s.got ++ (s.outs ops).filterMap readyVal := by
  induction ops generalizing s with
  | nil => simp [OneSys.run, OneSys.outs]
  | cons op ops ih =>
    rw [OneSys.run, OneSys.outs, ih]
    have : (s.step op).1.got = s.got ++ (([(s.step op).2] : List Out).filterMap readyVal) := by
      cases op with
      | sendCS v => cases hs : s.snd <;> simp [OneSys.step, hs, One.sendCS, readyVal]
      | dropSender => cases hs : s.snd <;> simp [OneSys.step, hs, One.dropCS, readyVal]
      | poll w =>
        by_cases hr : s.rcvAlive = true
        · cases hd : s.ch.data with
          | some v => simp [OneSys.step, hr, One.pollCS, hd, gotAdd, readyVal]
          | none =>
            by_cases hh : s.ch.hasSender = true <;>
              simp [OneSys.step, hr, One.pollCS, hd, hh, gotAdd, readyVal]
        · simp [OneSys.step, hr, readyVal]
      | dropReceiver => by_cases hr : s.rcvAlive = true <;> simp [OneSys.step, hr, readyVal]
    rw [this]
    cases hrv : readyVal (s.step op).2 <;> simp [hrv]

/-- C34 one-shot, exactly once and only if sent: after ANY step list the list of received values is `[]` if nothing
    was sent; if `v` was sent it is either still in the slot and nothing was received, or the slot is empty and
    exactly `[v]` was received (never lost, never duplicated, never invented). -/
theorem C34_oneshot_exactly_once (ops : List OneOp) :
    let s := OneSys.init.run ops
    (s.sentVal = none → s.got = [] ∧ s.ch.data = none) ∧
    (∀ v, s.sentVal = some v → (s.ch.data = some v ∧ s.got = []) ∨ (s.ch.data = none ∧ s.got = [v])) := by
  intro s
  have h : OneInv s := OneInv.run _ OneInv.init ops
  clear_value s
  exact ⟨fun hs => ⟨(h.unsent hs).2, (h.unsent hs).1⟩, h.conserve⟩

/-- the same in terms of the outputs of the run: the values returned by polls are `[]` or `[the sent value]` -/
theorem C34_oneshot_outputs_once (ops : List OneOp) :
    let s := OneSys.init.run ops
    let recv := (OneSys.init.outs ops).filterMap readyVal
    recv = [] ∨ ∃ v, s.sentVal = some v ∧ recv = [v] := by
  intro s recv
  have hg : s.got = recv := one_got_is_output OneSys.init ops
  have h : OneInv s := OneInv.run _ OneInv.init ops
  clear_value recv s
  rw [← hg]
  cases hs : s.sentVal with
  | none => exact Or.inl (h.unsent hs).2
  | some v =>
    rcases h.conserve v hs with ⟨_, b⟩ | ⟨_, b⟩
    · exact Or.inl b
    · exact Or.inr ⟨v, rfl, b⟩

/-- C34 one-shot, poll answers exactly what the history demands, after ANY step list: the value iff it was sent
    and not yet received; `Err` iff (otherwise) the sender is dropped; `Pending` iff the sender still exists. -/
theorem C34_oneshot_poll_spec (ops : List OneOp) (w : Nat) :
    let s := OneSys.init.run ops
    (s.ch.pollCS w).2 = onePollSpec s.sentVal s.got s.snd := by
  intro s
  have h : OneInv s := OneInv.run _ OneInv.init ops
  clear_value s
  have hhs := h.hasSender_iff
  cases hs : s.sentVal with
  | none =>
    have hu := h.unsent hs
    by_cases hd : s.snd = .dropped
    · have : s.ch.hasSender = false := by
        cases hb : s.ch.hasSender with
        | false => rfl
        | true => exact absurd hd (hhs.mp hb)
      simp [One.pollCS, hu.1, this, onePollSpec, hd]
    · have : s.ch.hasSender = true := hhs.mpr hd
      simp [One.pollCS, hu.1, this, onePollSpec, hd]
  | some v =>
    rcases h.conserve v hs with ⟨a, b⟩ | ⟨a, b⟩
    · simp [One.pollCS, a, b, onePollSpec]
    · by_cases hd : s.snd = .dropped
      · have : s.ch.hasSender = false := by
          cases hb : s.ch.hasSender with
          | false => rfl
          | true => exact absurd hd (hhs.mp hb)
        simp [One.pollCS, a, b, this, onePollSpec, hd]
      · have : s.ch.hasSender = true := hhs.mpr hd
        simp [One.pollCS, a, b, this, onePollSpec, hd]

/-- C34 one-shot, `Err` iff dropped unsent: as long as nothing has been received, a poll answers `Err(closed)`
    exactly when the sender was dropped without sending. -/
theorem C34_oneshot_err_iff (ops : List OneOp) (w : Nat) :
    let s := OneSys.init.run ops
    s.got = [] → ((s.ch.pollCS w).2 = .closed ↔ (s.snd = .dropped ∧ s.sentVal = none)) := by
  intro s hg
  rw [C34_oneshot_poll_spec ops w]
  show onePollSpec s.sentVal s.got s.snd = Res.closed ↔ _
  rw [hg]
  cases hs : s.sentVal with
  | none => by_cases hd : s.snd = .dropped <;> simp [onePollSpec, hd]
  | some v => simp [onePollSpec]

/-- C34 one-shot, no lost wake-up: after ANY step list, if the last poll returned `Pending` with waker `w` and `w`
    has not been woken since, then `w` is still registered, no value is waiting and the sender still exists —
    so the receiver is not stuck, and the next `send`/drop wakes it (`C34_oneshot_wake_on_send_and_drop`). -/
theorem C34_oneshot_no_lost_wakeup (ops : List OneOp) (w : Nat) :
    let s := OneSys.init.run ops
    s.waiting = some w → s.ch.waker = some w ∧ s.ch.data = none ∧ s.snd ≠ .dropped := by
  intro s hw
  have h : OneInv s := OneInv.run _ OneInv.init ops
  clear_value s
  have h6 := h.waiting_ok w hw
  have h5 := h.waker_ok w h6
  exact ⟨h6, h5.1, h.hasSender_iff.mp h5.2⟩

/-- C34 one-shot: a registered waker is woken (and the slot cleared) by `send` and by the sender's drop, in every state. -/
theorem C34_oneshot_wake_on_send_and_drop (s : OneSys) (w v : Nat) (hw : s.ch.waker = some w) :
    (s.snd = .alive → (s.step (.sendCS v)).2 = .sender true (some w) ∧ (s.step (.sendCS v)).1.ch.waker = none
        ∧ (s.step (.sendCS v)).1.waiting ≠ some w) ∧
    (s.snd ≠ .dropped → (s.step .dropSender).2 = .sender true (some w) ∧ (s.step .dropSender).1.ch.waker = none
        ∧ (s.step .dropSender).1.waiting ≠ some w) := by
  constructor
  · intro hs
    refine ⟨by simp [OneSys.step, hs, One.sendCS, hw], by simp [OneSys.step, hs, One.sendCS], ?_⟩
    simp only [OneSys.step, hs, One.sendCS, hw, clearWaiting]
    split <;> simp_all
  · intro hs
    cases hs' : s.snd with
    | dropped => exact absurd hs' hs
    | alive =>
      refine ⟨by simp [OneSys.step, hs', One.dropCS, hw], by simp [OneSys.step, hs', One.dropCS], ?_⟩
      simp only [OneSys.step, hs', One.dropCS, hw, clearWaiting]
      split <;> simp_all
    | sending =>
      refine ⟨by simp [OneSys.step, hs', One.dropCS, hw], by simp [OneSys.step, hs', One.dropCS], ?_⟩
      simp only [OneSys.step, hs', One.dropCS, hw, clearWaiting]
      split <;> simp_all

-- non-vacuity: the interesting interleavings are reachable
example : (OneSys.init.run [.poll 7, .sendCS 5, .poll 7, .dropSender, .poll 7]).got = [5] := by decide
example : (OneSys.init.run [.poll 7]).waiting = some 7 := by decide
example : (OneSys.init.outs [.poll 7, .sendCS 5]) = [.polled .pending, .sender true (some 7)] := by decide
example : (OneSys.init.outs [.poll 7, .dropSender, .poll 8]) = [.polled .pending, .sender true (some 7), .polled .closed] := by
  decide
example : ((OneSys.init.run [.dropSender]).ch.pollCS 1).2 = .closed := by decide

/-! ## mpsc (code with fixes/D39.patch) -/

/-- C34 mpsc, FIFO without loss or duplication: after ANY step list (any number of cloned senders, any
    interleaving), received ++ queued = sent; in particular the received sequence is a prefix of the sent sequence. -/
theorem C34_mpsc_fifo (ops : List MpscOp) :
    let s := MpscSys.init.run ops
    s.got ++ s.ch.data = s.sent ∧ s.got <+: s.sent := by
  intro s
  have h : MpscInv s := MpscInv.run _ MpscInv.init ops
  clear_value s
  exact ⟨h.conserve.symm, ⟨s.ch.data, h.conserve.symm⟩⟩

/-- C34 mpsc, bookkeeping: after ANY step list `sender_count` equals the number of live sender handles, the decrement
    of a drop never underflows, and the channel is closed exactly when no sender handle exists. -/
theorem C34_mpsc_count (ops : List MpscOp) :
    let s := MpscSys.init.run ops
    s.ch.senderCount = s.senders.length ∧ s.panicked = false ∧ (s.ch.isClosed = true ↔ s.senders = []) := by
  intro s
  have h : MpscInv s := MpscInv.run _ MpscInv.init ops
  clear_value s
  refine ⟨h.count, h.no_panic, ?_⟩
  rw [h.closed_iff, h.count]
  exact List.length_eq_zero_iff

/-- C34 mpsc, disconnection is reported exactly when all senders are dropped and the queue is empty (FULL statement,
    with fixes/D39.patch): after ANY step list `receive` answers the oldest queued value if there is one, `None`
    (closed) iff the queue is empty and no sender handle exists, and `Pending` otherwise. -/
theorem C34_mpsc_poll_spec (ops : List MpscOp) (w : Nat) :
    let s := MpscSys.init.run ops
    (s.ch.pollCS w).2 = mpscPollSpec s.ch.data s.senders := by
  intro s
  have h : MpscInv s := MpscInv.run _ MpscInv.init ops
  clear_value s
  cases hd : s.ch.data with
  | cons v rest => simp [Mpsc.pollCS, mpscPollSpec, hd]
  | nil =>
    cases hl : s.senders with
    | nil =>
      have hz : s.ch.senderCount = 0 := by rw [h.count, hl]; rfl
      have hc : s.ch.isClosed = true := h.closed_iff.mpr hz
      simp [Mpsc.pollCS, mpscPollSpec, hd, hc]
    | cons a as =>
      have hz : ¬ s.ch.senderCount = 0 := by rw [h.count, hl]; simp
      have hc : s.ch.isClosed = false := by
        cases hb : s.ch.isClosed with
        | false => rfl
        | true => exact absurd (h.closed_iff.mp hb) hz
      simp [Mpsc.pollCS, mpscPollSpec, hd, hc]

/-- C34 mpsc, no lost wake-up (values AND disconnection): after ANY step list, if the receiver's last poll was `Pending`
    and its waker has not been woken since, the waker is still registered, every sent value has been received and a
    sender handle still exists. -/
theorem C34_mpsc_no_lost_wakeup (ops : List MpscOp) (w : Nat) :
    let s := MpscSys.init.run ops
    s.waiting = some w → s.ch.waker = some w ∧ s.ch.data = [] ∧ s.got = s.sent ∧ s.senders ≠ [] := by
  intro s hw
  have h : MpscInv s := MpscInv.run _ MpscInv.init ops
  clear_value s
  have h4 := h.waiting_ok w hw
  have h3 := h.waker_ok w h4
  refine ⟨h4, h3.1, ?_, ?_⟩
  · have := h.conserve
    rw [h3.1] at this
    simpa using this.symm
  · intro hl
    have hz : s.ch.senderCount = 0 := by rw [h.count, hl]; rfl
    have := h.closed_iff.mpr hz
    rw [h3.2] at this
    cases this

/-- C34 mpsc, every send wakes a registered receiver: in every reachable state a send through a live handle is
    accepted, appends at the back and calls `wake()` on the registered waker. -/
theorem C34_mpsc_send_wakes (ops : List MpscOp) (sid v : Nat) :
    let s := MpscSys.init.run ops
    hasId s.senders sid = true →
      (s.step (.send sid v)).2 = .sender true s.ch.waker ∧
      (s.step (.send sid v)).1.ch.data = s.ch.data ++ [v] ∧
      (s.step (.send sid v)).1.ch.waker = none ∧
      (s.step (.send sid v)).1.waiting = none := by
  intro s hi
  have h : MpscInv s := MpscInv.run _ MpscInv.init ops
  clear_value s
  have hpos : 0 < s.ch.senderCount := by rw [h.count]; exact hasId_length_pos _ _ hi
  have hc : s.ch.isClosed = false := by
    cases hb : s.ch.isClosed with
    | false => rfl
    | true => have := h.closed_iff.mp hb; omega
  refine ⟨by simp [MpscSys.step, hi, Mpsc.sendCS, hc], by simp [MpscSys.step, hi, Mpsc.sendCS, hc],
    by simp [MpscSys.step, hi, Mpsc.sendCS, hc], ?_⟩
  simp only [MpscSys.step, hi, if_true, Mpsc.sendCS, hc, Bool.false_eq_true, if_false]
  cases hwt : s.waiting with
  | none => cases hk : s.ch.waker <;> simp [clearWaiting]
  | some x =>
    have := h.waiting_ok x hwt
    simp [clearWaiting, this]

/-- C34 mpsc, the drop of the LAST sender handle closes the channel and wakes the registered receiver (in every
    reachable state); the drop of any other handle only decrements the count. -/
theorem C34_mpsc_last_drop_wakes (ops : List MpscOp) (sid : Nat) :
    let s := MpscSys.init.run ops
    s.senders = [sid] →
      (s.step (.dropSender sid)).2 = .sender true s.ch.waker ∧
      (s.step (.dropSender sid)).1.ch.isClosed = true ∧
      (s.step (.dropSender sid)).1.ch.waker = none ∧
      (s.step (.dropSender sid)).1.waiting = none := by
  intro s hl
  have h : MpscInv s := MpscInv.run _ MpscInv.init ops
  clear_value s
  have hi : hasId s.senders sid = true := by rw [hl]; simp [hasId]
  have hc : s.ch.senderCount = 1 := by rw [h.count, hl]; rfl
  refine ⟨by simp [MpscSys.step, hi, Mpsc.dropCS, hc], by simp [MpscSys.step, hi, Mpsc.dropCS, hc],
    by simp [MpscSys.step, hi, Mpsc.dropCS, hc], ?_⟩
  simp only [MpscSys.step, hi, if_true, Mpsc.dropCS, hc]
  cases hwt : s.waiting with
  | none => cases hk : s.ch.waker <;> simp [clearWaiting]
  | some x =>
    have := h.waiting_ok x hwt
    simp [clearWaiting, this]

/-- D39 regression witness (code BEFORE fixes/D39.patch, `runOld`): the only sender is dropped, the queue is empty,
    and `receive` stays `Pending` although the property demands `None` (closed). Replayed on the unpatched real code by
    the chan harness: `m.drops 0`, `m.poll 1`. -/
theorem C34_mpsc_disconnect_counterexample :
    let s := MpscSys.init.runOld [.dropSender 0]
    (s.ch.pollCS 1).2 = .pending ∧ mpscPollSpec s.ch.data s.senders = .closed := by decide

-- the same steps on the patched code report the disconnection, and a waiting receiver is woken by the last drop
example : ((MpscSys.init.run [.dropSender 0]).ch.pollCS 1).2 = .closed := by decide
example : ((MpscSys.init.run [.poll 1, .clone 0 1, .dropSender 0]).step (.dropSender 1)).2 = .sender true (some 1) := by
  decide
example : (MpscSys.init.run [.clone 0 1, .send 0 10, .send 1 11, .poll 5, .send 0 12, .poll 5]).got = [10, 11] := by decide
example : (MpscSys.init.run [.poll 5]).waiting = some 5 := by decide
example : ((MpscSys.init.run [.poll 5]).step (.send 0 3)).2 = .sender true (some 5) := by decide
example : (MpscSys.init.run [.send 0 1, .dropSender 0]).senders = [] ∧
    ((MpscSys.init.run [.send 0 1, .dropSender 0]).ch.pollCS 2).2 = .ready 1 := by decide

/-! ## notification -/

/-- C34 notification, bookkeeping: after ANY step list `sender_count` equals the number of live sender handles and
    the `sender_count -= 1` of a drop never underflows. -/
theorem C34_notify_count (ops : List NotifOp) :
    let s := NotifSys.init.run ops
    s.ch.senderCount = s.senders.length ∧ s.panicked = false := by
  intro s
  have h : NotifInv s := NotifInv.run _ NotifInv.init ops
  clear_value s
  exact ⟨h.count, h.no_panic⟩

/-- C34 notification, no notification lost (coalescing is by design): after ANY step list the poll answers `Ready`
    iff at least one `notify` happened since the last `Ready`, `Err` iff (otherwise) no sender handle exists, else
    `Pending`. -/
theorem C34_notify_poll_spec (ops : List NotifOp) (w : Nat) :
    let s := NotifSys.init.run ops
    (s.ch.pollCS w).2 = notifPollSpec s.unseen s.senders := by
  intro s
  have h : NotifInv s := NotifInv.run _ NotifInv.init ops
  clear_value s
  by_cases hn : s.ch.notified = true
  · have := h.unseen_iff.mp hn
    simp [Notif.pollCS, hn, notifPollSpec, this]
  · have hn' : s.ch.notified = false := by simpa using hn
    have hu : ¬ 0 < s.unseen := fun hp => hn (h.unseen_iff.mpr hp)
    have hc := h.count
    cases hl : s.senders with
    | nil =>
      have : s.ch.senderCount = 0 := by rw [hc, hl]; rfl
      simp [Notif.pollCS, hn', notifPollSpec, hu, this]
    | cons a as =>
      have : ¬ s.ch.senderCount = 0 := by rw [hc, hl]; simp
      simp [Notif.pollCS, hn', notifPollSpec, hu, this]

/-- C34 notification, no lost wake-up: after ANY step list, if the receiver's last poll was `Pending` and its waker has
    not been woken since, the waker is still registered, there is no unseen notification and a sender still exists. -/
theorem C34_notify_no_lost_wakeup (ops : List NotifOp) (w : Nat) :
    let s := NotifSys.init.run ops
    s.waiting = some w → s.ch.waker = some w ∧ s.unseen = 0 ∧ s.senders ≠ [] := by
  intro s hw
  have h : NotifInv s := NotifInv.run _ NotifInv.init ops
  clear_value s
  have h5 := h.waiting_ok w hw
  have h4 := h.waker_ok w h5
  refine ⟨h5, ?_, ?_⟩
  · cases hu : s.unseen with
    | zero => rfl
    | succ n =>
      have := h.unseen_iff.mpr (by omega)
      rw [h4.1] at this
      cases this
  · intro hl
    have := h.count
    rw [hl] at this
    have := h4.2
    simp_all

/-- C34 notification: `notify` through a live handle wakes the registered waker, and so does the drop of the LAST
    sender handle; both clear the slot. -/
theorem C34_notify_wakes (ops : List NotifOp) (sid : Nat) :
    let s := NotifSys.init.run ops
    hasId s.senders sid = true →
      ((s.step (.notify sid)).2 = .sender true s.ch.waker ∧ (s.step (.notify sid)).1.ch.waker = none) ∧
      (s.senders = [sid] → (s.step (.dropSender sid)).2 = .sender true s.ch.waker ∧
        (s.step (.dropSender sid)).1.ch.waker = none) := by
  intro s hi
  have h : NotifInv s := NotifInv.run _ NotifInv.init ops
  clear_value s
  refine ⟨⟨by simp [NotifSys.step, hi, Notif.notifyCS], by simp [NotifSys.step, hi, Notif.notifyCS]⟩, ?_⟩
  intro hl
  have hc : s.ch.senderCount = 1 := by rw [h.count, hl]; rfl
  constructor <;> simp [NotifSys.step, hi, Notif.dropCS, hc]

example : (NotifSys.init.run [.poll 3]).waiting = some 3 := by decide
example : ((NotifSys.init.run [.poll 3]).step (.notify 0)).2 = .sender true (some 3) := by decide
example : ((NotifSys.init.run [.notify 0, .notify 0, .dropSender 0]).ch.pollCS 1).2 = .ready 0 := by decide
example : ((NotifSys.init.run [.clone 0 1, .dropSender 0, .dropSender 1]).ch.pollCS 1).2 = .closed := by decide
example : ((NotifSys.init.run [.poll 3, .clone 0 1, .dropSender 0]).step (.dropSender 1)).2 = .sender true (some 3) := by
  decide

end DustVerif.Chan
