import DustVerif.Proofs.TimerLemmas
/-! Property C42 (PARTIAL by nature): the LOGIC of the std runtime timer and of `block_timeout`.

What is proved, for ALL operation lists of the model: the heap order invariant; an entry is woken only when its
deadline has passed (never early) and every entry whose deadline has passed is woken by the next run of the wake loop
(never forgotten); a removed entry is not woken; `Sleep::poll` is ready exactly when `now > first poll + duration`;
a sleep whose last poll was Pending always has an entry with its deadline on the way to / in the heap; a dropped sleep
is silent once its `Cancel` has been processed; `block_timeout` returns `Timeout` only at or after `start + duration`, whatever the number of
wake-ups, and returns the value whenever a poll is `Ready`.

What is NOT modelled (lives in the OS): when threads run, `recv_timeout` / `park` latency, the wall clock. "A sleep
completes after its deadline" therefore means: the timer thread's next service at a time past the deadline wakes it
and the poll that follows is Ready — not a bound on real time. -/
namespace DustVerif.Timer

def HeapSt.init (t0 : Nat) : HeapSt :=
  { now := t0
    heap := [] }

/-! ## TimerHeap -/

/-- C42 heap order: after ANY list of push / remove / advance / service the entries are ordered by deadline, the top
    (next to be woken) being an earliest one. -/
theorem C42_heap_order (t0 : Nat) (ops : List HeapOp) : Sorted ((HeapSt.init t0).run ops).heap :=
  heap_sorted_run _ (by simp [HeapSt.init, Sorted]) ops

theorem wakeLog_not_early (s : HeapSt) (ops : List HeapOp) :
    ∀ p, p ∈ s.wakeLog ops → p.1.deadline < p.2 := by
  induction ops generalizing s with
  | nil => intro p hp; cases hp
  | cons op ops ih =>
    intro p hp
    simp only [HeapSt.wakeLog] at hp
    rcases List.mem_append.mp hp with a | a
    · obtain ⟨e, he, rfl⟩ := List.mem_map.mp a
      cases op with
      | push e' => cases he
      | remove id => cases he
      | advance k => cases he
      | service => exact (serviceLoop_spec s.now s.heap).2.1 e he
    · exact ih _ p a

/-- C42 never early: in ANY run, every wake happens at a time strictly after the deadline of the woken entry. -/
theorem C42_not_early (t0 : Nat) (ops : List HeapOp) :
    ∀ p, p ∈ (HeapSt.init t0).wakeLog ops → p.1.deadline < p.2 :=
  wakeLog_not_early _ ops

/-- C42 never forgotten: in any reachable state, one run of the wake loop wakes EVERY entry whose deadline has passed
    and leaves none of them behind; the pops come in deadline order. -/
theorem C42_never_forgotten (t0 : Nat) (ops : List HeapOp) :
    let s := (HeapSt.init t0).run ops
    (∀ e, e ∈ s.heap → e.deadline < s.now → e ∈ (s.step .service).2) ∧
    (∀ e, e ∈ (s.step .service).1.heap → s.now ≤ e.deadline) ∧
    Sorted (s.step .service).2 := by
  intro s
  have hs : Sorted s.heap := C42_heap_order t0 ops
  clear_value s
  have hspec := serviceLoop_spec s.now s.heap
  refine ⟨?_, (hspec.2.2 hs).2, serviceLoop_sorted_pops s.now s.heap hs⟩
  intro e he hlt
  rcases (serviceLoop_mem s.now s.heap e).mp he with a | a
  · exact a
  · have := (hspec.2.2 hs).2 e a
    omega

def pushesId (id : Nat) : List HeapOp → Bool
  | [] => false
  | .push e :: ops => if e.id = id then true else pushesId id ops
  | _ :: ops => pushesId id ops

theorem wakeLog_no_id (id : Nat) (s : HeapSt) (ops : List HeapOp) (h0 : hasId s.heap id = false)
    (hp : pushesId id ops = false) : ∀ p, p ∈ s.wakeLog ops → p.1.id ≠ id := by
  induction ops generalizing s with
  | nil => intro p hp'; cases hp'
  | cons op ops ih =>
    intro p hmem
    simp only [HeapSt.wakeLog] at hmem
    have hnext : hasId (s.step op).1.heap id = false ∧ pushesId id ops = false := by
      cases op with
      | push e =>
        simp only [pushesId] at hp
        by_cases he : e.id = id
        · simp [he] at hp
        · simp only [he, if_false] at hp
          exact ⟨by simp [HeapSt.step, hasId_insertSorted, he, h0], hp⟩
      | remove i =>
        refine ⟨?_, hp⟩
        simp only [HeapSt.step, hasId_removeId, h0]; split <;> rfl
      | advance k => exact ⟨h0, hp⟩
      | service =>
        refine ⟨?_, hp⟩
        cases hr : hasId (s.step .service).1.heap id with
        | false => rfl
        | true =>
          have := hasId_of_subset s.heap _ id
            (fun x hx => (serviceLoop_mem s.now s.heap x).mpr (Or.inr hx)) hr
          rw [h0] at this; cases this
    rcases List.mem_append.mp hmem with a | a
    · obtain ⟨e, he, rfl⟩ := List.mem_map.mp a
      cases op with
      | push e' => cases he
      | remove i => cases he
      | advance k => cases he
      | service =>
        intro hid
        have : hasId s.heap id = true :=
          (hasId_iff _ _).mpr ⟨e, (serviceLoop_mem s.now s.heap e).mpr (Or.inl he), hid⟩
        rw [h0] at this; cases this
    · exact ih _ hnext.1 hnext.2 p a

/-- C42 a removed entry is never woken: after `remove id` (what the thread does for `Cancel(id)`) in any reachable
    state, no later wake carries `id`, whatever happens next, unless an entry with that id is pushed again. -/
theorem C42_removed_never_woken (t0 : Nat) (ops ops2 : List HeapOp) (id : Nat) (hp : pushesId id ops2 = false) :
    ∀ p, p ∈ ((((HeapSt.init t0).run ops).step (.remove id)).1).wakeLog ops2 → p.1.id ≠ id := by
  apply wakeLog_no_id id _ ops2 _ hp
  simp [HeapSt.step, hasId_removeId]

/-- C42 the thread never sleeps past the earliest deadline: in any reachable state `duration_until_next_timer` is `None`
    iff the heap is empty, and otherwise at most the remaining time of every entry. -/
theorem C42_next_delay (t0 : Nat) (ops : List HeapOp) :
    let s := (HeapSt.init t0).run ops
    (nextDelay s.heap s.now = none ↔ s.heap = []) ∧
    (∀ d, nextDelay s.heap s.now = some d → ∀ e, e ∈ s.heap → d ≤ e.deadline - s.now) := by
  intro s
  have hs : Sorted s.heap := C42_heap_order t0 ops
  clear_value s
  cases hh : s.heap with
  | nil => simp [nextDelay]
  | cons a t =>
    rw [hh] at hs
    refine ⟨by simp [nextDelay], ?_⟩
    intro d hd e he
    simp only [nextDelay] at hd
    cases hd
    rcases List.mem_cons.mp he with b | b
    · subst b; exact Nat.le_refl _
    · have := hs.1 e b; omega

example : ((HeapSt.init 0).run [.push ⟨1, 5⟩, .push ⟨2, 3⟩, .push ⟨3, 9⟩, .advance 6, .service]).heap = [⟨3, 9⟩] := by decide
example : (((HeapSt.init 0).run [.push ⟨1, 5⟩, .push ⟨2, 3⟩, .push ⟨3, 9⟩, .advance 6]).step .service).2 = [⟨2, 3⟩, ⟨1, 5⟩] := by
  decide
example : (((HeapSt.init 0).run [.push ⟨1, 5⟩, .advance 5]).step .service).2 = [] := by decide
example : (HeapSt.init 0).wakeLog [.push ⟨1, 5⟩, .push ⟨2, 3⟩, .remove 2, .advance 9, .service] = [(⟨1, 5⟩, 9)] := by decide

/-! ## Sleep, message queue and timer thread -/

/-- C42 a sleep never completes early and completes once its time has passed: in any reachable state, `Sleep::poll`
    of a live sleep is `Ready` exactly when it has been polled before, at time `t`, and `now > t + duration`. -/
theorem C42_sleep_ready_iff (ops : List Op) (id : Nat) (x : SleepSt) :
    let s := Sys.init.run ops
    s.sleeps id = some x →
      ((x.poll id s.now).2.1 = .ready ↔ ∃ t, s.started id = some t ∧ s.now > t + x.dur) := by
  intro s hx
  have h : Inv s := Inv.run _ Inv.init ops
  clear_value s
  rcases h.deadline_def id x hx with ⟨a, b⟩ | ⟨t, a, b, _⟩
  · simp [SleepSt.poll, a, b]
  · simp only [SleepSt.poll, b, a]
    by_cases hn : s.now > t + x.dur
    · simp only [hn, if_true, true_iff]; exact ⟨t, rfl, hn⟩
    · simp only [hn, if_false]
      constructor
      · intro hc; cases hc
      · rintro ⟨t', ht', hgt⟩; cases ht'; exact absurd hgt hn

/-- C42 a wake is never spurious: in any reachable state, every entry the wake loop pops has its deadline behind it,
    and if the sleep it belongs to is alive that deadline is the sleep's own, so the poll that follows the wake (at
    any later time) is `Ready`. -/
theorem C42_wake_then_ready (ops : List Op) (e : Entry) (x : SleepSt) (later : Nat) :
    let s := Sys.init.run ops
    e ∈ (serviceLoop s.now s.heap).1 → e.deadline < s.now ∧
      (s.sleeps e.id = some x → s.now ≤ later → (x.poll e.id later).2.1 = .ready) := by
  intro s he
  have h : Inv s := Inv.run _ Inv.init ops
  clear_value s
  have hlt := (serviceLoop_spec s.now s.heap).2.1 e he
  refine ⟨hlt, ?_⟩
  intro hx hl
  have hm := h.entries_match e.id x hx e rfl (Or.inl ((serviceLoop_mem s.now s.heap e).mpr (Or.inl he)))
  have : later > e.deadline := by omega
  simp [SleepSt.poll, hm, this]

/-- C42 a pending sleep is never forgotten: in any reachable state, a live sleep whose last poll was `Pending` and that
    has not been woken since has its deadline set and a `Wake` with exactly that deadline either still queued or in the
    heap; once the thread has drained the queue, the first wake loop that runs after the deadline wakes it. -/
theorem C42_eventually (ops : List Op) (id : Nat) :
    let s := Sys.init.run ops
    s.armed id = true →
      ∃ x d, s.sleeps id = some x ∧ x.deadline = some d ∧
        ((⟨id, d⟩ : Entry) ∈ s.heap ∨ Msg.wake ⟨id, d⟩ ∈ s.queue) ∧
        (s.queue = [] → d < s.now → (⟨id, d⟩ : Entry) ∈ (serviceLoop s.now s.heap).1) := by
  intro s ha
  have h : Inv s := Inv.run _ Inv.init ops
  clear_value s
  obtain ⟨x, d, hx, hd, hmem⟩ := h.armed_entry id ha
  refine ⟨x, d, hx, hd, hmem, ?_⟩
  intro hq hlt
  rcases hmem with a | a
  · rcases (serviceLoop_mem s.now s.heap _).mp a with b | b
    · exact b
    · have := ((serviceLoop_spec s.now s.heap).2.2 h.sorted).2 _ b
      simp at this; omega
  · rw [hq] at a; cases a

/-- a dropped sleep with its `Cancel` processed: gone from heap and queue -/
def Silent (id : Nat) (s : Sys) : Prop :=
  s.dropped id = true ∧ hasId s.heap id = false ∧ ∀ m, m ∈ s.queue → wakeMsgOf id m = false

theorem silent_step (id : Nat) (s : Sys) (h : Inv s) (hs : Silent id s) (op : Op) : Silent id (s.step op).1 := by
  obtain ⟨h1, h2, h3⟩ := hs
  have hdead := (h.dropped_dead id h1).1
  cases op with
  | sleep i dur =>
    simp only [Sys.step]; split
    · exact ⟨h1, h2, h3⟩
    · exact ⟨h1, h2, h3⟩
  | poll i =>
    simp only [Sys.step]
    cases hsl : s.sleeps i with
    | none => exact ⟨h1, h2, h3⟩
    | some x =>
      have hne : i ≠ id := by intro e; rw [e, hdead] at hsl; cases hsl
      refine ⟨h1, h2, ?_⟩
      simp only
      intro m hm
      rcases poll_cases x i s.now with ⟨d, _, _, hp⟩ | ⟨d, _, _, hp⟩ | ⟨_, hp⟩
      · rw [hp] at hm; exact h3 m hm
      · rw [hp] at hm
        rcases List.mem_append.mp hm with a | a
        · exact h3 m a
        · rcases List.mem_singleton.mp a with rfl; simp [wakeMsgOf, hne]
      · rw [hp] at hm
        rcases List.mem_append.mp hm with a | a
        · exact h3 m a
        · rcases List.mem_singleton.mp a with rfl; simp [wakeMsgOf, hne]
  | drop i =>
    simp only [Sys.step]
    cases hsl : s.sleeps i with
    | none => exact ⟨h1, h2, h3⟩
    | some x =>
      have hne : id ≠ i := by intro e; rw [← e, hdead] at hsl; cases hsl
      refine ⟨by simp only [upd_other _ _ _ _ hne]; exact h1, h2, ?_⟩
      intro m hm
      rcases List.mem_append.mp hm with a | a
      · exact h3 m a
      · rcases List.mem_singleton.mp a with rfl; rfl
  | recv =>
    cases hq : s.queue with
    | nil => simp only [Sys.step, hq]; exact ⟨h1, h2, h3⟩
    | cons m q =>
      simp only [Sys.step, hq]
      rw [hq] at h3
      refine ⟨h1, ?_, fun x hx => h3 x (List.mem_cons_of_mem _ hx)⟩
      have hm := h3 m List.mem_cons_self
      cases m with
      | wake e =>
        have : ¬ e.id = id := by simpa [wakeMsgOf] using hm
        simp [applyMsg, hasId_insertSorted, this, h2]
      | cancel i =>
        simp only [applyMsg, hasId_removeId, h2]; split <;> rfl
  | service =>
    simp only [Sys.step]
    refine ⟨h1, ?_, h3⟩
    cases hr : hasId (serviceLoop s.now s.heap).2 id with
    | false => rfl
    | true =>
      have := hasId_of_subset s.heap _ id (fun x hx => (serviceLoop_mem s.now s.heap x).mpr (Or.inr hx)) hr
      rw [h2] at this; cases this
  | advance k => exact ⟨h1, h2, h3⟩

theorem silent_run (id : Nat) (s : Sys) (h : Inv s) (hs : Silent id s) (ops : List Op) : Silent id (s.run ops) := by
  induction ops generalizing s with
  | nil => exact hs
  | cons op ops ih => exact ih _ (Inv.step s h op) (silent_step id s h hs op)

/-- C42 a dropped sleep never wakes its task: once a sleep is dropped and the timer thread has processed the queue
    (its `Cancel` included), then in EVERY later state — whatever other sleeps, polls, receives, wake loops and time
    steps follow — the heap holds no entry of it and the wake loop wakes nothing of it. -/
theorem C42_cancelled_silent (ops ops2 : List Op) (id : Nat) :
    let s := Sys.init.run ops
    s.dropped id = true → s.queue = [] →
      hasId (s.run ops2).heap id = false ∧
      hasId (serviceLoop (s.run ops2).now (s.run ops2).heap).1 id = false := by
  intro s hd hq
  have h : Inv s := Inv.run _ Inv.init ops
  clear_value s
  have h0 : Silent id s := by
    refine ⟨hd, ?_, by rw [hq]; intro m hm; cases hm⟩
    have := h.dropped_clean id hd
    rw [hq] at this
    simpa [residual] using this
  have h2 := silent_run id s h h0 ops2
  refine ⟨h2.2.1, ?_⟩
  cases hr : hasId (serviceLoop (s.run ops2).now (s.run ops2).heap).1 id with
  | false => rfl
  | true =>
    have := hasId_of_subset (s.run ops2).heap _ id
      (fun x hx => (serviceLoop_mem _ _ x).mpr (Or.inl hx)) hr
    rw [h2.2.1] at this; cases this

/-- C42 (race, stated honestly): BEFORE the `Cancel` is processed a dropped sleep can still be woken — the wake in
    flight at the moment of the drop. Witness: poll, thread receives the wake, drop, time passes, wake loop. -/
theorem C42_wake_before_cancel_witness :
    let s := Sys.init.run [.sleep 0 2, .poll 0, .recv, .drop 0, .advance 5]
    s.dropped 0 = true ∧ (serviceLoop s.now s.heap).1 = [⟨0, 2⟩] := by decide

example : (Sys.init.run [.sleep 0 2, .poll 0]).armed 0 = true := by decide
example : (Sys.init.run [.sleep 0 2, .poll 0, .drop 0, .recv, .recv]).queue = [] ∧
    (Sys.init.run [.sleep 0 2, .poll 0, .drop 0, .recv, .recv]).dropped 0 = true := by decide
example : ((Sys.init.run [.sleep 0 2, .poll 0, .recv, .advance 3]).step .service).2 = .woke [⟨0, 2⟩] := by decide
example : ((Sys.init.run [.sleep 0 2, .poll 0, .recv, .advance 2]).step .service).2 = .woke [] := by decide
example : ((Sys.init.run [.sleep 0 2, .poll 0, .advance 3]).step (.poll 0)).2 = .polled .ready := by decide
example : ((Sys.init.run [.sleep 0 2, .poll 0, .advance 2]).step (.poll 0)).2 = .polled .pending := by decide

/-! ## block_timeout -/

/-- C42 block_timeout never times out early: for ALL wake-up sequences (any number of wake-ups, at any times),
    `Timeout` is returned only at a time `t ≥ duration` after the start — the deadline is fixed at the start and the
    number of wake-ups before it does not matter. -/
theorem C42_block_timeout_no_early_timeout (duration : Nat) (ws : List (Nat × Bool)) (t : Nat)
    (h : blockTimeout duration ws = (.timeout, t)) : duration ≤ t := by
  induction ws with
  | nil => simp [blockTimeout] at h
  | cons w rest ih =>
    obtain ⟨now, ready⟩ := w
    unfold blockTimeout at h
    by_cases hr : ready = true
    · simp [hr] at h
    · simp only [hr, Bool.false_eq_true, if_false] at h
      by_cases hd : duration < now
      · simp only [hd, if_true, Prod.mk.injEq, true_and] at h; omega
      · simp only [hd, if_false] at h
        cases rest with
        | nil => simp only [Prod.mk.injEq, true_and] at h; omega
        | cons w2 rest' =>
          obtain ⟨next, r⟩ := w2
          simp only at h
          by_cases hn : next ≤ duration
          · simp only [hn, if_true] at h; exact ih h
          · simp only [hn, if_false, Prod.mk.injEq, true_and] at h; omega

/-- C42 block_timeout always decides once it has polled: for every non-empty wake-up sequence the result is `Ok` or
    `Timeout` (so `Timeout` ⇔ not `Ok`, and with `C42_block_timeout_ok_iff`: `Timeout` only if no poll it made was
    `Ready`). -/
theorem C42_block_timeout_decides (duration : Nat) (ws : List (Nat × Bool)) (hne : ws ≠ []) :
    (blockTimeout duration ws).1 = .ok ∨ (blockTimeout duration ws).1 = .timeout := by
  induction ws with
  | nil => exact absurd rfl hne
  | cons w rest ih =>
    obtain ⟨now, ready⟩ := w
    unfold blockTimeout
    by_cases hr : ready = true
    · simp [hr]
    · simp only [hr, Bool.false_eq_true, if_false]
      by_cases hd : duration < now
      · simp [hd]
      · simp only [hd, if_false]
        cases rest with
        | nil => simp
        | cons w2 rest' =>
          obtain ⟨next, r⟩ := w2
          simp only
          by_cases hn : next ≤ duration
          · simp only [hn, if_true]; exact ih (by simp)
          · simp [hn]

/-- C42 block_timeout returns the value whenever a poll is `Ready`: `Ok` iff the loop reaches a `Ready` poll, i.e. all
    earlier polls were `Pending` and every wake-up up to and including the one of the `Ready` poll arrived by the
    deadline (the very first poll happens regardless of the time). -/
theorem C42_block_timeout_ok_iff (duration : Nat) (ws : List (Nat × Bool)) :
    (blockTimeout duration ws).1 = .ok ↔
      ∃ pre now post, ws = pre ++ (now, true) :: post ∧ (∀ x, x ∈ pre → x.2 = false ∧ x.1 ≤ duration) ∧
        (pre ≠ [] → now ≤ duration) := by
  induction ws with
  | nil => simp [blockTimeout]
  | cons w rest ih =>
    obtain ⟨now, ready⟩ := w
    by_cases hr : ready = true
    · subst hr
      constructor
      · intro _
        refine ⟨[], now, rest, rfl, ?_, ?_⟩
        · intro x hx; cases hx
        · intro h; exact absurd rfl h
      · intro _; unfold blockTimeout; simp
    · have hr' : ready = false := by simpa using hr
      subst hr'
      constructor
      · intro h
        unfold blockTimeout at h
        simp only [Bool.false_eq_true, if_false] at h
        by_cases hd : duration < now
        · simp [hd] at h
        · simp only [hd, if_false] at h
          cases rest with
          | nil => simp at h
          | cons w2 rest' =>
            obtain ⟨next, r⟩ := w2
            simp only at h
            by_cases hn : next ≤ duration
            · simp only [hn, if_true] at h
              obtain ⟨pre, n2, post, e1, e2, e3⟩ := ih.mp h
              refine ⟨(now, false) :: pre, n2, post, by rw [e1]; rfl, ?_, ?_⟩
              · intro x hx
                rcases List.mem_cons.mp hx with a | a
                · subst a; exact ⟨rfl, by simp only; omega⟩
                · exact e2 x a
              · intro _
                cases pre with
                | nil =>
                  simp only [List.nil_append, List.cons.injEq, Prod.mk.injEq] at e1
                  omega
                | cons p ps => exact e3 (by simp)
            · simp [hn] at h
      · rintro ⟨pre, n2, post, e1, e2, e3⟩
        cases pre with
        | nil => simp at e1
        | cons p ps =>
          simp only [List.cons_append, List.cons.injEq] at e1
          obtain ⟨e1a, e1b⟩ := e1
          have hp := e2 p List.mem_cons_self
          rw [← e1a] at hp
          have hd : ¬ duration < now := by have := hp.2; simp only at this; omega
          unfold blockTimeout
          simp only [Bool.false_eq_true, if_false, hd]
          -- the next element exists: it is the head of ps ++ (n2,true) :: post
          cases ps with
          | nil =>
            simp only [List.nil_append] at e1b
            subst e1b
            have : n2 ≤ duration := e3 (by simp)
            simp only [this, if_true]
            unfold blockTimeout; simp
          | cons q qs =>
            simp only [List.cons_append] at e1b
            subst e1b
            obtain ⟨qn, qr⟩ := q
            have hq := e2 (qn, qr) (List.mem_cons_of_mem _ List.mem_cons_self)
            simp only at hq
            simp only [hq.2, if_true]
            exact ih.mpr ⟨(qn, qr) :: qs, n2, post, rfl,
              fun x hx => e2 x (List.mem_cons_of_mem _ hx), fun _ => e3 (by simp)⟩

-- ten sequential 3-unit sleeps under a duration of 100: the code returns Ok at 30 ...
example : blockTimeout 100 [(0,false),(3,false),(6,false),(9,false),(12,false),(15,false),(18,false),(21,false),(24,false),(27,false),(30,true)] = (.ok, 30) := by decide
-- ... while a loop that subtracts the time since the start from a shrinking budget in every iteration (the seeded
-- refactoring; NOT the code) times out inside the duration: the theorem above discriminates
example : (blockTimeoutBudget 100 [(0,false),(3,false),(6,false),(9,false),(12,false),(15,false),(18,false),(21,false),(24,false),(27,false),(30,true)]).1 = .timeout := by decide
example : blockTimeout 10 [(0,false),(4,false),(11,true)] = (.timeout, 10) := by decide
example : blockTimeout 10 [(11,false),(12,true)] = (.timeout, 11) := by decide
example : blockTimeout 10 [(0,false)] = (.timeout, 10) := by decide

end DustVerif.Timer
