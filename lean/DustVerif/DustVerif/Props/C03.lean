import DustVerif.Proofs.RtpsAck
/-! Property C03 (protocol part): `is_change_acknowledged` — the test behind `wait_for_acknowledgments`
    (stateful_writer.rs:66, communication_methods.rs:474) — is sound: it reports a sequence number as acknowledged by
    the matched reliable reader only if every sample up to that number was delivered to the reader's cache or is gone
    (removed from the writer's history / never relevant). The DCPS wait list, matched-reader removal and the
    completeness clause `C03_complete` (liveness) are outside this file. -/
namespace DustVerif.Rtps

/-- **C03_sound**: for EVERY step list (any loss, duplication, reordering, removals, re-announcements): if
    `is_change_acknowledged(sn)` holds for the reliable matched reader, then every sequence number `1..=sn` was
    delivered or is gone. Needs fixes/D2_D8.patch (a non-contiguous GAP made the reader acknowledge a sample it never
    got) and fixes/D43.patch. -/
theorem C03_sound (cfg : Cfg) (hfix : cfg.fixD43 = true) (hfix2 : cfg.fixD2 = true) (tl : Bool) (f : Nat)
    (hf : 1 ≤ f) (hf16 : f < 65536) (steps : List Step) (hsteps : ∀ st, st ∈ steps → StepOK st) (s : Sys)
    (hrun : Sys.run cfg (Sys.init true tl f) steps = .ok s) (p : RProxy) (hp : s.w.proxy = some p) (sn : Nat)
    (hack : s.w.isChangeAcknowledged sn = true) (sn' : Nat) (h1 : 1 ≤ sn') (h2 : sn' ≤ sn) :
    (∃ c, c ∈ s.r.cache ∧ c.sn = sn') ∨ s.Gone sn' := by
  have h3 := inv3_run cfg hfix hfix2 steps _ s hsteps (inv3_init tl f hf hf16) hrun
  have h4 := inv4_run cfg hfix true (Or.inl rfl) steps _ s (inv4_init true tl f) hrun
  have hrel : p.reliable = true := h4.wrel p hp
  have hle : sn ≤ p.highestAcked := by
    simp only [Writer.isChangeAcknowledged, hp, hrel, Bool.true_and, Bool.not_eq_true', decide_eq_false_iff_not] at hack
    omega
  exact h3.accA p hp sn' h1 (by omega)

/-- in the words of the property: a sample the writer still holds and that is relevant to the reader is in the
    reader's cache (payload included) whenever it is reported as acknowledged -/
theorem C03_acknowledged_is_delivered (cfg : Cfg) (hfix : cfg.fixD43 = true) (hfix2 : cfg.fixD2 = true) (tl : Bool)
    (f : Nat) (hf : 1 ≤ f) (hf16 : f < 65536) (steps : List Step) (hsteps : ∀ st, st ∈ steps → StepOK st) (s : Sys)
    (hrun : Sys.run cfg (Sys.init true tl f) steps = .ok s) (p : RProxy) (hp : s.w.proxy = some p) (c : Change)
    (hc : c ∈ s.w.changes) (hrelv : c.sn > s.w.firstRel) (hack : s.w.isChangeAcknowledged c.sn = true) :
    c ∈ s.r.cache := by
  have h1 := inv1_run cfg hfix steps _ s hsteps (inv1_init true tl f hf hf16) hrun
  have hsn := (h1.logSn c (h1.changes c hc)).1
  rcases C03_sound cfg hfix hfix2 tl f hf hf16 steps hsteps s hrun p hp c.sn hack c.sn hsn (Nat.le_refl _) with
    ⟨c', hc', heq⟩ | hg
  · have : c' = c := h1.logOK.uniq c' c (h1.reader.cacheInLog c' hc') (h1.changes c hc) heq
    rw [← this]; exact hc'
  · rcases hg.2 with hno | hle
    · exact absurd rfl (hno c hc)
    · omega

/-- non-vacuity: after loss and repair both samples are acknowledged and delivered -/
example :
    (match Sys.run Cfg.fixed (Sys.init true true 8)
        [.doMatch, .write [1], .write [2], .drop 0, .deliver 0, .deliver 0, .deliver 0, .deliver 0, .deliver 0, .deliver 0,
         .deliver 0, .deliver 0] with
      | .ok s => (s.w.isChangeAcknowledged 2, s.r.cache.map snOf)
      | .panic => (false, [])) = (true, [1, 2]) := by decide

/-- as-is (D2): after the GAP skip of `C01_gap_skip_asis_counterexample` the reader's ACKNACK (base 4) makes the writer
    report samples 1..3 as acknowledged although sample 1, still held, was never delivered -/
theorem C03_false_ack_asis_counterexample :
    (match Sys.run Cfg.asIs (Sys.init true true 8)
        [.write [1], .write [2], .write [3], .remove 2, .doMatch, .tick 10, .drop 0, .deliver 0, .deliver 0, .deliver 0,
         .deliver 0] with
      | .ok s => (s.w.isChangeAcknowledged 3, s.w.changes.map snOf, s.r.cache.map snOf)
      | .panic => (false, [], [])) = (true, [1, 3], [3]) := by decide

end DustVerif.Rtps
