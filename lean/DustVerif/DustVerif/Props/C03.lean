import DustVerif.Proofs.RtpsAck
import DustVerif.Proofs.AckWaitLemmas
import DustVerif.Props.C01
/-! Property C03 (protocol part): `is_change_acknowledged` — the test behind `wait_for_acknowledgments`
    (stateful_writer.rs:66, communication_methods.rs:474) — is sound: it reports a sequence number as acknowledged by
    the matched reliable reader only if every sample up to that number was delivered to the reader's cache or is gone
    (removed from the writer's history / never relevant).
    API level (second half of the file, namespace `DustVerif.AckWait`): the wait list of `notify_acknowledgments`
    (writer_methods.rs:564), drained in the ACKNACK arm and in `remove_discovered_reader` (D3 repair), with any number of
    matched readers: an answer `Ok` is given only while `is_change_acknowledged(last_change_sequence_number)` holds
    (`C03_api_sound`), no waiter is ever lost (`C03_waiter_kept`), removing the last unacknowledging reader answers all
    waiters at that step (`C03_complete_on_unmatch`), and nobody is left waiting while everything is acknowledged
    (`C03_no_stuck_waiter_partial`; excluded: `remove_discovered_participant`, which never looks at the wait list —
    `C03_participant_gone_leaves_waiter_counterexample`). The liveness clause is stated, not proved
    (`C03_eventual_statement`) and checked by the oracle of vlib/props/C03.py. -/
namespace DustVerif.Rtps

/-- **C03_sound**: for EVERY step list (any loss, duplication, reordering, removals, re-announcements): if
    `is_change_acknowledged(sn)` holds for the reliable matched reader, then every sequence number `1..=sn` was
    delivered or is gone. Needs fixes/D2_D8.patch (a non-contiguous GAP made the reader acknowledge a sample it never
    got) and fixes/D43.patch. -/
theorem C03_sound (cfg : Cfg) (hfix : cfg.fixD43 = true) (hfix2 : cfg.fixD2 = true) (tl : Bool) (f : Nat)
    (hf : 1 ≤ f) (hf16 : f < 65536) (steps : List Step) (hsteps : ∀ st, st ∈ steps → StepOK st) (s : Sys)
    (hrun : Sys.run cfg (Sys.init true tl f) steps = .ok s) (p : RProxy) (hp : s.w.proxy = some p) (sn : Nat)
    (hack : s.w.isChangeAcknowledged sn = true) (sn' : Nat) (h1 : 1 ≤ sn') (h2 : sn' ≤ sn) :
    (∃ c, c ∈ s.r.cache ∧ c.sn = sn') ∨ s.Gone sn' := by
  have h3 := inv3_run cfg hfix hfix2 steps _ s hsteps (inv3_init tl f hf hf16) hrun
  have h4 := inv4_run cfg hfix true (Or.inl rfl) steps _ s (inv4_init true tl f) hrun
  have hrel : p.reliable = true := h4.wrel p hp
  have hle : sn ≤ p.highestAcked := by
    simp only [Writer.isChangeAcknowledged, hp, hrel, Bool.true_and, Bool.not_eq_true', decide_eq_false_iff_not] at hack
    omega
  exact h3.accA p hp sn' h1 (by omega)

/-- in the words of the property: a sample the writer still holds and that is relevant to the reader is in the
    reader's cache (payload included) whenever it is reported as acknowledged -/
theorem C03_acknowledged_is_delivered (cfg : Cfg) (hfix : cfg.fixD43 = true) (hfix2 : cfg.fixD2 = true) (tl : Bool)
    (f : Nat) (hf : 1 ≤ f) (hf16 : f < 65536) (steps : List Step) (hsteps : ∀ st, st ∈ steps → StepOK st) (s : Sys)
    (hrun : Sys.run cfg (Sys.init true tl f) steps = .ok s) (p : RProxy) (hp : s.w.proxy = some p) (c : Change)
    (hc : c ∈ s.w.changes) (hrelv : c.sn > s.w.firstRel) (hack : s.w.isChangeAcknowledged c.sn = true) :
    c ∈ s.r.cache := by
  have h1 := inv1_run cfg hfix steps _ s hsteps (inv1_init true tl f hf hf16) hrun
  have hsn := (h1.logSn c (h1.changes c hc)).1
  rcases C03_sound cfg hfix hfix2 tl f hf hf16 steps hsteps s hrun p hp c.sn hack c.sn hsn (Nat.le_refl _) with
    ⟨c', hc', heq⟩ | hg
  · have : c' = c := h1.logOK.uniq c' c (h1.reader.cacheInLog c' hc') (h1.changes c hc) heq
    rw [← this]; exact hc'
  · rcases hg.2 with hno | hle
    · exact absurd rfl (hno c hc)
    · omega

/-- non-vacuity: after loss and repair both samples are acknowledged and delivered -/
example :
    (match Sys.run Cfg.fixed (Sys.init true true 8)
        [.doMatch, .write [1], .write [2], .drop 0, .deliver 0, .deliver 0, .deliver 0, .deliver 0, .deliver 0, .deliver 0,
         .deliver 0, .deliver 0] with
      | .ok s => (s.w.isChangeAcknowledged 2, s.r.cache.map snOf)
      | .panic => (false, [])) = (true, [1, 2]) := by decide

/-- as-is (D2): after the GAP skip of `C01_gap_skip_asis_counterexample` the reader's ACKNACK (base 4) makes the writer
    report samples 1..3 as acknowledged although sample 1, still held, was never delivered -/
theorem C03_false_ack_asis_counterexample :
    (match Sys.run Cfg.asIs (Sys.init true true 8)
        [.write [1], .write [2], .write [3], .remove 2, .doMatch, .tick 10, .drop 0, .deliver 0, .deliver 0, .deliver 0,
         .deliver 0] with
      | .ok s => (s.w.isChangeAcknowledged 3, s.w.changes.map snOf, s.r.cache.map snOf)
      | .panic => (false, [], [])) = (true, [1, 3], [3]) := by decide

/-- `is_change_acknowledged(last_change_sequence_number)` in a reachable state of the protocol model: every change the
    writer still holds and that is relevant to the reliable reader IS in the reader's cache — the protocol half of the
    API-level soundness (`C03_api_sound` below gives: `Ok` is answered only while this test holds). -/
theorem C03_all_acknowledged_all_delivered (cfg : Cfg) (hfix : cfg.fixD43 = true) (hfix2 : cfg.fixD2 = true) (tl : Bool)
    (f : Nat) (hf : 1 ≤ f) (hf16 : f < 65536) (steps : List Step) (hsteps : ∀ st, st ∈ steps → StepOK st) (s : Sys)
    (hrun : Sys.run cfg (Sys.init true tl f) steps = .ok s) (p : RProxy) (hp : s.w.proxy = some p)
    (hack : s.w.isChangeAcknowledged s.lastSn = true) (c : Change) (hc : c ∈ s.w.changes) (hrelv : c.sn > s.w.firstRel) :
    c ∈ s.r.cache := by
  have h1 := inv1_run cfg hfix steps _ s hsteps (inv1_init true tl f hf hf16) hrun
  have hle : c.sn ≤ s.lastSn := (h1.logSn c (h1.changes c hc)).2
  have h3 := inv3_run cfg hfix hfix2 steps _ s hsteps (inv3_init tl f hf hf16) hrun
  have h4 := inv4_run cfg hfix true (Or.inl rfl) steps _ s (inv4_init true tl f) hrun
  have hrel : p.reliable = true := h4.wrel p hp
  have hack' : s.w.isChangeAcknowledged c.sn = true := by
    simp only [Writer.isChangeAcknowledged, hp, hrel, Bool.true_and, Bool.not_eq_true', decide_eq_false_iff_not] at hack ⊢
    omega
  exact C03_acknowledged_is_delivered cfg hfix hfix2 tl f hf hf16 steps hsteps s hrun p hp c hc hrelv hack'

/-- **C03_eventual — STATEMENT ONLY (unproved)**: from any reachable state of the repaired protocol model with a matched
    reliable reader in which the writer still holds its last change, after at most `2·lastSn + 4` healing rounds
    `is_change_acknowledged(last)` holds — so (by `C03_no_stuck_waiter_partial`) every `wait_for_acknowledgments` has
    been answered. Checked by the oracle of vlib/props/C03.py (protocol engine and full stack: after healing `wait-ack`
    answers ok within a few heartbeat periods). The hypothesis about the last change is necessary, see the next theorem. -/
def C03_eventual_statement : Prop :=
  ∀ (tl : Bool) (f : Nat) (steps : List Step) (s : Sys), 1 ≤ f → f < 65536 → (∀ st, st ∈ steps → StepOK st) →
    Sys.run Cfg.fixed (Sys.init true tl f) steps = .ok s → s.w.proxy ≠ none → (∃ c, c ∈ s.w.changes ∧ c.sn = s.lastSn) →
    ∃ k s', k ≤ 2 * s.lastSn + 4 ∧ Sys.heal Cfg.fixed k s = .ok s' ∧ s'.w.isChangeAcknowledged s'.lastSn = true

/-- open finding D-rtps-3: when the LAST change is removed (lifespan expiry, …) before the reader acknowledged it, nothing
    ever tells the reader about it — HEARTBEAT.last is the highest number still HELD and no GAP is sent for a trailing
    removed change — so `is_change_acknowledged(last_change_sequence_number)` stays false for ever although everything
    the writer holds was delivered, the writer is idle, and `wait_for_acknowledgments` never completes. Here: sample 1
    delivered, sample 2 lost and removed, ten healing rounds. -/
theorem C03_removed_last_change_never_acknowledged_counterexample :
    (match Sys.run Cfg.fixed (Sys.init true false 8) [.doMatch, .write [1], .write [2], .drop 1, .remove 2] with
      | .ok s => (match Sys.heal Cfg.fixed 10 s with
          | .ok s' => (s'.w.isChangeAcknowledged 2, s'.w.isChangeAcknowledged 1, s'.r.cache.map snOf, s'.w.changes.map snOf, s'.net)
          | .panic => (true, false, [], [], []))
      | .panic => (true, false, [], [], [])) = (false, true, [1], [1], []) := by decide

end DustVerif.Rtps

/-! ## API level: the wait list -/
namespace DustVerif.Rtps
open DustVerif.AckWait

/-- **C03_api_sound**: for every state of the wait-list automaton (any number of matched readers), every event and both
    variants of participant removal: a waiter is answered `Ok` at a step only if, in the state that step produces,
    `is_change_acknowledged(last_change_sequence_number)` holds — i.e. every RELIABLE reader matched at that step has
    acknowledged every sample written so far (`isAck_iff`); with `C03_sound` / `C03_all_acknowledged_all_delivered`:
    it holds every such sample, or the sample was never relevant to it or is no longer in the writer's history. -/
theorem C03_api_sound (d : Bool) (s : St) (ev : Ev) (id : Nat) (h : id ∈ (step d s ev).2) :
    (step d s ev).1.isAck = true ∧
    ∀ p, p ∈ (step d s ev).1.proxies → p.reliable = true → (step d s ev).1.lastSn ≤ p.highestAcked := by
  have key : (step d s ev).1.isAck = true := by
    cases ev with
    | write => simp [step] at h
    | matchReader rid rel => simp only [step] at h; split at h <;> cases h
    | acknack rid base count =>
      simp only [step] at h ⊢
      split at h
      · cases h
      · split at h
        · cases h
        · exact drain_answered_acked _ id h
    | unmatch rid =>
      simp only [step] at h ⊢
      split at h
      · rename_i hm; rw [if_pos hm]; exact drain_answered_acked _ id h
      · cases h
    | pgone rids =>
      simp only [step] at h ⊢
      split at h
      · rename_i hd; rw [if_pos hd]; exact drain_answered_acked _ id h
      · cases h
    | waitAck w =>
      simp only [step] at h ⊢
      split at h
      · rename_i hack; rw [if_pos hack]; exact hack
      · cases h
  exact ⟨key, (isAck_iff _).mp key⟩

/-- **C03_waiter_kept**: a parked waiter is either answered by the step or still parked after it — no step loses one -/
theorem C03_waiter_kept (d : Bool) (s : St) (ev : Ev) (id : Nat) (h : id ∈ s.waiters) :
    id ∈ (step d s ev).2 ∨ id ∈ (step d s ev).1.waiters := by
  cases ev with
  | write => exact Or.inr h
  | matchReader rid rel => simp only [step]; split <;> exact Or.inr h
  | acknack rid base count =>
    simp only [step]
    split
    · exact Or.inr h
    · split
      · exact Or.inr h
      · exact drain_kept _ id h
  | unmatch rid =>
    simp only [step]
    split
    · exact drain_kept _ id h
    · exact Or.inr h
  | pgone rids =>
    simp only [step]
    split
    · exact drain_kept _ id h
    · exact Or.inr h
  | waitAck w =>
    simp only [step]
    split
    · exact Or.inr h
    · exact Or.inr (List.mem_append_left _ h)

/-- **C03_complete_on_unmatch**: when a matched reader is removed (`remove_discovered_reader`: the reader was deleted or
    became incompatible) and the remaining reliable readers have acknowledged everything — the removed reader was the
    last unacknowledging one — every parked waiter is answered `Ok` AT THAT STEP and the wait list is empty. -/
theorem C03_complete_on_unmatch (d : Bool) (s : St) (rid : Nat) (hm : s.proxies.any (hasRid rid) = true)
    (hrest : ∀ p, p ∈ s.proxies → p.rid ≠ rid → p.reliable = true → s.lastSn ≤ p.highestAcked) :
    (step d s (.unmatch rid)).2 = s.waiters ∧ (step d s (.unmatch rid)).1.waiters = [] := by
  simp only [step]
  rw [if_pos hm]
  have hack : ({ s with proxies := s.proxies.filter (notRid rid) } : St).isAck = true := by
    rw [isAck_iff]
    intro p hp hr
    have hp' := List.mem_filter.mp hp
    exact hrest p hp'.1 (by simpa [notRid] using hp'.2) hr
  rw [drain_all _ hack]
  exact ⟨rfl, rfl⟩

/-- nobody is left waiting while everything is acknowledged -/
def NotStuck (s : St) : Prop := s.waiters ≠ [] → s.isAck = false

theorem isAck_write (s : St) (h : ({ s with lastSn := s.lastSn + 1 } : St).isAck = true) : s.isAck = true := by
  rw [isAck_iff] at h ⊢
  intro p hp hr
  have := h p hp hr
  simp only at this
  omega

theorem notStuck_step (d : Bool) (s : St) (ev : Ev) (hev : d = true ∨ ∀ rids, ev ≠ .pgone rids) (h : NotStuck s) :
    NotStuck (step d s ev).1 := by
  cases ev with
  | write =>
    intro hw
    simp only [step] at hw ⊢
    cases hb : ({ s with lastSn := s.lastSn + 1 } : St).isAck with
    | false => rfl
    | true => have := h hw; rw [isAck_write s hb] at this; cases this
  | matchReader rid rel =>
    simp only [step]
    split
    · exact h
    · intro hw
      simp only at hw
      have hold := h hw
      cases hb : ({ s with proxies := s.proxies ++ [{ rid := rid, reliable := rel, highestAcked := 0, lastAcknack := 0 }] } : St).isAck with
      | false => rfl
      | true =>
        exfalso
        have : s.isAck = true := by
          rw [isAck_iff] at hb ⊢
          intro p hp hr
          exact hb p (List.mem_append_left _ hp) hr
        rw [this] at hold; cases hold
  | acknack rid base count =>
    simp only [step]
    split
    · exact h
    · split
      · exact h
      · exact drain_not_stuck _
  | unmatch rid =>
    simp only [step]
    split
    · exact drain_not_stuck _
    · exact h
  | pgone rids =>
    simp only [step]
    rcases hev with hd | hne
    · rw [if_pos hd]; exact drain_not_stuck _
    · exact absurd rfl (hne rids)
  | waitAck w =>
    simp only [step]
    split
    · exact h
    · rename_i hack
      intro _
      have : s.isAck = false := by simpa using hack
      exact this

/-- **C03_no_stuck_waiter_partial**: along every event list that contains no participant removal (or on a tree in which
    participant removal drains the wait list too), whenever `is_change_acknowledged(last)` holds the wait list is empty:
    a `wait_for_acknowledgments` is answered no later than the step that makes everything acknowledged. Excluded:
    `remove_discovered_participant` (see the counterexample below); on the real stack that path is additionally
    blocked by D23 (the dead participant's reader is matched again). -/
theorem C03_no_stuck_waiter_partial (d : Bool) (evs : List Ev) (hev : d = true ∨ ∀ e, e ∈ evs → ∀ rids, e ≠ .pgone rids) :
    NotStuck (run d St.init evs) := by
  have gen : ∀ (evs : List Ev) (s : St), (d = true ∨ ∀ e, e ∈ evs → ∀ rids, e ≠ .pgone rids) → NotStuck s → NotStuck (run d s evs) := by
    intro evs
    induction evs with
    | nil => intro s _ h; exact h
    | cons e es ih =>
      intro s hev h
      simp only [run]
      apply ih
      · rcases hev with hd | hne
        · exact Or.inl hd
        · exact Or.inr (fun x hx => hne x (List.mem_cons_of_mem _ hx))
      · apply notStuck_step d s e _ h
        rcases hev with hd | hne
        · exact Or.inl hd
        · exact Or.inr (hne e (List.mem_cons_self ..))
  exact gen evs St.init hev (by intro h; exact absurd rfl h)

/-- as the code is: the last reliable reader's participant is removed (lease expiry) while a waiter is parked — the
    proxies go, everything counts as acknowledged, and the waiter is never answered; a new call is answered at once -/
theorem C03_participant_gone_leaves_waiter_counterexample :
    let s := run false St.init [.matchReader 1 true, .write, .waitAck 7, .pgone [1]]
    s.waiters = [7] ∧ s.isAck = true ∧ (step false s (.waitAck 8)).2 = [8] := by decide

/-- non-vacuity: two reliable readers and a best-effort one; the waiter is answered by the second reader's ACKNACK -/
example :
    let s := run false St.init [.matchReader 1 true, .matchReader 2 true, .matchReader 3 false, .write, .write, .waitAck 7,
      .acknack 1 3 1]
    s.waiters = [7] ∧ (step false s (.acknack 2 3 1)).2 = [7] ∧ (step false s (.unmatch 2)).2 = [7] := by decide

end DustVerif.Rtps
