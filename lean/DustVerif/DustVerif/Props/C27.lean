import DustVerif.Proofs.WrtSteps
/-! Property C27: a RELIABLE KEEP_LAST writer never discards a sample that a matched reliable reader has not
    acknowledged; such a write blocks until the sample is acknowledged or max_blocking_time elapses and then returns
    Timeout without storing the new sample; a writer never holds more than `depth` samples per instance.
    The theorems quantify over ALL event lists (writes, ACKNACKs of any content, worker iterations at any times,
    reader matches) of the writer model Model/WriterEnt.lean. -/
namespace DustVerif.Wrt

/-- C27 (depth): with KEEP_LAST(d), d >= 1, no instance ever holds more than d samples, whatever is written,
    acknowledged, matched, and whenever the worker runs -/
theorem C27_depth (q : Qos) (d : Nat) (hq : q.depth = some d) (h1 : 1 ≤ d) (evs : List Ev) :
    ∀ i ∈ (run (St.init q) evs).insts, i.samples.length ≤ d := by
  suffices h : ∀ s : St, DepthInv d s → DepthInv d (run s evs) by
    exact (h (St.init q) ⟨hq, by intro i hi; simp [St.init] at hi⟩).2
  induction evs with
  | nil => intro s hs; exact hs
  | cons e es ih => intro s hs; exact ih _ (step_depth d h1 s e hs)

/-- C27 (no unacknowledged drop): whatever state the writer is in and whatever happens to it, every sample the
    KEEP_LAST path removes (`remove_change` at writer_methods.rs:400-404 / :667-671) has been acknowledged by EVERY
    matched reliable reader when the step ends, provided the writer is RELIABLE -/
theorem C27_no_unacked_drop (s : St) (e : Ev) (hr : s.qos.reliable = true) (sn : Nat)
    (hm : sn ∈ (step s e).2.evicted) :
    ∀ p ∈ (step s e).1.proxies, p.reliable = true → sn ≤ p.highestAcked := by
  rw [← isAckedBy_true_iff]
  cases e with
  | write k v ts now =>
    exact methodWrite_evicted _ k v ts now sn hm (by rw [(removeStale_frame s now).1]; exact hr)
  | acknack rid base set count now =>
    simp only [step, onAcknack] at hm ⊢
    refine processPending_evicted _ now sn hm ?_
    show (removeStale s now).qos.reliable = true
    rw [(removeStale_frame s now).1]; exact hr
  | tick now =>
    simp only [step, tick, tickRest] at hm ⊢
    rw [poke_acked]
    refine processPending_evicted _ now sn hm ?_
    rw [(checkTimeout_frame _ now).1, (removeStale_frame s now).1]; exact hr
  | matchReader rid rel tl => simp [step, Out.none] at hm
  | unregister k ts now => simp [step] at hm

/-- the same along every run: no event list makes a reliable writer evict an unacknowledged sample -/
theorem C27_no_unacked_drop_run (q : Qos) (hr : q.reliable = true) (evs : List Ev) (e : Ev) (sn : Nat)
    (hm : sn ∈ (step (run (St.init q) evs) e).2.evicted) :
    ∀ p ∈ (step (run (St.init q) evs) e).1.proxies, p.reliable = true → sn ≤ p.highestAcked := by
  exact C27_no_unacked_drop _ e (by rw [run_qos]; exact hr) sn hm

/-- C27 (a write that must wait blocks): the instance is full and its oldest sample is unacknowledged by some
    matched reliable reader ⇒ the call gets no answer yet, nothing is stored or sent, and the write is parked with
    expiration = now + max_blocking_time -/
theorem C27_blocks (s : St) (k : Nat) (v : Int) (ts now : Int) (sn : Nat) (hf : fullFront s k = some sn)
    (hr : s.qos.reliable = true) (hu : isAcked s sn = false) (hp : s.pending = none) :
    (methodWrite s k v ts now).2.reply = none ∧ (methodWrite s k v ts now).2.dgrams = [] ∧
    (methodWrite s k v ts now).2.evicted = [] ∧
    (methodWrite s k v ts now).1 =
      { s with pending := some { key := k, val := v, ts := ts, expiration := expirationOf s.qos now } } := by
  simp [methodWrite, hf, hr, hu, hp, Out.none]

theorem tickRest_timeout (s : St) (now : Int) (p : Pending) (e : Int) (hp : s.pending = some p)
    (he : p.expiration = some e) (hn : now ≥ e) :
    (tickRest s now).2.reply = some .timeout ∧ (tickRest s now).1.pending = none ∧ (tickRest s now).1.insts = s.insts ∧
    (tickRest s now).1.lastSn = s.lastSn ∧ (tickRest s now).1.changes = s.changes ∧ (tickRest s now).2.evicted = [] := by
  have hc : checkTimeout s now = ({ s with pending := none }, some .timeout) := by
    simp [checkTimeout, hp, he, hn]
  have hpp : processPending { s with pending := none } now = ({ s with pending := none }, Out.none) := by
    simp [processPending]
  refine ⟨?_, ?_, ?_, ?_, ?_, ?_⟩ <;> simp [tickRest, hc, hpp, pickReply, Out.none, poke]

/-- C27 (Timeout exactly from the expiration on): a worker iteration whose clock has reached the expiration of the
    parked write answers Timeout, drops the parked write, and stores nothing: instances, their sample deques and
    the last sequence number are unchanged, the history only loses what remove_stale_writer_samples removes -/
theorem C27_timeout_at_expiry (s : St) (now : Int) (p : Pending) (e : Int) (hp : s.pending = some p)
    (he : p.expiration = some e) (hn : now ≥ e) :
    (tick s now).2.reply = some .timeout ∧ (tick s now).1.pending = none ∧ (tick s now).1.insts = s.insts ∧
    (tick s now).1.lastSn = s.lastSn ∧ (tick s now).1.changes = (removeStale s now).changes ∧
    (tick s now).2.evicted = [] := by
  have hrp : (removeStale s now).pending = some p := by rw [(removeStale_frame s now).2.2.2.2]; exact hp
  have h := tickRest_timeout (removeStale s now) now p e hrp he hn
  rw [(removeStale_frame s now).2.1, (removeStale_frame s now).2.2.1] at h
  exact h

/-- the only source of a Timeout answer -/
theorem processPending_no_timeout (s : St) (now : Int) : (processPending s now).2.reply ≠ some .timeout := by
  unfold processPending
  split
  · simp [Out.none]
  · rename_i p hp
    split
    · split
      · rename_i sn hf
        rcases evictWrite_reply { s with pending := none } p.key p.val p.ts now sn with h | h <;> simp [h]
      · simp only [entOut]
        rcases entWrite_reply { s with pending := none } p.key p.val p.ts now with h | h <;> simp [h]
    · simp [Out.none]

theorem methodWrite_no_timeout (s : St) (k : Nat) (v : Int) (ts now : Int) :
    (methodWrite s k v ts now).2.reply ≠ some .timeout := by
  intro h
  simp only [methodWrite] at h
  cases hf : fullFront s k with
  | none =>
    simp only [hf, entOut] at h
    rcases entWrite_reply s k v ts now with hc | hc <;> simp [hc] at h
  | some sn =>
    simp only [hf] at h
    by_cases hb : (s.qos.reliable && !(isAcked s sn)) = true
    · rw [if_pos hb] at h
      split at h <;> simp [Out.none] at h
    · rw [if_neg hb] at h
      rcases evictWrite_reply s k v ts now sn with hc | hc <;> simp [hc] at h

/-- C27 (no early and no spurious Timeout): a step answers Timeout ONLY if it is a worker iteration, a write is
    parked, its expiration is finite and the clock of that iteration has reached it. In particular every
    iteration before start + max_blocking_time leaves the write parked or completes it, and a write with
    infinite max_blocking_time never times out. -/
theorem C27_timeout_only_at_expiry (s : St) (e : Ev) (h : (step s e).2.reply = some .timeout) :
    ∃ now p ex, e = .tick now ∧ s.pending = some p ∧ p.expiration = some ex ∧ now ≥ ex := by
  cases e with
  | write k v ts now => exact absurd h (methodWrite_no_timeout _ k v ts now)
  | acknack rid base set count now =>
    exfalso
    simp only [step, onAcknack] at h
    exact processPending_no_timeout _ now h
  | tick now =>
    simp only [step, tick, tickRest] at h
    have hpp := processPending_no_timeout (checkTimeout (removeStale s now) now).1 now
    cases hc : (checkTimeout (removeStale s now) now).2 with
    | none => rw [hc] at h; simp only [pickReply] at h; exact absurd h hpp
    | some r =>
      unfold checkTimeout at hc
      rw [(removeStale_frame s now).2.2.2.2] at hc
      cases hp : s.pending with
      | none => simp [hp] at hc
      | some p =>
        simp only [hp] at hc
        cases hx : p.expiration with
        | none => simp [hx] at hc
        | some ex =>
          simp only [hx] at hc
          by_cases hn : now ≥ ex
          · exact ⟨now, p, ex, rfl, rfl, hx, hn⟩
          · simp [hn] at hc
  | matchReader rid rel tl => simp [step, Out.none] at h
  | unregister k ts now => simp [step] at h

/-- C27 (Ok only after acknowledgement): when process_pending_write_samples completes a parked write (any answer),
    either the instance is no longer full, or the writer is not RELIABLE, or the oldest sample of the instance has
    been acknowledged by every matched reliable reader -/
theorem C27_ok_only_after_ack (s : St) (now : Int) (p : Pending) (hp : s.pending = some p)
    (h : (processPending s now).2.reply ≠ none) :
    ∀ sn, fullFront s p.key = some sn → s.qos.reliable = true →
      ∀ x ∈ s.proxies, x.reliable = true → sn ≤ x.highestAcked := by
  intro sn hf hr
  rw [← isAckedBy_true_iff]
  simp only [processPending, hp] at h
  by_cases hcw : canWrite s p.key = true
  · unfold canWrite at hcw
    rw [hf] at hcw
    simpa [hr, isAcked] using hcw
  · rw [if_neg hcw] at h
    simp [Out.none] at h

theorem methodWrite_pending_kept (s : St) (k : Nat) (v : Int) (ts now : Int) (p : Pending) (hp : s.pending = some p)
    (h : (methodWrite s k v ts now).2.reply = none) : (methodWrite s k v ts now).1.pending = some p := by
  simp only [methodWrite] at h ⊢
  cases hf : fullFront s k with
  | none => simp [hf, entOut] at h
  | some sn =>
    simp only [hf] at h ⊢
    by_cases hb : (s.qos.reliable && !(isAcked s sn)) = true
    · rw [if_pos hb] at h ⊢
      simp [hp] at h
    · rw [if_neg hb] at h
      rcases evictWrite_reply s k v ts now sn with hc | hc <;> simp [hc] at h

theorem processPending_pending_kept (s : St) (now : Int) (p : Pending) (hp : s.pending = some p)
    (h : (processPending s now).2.reply = none) : (processPending s now).1.pending = some p := by
  simp only [processPending, hp] at h ⊢
  split at h
  · split at h
    · rename_i sn _
      rcases evictWrite_reply { s with pending := none } p.key p.val p.ts now sn with hc | hc <;> simp [hc] at h
    · simp [entOut] at h
  · rename_i hcw; rw [if_neg hcw]; exact hp

/-- a parked write stays parked, unchanged, until the step that answers it -/
theorem C27_pending_kept (s : St) (e : Ev) (p : Pending) (hp : s.pending = some p)
    (h : (step s e).2.reply = none) : (step s e).1.pending = some p := by
  have hrp : ∀ now, (removeStale s now).pending = some p := by
    intro now; rw [(removeStale_frame s now).2.2.2.2]; exact hp
  cases e with
  | write k v ts now => exact methodWrite_pending_kept _ k v ts now p (hrp now) h
  | acknack rid base set count now =>
    simp only [step, onAcknack] at h ⊢
    exact processPending_pending_kept _ now p (hrp now) h
  | tick now =>
    simp only [step, tick, tickRest] at h ⊢
    rw [(poke_frame _ now).2.2.2.1]
    cases hc2 : (checkTimeout (removeStale s now) now).2 with
    | some r => rw [hc2] at h; simp [pickReply] at h
    | none =>
      rw [hc2] at h
      simp only [pickReply] at h
      have hc1 : (checkTimeout (removeStale s now) now).1 = removeStale s now := by
        unfold checkTimeout at hc2 ⊢
        rw [hrp now] at hc2 ⊢
        simp only at hc2 ⊢
        split at hc2
        · rfl
        · split at hc2
          · simp at hc2
          · rename_i hh; simp [hh]
      rw [hc1] at h ⊢
      exact processPending_pending_kept _ now p (hrp now) h
  | matchReader rid rel tl => simp [step, matchReader, hp]
  | unregister k ts now =>
    simp only [step]
    rw [(unregisterW_frame _ k ts now).2.1]; exact hrp now

/-- C27 (the expiry of a blocked write is taken from the CLOCK, whatever the source timestamp): a write that has
    to wait at clock value `now` with max_blocking_time `b` is answered Timeout by a worker iteration at time `t`
    exactly when `t >= now + b` - for EVERY source timestamp `ts` (past, present or future) of the sample -/
theorem C27_timeout_any_timestamp (s : St) (k : Nat) (v : Int) (ts now b : Int) (sn : Nat)
    (hf : fullFront s k = some sn) (hr : s.qos.reliable = true) (hu : isAcked s sn = false) (hp : s.pending = none)
    (hb : s.qos.maxBlocking = some b) (t : Int) :
    (tick (methodWrite s k v ts now).1 t).2.reply = some .timeout ↔ t ≥ now + b := by
  have hs := (C27_blocks s k v ts now sn hf hr hu hp).2.2.2
  have hpend : (methodWrite s k v ts now).1.pending
      = some { key := k, val := v, ts := ts, expiration := some (now + b) } := by
    rw [hs]; simp [expirationOf, hb]
  constructor
  · intro h
    obtain ⟨t', p, ex, he, hp', hx, hge⟩ := C27_timeout_only_at_expiry (methodWrite s k v ts now).1 (.tick t) h
    cases he
    rw [hpend] at hp'
    cases hp'
    cases hx
    exact hge
  · intro h
    exact (C27_timeout_at_expiry _ t _ (now + b) hpend rfl h).1

/-- C27 (an instance that is unregistered while a write on it is parked): the parked write still waits for the
    acknowledgement of the oldest sample - the instance entry and its samples stay, `fullFront` does not look at the
    registration flag - so unregister_instance + worker iteration neither answers the write nor evicts anything -/
theorem C27_unregister_keeps_blocking (s : St) (p : Pending) (sn : Nat) (ts now t : Int)
    (hp : s.pending = some p) (hf : fullFront s p.key = some sn) (hr : s.qos.reliable = true)
    (hu : isAcked s sn = false) (hlife : s.qos.lifespan = none)
    (hex : ∀ e, p.expiration = some e → t < e) :
    (tick (step s (.unregister p.key ts now)).1 t).2.reply = none ∧
    (tick (step s (.unregister p.key ts now)).1 t).2.evicted = [] := by
  have hrs : ∀ x, removeStale s x = s := by intro x; simp [removeStale, hlife]
  have hstep : (step s (.unregister p.key ts now)).1 = (unregisterW s p.key ts now).1 := by
    simp only [step, hrs]
  rw [hstep]
  have hu' := unregisterW_frame s p.key ts now
  generalize hs' : (unregisterW s p.key ts now).1 = s' at hu'
  obtain ⟨hq, hpend, hack, hins⟩ := hu'
  have hff : fullFront s' p.key = some sn := by
    obtain ⟨d, i, hd, hi, hlen, hhead⟩ := fullFront_some hf
    rcases hins with hi' | hi'
    · unfold fullFront; rw [hq, hd, hi', hi]; simp [hlen, hhead]
    · have hfc : findInst p.key (clearReg p.key s.insts) = some { i with registered := false } := by
        have : ∀ l : List Inst, ∀ j, findInst p.key l = some j →
            findInst p.key (clearReg p.key l) = some { j with registered := false } := by
          intro l
          induction l with
          | nil => intro j hj; simp [findInst] at hj
          | cons x xs ih =>
            intro j hj
            simp only [findInst] at hj
            simp only [clearReg]
            split
            · rename_i hk
              simp only [hk, if_true, Option.some.injEq] at hj
              subst hj; simp [findInst, hk]
            · rename_i hk
              simp only [hk, if_false] at hj
              simp [findInst, hk, ih j hj]
        exact this _ _ hi
      unfold fullFront; rw [hq, hd, hi', hfc]; simp [hlen, hhead]
  have hrs' : removeStale s' t = s' := by simp [removeStale, hq, hlife]
  have hct : checkTimeout s' t = (s', none) := by
    unfold checkTimeout
    rw [hpend, hp]
    simp only
    cases hx : p.expiration with
    | none => rfl
    | some e =>
      have := hex e hx
      simp only
      rw [if_neg (by omega)]
  have hcw : canWrite s' p.key = false := by
    unfold canWrite
    rw [hff, hq, hr]
    simp only [Bool.not_true, Bool.false_or]
    show isAckedBy s'.proxies sn = false
    rw [hack]; exact hu
  have hpp : processPending s' t = (s', Out.none) := by
    simp [processPending, hpend, hp, hcw]
  simp [tick, tickRest, hrs', hct, hpp, pickReply, Out.none]

/-- non-vacuity / regression witness: KEEP_LAST(1), RELIABLE, max_blocking 130 ms, one reliable reader that has
    acknowledged nothing: the second write to the instance is parked, an iteration at +100 ms leaves it parked, the
    iteration at +130 ms answers Timeout and the instance still holds exactly sample 1; after an ACKNACK(base=2)
    the same write goes through and evicts sample 1 -/
def exQ : Qos :=
  { depth := some 1, reliable := true, maxBlocking := some 130000000, maxSamples := none, maxInstances := none,
    maxSpi := none, lifespan := none }
def exS1 : St := (step (step (St.init exQ) (.matchReader 0 true false)).1 (.write 7 10 0 0)).1

example : (step exS1 (.write 7 11 0 0)).2.reply = none ∧
    (step (step exS1 (.write 7 11 0 0)).1 (.tick 100000000)).2.reply = none ∧
    (step (step (step exS1 (.write 7 11 0 0)).1 (.tick 100000000)).1 (.tick 130000000)).2.reply = some .timeout ∧
    (step (step (step exS1 (.write 7 11 0 0)).1 (.tick 100000000)).1 (.tick 130000000)).1.insts = [{ key := 7, samples := [1] }] ∧
    (step (step exS1 (.write 7 11 0 0)).1 (.acknack 0 2 [] 1 50000000)).2.reply = some .ok ∧
    (step (step exS1 (.write 7 11 0 0)).1 (.acknack 0 2 [] 1 50000000)).2.evicted = [1] ∧
    (step (step exS1 (.write 7 11 0 0)).1 (.acknack 0 2 [] 1 50000000)).1.insts = [{ key := 7, samples := [2] }] := by
  decide

/-- the hypotheses of C27_blocks are satisfiable (the state above) -/
example : fullFront exS1 7 = some 1 ∧ exS1.qos.reliable = true ∧ isAcked exS1 1 = false ∧ exS1.pending = none := by
  decide

/-- the same for a write that is NOT answered: before now + b every iteration leaves it parked (or completes it
    after an acknowledgement), it never times out early because its source timestamp is old -/
example : (step (step exS1 (.write 7 11 (-5000000000) 0)).1 (.tick 100000000)).2.reply = none ∧
    (step (step exS1 (.write 7 11 (-5000000000) 0)).1 (.tick 130000000)).2.reply = some .timeout ∧
    (step (step exS1 (.write 7 11 5000000000 0)).1 (.tick 130000000)).2.reply = some .timeout := by decide

end DustVerif.Wrt
