import DustVerif.Model.HandleE2E
/-! Property C11, end-to-end part: the handle the reader derives for a received change equals the handle the writer
    assigned to the sample, whether or not the key hash travels in the message.  Model: `Model/HandleE2E.lean`
    (communication_methods.rs:218-276).  The data model is a parameter: the statement needs exactly the two round-trip
    laws (full sample, key) that C09 is about and is independent of what the key hash is (C12). -/
namespace DustVerif.HandleE2E

variable {Sample Key Bytes Handle : Type}

/-- C11 (reader choice): for EVERY sample, every change kind, with or without the key hash in the message, the handle
    the reader derives is the handle the writer assigned — given that decoding what was encoded gives it back
    (`deFull ∘ serFull = some`, `deKey ∘ serKey = some`) -/
theorem C11_reader_choice_agrees (c : Codec Sample Key Bytes Handle)
    (hfull : ∀ s, c.deFull (c.serFull s) = some s) (hkey : ∀ k, c.deKey (c.serKey k) = some k)
    (s : Sample) (k : Kind) (withHash : Bool) :
    readerHandle c (writerChange c s k withHash) = some (writerHandle c s) := by
  unfold readerHandle writerChange
  cases withHash with
  | true => simp
  | false =>
    cases hk : k.isAlive with
    | true => simp [hk, hfull]
    | false => simp [hk, hkey, writerHandle]

/-- consequence: two samples get the same handle at the reader exactly when they do at the writer — in particular
    equal keys share a handle, and (for an injective key hash) different keys do not -/
theorem C11_reader_handles_equal_iff (c : Codec Sample Key Bytes Handle)
    (hfull : ∀ s, c.deFull (c.serFull s) = some s) (hkey : ∀ k, c.deKey (c.serKey k) = some k)
    (s1 s2 : Sample) (k1 k2 : Kind) (w1 w2 : Bool) :
    (readerHandle c (writerChange c s1 k1 w1) = readerHandle c (writerChange c s2 k2 w2)) ↔
    writerHandle c s1 = writerHandle c s2 := by
  rw [C11_reader_choice_agrees c hfull hkey, C11_reader_choice_agrees c hfull hkey]
  constructor
  · intro h; injection h
  · intro h; rw [h]

/-- the seeded variant agrees whenever the key hash is present or the payload IS a serialised key … -/
theorem C11_keyholder_only_partial (c : Codec Sample Key Bytes Handle)
    (hkey : ∀ k, c.deKey (c.serKey k) = some k) (s : Sample) (k : Kind) (withHash : Bool)
    (h : withHash = true ∨ k.isAlive = false) :
    readerHandleKeyHolderOnly c (writerChange c s k withHash) = some (writerHandle c s) := by
  unfold readerHandleKeyHolderOnly writerChange
  rcases h with h | h
  · simp [h]
  · cases withHash <;> simp [h, hkey, writerHandle]

/-- … and fails for an ALIVE change without key hash of a type whose key is not the first member: for
    `bk = {value: bytes, #[key] id: i32}`, id 7 and a one-byte value the key-holder decoder reads the sequence length 1
    as the key (handle 00 00 00 01 …) while the writer's handle is 00 00 00 07 …; the coded choice gets 07 -/
theorem C11_keyholder_only_counterexample :
    let t := [Member.mk "value" .bytes false, Member.mk "id" .i32 true]
    let c := codecOf t
    let s := sampleOf t 7 1
    writerHandle c s = [0, 0, 0, 7, 0, 0, 0, 0, 0, 0, 0, 0, 0, 0, 0, 0] ∧
    readerHandle c (writerChange c s .alive false) = some [0, 0, 0, 7, 0, 0, 0, 0, 0, 0, 0, 0, 0, 0, 0, 0] ∧
    readerHandleKeyHolderOnly c (writerChange c s .alive false) = some [0, 0, 0, 1, 0, 0, 0, 0, 0, 0, 0, 0, 0, 0, 0, 0] := by
  decide +kernel

/-- round trip of one concrete sample of a test type (Bool, for `decide`) -/
def roundTrips (n : String) (id : Int) (len : Nat) : Bool :=
  match typeOf n with
  | some t =>
    let c := codecOf t
    let s := sampleOf t id len
    c.deFull (c.serFull s) == some s && c.deKey (c.serKey (c.keyOf s)) == some (c.keyOf s)
  | none => false

def handleOfType (n : String) (id : Int) (len : Nat) : List Nat :=
  match typeOf n with
  | some t => writerHandle (codecOf t) (sampleOf t id len)
  | none => []

/-- non-vacuity: the executable instance meets the round-trip hypotheses on concrete samples of every test type
    (the general round trip is C09), and the two-key type hashes both keys: a = 5, b = kkB 5 = 16 -/
example :
    ["ki", "kb", "ni", "nb", "bk", "kk"].all (fun n => roundTrips n (-3) 5) = true ∧
    handleOfType "kk" 5 3 = [0, 0, 0, 5, 0, 16, 0, 0, 0, 0, 0, 0, 0, 0, 0, 0] ∧
    handleOfType "bk" (-1) 9 = [255, 255, 255, 255, 0, 0, 0, 0, 0, 0, 0, 0, 0, 0, 0, 0] := by
  decide +kernel

/-! ### pending (blocked) samples: the handle is a function of the sample alone -/

variable {M : Type}

/-- C11 (pending samples): in one pass of `process_pending_write_samples` over ANY list of writers, the handle computed
    for a writer's pending sample is exactly the handle a direct write of that sample gets — whatever the other writers
    have pending -/
theorem C11_pending_handle_independent (p : PendingModel Sample M Handle) (ws : List (Option Sample)) :
    pendingHandles p ws = ws.map (Option.map (directHandle p)) := by
  induction ws with
  | nil => rfl
  | cons w ws ih =>
    cases w with
    | none => simp [pendingHandles, ih]
    | some s => simp [pendingHandles, ih, directHandle]

/-- the seeded variant agrees only up to and including the FIRST writer with a pending sample … -/
theorem C11_pending_shared_partial (p : PendingModel Sample M Handle) (n : Nat) (s : Sample)
    (rest : List (Option Sample)) :
    (pendingHandlesShared p (List.replicate n none ++ some s :: rest) []).take (n + 1) =
      List.replicate n none ++ [some (directHandle p s)] := by
  induction n with
  | zero => simp [pendingHandlesShared, directHandle]
  | succ n ih =>
    simp only [List.replicate_succ, List.cons_append, pendingHandlesShared, List.take_succ_cons]
    rw [ih]

/-- … and gives the SECOND pending writer a handle built from both writers' key members: two writers of type `ki`
    blocked on key 9 — the second sample's handle is 00000009 00000009 00… instead of 00000009 00… (what the replay
    on the real code with seed_C11_c shows byte for byte); as coded both get 00000009 00… -/
theorem C11_pending_shared_counterexample :
    let t := [Member.mk "id" .i32 true, Member.mk "value" .i32 false]
    let s1 : List Member × List Val := (t, [.int 9, .int 1])
    let s2 : List Member × List Val := (t, [.int 9, .int 2])
    pendingHandles pendingModelOf [some s1, none, some s2] =
      [some [0, 0, 0, 9, 0, 0, 0, 0, 0, 0, 0, 0, 0, 0, 0, 0], none, some [0, 0, 0, 9, 0, 0, 0, 0, 0, 0, 0, 0, 0, 0, 0, 0]] ∧
    pendingHandlesShared pendingModelOf [some s1, none, some s2] [] =
      [some [0, 0, 0, 9, 0, 0, 0, 0, 0, 0, 0, 0, 0, 0, 0, 0], none, some [0, 0, 0, 9, 0, 0, 0, 9, 0, 0, 0, 0, 0, 0, 0, 0]] := by
  decide +kernel

end DustVerif.HandleE2E
