import DustVerif.Proofs.WrtSteps
/-! Property C29: a sample whose source timestamp plus the writer's lifespan lies in the past is never put on the
    wire: not as a first transmission, not as a repair after a NACK, not as history for a late-joining reader.
    (Interpretation of DESIGN.md §5 C29: "delivered" = emitted by the writer at a time >= source timestamp +
    lifespan; the reader keeps no lifespan state, and dsim delivers a datagram at the instant it is sent.)
    `step` is the worker of /repo main (purge before every mail, repair of D34); `stepAsIs` the pinned one.
    All theorems quantify over every state / event list of Model/WriterEnt.lean. -/
namespace DustVerif.Wrt

/-- no stored SAMPLE (ALIVE change) has expired at time `now` (strict, as in remove_stale_writer_samples). The
    key-only NOT_ALIVE change of unregister_instance carries no sample; it is purged like the others, but
    unregister_instance_w_timestamp does not test its stamp against the lifespan when it is sent. -/
def FreshAt (s : St) (now : Int) : Prop :=
  ∀ l, s.qos.lifespan = some l → ∀ c ∈ s.changes, c.alive = true → c.ts + l > now

/-- every DATA submessage of the datagrams carries a change that has not expired at time `now` -/
def FreshData (q : Qos) (now : Int) (ds : List Dgram) : Prop :=
  ∀ l, q.lifespan = some l → ∀ c ∈ dataOf ds, c.alive = true → c.ts + l > now

theorem freshData_nil (q : Qos) (now : Int) : FreshData q now [] := by
  intro l _ c hc; simp [dataOf] at hc

theorem freshData_append {q : Qos} {now : Int} {a b : List Dgram} (ha : FreshData q now a) (hb : FreshData q now b) :
    FreshData q now (a ++ b) := by
  intro l hl c hc
  rw [dataOf_append, List.mem_append] at hc
  rcases hc with h | h
  · exact ha l hl c h
  · exact hb l hl c h

/-- whatever is sent from a fresh history is fresh -/
theorem freshData_of_subset {s : St} {now : Int} {ds : List Dgram} (hf : FreshAt s now)
    (h : ∀ c ∈ dataOf ds, c ∈ s.changes) : FreshData s.qos now ds := by
  intro l hl c hc; exact hf l hl c (h c hc)

theorem removeStale_fresh (s : St) (now : Int) : FreshAt (removeStale s now) now := by
  intro l hl c hc
  unfold removeStale at hl hc
  split at hc
  · rename_i h; simp [h] at hl
  · rename_i l' h
    have : l = l' := by simpa [h] using hl.symm
    subst this
    simp only [List.mem_filter, freshAt, decide_eq_true_eq] at hc
    exact fun _ => hc.2

theorem evict_fresh (s : St) (k sn : Nat) (now : Int) (h : FreshAt s now) : FreshAt (evict s k sn) now := by
  intro l hl c hc
  simp only [evict, removeChange, List.mem_filter] at hc
  exact h l hl c hc.1

theorem entWrite_fresh (s : St) (k : Nat) (v : Int) (ts now : Int) (h : FreshAt s now) :
    FreshAt (entWrite s k v ts now).1 now ∧ FreshData s.qos now (entWrite s k v ts now).2.2 := by
  rcases entWrite_cases s k v ts now with hc | hc
  · refine ⟨by rw [hc.2.2.1]; exact h, by rw [hc.2.1]; exact freshData_nil _ _⟩
  · obtain ⟨_, hq, _, _, _, _, _, hx⟩ := hc
    rcases hx with ⟨_, hd, hch, _⟩ | ⟨hne, hch, _, hd⟩
    · refine ⟨?_, by rw [hd]; exact freshData_nil _ _⟩
      intro l hl c hm
      rw [hq] at hl; rw [hch] at hm
      exact h l hl c hm
    · have hfresh : FreshAt (entWrite s k v ts now).1 now := by
        intro l hl c hm
        rw [hq] at hl; rw [hch] at hm
        simp only [List.mem_append, List.mem_singleton] at hm
        rcases hm with hm | hm
        · exact h l hl c hm
        · subst hm
          simp only [expiredAtWrite, hl, decide_eq_false_iff_not] at hne
          intro _
          simp only; omega
      refine ⟨hfresh, ?_⟩
      intro l hl c hm
      rw [hd] at hm
      have := writeMessageAll_data _ now s.proxies c hm
      rw [← hch] at this
      exact hfresh l (by rw [hq]; exact hl) c this

theorem evictWrite_fresh (s : St) (k : Nat) (v : Int) (ts now : Int) (sn : Nat) (h : FreshAt s now) :
    FreshAt (evictWrite s k v ts now sn).1 now ∧ FreshData s.qos now (evictWrite s k v ts now sn).2.dgrams := by
  unfold evictWrite
  split
  · exact ⟨h, freshData_nil _ _⟩
  · simp only [entOut]
    exact entWrite_fresh (evict s k sn) k v ts now (evict_fresh s k sn now h)

theorem methodWrite_fresh (s : St) (k : Nat) (v : Int) (ts now : Int) (h : FreshAt s now) :
    FreshAt (methodWrite s k v ts now).1 now ∧ FreshData s.qos now (methodWrite s k v ts now).2.dgrams := by
  unfold methodWrite
  split
  · rename_i sn hff
    split
    · split
      · exact ⟨h, freshData_nil _ _⟩
      · exact ⟨h, freshData_nil _ _⟩
    · exact evictWrite_fresh s k v ts now sn h
  · simp only [entOut]
    exact entWrite_fresh s k v ts now h

theorem processPending_fresh (s : St) (now : Int) (h : FreshAt s now) :
    FreshAt (processPending s now).1 now ∧ FreshData s.qos now (processPending s now).2.dgrams := by
  unfold processPending
  split
  · exact ⟨h, freshData_nil _ _⟩
  · rename_i p hp
    split
    · split
      · rename_i sn hff
        exact evictWrite_fresh { s with pending := none } p.key p.val p.ts now sn h
      · simp only [entOut]
        exact entWrite_fresh { s with pending := none } p.key p.val p.ts now h
    · exact ⟨h, freshData_nil _ _⟩

theorem poke_fresh (s : St) (now : Int) (h : FreshAt s now) :
    FreshAt (poke s now).1 now ∧ FreshData s.qos now (poke s now).2 := by
  refine ⟨h, ?_⟩
  exact freshData_of_subset h (by simpa [poke] using writeMessageAll_data s.changes now s.proxies)

theorem tickRest_fresh (s : St) (now : Int) (h : FreshAt s now) :
    FreshAt (tickRest s now).1 now ∧ FreshData s.qos now (tickRest s now).2.dgrams := by
  have hc := checkTimeout_frame s now
  have h1 : FreshAt (checkTimeout s now).1 now := by
    intro l hl c hm; rw [hc.1] at hl; rw [hc.2.2.2.2] at hm; exact h l hl c hm
  have h2 := processPending_fresh _ now h1
  have h3 := poke_fresh _ now h2.1
  have hq : (processPending (checkTimeout s now).1 now).1.qos = s.qos := by rw [processPending_qos, hc.1]
  rw [hc.1] at h2
  rw [hq] at h3
  exact ⟨h3.1, freshData_append h2.2 h3.2⟩

/-- C29 (worker iteration): whatever the state and the clock, everything one worker iteration puts on the wire -
    the first transmission of a parked write, the history for a reader matched since the last iteration, repairs
    left in `requested_changes`, heartbeat-driven resends - carries unexpired changes, and the history is fresh
    afterwards. (remove_stale_writer_samples runs before anything is sent in the iteration.) -/
theorem C29_tick_sends_fresh (s : St) (now : Int) :
    FreshData s.qos now (tick s now).2.dgrams ∧ FreshAt (tick s now).1 now := by
  have h := tickRest_fresh (removeStale s now) now (removeStale_fresh s now)
  rw [(removeStale_frame s now).1] at h
  exact ⟨h.2, h.1⟩

theorem ackProxies_data (cs : List Change) (now : Int) (rid base : Nat) (set : List Nat) (count : Nat) :
    ∀ (ps : List Proxy), ∀ c ∈ dataOf (ackProxies cs now rid base set count ps).2, c ∈ cs := by
  intro ps
  induction ps with
  | nil => intro c hc; simp [ackProxies, dataOf] at hc
  | cons p ps ih =>
    intro c hc
    simp only [ackProxies] at hc
    split at hc
    · simp only [ackProxy] at hc
      split at hc
      · exact writeMessageReliable_data cs now _ c hc
      · simp [dataOf] at hc
    · exact ih c hc

theorem onAcknack_fresh (s : St) (rid base : Nat) (set : List Nat) (count : Nat) (now : Int) (h : FreshAt s now) :
    FreshAt (onAcknack s rid base set count now).1 now ∧
    FreshData s.qos now (onAcknack s rid base set count now).2.dgrams := by
  have h1 : FreshAt { s with proxies := (ackProxies s.changes now rid base set count s.proxies).1 } now := h
  have h2 := processPending_fresh _ now h1
  simp only [onAcknack]
  refine ⟨h2.1, freshData_append ?_ h2.2⟩
  exact freshData_of_subset h (ackProxies_data s.changes now rid base set count s.proxies)

/-- unregister_instance on a fresh history: the only new change is the key-only NOT_ALIVE one -/
theorem unregisterW_fresh (s : St) (k : Nat) (ts now : Int) (h : FreshAt s now) :
    FreshAt (unregisterW s k ts now).1 now ∧ FreshData s.qos now (unregisterW s k ts now).2.2 := by
  unfold unregisterW
  split
  · have hfresh : FreshAt (addChange { s with insts := clearReg k s.insts, lastSn := s.lastSn + 1 }
        { sn := s.lastSn + 1, key := k, val := 0, ts := ts, alive := false } now).1 now := by
      intro l hl c hm ha
      simp only [addChange, List.mem_append, List.mem_singleton] at hl hm
      rcases hm with hm | hm
      · exact h l hl c hm ha
      · subst hm; cases ha
    refine ⟨hfresh, ?_⟩
    intro l hl c hm ha
    have hin := writeMessageAll_data _ now _ c (by simpa [addChange] using hm)
    exact hfresh l (by simpa [addChange] using hl) c (by simpa [addChange] using hin) ha
  · exact ⟨h, freshData_nil _ _⟩

/-- handling a mail on a history in which nothing has expired sends nothing expired (used for both workers) -/
theorem mail_sends_fresh (s : St) (t : Int) (h : FreshAt s t) :
    (∀ k v ts, FreshData s.qos t (methodWrite s k v ts t).2.dgrams ∧ FreshAt (methodWrite s k v ts t).1 t) ∧
    (∀ rid base set count, FreshData s.qos t (onAcknack s rid base set count t).2.dgrams ∧
      FreshAt (onAcknack s rid base set count t).1 t) :=
  ⟨fun k v ts => ⟨(methodWrite_fresh s k v ts t h).2, (methodWrite_fresh s k v ts t h).1⟩,
   fun rid base set count => ⟨(onAcknack_fresh s rid base set count t h).2, (onAcknack_fresh s rid base set count t h).1⟩⟩

/-- C29 (one step, worker of /repo main): whatever the state and whatever the time at which a write call, an
    ACKNACK or a worker iteration is handled - late timers included - nothing expired is sent while handling it
    (first transmission, repair after a NACK, history for a reader matched earlier) and the history is fresh
    afterwards. (remove_stale_writer_samples runs before the mail is handled, repair 5f97ba4 / D34.) -/
theorem C29_step_sends_fresh (s : St) (e : Ev) (t : Int) (ht : e.now = some t) :
    FreshData s.qos t (step s e).2.dgrams ∧ FreshAt (step s e).1 t := by
  have hq := (removeStale_frame s t).1
  have hm := mail_sends_fresh (removeStale s t) t (removeStale_fresh s t)
  rw [hq] at hm
  cases e with
  | write k v ts now =>
    have : now = t := by simpa [Ev.now] using ht
    subst this
    exact hm.1 k v ts
  | acknack rid base set count now =>
    have : now = t := by simpa [Ev.now] using ht
    subst this
    exact hm.2 rid base set count
  | tick now =>
    have : now = t := by simpa [Ev.now] using ht
    subst this
    exact C29_tick_sends_fresh s now
  | matchReader rid rel tl => simp [Ev.now] at ht
  | unregister k ts now =>
    have : now = t := by simpa [Ev.now] using ht
    subst this
    have hu := unregisterW_fresh (removeStale s now) k ts now (removeStale_fresh s now)
    rw [hq] at hu
    exact ⟨hu.2, hu.1⟩

/-- every event of the run sends only changes that have not expired at the time of that event -/
def SendsFresh : St → List Ev → Prop
  | _, [] => True
  | s, e :: es => (∀ t, e.now = some t → FreshData s.qos t (step s e).2.dgrams) ∧ SendsFresh (step s e).1 es

/-- C29 (full statement, worker of /repo main): NO event list - whatever the writes, ACKNACKs, matches, worker
    iterations and their times, late timers included - makes the writer send a change whose source timestamp +
    lifespan lies at or before the time of sending: first transmission, repair, history for a late joiner -/
theorem C29_no_expired_send (s : St) (evs : List Ev) : SendsFresh s evs := by
  induction evs generalizing s with
  | nil => trivial
  | cons e es ih => exact ⟨fun t ht => (C29_step_sends_fresh s e t ht).1, ih _⟩

/-- C29 (expired at write): a sample that is already expired when it is written consumes a sequence number but is
    neither stored in the RTPS history nor sent -/
theorem C29_expired_at_write_not_sent (s : St) (k : Nat) (v : Int) (ts now : Int)
    (hx : expiredAtWrite s.qos ts now = true) :
    (entWrite s k v ts now).2.2 = [] ∧ (entWrite s k v ts now).1.changes = s.changes := by
  rcases entWrite_cases s k v ts now with hc | hc
  · exact ⟨hc.2.1, by rw [hc.2.2.1]⟩
  · rcases hc.2.2.2.2.2.2.2 with he | he
    · exact ⟨he.2.1, he.2.2.1⟩
    · rw [hx] at he; cases he.1

-- ------------------------------------------------------------------------------------------- before the repair of D34

/-- runs of the worker of the pinned commit (`stepAsIs`: the mail is handled before the purge) -/
def runAsIs (s : St) : List Ev → St
  | [] => s
  | e :: es => runAsIs (stepAsIs s e).1 es

def SendsFreshAsIs : St → List Ev → Prop
  | _, [] => True
  | s, e :: es => (∀ t, e.now = some t → FreshData s.qos t (stepAsIs s e).2.dgrams) ∧ SendsFreshAsIs (stepAsIs s e).1 es

/-- the schedule hypothesis under which the pinned worker was correct: whenever a MAIL (write call or ACKNACK) is
    handled at time t, no stored change has reached its expiry, i.e. the stale-sample timer was never late -/
def Punctual : St → List Ev → Prop
  | _, [] => True
  | s, e :: es =>
    (match e with
     | .write _ _ _ now => FreshAt s now
     | .acknack _ _ _ _ now => FreshAt s now
     | .unregister _ _ now => FreshAt s now
     | _ => True) ∧ Punctual (stepAsIs s e).1 es

/-- what held before the repair: no expired change is sent along any PUNCTUAL event list -/
theorem C29_no_expired_send_asis_partial (s : St) (evs : List Ev) (h : Punctual s evs) : SendsFreshAsIs s evs := by
  induction evs generalizing s with
  | nil => trivial
  | cons e es ih =>
    obtain ⟨h1, h2⟩ := h
    refine ⟨?_, ih _ h2⟩
    intro t ht
    cases e with
    | write k v ts now =>
      have : now = t := by simpa [Ev.now] using ht
      subst this
      exact ((mail_sends_fresh s now h1).1 k v ts).1
    | acknack rid base set count now =>
      have : now = t := by simpa [Ev.now] using ht
      subst this
      exact ((mail_sends_fresh s now h1).2 rid base set count).1
    | tick now =>
      have : now = t := by simpa [Ev.now] using ht
      subst this
      exact (C29_tick_sends_fresh s now).1
    | matchReader rid rel tl => simp [Ev.now] at ht
    | unregister k ts now =>
      have : now = t := by simpa [Ev.now] using ht
      subst this
      exact (unregisterW_fresh s k ts now h1).2

/-- D34, regression witness (pinned commit): lifespan 1 s, a reliable reader, one sample written at t = 0 (its DATA
    is lost on the wire, which the writer cannot see); the reader's ACKNACK(base 1, set {1}) is handled at
    t = 1.05 s BEFORE the worker iteration of that instant (late timer): the pinned worker repairs DATA(sn 1) 50 ms
    after its expiry; the worker of /repo main answers the same ACKNACK with a GAP. -/
def d34Q : Qos :=
  { depth := none, reliable := true, maxBlocking := some 100000000, maxSamples := none, maxInstances := none,
    maxSpi := none, lifespan := some 1000000000 }
def d34Evs : List Ev := [.matchReader 0 true false, .write 1 10 0 0, .tick 0, .acknack 0 1 [1] 1 1050000000]

theorem C29_no_expired_send_asis_counterexample :
    ¬ SendsFreshAsIs (St.init d34Q) d34Evs ∧ ¬ Punctual (St.init d34Q) d34Evs ∧
    (∃ c ∈ dataOf (stepAsIs (runAsIs (St.init d34Q) (d34Evs.take 3)) (.acknack 0 1 [1] 1 1050000000)).2.dgrams,
      c.sn = 1 ∧ c.ts + 1000000000 ≤ 1050000000) ∧
    (step (run (St.init d34Q) (d34Evs.take 3)) (.acknack 0 1 [1] 1 1050000000)).2.dgrams
      = [{ reader := 0, subs := [.gap 1 2] }] := by
  have hw : (⟨1, 1, 10, 0, true⟩ : Change) ∈
      dataOf (stepAsIs (runAsIs (St.init d34Q) (d34Evs.take 3)) (.acknack 0 1 [1] 1 1050000000)).2.dgrams := by decide
  have hc : (⟨1, 1, 10, 0, true⟩ : Change) ∈ (runAsIs (St.init d34Q) (d34Evs.take 3)).changes := by decide
  refine ⟨?_, ?_, ⟨_, hw, rfl, by decide⟩, by decide⟩
  · intro h
    have h4 := h.2.2.2.1 1050000000 rfl 1000000000 rfl _ hw rfl
    simp at h4
  · intro h
    have h4 := h.2.2.2.1 1000000000 rfl _ hc rfl
    simp at h4

/-- non-vacuity: a late joiner after the expiry of the only stored sample gets a GAP and a heartbeat, no DATA; a
    sample that is still alive is sent to it (history) -/
example :
    dataOf (step (step (run (St.init d34Q) [.write 1 10 0 0, .tick 0]) (.matchReader 0 true true)).1 (.tick 1200000000)).2.dgrams = [] ∧
    dataOf (step (step (run (St.init d34Q) [.write 1 10 0 0, .tick 0]) (.matchReader 0 true true)).1 (.tick 900000000)).2.dgrams
      = [⟨1, 1, 10, 0, true⟩] := by decide

/-- C29 (all writers of the participant are purged): remove_stale_writer_samples of the participant leaves EVERY
    user writer with a fresh history, wherever it stands in the publisher / writer lists and whatever the lifespan
    (finite or infinite) of the writers before it -/
theorem C29_purge_reaches_every_writer (ws : List St) (now : Int) :
    ∀ w ∈ purgeWriters ws now, FreshAt w now := by
  intro w hw
  simp only [purgeWriters, List.mem_map] at hw
  obtain ⟨w0, _, rfl⟩ := hw
  exact removeStale_fresh w0 now

/-- non-vacuity: an idle writer with infinite lifespan in front does not shield the second writer's expired sample -/
example :
    ((purgeWriters [St.init { d34Q with lifespan := none }, run (St.init d34Q) [.write 1 10 0 0, .tick 0]] 1000000000).map
      (fun w => w.changes.length)) = [0, 0] := by decide

end DustVerif.Wrt
