import DustVerif.Proofs.WrtSteps
/-! Property C29: a sample whose source timestamp plus the writer's lifespan lies in the past is never put on the
    wire: not as a first transmission, not as a repair after a NACK, not as history for a late-joining reader.
    (Interpretation of DESIGN.md §5 C29: "delivered" = emitted by the writer at a time >= source timestamp +
    lifespan; the reader keeps no lifespan state, and dsim delivers a datagram at the instant it is sent.)
    All theorems quantify over every state / event list of Model/WriterEnt.lean. -/
namespace DustVerif.Wrt

/-- no stored change has expired at time `now` (strict, as in remove_stale_writer_samples) -/
def FreshAt (s : St) (now : Int) : Prop :=
  ∀ l, s.qos.lifespan = some l → ∀ c ∈ s.changes, c.ts + l > now

/-- every DATA submessage of the datagrams carries a change that has not expired at time `now` -/
def FreshData (q : Qos) (now : Int) (ds : List Dgram) : Prop :=
  ∀ l, q.lifespan = some l → ∀ c ∈ dataOf ds, c.ts + l > now

theorem freshData_nil (q : Qos) (now : Int) : FreshData q now [] := by
  intro l _ c hc; simp [dataOf] at hc

theorem freshData_append {q : Qos} {now : Int} {a b : List Dgram} (ha : FreshData q now a) (hb : FreshData q now b) :
    FreshData q now (a ++ b) := by
  intro l hl c hc
  rw [dataOf_append, List.mem_append] at hc
  rcases hc with h | h
  · exact ha l hl c h
  · exact hb l hl c h

/-- whatever is sent from a fresh history is fresh -/
theorem freshData_of_subset {s : St} {now : Int} {ds : List Dgram} (hf : FreshAt s now)
    (h : ∀ c ∈ dataOf ds, c ∈ s.changes) : FreshData s.qos now ds := by
  intro l hl c hc; exact hf l hl c (h c hc)

theorem removeStale_fresh (s : St) (now : Int) : FreshAt (removeStale s now) now := by
  intro l hl c hc
  unfold removeStale at hl hc
  split at hc
  · rename_i h; simp [h] at hl
  · rename_i l' h
    have : l = l' := by simpa [h] using hl.symm
    subst this
    simp only [List.mem_filter, freshAt, decide_eq_true_eq] at hc
    exact hc.2

theorem evict_fresh (s : St) (k sn : Nat) (now : Int) (h : FreshAt s now) : FreshAt (evict s k sn) now := by
  intro l hl c hc
  simp only [evict, removeChange, List.mem_filter] at hc
  exact h l hl c hc.1

theorem entWrite_fresh (s : St) (k : Nat) (v : Int) (ts now : Int) (h : FreshAt s now) :
    FreshAt (entWrite s k v ts now).1 now ∧ FreshData s.qos now (entWrite s k v ts now).2.2 := by
  rcases entWrite_cases s k v ts now with hc | hc
  · refine ⟨by rw [hc.2.2.1]; exact h, by rw [hc.2.1]; exact freshData_nil _ _⟩
  · obtain ⟨_, hq, _, _, _, _, _, hx⟩ := hc
    rcases hx with ⟨_, hd, hch, _⟩ | ⟨hne, hch, _, hd⟩
    · refine ⟨?_, by rw [hd]; exact freshData_nil _ _⟩
      intro l hl c hm
      rw [hq] at hl; rw [hch] at hm
      exact h l hl c hm
    · have hfresh : FreshAt (entWrite s k v ts now).1 now := by
        intro l hl c hm
        rw [hq] at hl; rw [hch] at hm
        simp only [List.mem_append, List.mem_singleton] at hm
        rcases hm with hm | hm
        · exact h l hl c hm
        · subst hm
          simp only [expiredAtWrite, hl, decide_eq_false_iff_not] at hne
          simp only; omega
      refine ⟨hfresh, ?_⟩
      intro l hl c hm
      rw [hd] at hm
      have := writeMessageAll_data _ now s.proxies c hm
      rw [← hch] at this
      exact hfresh l (by rw [hq]; exact hl) c this

theorem methodWrite_fresh (s : St) (k : Nat) (v : Int) (ts now : Int) (h : FreshAt s now) :
    FreshAt (methodWrite s k v ts now).1 now ∧ FreshData s.qos now (methodWrite s k v ts now).2.dgrams := by
  unfold methodWrite
  split
  · rename_i sn hff
    split
    · split
      · exact ⟨h, freshData_nil _ _⟩
      · exact ⟨h, freshData_nil _ _⟩
    · simp only [entOut]
      exact entWrite_fresh (evict s k sn) k v ts now (evict_fresh s k sn now h)
  · simp only [entOut]
    exact entWrite_fresh s k v ts now h

theorem processPending_fresh (s : St) (now : Int) (h : FreshAt s now) :
    FreshAt (processPending s now).1 now ∧ FreshData s.qos now (processPending s now).2.dgrams := by
  unfold processPending
  split
  · exact ⟨h, freshData_nil _ _⟩
  · rename_i p hp
    split
    · split
      · rename_i sn hff
        simp only [entOut]
        exact entWrite_fresh (evict { s with pending := none } p.key sn) p.key p.val p.ts now
          (evict_fresh { s with pending := none } p.key sn now h)
      · simp only [entOut]
        exact entWrite_fresh { s with pending := none } p.key p.val p.ts now h
    · exact ⟨h, freshData_nil _ _⟩

theorem poke_fresh (s : St) (now : Int) (h : FreshAt s now) :
    FreshAt (poke s now).1 now ∧ FreshData s.qos now (poke s now).2 := by
  refine ⟨h, ?_⟩
  exact freshData_of_subset h (by simpa [poke] using writeMessageAll_data s.changes now s.proxies)

theorem tickRest_fresh (s : St) (now : Int) (h : FreshAt s now) :
    FreshAt (tickRest s now).1 now ∧ FreshData s.qos now (tickRest s now).2.dgrams := by
  have hc := checkTimeout_frame s now
  have h1 : FreshAt (checkTimeout s now).1 now := by
    intro l hl c hm; rw [hc.1] at hl; rw [hc.2.2.2.2] at hm; exact h l hl c hm
  have h2 := processPending_fresh _ now h1
  have h3 := poke_fresh _ now h2.1
  have hq : (processPending (checkTimeout s now).1 now).1.qos = s.qos := by rw [processPending_qos, hc.1]
  rw [hc.1] at h2
  rw [hq] at h3
  exact ⟨h3.1, freshData_append h2.2 h3.2⟩

/-- C29 (worker iteration): whatever the state and the clock, everything one worker iteration puts on the wire -
    the first transmission of a parked write, the history for a reader matched since the last iteration, repairs
    left in `requested_changes`, heartbeat-driven resends - carries unexpired changes, and the history is fresh
    afterwards. (remove_stale_writer_samples runs before anything is sent in the iteration.) -/
theorem C29_tick_sends_fresh (s : St) (now : Int) :
    FreshData s.qos now (tick s now).2.dgrams ∧ FreshAt (tick s now).1 now := by
  have h := tickRest_fresh (removeStale s now) now (removeStale_fresh s now)
  rw [(removeStale_frame s now).1] at h
  exact ⟨h.2, h.1⟩

theorem ackProxies_data (cs : List Change) (now : Int) (rid base : Nat) (set : List Nat) (count : Nat) :
    ∀ (ps : List Proxy), ∀ c ∈ dataOf (ackProxies cs now rid base set count ps).2, c ∈ cs := by
  intro ps
  induction ps with
  | nil => intro c hc; simp [ackProxies, dataOf] at hc
  | cons p ps ih =>
    intro c hc
    simp only [ackProxies] at hc
    split at hc
    · simp only [ackProxy] at hc
      split at hc
      · exact writeMessageReliable_data cs now _ c hc
      · simp [dataOf] at hc
    · exact ih c hc

theorem onAcknack_fresh (s : St) (rid base : Nat) (set : List Nat) (count : Nat) (now : Int) (h : FreshAt s now) :
    FreshAt (onAcknack s rid base set count now).1 now ∧
    FreshData s.qos now (onAcknack s rid base set count now).2.dgrams := by
  have h1 : FreshAt { s with proxies := (ackProxies s.changes now rid base set count s.proxies).1 } now := h
  have h2 := processPending_fresh _ now h1
  simp only [onAcknack]
  refine ⟨h2.1, freshData_append ?_ h2.2⟩
  exact freshData_of_subset h (ackProxies_data s.changes now rid base set count s.proxies)

/-- C29 (one step): if no stored change has expired at the time an event is handled, nothing expired is sent while
    handling it - first transmission by `write`, repair after an ACKNACK, history at a match - and the history is
    still fresh afterwards -/
theorem C29_step_sends_fresh (s : St) (e : Ev) (t : Int) (ht : e.now = some t ∨ e.now = none) (h : FreshAt s t) :
    FreshData s.qos t (step s e).2.dgrams ∧ FreshAt (step s e).1 t := by
  cases e with
  | write k v ts now =>
    have : now = t := by simpa [Ev.now] using ht
    subst this
    exact ⟨(methodWrite_fresh s k v ts now h).2, (methodWrite_fresh s k v ts now h).1⟩
  | acknack rid base set count now =>
    have : now = t := by simpa [Ev.now] using ht
    subst this
    exact ⟨(onAcknack_fresh s rid base set count now h).2, (onAcknack_fresh s rid base set count now h).1⟩
  | tick now =>
    have : now = t := by simpa [Ev.now] using ht
    subst this
    exact C29_tick_sends_fresh s now
  | matchReader rid rel tl =>
    refine ⟨by simp only [step, Out.none]; exact freshData_nil _ _, ?_⟩
    intro l hl c hc
    simp only [step] at hl hc
    rw [(matchReader_frame s rid rel tl).1] at hl
    rw [(matchReader_frame s rid rel tl).2.2.2.2] at hc
    exact h l hl c hc

/-- the schedule hypothesis of the partial theorem: whenever a MAIL (write call or ACKNACK datagram) is handled at
    time t, no stored change has reached its expiry: the worker's timer, which is armed for the earliest expiry
    (time_until_stale_writer_sample), has fired - and remove_stale_writer_samples has run - before any mail is
    handled at or after that instant. Worker iterations and matches are unconstrained. -/
def Punctual : St → List Ev → Prop
  | _, [] => True
  | s, e :: es =>
    (match e with
     | .write _ _ _ now => FreshAt s now
     | .acknack _ _ _ _ now => FreshAt s now
     | _ => True) ∧ Punctual (step s e).1 es

/-- every event of the run sends only changes that have not expired at the time of that event -/
def SendsFresh : St → List Ev → Prop
  | _, [] => True
  | s, e :: es => (∀ t, e.now = some t → FreshData s.qos t (step s e).2.dgrams) ∧ SendsFresh (step s e).1 es

/-- C29 (partial: punctual stale-sample timer): along every event list in which no mail is handled at or after the
    expiry of a stored change before the worker iteration of that instant, no expired change is ever sent.
    Excluded: a late timer (D34), see `C29_no_expired_send_counterexample`. -/
theorem C29_no_expired_send_partial (s : St) (evs : List Ev) (h : Punctual s evs) : SendsFresh s evs := by
  induction evs generalizing s with
  | nil => trivial
  | cons e es ih =>
    obtain ⟨h1, h2⟩ := h
    refine ⟨?_, ih _ h2⟩
    intro t ht
    cases e with
    | write k v ts now =>
      have : now = t := by simpa [Ev.now] using ht
      subst this
      exact (C29_step_sends_fresh s _ now (Or.inl rfl) h1).1
    | acknack rid base set count now =>
      have : now = t := by simpa [Ev.now] using ht
      subst this
      exact (C29_step_sends_fresh s _ now (Or.inl rfl) h1).1
    | tick now =>
      have : now = t := by simpa [Ev.now] using ht
      subst this
      exact (C29_tick_sends_fresh s now).1
    | matchReader rid rel tl => simp [Ev.now] at ht

/-- C29 (expired at write): a sample that is already expired when it is written consumes a sequence number but is
    neither stored in the RTPS history nor sent -/
theorem C29_expired_at_write_not_sent (s : St) (k : Nat) (v : Int) (ts now : Int)
    (hx : expiredAtWrite s.qos ts now = true) :
    (entWrite s k v ts now).2.2 = [] ∧ (entWrite s k v ts now).1.changes = s.changes := by
  rcases entWrite_cases s k v ts now with hc | hc
  · exact ⟨hc.2.1, by rw [hc.2.2.1]⟩
  · rcases hc.2.2.2.2.2.2.2 with he | he
    · exact ⟨he.2.1, he.2.2.1⟩
    · rw [hx] at he; cases he.1

/-- D34, as-is: lifespan 1 s, a reliable reader, one sample written at t = 0 (its DATA is lost on the wire, which
    the writer cannot see); the reader's ACKNACK(base 1, set {1}) is handled at t = 1.05 s BEFORE the worker
    iteration of that instant (late timer): the writer repairs DATA(sn 1) 50 ms after its expiry. The run is not
    punctual; the unconditional statement "no event list sends an expired change" is false for the code as it is. -/
def d34Q : Qos :=
  { depth := none, reliable := true, maxBlocking := some 100000000, maxSamples := none, maxInstances := none,
    maxSpi := none, lifespan := some 1000000000 }
def d34Evs : List Ev := [.matchReader 0 true false, .write 1 10 0 0, .tick 0, .acknack 0 1 [1] 1 1050000000]

theorem C29_no_expired_send_counterexample :
    ¬ SendsFresh (St.init d34Q) d34Evs ∧ ¬ Punctual (St.init d34Q) d34Evs ∧
    (∃ c ∈ dataOf (step (run (St.init d34Q) (d34Evs.take 3)) (.acknack 0 1 [1] 1 1050000000)).2.dgrams,
      c.sn = 1 ∧ c.ts + 1000000000 ≤ 1050000000) := by
  have hw : (⟨1, 1, 10, 0⟩ : Change) ∈
      dataOf (step (run (St.init d34Q) (d34Evs.take 3)) (.acknack 0 1 [1] 1 1050000000)).2.dgrams := by decide
  have hc : (⟨1, 1, 10, 0⟩ : Change) ∈ (run (St.init d34Q) (d34Evs.take 3)).changes := by decide
  refine ⟨?_, ?_, ⟨_, hw, rfl, by decide⟩⟩
  · intro h
    have h4 := h.2.2.2.1 1050000000 rfl 1000000000 rfl _ hw
    simp at h4
  · intro h
    have h4 := h.2.2.2.1 1000000000 rfl _ hc
    simp at h4

/-- every event of a run of the repaired worker (fixes/D34.patch: purge before the mail) sends only unexpired changes -/
def SendsFreshFixed : St → List Ev → Prop
  | _, [] => True
  | s, e :: es =>
    (∀ t, e.now = some t → FreshData s.qos t (stepPurgeFirst s e).2.dgrams) ∧ SendsFreshFixed (stepPurgeFirst s e).1 es

/-- C29 for the drafted repair of D34 (fixes/D34.patch: the worker calls remove_stale_writer_samples before it
    handles a mail): NO event list - whatever the times, late timers included - sends an expired change. (Full
    statement, about `stepPurgeFirst`; the delivered driver models the pinned code, see notes/w2c.md.) -/
theorem C29_no_expired_send_with_D34_patch (s : St) (evs : List Ev) : SendsFreshFixed s evs := by
  induction evs generalizing s with
  | nil => trivial
  | cons e es ih =>
    refine ⟨?_, ih _⟩
    intro t ht
    have hq := (removeStale_frame s t).1
    cases e with
    | write k v ts now =>
      have : now = t := by simpa [Ev.now] using ht
      subst this
      have := (methodWrite_fresh (removeStale s now) k v ts now (removeStale_fresh s now)).2
      rw [hq] at this
      exact this
    | acknack rid base set count now =>
      have : now = t := by simpa [Ev.now] using ht
      subst this
      have := (onAcknack_fresh (removeStale s now) rid base set count now (removeStale_fresh s now)).2
      rw [hq] at this
      exact this
    | tick now =>
      have : now = t := by simpa [Ev.now] using ht
      subst this
      exact (C29_tick_sends_fresh s now).1
    | matchReader rid rel tl => simp [Ev.now] at ht

/-- with the repair the D34 event list answers the late ACKNACK with a GAP -/
example : (stepPurgeFirst (run (St.init d34Q) (d34Evs.take 3)) (.acknack 0 1 [1] 1 1050000000)).2.dgrams
    = [{ reader := 0, subs := [.gap 1 2] }] := by decide

/-- non-vacuity of the partial theorem: the same traffic with a punctual timer (the iteration at the expiry instant
    t = 1 s runs first) is a punctual run, and the late ACKNACK is answered with a GAP, not with DATA -/
def okEvs : List Ev :=
  [.matchReader 0 true false, .write 1 10 0 0, .tick 0, .tick 1000000000, .acknack 0 1 [1] 1 1050000000]

example : Punctual (St.init d34Q) okEvs ∧
    (step (run (St.init d34Q) (okEvs.take 4)) (.acknack 0 1 [1] 1 1050000000)).2.dgrams
      = [{ reader := 0, subs := [.gap 1 2] }] := by
  refine ⟨?_, by decide⟩
  refine ⟨trivial, ?_, trivial, trivial, ?_, trivial⟩
  · intro l _ c hc; simp [St.init, step, matchReader] at hc
  · intro l _ c hc
    have : (run (St.init d34Q) (okEvs.take 4)).changes = [] := by decide
    simp only [okEvs, List.take, run] at this
    simp [this] at hc

end DustVerif.Wrt
