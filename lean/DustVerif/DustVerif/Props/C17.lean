import DustVerif.Model.Spdp
import DustVerif.Proofs.SpdpWorldReach
/-! Property C17: participant discovery, domain isolation and lease expiry — theorems about the discovered-participant
    bookkeeping of one participant (Model/Spdp.lean) for ALL states, announcements, times and step sequences. -/
namespace DustVerif.Spdp

/-! ### list lemmas -/

theorem keys_touchList (k now : Nat) (l : List Entry) : keys (touchList k now l) = keys l := by
  induction l with
  | nil => rfl
  | cons e es ih =>
    unfold touchList
    split
    · simp [keys]
    · simp only [keys, List.map_cons] at ih ⊢
      rw [ih]

theorem any_hasKey_iff (k : Nat) (l : List Entry) : l.any (entryHasKey k) = true ↔ k ∈ keys l := by
  simp only [List.any_eq_true, entryHasKey, beq_iff_eq, keys, List.mem_map]

theorem keys_filter_notKey (k : Nat) (l : List Entry) : keys (l.filter (entryNotKey k)) = (keys l).filter (fun x => !(x == k)) := by
  induction l with
  | nil => rfl
  | cons e es ih =>
    simp only [keys, List.map_cons, List.filter_cons, entryNotKey] at ih ⊢
    by_cases h : e.key = k
    · simp [h, ih]
    · simp [h, ih]

theorem mem_filter_notKey (k : Nat) (l : List Entry) (e : Entry) : e ∈ l.filter (entryNotKey k) ↔ e ∈ l ∧ e.key ≠ k := by
  simp [List.mem_filter, entryNotKey]

theorem eq_of_key_eq (l : List Entry) (hn : (keys l).Nodup) (e x : Entry) (he : e ∈ l) (hx : x ∈ l) (hk : e.key = x.key) :
    e = x := by
  induction l with
  | nil => cases he
  | cons y ys ih =>
    have hn' : y.key ∉ keys ys ∧ (keys ys).Nodup := by simpa [keys] using hn
    rcases List.mem_cons.mp he with h1 | h1 <;> rcases List.mem_cons.mp hx with h2 | h2
    · rw [h1, h2]
    · exact absurd (by rw [← h1, hk]; exact List.mem_map_of_mem (f := Entry.key) h2) hn'.1
    · exact absurd (by rw [← h2, ← hk]; exact List.mem_map_of_mem (f := Entry.key) h1) hn'.1
    · exact ih hn'.2 h1 h2

/-! ### isolation and discovery -/

/-- C17 (isolation): an announcement that carries a different domain id, or a different domain tag, changes NOTHING in the
    participant's state and triggers no answer — for all states, announcements and times -/
theorem C17_isolation (s : St) (d : Data) (now : Nat)
    (h : (∃ x, d.domainId = some x ∧ x ≠ s.domainId) ∨ d.tag ≠ s.tag) :
    addDiscovered s d now = (s, false) := by
  unfold addDiscovered acceptable domainIdMatches
  rcases h with ⟨x, hx, hne⟩ | h
  · simp [hx, hne]
  · simp [h]

/-- C17 (isolation, whole reception path): the set of discovered participants is unchanged -/
theorem C17_isolation_keys (s : St) (d : Data) (now : Nat)
    (h : (∃ x, d.domainId = some x ∧ x ≠ s.domainId) ∨ d.tag ≠ s.tag) :
    keys (spdp s d now).1.list = keys s.list ∧ (spdp s d now).2 = false := by
  unfold spdp
  have h' : (∃ x, d.domainId = some x ∧ x ≠ (touch s d.key now).domainId) ∨ d.tag ≠ (touch s d.key now).tag := h
  rw [C17_isolation _ d now h']
  exact ⟨keys_touchList _ _ _, rfl⟩

theorem keys_refreshList (d : Data) (now : Nat) (l : List Entry) : keys (refreshList d now l) = keys l := by
  induction l with
  | nil => rfl
  | cons e es ih =>
    unfold refreshList
    split
    · rename_i h; simp [keys, beq_iff_eq.mp h]
    · simp only [keys, List.map_cons] at ih ⊢
      rw [ih]

theorem mem_refreshList (d : Data) (now : Nat) (l : List Entry) (h : d.key ∈ keys l) :
    (⟨d.key, d.lease, now⟩ : Entry) ∈ refreshList d now l := by
  induction l with
  | nil => simp [keys] at h
  | cons e es ih =>
    unfold refreshList
    split
    · simp
    · rename_i hne
      have : d.key ∈ keys es := by
        simp only [keys, List.map_cons, List.mem_cons] at h
        rcases h with h | h
        · exact absurd (beq_iff_eq.mpr h.symm) hne
        · exact h
      exact List.mem_cons_of_mem _ (ih this)

/-- what add_discovered_participant can do to a state: nothing but the list changes; the listed keys stay, or the announcing
    participant — acceptable, not listed, not ignored — is appended -/
theorem addDiscovered_spec (s : St) (d : Data) (now : Nat) :
    (addDiscovered s d now).1.ignored = s.ignored ∧ (addDiscovered s d now).1.enabled = s.enabled ∧
    ((keys (addDiscovered s d now).1.list = keys s.list ∧ (addDiscovered s d now).2 = false) ∨
     (acceptable s d = true ∧ d.key ∉ keys s.list ∧ (addDiscovered s d now).1.list = s.list ++ [⟨d.key, d.lease, now⟩] ∧
      (addDiscovered s d now).2 = true)) := by
  unfold addDiscovered
  split
  · rename_i hacc
    split
    · exact ⟨rfl, rfl, Or.inl ⟨keys_refreshList _ _ _, rfl⟩⟩
    · rename_i hk
      exact ⟨rfl, rfl, Or.inr ⟨hacc, fun hm => hk ((any_hasKey_iff _ _).mpr hm), rfl, rfl⟩⟩
  · exact ⟨rfl, rfl, Or.inl ⟨rfl, rfl⟩⟩

theorem acceptable_touch (s : St) (d : Data) (k now : Nat) : acceptable (touch s k now) d = acceptable s d := rfl

theorem acceptable_of (s : St) (d : Data) (hid : d.domainId = none ∨ d.domainId = some s.domainId)
    (htag : d.tag = s.tag) (hign : d.key ∉ s.ignored) : acceptable s d = true := by
  have e1 : domainIdMatches s d = true := by rcases hid with h | h <;> simp [domainIdMatches, h]
  simp [acceptable, e1, htag, hign]

/-- C17 (discovery and refresh): an announcement with the same domain tag and the same (or no) domain id, from a participant
    that is not ignored, leaves that participant in the discovered list WITH the lease it announces now and the reception time
    as stamp — whether it was listed before or not, whatever the state -/
theorem C17_discover (s : St) (d : Data) (now : Nat) (hid : d.domainId = none ∨ d.domainId = some s.domainId)
    (htag : d.tag = s.tag) (hign : d.key ∉ s.ignored) :
    (⟨d.key, d.lease, now⟩ : Entry) ∈ (spdp s d now).1.list ∧ d.key ∈ keys (spdp s d now).1.list := by
  have hacc : acceptable (touch s d.key now) d = true := by rw [acceptable_touch]; exact acceptable_of s d hid htag hign
  have hm : (⟨d.key, d.lease, now⟩ : Entry) ∈ (spdp s d now).1.list := by
    unfold spdp addDiscovered
    simp only [hacc, if_true]
    split
    · rename_i hk
      exact mem_refreshList d now _ ((any_hasKey_iff _ _).mp hk)
    · simp
  exact ⟨hm, List.mem_map_of_mem (f := Entry.key) hm⟩

/-- the lease in force is the one announced LAST: after an acceptable announcement every entry of that participant carries
    the announced lease (there is exactly one, `C17_keys_unique`) -/
theorem C17_lease_refresh (s : St) (d : Data) (now : Nat) (hid : d.domainId = none ∨ d.domainId = some s.domainId)
    (htag : d.tag = s.tag) (hign : d.key ∉ s.ignored) (hu : (keys s.list).Nodup) :
    ∀ e ∈ (spdp s d now).1.list, e.key = d.key → e.lease = d.lease ∧ e.lastSeen = now := by
  intro e he hk
  have hm := (C17_discover s d now hid htag hign).1
  have hu' : (keys (spdp s d now).1.list).Nodup := by
    have hsp := addDiscovered_spec (touch s d.key now) d now
    rcases hsp.2.2 with h | h
    · show (keys (addDiscovered (touch s d.key now) d now).1.list).Nodup
      rw [h.1]; simpa [touch, keys_touchList] using hu
    · show (keys (addDiscovered (touch s d.key now) d now).1.list).Nodup
      rw [h.2.2.1]
      simp only [keys, List.map_append, List.map_cons, List.map_nil]
      rw [List.nodup_append]
      have hut : (List.map Entry.key (touch s d.key now).list).Nodup := by
        have := keys_touchList d.key now s.list
        unfold keys at this hu
        rw [show (touch s d.key now).list = touchList d.key now s.list from rfl, this]; exact hu
      refine ⟨hut, by simp, ?_⟩
      intro a ha b hb
      simp only [List.mem_singleton] at hb
      subst hb
      exact fun e => h.2.1 (e ▸ ha)
  have : e = ⟨d.key, d.lease, now⟩ := eq_of_key_eq _ hu' e _ he hm hk
  rw [this]; exact ⟨rfl, rfl⟩

/-! ### uniqueness of keys -/

def Unique (s : St) : Prop := (keys s.list).Nodup

theorem touch_unique (s : St) (k now : Nat) (h : Unique s) : Unique (touch s k now) := by
  simpa [Unique, touch, keys_touchList] using h

theorem remove_unique (s : St) (k : Nat) (h : Unique s) : Unique (remove s k) := by
  simp only [Unique, remove, keys_filter_notKey]
  exact List.Pairwise.filter _ h

theorem tickLoop_sublist (fuel now : Nat) : ∀ l : List Entry, (tickLoop fuel now l).Sublist l := by
  induction fuel with
  | zero => intro l; exact List.Sublist.refl _
  | succ n ih =>
    intro l
    unfold tickLoop
    split
    · exact (ih _).trans List.filter_sublist
    · exact List.Sublist.refl _

theorem step_unique (s : St) (x : Step) (h : Unique s) : Unique (step s x) := by
  cases x with
  | spdp d now =>
    have ht := touch_unique s d.key now h
    have hsp := addDiscovered_spec (touch s d.key now) d now
    simp only [step, spdp, Unique]
    rcases hsp.2.2 with h1 | h1
    · rw [h1.1]; exact ht
    · rw [h1.2.2.1]
      simp only [keys, List.map_append, List.map_cons, List.map_nil]
      rw [List.nodup_append]
      refine ⟨ht, by simp, ?_⟩
      intro a ha b hb
      simp only [List.mem_singleton] at hb
      subst hb
      exact fun e => h1.2.1 (e ▸ ha)
  | activity k now => exact touch_unique s k now h
  | tick now =>
    simp only [step, tick, Unique]
    exact List.Sublist.nodup ((tickLoop_sublist _ now s.list).map Entry.key) h
  | ignore hh =>
    simp only [step, ignore]
    split
    · exact h
    · split
      · exact h
      · exact remove_unique _ hh h
  | dispose k => exact remove_unique s k h

/-- C17 (no duplicates): in every reachable state a participant is listed at most once -/
theorem C17_keys_unique (domainId : Nat) (tag : String) (ops : List Step) : Unique (run (St.init domainId tag) ops) := by
  suffices h : ∀ s, Unique s → Unique (run s ops) from h _ (by simp [Unique, St.init, keys])
  induction ops with
  | nil => intro s h; exact h
  | cons x xs ih => intro s h; exact ih _ (step_unique s x h)

/-! ### lease: lower bound -/

theorem tickLoop_keeps (fuel now : Nat) : ∀ (l : List Entry), (keys l).Nodup → ∀ e ∈ l, stale now e = false → e ∈ tickLoop fuel now l := by
  induction fuel with
  | zero => intro l _ e he _; exact he
  | succ n ih =>
    intro l hn e he hs
    unfold tickLoop
    split
    · rename_i x hx
      have hxm := List.mem_of_find?_eq_some hx
      have hxs : stale now x = true := by simpa using List.find?_some hx
      have hne : e.key ≠ x.key := by
        intro heq
        have := eq_of_key_eq l hn e x he hxm heq
        subst this
        simp [hxs] at hs
      apply ih
      · simp only [keys_filter_notKey]; exact List.Pairwise.filter _ hn
      · exact (mem_filter_notKey _ _ _).mpr ⟨he, hne⟩
      · exact hs
    · exact he

/-- C17 (lease, lower bound): a lease check at time `now` keeps every participant whose last communication is not older
    than its announced lease (`now - lastSeen ≤ lease`) — in every state without duplicate keys, i.e. in every reachable state -/
theorem C17_lease_lower (s : St) (now : Nat) (hu : Unique s) (e : Entry) (he : e ∈ s.list) (h : now - e.lastSeen ≤ e.lease) :
    e ∈ (tick s now).list := by
  apply tickLoop_keeps _ now s.list hu e he
  simp only [stale, decide_eq_false_iff_not]
  omega

/-- what removes a participant: if `k` is listed before a step and not after it, the step is a lease check at which `k` was
    stale, the ignoring of `k`, or the disposal of `k` — an announcement or other traffic never removes anybody -/
theorem C17_removed_only_by (s : St) (hu : Unique s) (x : Step) (k : Nat) (hb : k ∈ keys s.list) (ha : k ∉ keys (step s x).list) :
    (∃ now, x = .tick now ∧ ∃ e ∈ s.list, e.key = k ∧ now - e.lastSeen > e.lease) ∨ x = .ignore k ∨ x = .dispose k := by
  cases x with
  | spdp d now =>
    exfalso; apply ha
    have hk' : k ∈ keys (touch s d.key now).list := by simpa [touch, keys_touchList] using hb
    have hsp := addDiscovered_spec (touch s d.key now) d now
    simp only [step, spdp]
    rcases hsp.2.2 with h1 | h1
    · rw [h1.1]; exact hk'
    · rw [h1.2.2.1]
      simp only [keys, List.map_append, List.mem_append]; exact Or.inl hk'
  | activity k' now =>
    exfalso; apply ha
    simpa [step, touch, keys_touchList] using hb
  | tick now =>
    left
    refine ⟨now, rfl, ?_⟩
    obtain ⟨e, he, hek⟩ := List.mem_map.mp hb
    refine ⟨e, he, hek, ?_⟩
    refine Classical.byContradiction fun hns => ?_
    have := C17_lease_lower s now hu e he (by omega)
    exact ha (hek ▸ List.mem_map_of_mem (f := Entry.key) this)
  | ignore h =>
    right; left
    by_cases hh : h = k
    · rw [hh]
    · exfalso; apply ha
      simp only [step, ignore]
      split
      · exact hb
      · split
        · exact hb
        · simp only [Option.getD_some, remove, keys_filter_notKey, List.mem_filter]
          exact ⟨hb, by simpa using fun e => hh e.symm⟩
  | dispose k' =>
    right; right
    by_cases hh : k' = k
    · rw [hh]
    · exfalso; apply ha
      simp only [step, remove, keys_filter_notKey, List.mem_filter]
      exact ⟨hb, by simpa using fun e => hh e.symm⟩

/-! ### lease: upper bound -/

theorem tickLoop_none_stale (fuel now : Nat) : ∀ (l : List Entry), l.length ≤ fuel → ∀ e ∈ tickLoop fuel now l, stale now e = false := by
  induction fuel with
  | zero =>
    intro l hl e he
    have : l = [] := List.eq_nil_of_length_eq_zero (Nat.le_zero.mp hl)
    subst this
    simp [tickLoop] at he
  | succ n ih =>
    intro l hl e he
    unfold tickLoop at he
    split at he
    · rename_i x hx
      have hxm := List.mem_of_find?_eq_some hx
      apply ih _ ?_ e he
      have hlt : (l.filter (entryNotKey x.key)).length < l.length := by
        apply List.length_filter_lt_length_iff_exists.mpr
        exact ⟨x, hxm, by simp [entryNotKey]⟩
      omega
    · rename_i hnone
      have := List.find?_eq_none.mp hnone e he
      simpa using this

/-- C17 (lease, upper bound): after a lease check at time `now` NO listed participant is older than its lease: whoever was
    silent since `lastSeen` is gone after the first check later than `lastSeen + lease`. With checks at most `p` apart
    (the worker's timer, C31) that check happens no later than `lastSeen + lease + p`. For all states. -/
theorem C17_lease_upper (s : St) (now : Nat) : ∀ e ∈ (tick s now).list, now - e.lastSeen ≤ e.lease := by
  intro e he
  have := tickLoop_none_stale s.list.length now s.list (Nat.le_refl _) e he
  simp only [stale, decide_eq_false_iff_not] at this
  omega

/-- the same, by key: a participant all of whose entries are older than their lease at `now` is not listed after the check -/
theorem C17_lease_upper_key (s : St) (now k : Nat) (h : ∀ e ∈ s.list, e.key = k → e.lastSeen + e.lease < now) :
    k ∉ keys (tick s now).list := by
  intro hk
  obtain ⟨e, he, hek⟩ := List.mem_map.mp hk
  have h1 := C17_lease_upper s now e he
  have h2 := h e ((tickLoop_sublist _ now s.list).subset he) hek
  omega

/-! ### ignored for ever -/

def IgnoredOut (s : St) : Prop := ∀ h ∈ s.ignored, h ∉ keys s.list

theorem step_ignored_mono (s : St) (x : Step) (h : Nat) (hi : h ∈ s.ignored) : h ∈ (step s x).ignored := by
  cases x with
  | spdp d now =>
    simp only [step, spdp]
    rw [(addDiscovered_spec (touch s d.key now) d now).1]
    simpa [touch] using hi
  | activity k now => simpa [step, touch] using hi
  | tick now => simpa [step, tick] using hi
  | ignore h' =>
    simp only [step, ignore]
    split
    · exact hi
    · split
      · exact hi
      · simp [remove, hi]
  | dispose k => simpa [step, remove] using hi

theorem step_ignoredOut (s : St) (x : Step) (hio : IgnoredOut s) : IgnoredOut (step s x) := by
  cases x with
  | spdp d now =>
    have ht : IgnoredOut (touch s d.key now) := by
      intro h hh; simpa [touch, keys_touchList] using hio h (by simpa [touch] using hh)
    have hsp := addDiscovered_spec (touch s d.key now) d now
    intro h hh
    simp only [step, spdp] at hh ⊢
    rw [hsp.1] at hh
    rcases hsp.2.2 with h1 | h1
    · rw [h1.1]; exact ht h hh
    · rw [h1.2.2.1]
      simp only [keys, List.map_append, List.map_cons, List.map_nil, List.mem_append, List.mem_singleton]
      rintro (hm | hm)
      · exact ht h hh hm
      · have hacc := h1.1
        simp only [acceptable, Bool.and_eq_true, Bool.not_eq_true'] at hacc
        have : (touch s d.key now).ignored.contains d.key = false := hacc.2
        rw [hm] at hh
        simp [hh] at this
  | activity k now =>
    intro h hh; simpa [step, touch, keys_touchList] using hio h (by simpa [step, touch] using hh)
  | tick now =>
    intro h hh hm
    have hh' : h ∈ s.ignored := by simpa [step, tick] using hh
    exact hio h hh' ((tickLoop_sublist _ now s.list).map Entry.key |>.subset hm)
  | ignore h' =>
    simp only [step, ignore]
    split
    · exact hio
    · split
      · exact hio
      · intro h hh
        simp only [Option.getD_some, remove, keys_filter_notKey, List.mem_filter, List.mem_append, List.mem_singleton] at hh ⊢
        rintro ⟨hm, hne⟩
        rcases hh with hh | hh
        · exact hio h hh hm
        · simp [hh] at hne
  | dispose k =>
    intro h hh
    simp only [step, remove, keys_filter_notKey, List.mem_filter] at hh ⊢
    rintro ⟨hm, _⟩
    exact hio h hh hm

theorem run_ignoredOut (ops : List Step) : ∀ s, IgnoredOut s → IgnoredOut (run s ops) := by
  induction ops with
  | nil => intro s h; exact h
  | cons x xs ih => intro s h; exact ih _ (step_ignoredOut s x h)

theorem run_ignored_mono (ops : List Step) (h : Nat) : ∀ s, h ∈ s.ignored → h ∈ (run s ops).ignored := by
  induction ops with
  | nil => intro s hi; exact hi
  | cons x xs ih => intro s hi; exact ih _ (step_ignored_mono s x h hi)

theorem run_append (s : St) (a b : List Step) : run s (a ++ b) = run (run s a) b := by
  induction a generalizing s with
  | nil => rfl
  | cons x xs ih => simp [run, ih]

theorem run_enabled (ops : List Step) : ∀ s, (run s ops).enabled = s.enabled := by
  induction ops with
  | nil => intro s; rfl
  | cons x xs ih =>
    intro s
    simp only [run]
    rw [ih]
    cases x with
    | spdp d now => simp only [step, spdp]; rw [(addDiscovered_spec (touch s d.key now) d now).2.1]; rfl
    | activity k now => rfl
    | tick now => rfl
    | ignore h =>
      simp only [step, ignore]
      split
      · rfl
      · split <;> rfl
    | dispose k => rfl

/-- C17 (ignored for ever): after ANY history `ops1`, once `ignore_participant(h)` has been called on the (enabled)
    participant, `h` is not in the discovered list — and stays out along EVERY continuation `ops2`, whatever announcements
    of `h` arrive -/
theorem C17_ignored_forever (domainId : Nat) (tag : String) (ops1 ops2 : List Step) (h : Nat) :
    h ∉ keys (run (St.init domainId tag) (ops1 ++ [.ignore h] ++ ops2)).list := by
  rw [run_append, run_append]
  have h0 : IgnoredOut (St.init domainId tag) := by intro x hx; simp [St.init] at hx
  have h1 := run_ignoredOut ops1 _ h0
  have hen : (run (St.init domainId tag) ops1).enabled = true := by rw [run_enabled]; rfl
  generalize run (St.init domainId tag) ops1 = s at h1 hen
  have h2 : IgnoredOut (run s [.ignore h]) := step_ignoredOut s _ h1
  have h3 : h ∈ (run s [.ignore h]).ignored := by
    simp only [run, step, ignore, hen, Bool.not_true, Bool.false_eq_true, if_false]
    split
    · rename_i hc; simpa [List.contains_iff_mem] using hc
    · simp [remove]
  exact run_ignoredOut ops2 _ h2 h (run_ignored_mono ops2 h _ h3)

/-- the ignored set only grows: no step — in particular no dispose, no lease expiry — takes a participant out of it -/
theorem C17_ignored_set_monotone (s : St) (ops : List Step) (h : Nat) (hi : h ∈ s.ignored) : h ∈ (run s ops).ignored :=
  run_ignored_mono ops h s hi

/-- why the dispose must keep the ignored set (seeded change C17_d): if the dispose of an ignored participant also removed it
    from the ignored set, ONE late copy of its announcement would list it again; the code as it is does not -/
theorem C17_ignored_forever_seeded_counterexample :
    keys (spdp (removeSeeded ((ignore (spdp (St.init 0 "") ⟨5, some 0, "", 100⟩ 0).1 5).getD (St.init 0 "")) 5) ⟨5, some 0, "", 100⟩ 1).1.list = [5] ∧
    keys (run (St.init 0 "") [.spdp ⟨5, some 0, "", 100⟩ 0, .ignore 5, .dispose 5, .spdp ⟨5, some 0, "", 100⟩ 1]).list = [] := by
  decide

/-! ### a changed lease was ignored (repaired defect D-spdp-1) -/

/-- regression witness: before the repair the data of an already discovered participant was never updated: announced with a
    lease of 2 s, then — 1 s later — with a lease of 100 s, the participant was removed after 2 s of silence, i.e. EARLIER
    than the lease it last announced; the repaired code keeps it -/
theorem C17_lease_update_old_counterexample :
    keys (tick (spdpOld (spdpOld (St.init 0 "") ⟨5, some 0, "", 2000000000⟩ 0).1 ⟨5, some 0, "", 100000000000⟩ 1000000000).1 3000000001).list = [] ∧
    keys (run (St.init 0 "") [.spdp ⟨5, some 0, "", 2000000000⟩ 0, .spdp ⟨5, some 0, "", 100000000000⟩ 1000000000, .tick 3000000001]).list = [5] ∧
    keys (run (St.init 0 "") [.spdp ⟨5, some 0, "", 100000000000⟩ 0, .spdp ⟨5, some 0, "", 2000000000⟩ 1000000000, .tick 50000000000]).list = [] := by
  decide

/-! ### from one participant to the world -/

open DustVerif.SpdpWorld in
/-- C17 (world): in every world reachable by the operations of Model/SpdpWorld.lean (participants created on any domain id /
    tag, forged and real announcements with their answer cascades, loss, silence, deletion, ignoring, timer-driven lease
    checks and periodic announcements — what the `spdp` driver does to predict the simulator's answers) every participant's
    state is reachable in the automaton above: no participant is listed twice (so `C17_lease_lower` applies) and nobody
    ignored is listed -/
theorem C17_world (ops : List SpdpWorld.WOp) (p : Part) (hp : p ∈ (runOps World.init ops).parts) :
    Unique p.st ∧ IgnoredOut p.st := by
  obtain ⟨steps, hs⟩ := world_participants_reachable ops p hp
  refine ⟨hs ▸ C17_keys_unique _ _ steps, hs ▸ run_ignoredOut steps _ (by intro x hx; simp [St.init] at hx)⟩

/-! ### non-vacuity -/

def dA : Data := ⟨1, some 0, "", 100⟩

example : keys (run (St.init 0 "") [.spdp dA 0, .tick 100, .spdp ⟨2, none, "", 5⟩ 100, .tick 101]).list = [2] := by decide
example : keys (run (St.init 0 "") [.spdp dA 0, .activity 1 50, .tick 150]).list = [1] := by decide
example : keys (run (St.init 0 "") [.spdp ⟨1, some 1, "", 100⟩ 0, .spdp ⟨2, some 0, "x", 100⟩ 0]).list = [] := by decide
example : keys (run (St.init 0 "") ([.spdp dA 0] ++ [.ignore 1] ++ [.spdp dA 1, .spdp dA 2])).list = [] := by decide

end DustVerif.Spdp
