import DustVerif.Proofs.XcdrTotal
import DustVerif.Proofs.XcdrValEq
/-! Property C07, XCDR part: the user-sample payload decoder (`dds/src/xtypes/deserializer.rs`) is total.

`deTop cfg t bytes` is the model of `deserialize_top_level_type(type, bytes)`; `Res.panic` stands for every Rust
panic of the modelled code (`4 * u32` overflow, `todo!()`, `panic!`) and for a `Vec::with_capacity` / `push`
reallocation above `ALLOC_LIMIT` (2^24 bytes, the stand-in for memory exhaustion; the harness enforces the same
limit with a counting allocator and prints `ALLOC-LIMIT`).
The theorems are stated for every configuration with the repairs D12, D13 and D66 (`Cfg.total`); the unchanged
tree violates them (witnesses below, replayed on the real code by the corpus of `vlib/xcdr_common.py`). -/
namespace DustVerif.Xcdr

/-- **C07 (XCDR decoder)**: for every supported type (`wfTy`: no collection of collections, enum holder
    INT8/16/32, array bounds within the allocation limit), every encoding version and byte order (chosen by the
    payload itself) and EVERY byte string of at most `ALLOC_LIMIT / 96` bytes, decoding returns a value or an
    error, never a panic; every vector the decoder allocates stays below `ALLOC_LIMIT`, i.e. the memory it
    requests is at most 96 bytes per input byte (the bound is what makes the allocation branch unreachable). -/
theorem C07_xcdr_total (cfg : Cfg) (hc : cfg.total = true) (t : Ty) (hw : wfTy t = true) (bytes : Bytes)
    (hB : bytes.length * 96 ≤ ALLOC_LIMIT) : ∀ k, deTop cfg t bytes ≠ .panic k := by
  intro k hk
  have h := deTop_bnd cfg hc t hw bytes hB
  rw [hk] at h
  exact h

/-- the same for a nested value at any reader position, together with the invariant that the reader never holds
    more bytes than it was given (no read outside the input) -/
theorem C07_xcdr_total_nested (cfg : Cfg) (hc : cfg.total = true) (ver : Ver) (e : Endian) (t : Ty)
    (hw : wfTy t = true) (s : St) (hB : s.rem.length * 96 ≤ ALLOC_LIMIT) :
    match de cfg ver e t s with
    | .ok _ s' => s'.rem.length ≤ s.rem.length
    | .err _ s' => s'.rem.length ≤ s.rem.length
    | .panic _ => False := by
  have h := de_bnd cfg hc ver e hB t hw s (Nat.le_refl _)
  cases hd : de cfg ver e t s with
  | ok a s' => rw [hd] at h; exact h
  | err er s' => rw [hd] at h; exact h
  | panic k => rw [hd] at h; exact h

/-- the delivered configuration satisfies the hypothesis -/
example : Cfg.fixed.total = true := by decide

/-- non-vacuity: a type with every constructor of the universe is supported -/
example : wfTy (.struct .mutable (.cons 0 false false (.seq (.struct .appendable
    (.cons 0 true false (.arr (.enum .i16 [1, 2] .final) 3) (.cons 1 false true .str .nil)))) (.cons 7 true false (.prim .u64) .nil))) = true := by
  decide

def tyMutU8 : Ty := .struct .mutable (.cons 0 false false (.prim .u8) .nil)
def tySeqU64 : Ty := .struct .final (.cons 0 false false (.seq (.prim .u64)) .nil)
def tySeqApp : Ty := .struct .final (.cons 0 false false (.seq (.struct .appendable (.cons 0 false false (.prim .u32) .nil))) .nil)

/-- D12 (as is): `de SM{0:u8} 000b0000 10000000 00000060 00000080`: EMHEADER with LC = 6 and NEXTINT = 2^31,
    `4 * 2^31` overflows `u32` -> panic -/
theorem C07_xcdr_lc6_overflow_counterexample :
    deTop Cfg.asIs tyMutU8 [0, 11, 0, 0, 16, 0, 0, 0, 0, 0, 0, 0x60, 0, 0, 0, 0x80] = .panic .mulOverflow := by
  decide

/-- D13 (as is): `de SF{0:Q(u64)} 00010000 ffffffff`: an 8-byte payload makes `Vec::with_capacity(2^32 - 1)`
    reserve 32 GiB -/
theorem C07_xcdr_with_capacity_counterexample :
    deTop Cfg.asIs tySeqU64 [0, 1, 0, 0, 0xff, 0xff, 0xff, 0xff] = .panic .alloc := by
  decide

/-- D66 (D13 repaired, D66 not): a sequence of appendable structures swallows `NotEnoughData` per element, so the
    loop runs `length` times without input: an 8-byte payload announcing 40 elements yields 40 elements
    (2^32 - 1 elements for `ffffffff`: unbounded time and memory). With D66 the length is rejected. -/
theorem C07_xcdr_swallowed_elements_counterexample :
    (match deTop ⟨true, true, true, true, true, true, false⟩ tySeqApp [0, 1, 0, 0, 40, 0, 0, 0] with
     | .ok (.struct [.list vs]) _ => vs.length
     | _ => 0) = 40 ∧
    deTop Cfg.fixed tySeqApp [0, 1, 0, 0, 40, 0, 0, 0] = .err .notEnoughData ⟨[], 4⟩ := by
  decide

end DustVerif.Xcdr
