import DustVerif.Proofs.RtpsFrag
import DustVerif.Proofs.RtpsAck
/-! Property C05: fragmented samples are reassembled byte-identically for any size.
    Pure part: `as_data_frag_submessage` (cache_change.rs:119), the writer's fragment count
    (`len.div_ceil(f)`), the reader's `total_fragments_expected` / `reconstruct_data_from_frag`
    (writer_proxy.rs:20-145), the NACK_FRAG request set (writer_proxy.rs:288-319) and the writer's
    answer to it (stateful_writer.rs:173-238). The system-level part (fragments under loss, duplication and
    reordering between a real writer and a real reader) is `C01_in_order_once` / `C02_subsequence`, whose
    statement includes payload equality for fragmented changes and rests on `reassemble_sound` below. -/
namespace DustVerif.Rtps

/-- the reader's buffer after any arrival stream: `push_data_frag` applied from the empty buffer -/
def bufferOf (stream : List Frag) : List Frag := stream.foldl pushFrag []

theorem foldl_pushFrag_nodup (stream acc : List Frag) (h : acc.Nodup) : (stream.foldl pushFrag acc).Nodup := by
  induction stream generalizing acc with
  | nil => exact h
  | cons x xs ih => exact ih _ (pushFrag_nodup acc x h)

theorem mem_foldl_pushFrag (stream acc : List Frag) (x : Frag) :
    x ∈ stream.foldl pushFrag acc ↔ x ∈ acc ∨ x ∈ stream := by
  induction stream generalizing acc with
  | nil => simp
  | cons y ys ih =>
    simp only [List.foldl_cons, ih, mem_pushFrag, List.mem_cons]
    constructor
    · rintro ((h | h) | h)
      · exact Or.inl h
      · exact Or.inr (Or.inl h)
      · exact Or.inr (Or.inr h)
    · rintro (h | h | h)
      · exact Or.inl (Or.inl h)
      · exact Or.inl (Or.inr h)
      · exact Or.inr h

theorem mem_bufferOf (stream : List Frag) (x : Frag) : x ∈ bufferOf stream ↔ x ∈ stream := by
  simp [bufferOf, mem_foldl_pushFrag]

theorem bufferOf_ok (c : Change) (f : Nat) (stream : List Frag)
    (hgen : ∀ fr ∈ stream, fr.sn = c.sn → Genuine c f fr) : BufOK c f (bufferOf stream) :=
  ⟨foldl_pushFrag_nodup stream [] List.nodup_nil, fun fr hfr hsn => hgen fr ((mem_bufferOf stream fr).mp hfr) hsn⟩

/-- **C05_count**: for every payload and every fragment size `1 ≤ f < 2^16` (`|data| < 2^32`), the number of
    fragments the writer sends is `⌈|data| / f⌉`, and the total the reader computes from the header of ANY of these
    fragments (`data_size`, `fragment_size` after the `as u32` / `as u16` casts) is the same number. -/
theorem C05_count (c : Change) (f k : Nat) (hf : 1 ≤ f) (hf16 : f < 65536) (hlen : c.payload.length < 4294967296) :
    fragCount c f = (c.payload.length + f - 1) / f ∧ totalExpected (asDataFrag c f k) = fragCount c f := by
  refine ⟨?_, totalExpected_genuine c f k hf hf16 hlen⟩
  unfold fragCount
  have hpos : 0 < f := by omega
  have h1 := Nat.div_add_mod (c.payload.length + f - 1) f
  have h2 := Nat.mod_lt (c.payload.length + f - 1) hpos
  generalize hq : (c.payload.length + f - 1) / f = q at *
  generalize (c.payload.length + f - 1) % f = r at *
  apply divCeil_unique _ _ _ hf
  · rw [Nat.mul_comm]; omega
  · intro h0
    rcases Nat.eq_zero_or_pos q with hq0 | hq0
    · exact hq0
    · exfalso
      have : f * 1 ≤ f * q := Nat.mul_le_mul_left f hq0
      omega
  · intro hn
    rw [Nat.sub_mul, Nat.one_mul, Nat.mul_comm]; omega

example : fragCount ⟨1, List.replicate 17 0⟩ 8 = 3 ∧ fragCount ⟨1, List.replicate 16 0⟩ 8 = 2
    ∧ fragCount ⟨1, List.replicate 15 0⟩ 8 = 2 ∧ fragCount ⟨1, []⟩ 8 = 0 := by decide

/-- **C05_reassemble**: for every payload, every fragment size `1 ≤ f < 2^16` and EVERY arrival stream — any order,
    any duplicates, interleaved with fragments of any other sequence numbers (only fragments carrying this sequence
    number must be genuine: the network does not forge) — the reader's buffer reassembles exactly the payload as soon as
    every fragment of the sample has arrived at least once, and nothing while one is missing. -/
theorem C05_reassemble (c : Change) (f : Nat) (stream : List Frag) (hf : 1 ≤ f) (hf16 : f < 65536)
    (hlen : c.payload.length < 4294967296) (hgen : ∀ fr ∈ stream, fr.sn = c.sn → Genuine c f fr) :
    ((0 < fragCount c f ∧ ∀ k, k < fragCount c f → asDataFrag c f k ∈ stream) →
        reassemble (bufferOf stream) c.sn = some c.payload) ∧
    ((∃ k, k < fragCount c f ∧ asDataFrag c f k ∉ stream) → reassemble (bufferOf stream) c.sn = none) := by
  have ok := bufferOf_ok c f stream hgen
  constructor
  · rintro ⟨hpos, hall⟩
    exact reassemble_complete c f hf hf16 hlen _ ok hpos (fun k hk => (mem_bufferOf stream _).mpr (hall k hk))
  · rintro ⟨k, hk, hmiss⟩
    exact reassemble_incomplete c f hf hf16 hlen _ ok k hk (fun h => hmiss ((mem_bufferOf stream _).mp h))

/-- non-vacuity: 20 bytes, f = 8, fragments arrive as 3,1(other sn),1,1,2 -/
example :
    let c : Change := ⟨1, (List.range 20)⟩
    let o : Change := ⟨2, (List.range 9)⟩
    reassemble (bufferOf [asDataFrag c 8 2, asDataFrag o 8 0, asDataFrag c 8 0, asDataFrag c 8 0, asDataFrag c 8 1]) 1
      = some (List.range 20) := by decide

/-- **C05_reassemble_sound**: whatever `reconstruct_data_from_frag` returns from a duplicate-free buffer of genuine
    fragments is the written payload (this is the form the protocol theorems C01/C02 use). -/
theorem C05_reassemble_sound (c : Change) (f : Nat) (buf : List Frag) (d : Payload) (hf : 1 ≤ f) (hf16 : f < 65536)
    (hlen : c.payload.length < 4294967296) (ok : BufOK c f buf) (hd : reassemble buf c.sn = some d) :
    d = c.payload := reassemble_sound c f hf hf16 hlen buf ok d hd

/-- **C05_purge_other_untouched**: a successful reconstruction removes the fragments of that sample only -/
theorem C05_purge_other_untouched (buf : List Frag) (sn : Nat) (fr : Frag) (hfr : fr ∈ buf) (hne : fr.sn ≠ sn) :
    fr ∈ (reconstruct buf sn).2 := by
  unfold reconstruct
  split
  · exact List.mem_filter.mpr ⟨hfr, by simp [notSn, hne]⟩
  · exact hfr

/-! ### NACK_FRAG: what the reader requests and what the writer answers -/

theorem mem_missingFrags (buf : List Frag) (sn total n : Nat) :
    n ∈ missingFrags buf sn total ↔ (1 ≤ n ∧ n ≤ total) ∧ fragAbsent buf sn n = true := by
  unfold missingFrags
  rw [List.mem_filter, mem_rangeIncl]

/-- every fragment number a NACK_FRAG emitted by the reader asks for (base and set members) lies in `1..=total` of the
    buffered sample and is absent from the buffer — for the as-is and the repaired code alike -/
theorem nackfrag_requests_in_range (cfg : Cfg) (p p' : WProxy) (out : List Dgram)
    (h : p.ackDgram cfg = .ok (p', out)) (d : Dgram) (hd : d ∈ out) (sn base count : Nat) (set : List Nat)
    (hs : Sub.nackfrag sn base set count ∈ d.subs) :
    ∃ fr, p.fragBuf.find? (isSn sn) = some fr ∧
      ∀ n, n = base ∨ n ∈ set → (1 ≤ n ∧ n ≤ totalExpected fr) ∧ fragAbsent p.fragBuf sn n = true := by
  unfold WProxy.ackDgram at h
  simp only at h
  split at h
  · -- no fragmented change missing: ACKNACK only
    injection h with h; injection h with _ h; subst h
    simp [mkR] at hd; subst hd; simp at hs
  · split at h
    · exact absurd h (by simp)
    · rename_i sn' hsn' _x fr hfr
      split at h
      · exact absurd h (by simp)
      · rename_i _y base' rest hmf
        have hbase : base' ∈ missingFrags p.fragBuf sn' (divCeil fr.dataSize fr.fragSize) := by
          rw [hmf]; exact List.mem_cons_self ..
        split at h
        · injection h with h; injection h with _ h; subst h
          simp [mkR] at hd; subst hd
          simp at hs
          obtain ⟨rfl, rfl, rfl, _⟩ := hs
          refine ⟨fr, hfr, ?_⟩
          intro n hn
          have hmem : n ∈ missingFrags p.fragBuf sn (divCeil fr.dataSize fr.fragSize) := by
            rcases hn with rfl | hn
            · exact hbase
            · exact (List.takeWhile_sublist _).subset hn
          exact (mem_missingFrags _ _ _ _).mp hmem
        · split at h
          · injection h with h; injection h with _ h; subst h
            simp [mkR] at hd; subst hd
            simp at hs
            obtain ⟨rfl, rfl, rfl, _⟩ := hs
            refine ⟨fr, hfr, ?_⟩
            intro n hn
            have hmem : n ∈ missingFrags p.fragBuf sn (divCeil fr.dataSize fr.fragSize) := by
              rcases hn with rfl | hn
              · exact hbase
              · exact hn
            exact (mem_missingFrags _ _ _ _).mp hmem
          · exact absurd h (by simp)

/-- **C05_nackfrag_consistent** (repaired code, fixes/D1_D44.patch): for a sample `c` whose fragments are in a good
    buffer, every fragment number `n` the reader requests in a NACK_FRAG is in `1..=N`, is really missing, and the
    writer's answer to `n` is exactly one DATA_FRAG — the genuine fragment whose `fragment_starting_num` is `n`.
    (`p` is the proxy after the first statements of `write_message`, `WProxy.prepareAck`, which keep a good buffer good.) -/
theorem C05_nackfrag_consistent (cfg : Cfg) (hfix : cfg.fixD1 = true) (c : Change) (f : Nat) (hf : 1 ≤ f)
    (hf16 : f < 65536) (hlen : c.payload.length < 4294967296) (p p' : WProxy) (out : List Dgram)
    (ok : BufOK c f p.fragBuf) (h : p.ackDgram cfg = .ok (p', out)) (d : Dgram) (hd : d ∈ out)
    (base count : Nat) (set : List Nat) (hs : Sub.nackfrag c.sn base set count ∈ d.subs) (n : Nat)
    (hn : n = base ∨ n ∈ set) :
    (1 ≤ n ∧ n ≤ fragCount c f) ∧ asDataFrag c f (n - 1) ∉ p.fragBuf ∧
    nackFragAnswer cfg c f n = [mkW [.dst, .ts, .frag (asDataFrag c f (n - 1))]] ∧
    (asDataFrag c f (n - 1)).startNum = n := by
  obtain ⟨fr, hfr, hall⟩ := nackfrag_requests_in_range cfg p p' out h d hd c.sn base count set hs
  have hsn := List.find?_some hfr
  rw [isSn_iff] at hsn
  obtain ⟨j, _, rfl⟩ := ok.genuine fr (List.mem_of_find?_eq_some hfr) hsn
  rw [totalExpected_genuine c f j hf hf16 hlen] at hall
  obtain ⟨hr, habs⟩ := hall n hn
  have hk : n - 1 < fragCount c f := by omega
  have hstart := asDataFrag_startNum c f (n - 1) hf hlen hk
  have hstart' : (asDataFrag c f (n - 1)).startNum = n := by omega
  refine ⟨hr, ?_, ?_, hstart'⟩
  · intro hmem
    simp only [fragAbsent, Bool.not_eq_true', List.any_eq_false] at habs
    exact habs _ hmem (by simp [isSnStart, asDataFrag_sn, hstart'])
  · simp [nackFragAnswer, hfix, hr]

/-- the first statements of `write_message` keep a good buffer good (with and without the D-rtps-1 purge) -/
theorem prepareAck_bufOK (cfg : Cfg) (c : Change) (f : Nat) (p : WProxy) (ok : BufOK c f p.fragBuf) :
    BufOK c f (p.prepareAck cfg).fragBuf := by
  unfold WProxy.prepareAck
  simp only
  split
  · exact ⟨ok.nodup.sublist List.filter_sublist, fun fr hfr hsn => ok.genuine fr (List.mem_filter.mp hfr).1 hsn⟩
  · exact ok

/-- as-is (D1): the writer treats the 1-based number as a 0-based index — asked for fragment 1 of a 3-fragment sample
    it sends fragment 2, and asked for the last fragment it sends nothing -/
theorem C05_nackfrag_index_asis_counterexample :
    let c : Change := ⟨1, List.range 20⟩
    nackFragAnswer Cfg.asIs c 8 1 = [mkW [.dst, .ts, .frag (asDataFrag c 8 1)]] ∧ (asDataFrag c 8 1).startNum = 2 ∧
    nackFragAnswer Cfg.asIs c 8 3 = [] := by decide

/-- as-is (D1): `nack_frag_count` is never incremented, so every NACK_FRAG carries count 0 and the writer, whose
    `last_received_nack_frag_count` starts at 0, ignores it (`0 > 0`): a lost fragment is never repaired -/
theorem C05_nackfrag_dropped_asis_counterexample :
    let c : Change := ⟨1, List.range 20⟩
    let p : WProxy := { WProxy.new with mustAck := true, lastAvail := 1, fragBuf := [asDataFrag c 8 0, asDataFrag c 8 2] }
    let w : Writer := { changes := [c], proxy := some (RProxy.new true 0), f := 8 }
    p.writeMessage Cfg.asIs = .ok ({ p with mustAck := false, acknackCount := 1 }, [mkR [.dst, .acknack 1 [] 1 true, .nackfrag 1 2 [2] 0]])
    ∧ w.onNackFrag Cfg.asIs 1 2 [2] 0 = (w, []) := by decide

set_option maxRecDepth 16384 in
/-- as-is (D44): the request set is built from ALL missing fragments; when only the first fragment of a 300-fragment
    sample has arrived, the set spans 2..300 and `FragmentNumberSet::new` indexes `bitmap[9]`: the reader panics on the
    next heartbeat. The repaired code limits the set to `base + 255`. -/
theorem C05_nackfrag_panic_asis_counterexample :
    let fr : Frag := { sn := 1, startNum := 1, inSub := 1, fragSize := 8, dataSize := 2400, bytes := [0, 1, 2, 3, 4, 5, 6, 7] }
    let p : WProxy := { WProxy.new with mustAck := true, lastAvail := 1, fragBuf := [fr] }
    (match p.writeMessage Cfg.asIs with | .panic => true | .ok _ => false) = true ∧
    (match p.writeMessage Cfg.fixed with | .panic => false | .ok _ => true) = true := by decide

/-! ### best-effort reader: a sample whose fragments all arrive is handed over, whatever happened to earlier samples -/

/-- state of the argument: sample `c` already delivered, or still collectable (expected ≤ c.sn, good buffer, incomplete) -/
def BeWaiting (c : Change) (f : Nat) (r : Reader) (seen : List Frag) : Prop :=
  c ∈ r.cache ∨
  (∃ p, r.proxy = some p ∧ p.availMax < c.sn ∧ BufOK c f p.fragBuf ∧
    (∀ fr, fr ∈ seen → fr.sn = c.sn → fr ∈ p.fragBuf) ∧ (∃ k, k < fragCount c f ∧ asDataFrag c f k ∉ p.fragBuf))

theorem bufOK_push_other (c : Change) (f : Nat) (buf : List Frag) (fr : Frag) (h : BufOK c f buf) (hne : fr.sn ≠ c.sn) :
    BufOK c f (pushFrag buf fr) :=
  ⟨pushFrag_nodup buf fr h.nodup, fun x hx hs => by
    rcases (mem_pushFrag buf fr x).mp hx with hx | rfl
    · exact h.genuine x hx hs
    · exact absurd hs hne⟩

theorem bufOK_push_genuine (c : Change) (f : Nat) (buf : List Frag) (fr : Frag) (h : BufOK c f buf) (hg : Genuine c f fr) :
    BufOK c f (pushFrag buf fr) :=
  ⟨pushFrag_nodup buf fr h.nodup, fun x hx hs => by
    rcases (mem_pushFrag buf fr x).mp hx with hx | rfl
    · exact h.genuine x hx hs
    · exact hg⟩

theorem bufOK_filter (c : Change) (f : Nat) (buf : List Frag) (q : Frag → Bool) (h : BufOK c f buf) : BufOK c f (buf.filter q) :=
  ⟨h.nodup.sublist List.filter_sublist, fun x hx hs => h.genuine x (List.mem_filter.mp hx).1 hs⟩

/-- the best-effort branch of `on_data_submessage` with a number at or above the expected one appends the sample -/
theorem onData_be_accept (r : Reader) (p : WProxy) (hp : r.proxy = some p) (hbe : r.reliable = false) (sn : Nat) (d : Payload)
    (hge : sn ≥ p.availMax + 1) :
    (⟨sn, d⟩ : Change) ∈ (r.onData sn d).cache ∧
    ∃ p', (r.onData sn d).proxy = some p' ∧ p'.availMax ≤ sn ∧ p'.fragBuf = p.fragBuf.filter (snAbove sn) := by
  unfold Reader.onData
  rw [hp]
  simp only [hbe, Bool.false_eq_true, if_false, hge, if_true]
  refine ⟨List.mem_append_right _ (List.mem_singleton.mpr rfl), ?_⟩
  have hhr : p.highestRecv ≤ p.availMax := by unfold WProxy.availMax; exact Nat.le_max_right _ _
  have hfa : p.firstAvail - 1 ≤ p.availMax := by unfold WProxy.availMax; exact Nat.le_max_left _ _
  split
  · refine ⟨_, rfl, ?_, rfl⟩
    unfold WProxy.availMax WProxy.received
    simp only
    split <;> omega
  · refine ⟨_, rfl, ?_, rfl⟩
    unfold WProxy.availMax WProxy.received
    simp only
    split <;> omega

theorem onFrag_cache_mono (r : Reader) (fr : Frag) (c : Change) (hc : c ∈ r.cache) : c ∈ (r.onFrag fr).cache :=
  onFrag_cache r fr c hc

/-- one fragment: of the sample itself (genuine) or of an earlier sequence number (anything) -/
theorem beWaiting_step (c : Change) (f : Nat) (hf : 1 ≤ f) (hf16 : f < 65536) (hlen : c.payload.length < 4294967296)
    (r : Reader) (hbe : r.reliable = false) (seen : List Frag) (fr : Frag)
    (hfr : (fr.sn = c.sn ∧ Genuine c f fr) ∨ fr.sn < c.sn) (h : BeWaiting c f r seen) :
    BeWaiting c f (r.onFrag fr) (seen ++ [fr]) ∧ (r.onFrag fr).reliable = false := by
  have hrel : (r.onFrag fr).reliable = false := by rw [onFrag_reliable]; exact hbe
  refine ⟨?_, hrel⟩
  obtain ⟨rel, px, cache⟩ := r
  simp only at hbe
  subst hbe
  rcases h with hin | ⟨p, hp, hav, hok, hseen, k0, hk0, hmiss⟩
  · exact Or.inl (onFrag_cache_mono _ fr c hin)
  · simp only at hp
    subst hp
    unfold Reader.onFrag
    simp only [Bool.false_eq_true, if_false]
    rcases hfr with ⟨hsn, hg⟩ | hlt
    · -- a fragment of the sample: accepted (c.sn ≥ expected)
      have hacc : fr.sn ≥ p.availMax + 1 := by omega
      rw [if_pos hacc]
      simp only
      have hok1 := bufOK_push_genuine c f p.fragBuf fr hok hg
      by_cases hall : ∀ k, k < fragCount c f → asDataFrag c f k ∈ pushFrag p.fragBuf fr
      · have hre := reassemble_complete c f hf hf16 hlen _ hok1 (by omega) hall
        rw [hsn]
        simp only [reconstruct, hre]
        left
        have := (onData_be_accept (({ reliable := false, proxy := some { p with fragBuf := (pushFrag p.fragBuf fr).filter (notSn c.sn) }, cache := cache } : Reader))
          _ rfl rfl c.sn c.payload (by show c.sn ≥ p.availMax + 1; omega)).1
        exact this
      · have ⟨k, hk⟩ := Classical.not_forall.mp hall
        have ⟨hk1, hk2⟩ := Classical.not_imp.mp hk
        have hre := reassemble_incomplete c f hf hf16 hlen _ hok1 k hk1 hk2
        rw [hsn]
        simp only [reconstruct, hre]
        right
        refine ⟨_, rfl, hav, hok1, ?_, k, hk1, hk2⟩
        intro x hx hxs
        rcases List.mem_append.mp hx with hx | hx
        · exact (mem_pushFrag _ _ _).mpr (Or.inl (hseen x hx hxs))
        · simp only [List.mem_singleton] at hx; exact (mem_pushFrag _ _ _).mpr (Or.inr hx)
    · -- a fragment of an earlier sequence number: whatever happens, the sample stays collectable
      have hne : fr.sn ≠ c.sn := by omega
      generalize hp1 : (if fr.sn ≥ p.availMax + 1 then ({ p with fragBuf := pushFrag p.fragBuf fr } : WProxy) else p) = p1
      have hav1 : p1.availMax = p.availMax := by rw [← hp1]; split <;> rfl
      have hok1 : BufOK c f p1.fragBuf := by
        rw [← hp1]; split
        · exact bufOK_push_other c f p.fragBuf fr hok hne
        · exact hok
      have hkeep : ∀ x, x ∈ p.fragBuf → x ∈ p1.fragBuf := by
        rw [← hp1]; intro x hx; split
        · exact (mem_pushFrag _ _ _).mpr (Or.inl hx)
        · exact hx
      have hmiss1 : asDataFrag c f k0 ∉ p1.fragBuf := by
        rw [← hp1]; split
        · intro hm
          rcases (mem_pushFrag _ _ _).mp hm with hm | hm
          · exact hmiss hm
          · have : (asDataFrag c f k0).sn = fr.sn := by rw [hm]
            exact hne this.symm
        · exact hmiss
      have hseen1 : ∀ x, x ∈ seen ++ [fr] → x.sn = c.sn → x ∈ p1.fragBuf := by
        intro x hx hxs
        rcases List.mem_append.mp hx with hx | hx
        · exact hkeep x (hseen x hx hxs)
        · simp only [List.mem_singleton] at hx; subst hx; exact absurd hxs hne
      cases hre : reassemble p1.fragBuf fr.sn with
      | none =>
        simp only [reconstruct, hre]
        right
        exact ⟨p1, rfl, by rw [hav1]; exact hav, hok1, hseen1, k0, hk0, hmiss1⟩
      | some d =>
        simp only [reconstruct, hre]
        right
        -- on_data_submessage for the earlier number: accepted or not, c.sn stays above available_changes_max
        generalize hr2 : ({ reliable := false, proxy := some { p1 with fragBuf := p1.fragBuf.filter (notSn fr.sn) }, cache := cache } : Reader) = r2
        have hp2 : r2.proxy = some { p1 with fragBuf := p1.fragBuf.filter (notSn fr.sn) } := by rw [← hr2]
        have hbe2 : r2.reliable = false := by rw [← hr2]
        have hin2 : ∀ x, x ∈ p1.fragBuf → x.sn = c.sn → x ∈ p1.fragBuf.filter (notSn fr.sn) := by
          intro x hx hxs
          exact List.mem_filter.mpr ⟨hx, by simp [notSn, hxs]; omega⟩
        by_cases hge : fr.sn ≥ p1.availMax + 1
        · obtain ⟨_, p3, hp3, hav3, hbuf3⟩ := onData_be_accept r2 _ hp2 hbe2 fr.sn d (by show fr.sn ≥ p1.availMax + 1; exact hge)
          refine ⟨p3, hp3, by omega, ?_, ?_, k0, hk0, ?_⟩
          · rw [hbuf3]; exact bufOK_filter c f _ _ (bufOK_filter c f _ _ hok1)
          · intro x hx hxs
            rw [hbuf3]
            exact List.mem_filter.mpr ⟨hin2 x (hseen1 x hx hxs) hxs, by simp [snAbove, hxs]; omega⟩
          · rw [hbuf3]
            intro hm
            exact hmiss1 (List.mem_filter.mp (List.mem_filter.mp hm).1).1
        · have hsame : r2.onData fr.sn d = r2 := by
            unfold Reader.onData
            rw [hp2]
            simp only [hbe2, Bool.false_eq_true, if_false]
            rw [if_neg (by show ¬ fr.sn ≥ p1.availMax + 1; exact hge)]
          rw [hsame]
          refine ⟨_, hp2, by show p1.availMax < c.sn; rw [hav1]; exact hav, bufOK_filter c f _ _ hok1, ?_, k0, hk0, ?_⟩
          · intro x hx hxs; exact hin2 x (hseen1 x hx hxs) hxs
          · intro hm; exact hmiss1 (List.mem_filter.mp hm).1

/-- **C05_best_effort_complete_sample_delivered**: a best-effort reader whose expected sequence number is at or below
    `c.sn` (it has not moved past the sample), with a good buffer for `c` that does not hold the complete sample yet (true
    in every reachable state: a complete sample is reconstructed at once, `Incomplete` of Proofs/RtpsNoPanic.lean), is
    handed ANY stream of DATA_FRAG submessages
    in which every fragment of `c` occurs at least once — in any order, with duplicates, interleaved with arbitrary
    fragments of EARLIER sequence numbers (complete or not, e.g. the remains of a sample that lost a fragment): at the
    end the sample is in the delivered list, byte-identical. (Fragments of LATER numbers are excluded: a later sample
    that completes first legitimately moves the reader past `c`.) The seeded change `==` for best-effort readers
    breaks exactly this: with an earlier incomplete sample the expected number stays below `c.sn`. -/
theorem C05_best_effort_complete_sample_delivered (c : Change) (f : Nat) (hf : 1 ≤ f) (hf16 : f < 65536)
    (hlen : c.payload.length < 4294967296) (r : Reader) (p : WProxy) (hp : r.proxy = some p)
    (hbe : r.reliable = false) (hexp : p.availMax + 1 ≤ c.sn) (hbuf : BufOK c f p.fragBuf)
    (hinc : ∃ k, k < fragCount c f ∧ asDataFrag c f k ∉ p.fragBuf) (stream : List Frag)
    (hstream : ∀ fr, fr ∈ stream → (fr.sn = c.sn ∧ Genuine c f fr) ∨ fr.sn < c.sn)
    (hall : ∀ k, k < fragCount c f → asDataFrag c f k ∈ stream) :
    c ∈ (stream.foldl Reader.onFrag r).cache := by
  -- generalised over the fragments already seen
  have gen : ∀ (stream : List Frag) (r : Reader) (seen : List Frag), r.reliable = false → BeWaiting c f r seen →
      (∀ fr, fr ∈ stream → (fr.sn = c.sn ∧ Genuine c f fr) ∨ fr.sn < c.sn) →
      BeWaiting c f (stream.foldl Reader.onFrag r) (seen ++ stream) := by
    intro stream
    induction stream with
    | nil => intro r seen _ h _; simpa using h
    | cons x xs ih =>
      intro r seen hb h hs
      obtain ⟨h1, hb1⟩ := beWaiting_step c f hf hf16 hlen r hb seen x (hs x (List.mem_cons_self ..)) h
      have := ih (r.onFrag x) (seen ++ [x]) hb1 h1 (fun y hy => hs y (List.mem_cons_of_mem _ hy))
      simpa [List.append_assoc] using this
  obtain ⟨k, hk1, hk2⟩ := hinc
  have h := gen stream r [] hbe (Or.inr ⟨p, hp, by omega, hbuf, (by intro x hx; cases hx), k, hk1, hk2⟩) hstream
  rcases h with hin | ⟨p', _, _, hok', hseen', k', hk', hmiss'⟩
  · exact hin
  · exact absurd (hseen' _ (by simpa using hall k' hk') (asDataFrag_sn c f k')) hmiss'

/-- the seeded variant of `on_data_frag_submessage` (seed C05_d): the best-effort arm lost its `>=` -/
def Reader.onFragSeeded (r : Reader) (fr : Frag) : Reader :=
  match r.proxy with
  | none => r
  | some p =>
    let p1 := if fr.sn = p.availMax + 1 then { p with fragBuf := pushFrag p.fragBuf fr } else p
    match reconstruct p1.fragBuf fr.sn with
    | (some d, buf) => Reader.onData { r with proxy := some { p1 with fragBuf := buf } } fr.sn d
    | (none, _) => { r with proxy := some p1 }

/-- non-vacuity of the theorem above and witness against the seeded variant: a best-effort reader holds fragments 1 and 3
    of sample 1 (fragment 2 was lost); all three fragments of sample 2 arrive (last one first, one duplicate, a late copy
    of fragment 1 of sample 1 in between): the real code delivers sample 2 byte-identically, the seeded one nothing. -/
theorem C05_best_effort_seeded_counterexample :
    let c1 : Change := ⟨1, List.range 20⟩
    let c2 : Change := ⟨2, (List.range 17).map (· + 100)⟩
    let r : Reader := { reliable := false, proxy := some { WProxy.new with fragBuf := [asDataFrag c1 8 0, asDataFrag c1 8 2] }, cache := [] }
    let stream := [asDataFrag c2 8 2, asDataFrag c1 8 0, asDataFrag c2 8 0, asDataFrag c2 8 0, asDataFrag c2 8 1]
    (stream.foldl Reader.onFrag r).cache = [c2] ∧ (stream.foldl Reader.onFragSeeded r).cache = [] := by decide

end DustVerif.Rtps
