import DustVerif.Proofs.XcdrSpecEq
import DustVerif.Proofs.XcdrValEq
/-! Property C10: the XCDR encoding of dust-dds matches the DDS-XTypes standard as implemented independently.

No second DDS implementation exists in the sandbox; the independent implementation is `Spec/Xcdr.lean`, written
from the rules (1)-(30) of XTypes 1.3 clause 7.4.3.5.  `Model/Xcdr.lean` is the transcription of `serializer.rs`.
Choices the standard leaves to the implementation are the fields of `Spec.Dialect` (`std` / `dust`). -/
namespace DustVerif.Xcdr

/-- **C10, nested form** - for ALL types and values accepted by `wfVal cfg ver` (the subset of C09: primitives,
    strings, enumerations, sequences, arrays, final / appendable / mutable structures nested arbitrarily, optional
    and absent members), XCDR1 and XCDR2, both byte orders, every configuration the value is well-formed for: the
    bytes the transcription model writes at alignment position `pos` are the bytes of the specification
    * in EVERY dialect if the type contains no mutable structure (the standard leaves no choice there), and
    * in the dust-dds dialect (members by ascending id, LC as in `lcDust`, list terminator 1 after ALIGN(4)) otherwise.
    `shortIds`: XCDR1 parameter ids are <= 0x3F00 (short parameter header, rule (24); dust-dds has no rule (25)). -/
theorem C10_model_eq_spec (d : Spec.Dialect) (cfg : Cfg) (ver : Ver) (e : Endian) (t : Ty) (v : Val)
    (hwf : wfVal cfg ver t v = true) (hd : noMutable t = true ∨ d = Spec.Dialect.dust)
    (hid : shortIds ver t = true) (hsz : maxSize t v < 2 ^ 32) (pos : Nat) :
    (ser cfg ver e t v pos).1 = Spec.ser d ver e t v pos :=
  ser_eq_spec d cfg ver e t v hwf hd hid hsz pos

theorem repId_eq (ver : Ver) (e : Endian) (x : Ext) :
    Spec.encHeader ver e x / 256 = 0 ∧ Spec.encHeader ver e x % 256 = repId ver e x := by
  cases ver <;> cases e <;> cases x <;> decide

/-- **C10, top level**: `serialize_cdr<ver>_<e>(v)` = encapsulation header of Table 60, options with the pad count
    in the two low bits, the specification's body, zero padding to a multiple of four. -/
theorem C10_model_eq_spec_top (d : Spec.Dialect) (cfg : Cfg) (ver : Ver) (e : Endian) (x : Ext) (ms : Ms) (v : Val)
    (hwf : wfVal cfg ver (.struct x ms) v = true) (hd : noMutable (.struct x ms) = true ∨ d = Spec.Dialect.dust)
    (hid : shortIds ver (.struct x ms) = true) (hsz : maxSize (.struct x ms) v < 2 ^ 32) :
    serTop cfg ver e (.struct x ms) v = Spec.serTopD d ver e (.struct x ms) v := by
  have h := ser_eq_spec d cfg ver e _ v hwf hd hid hsz 0
  have hr := repId_eq ver e x
  simp [serTop, Spec.serTopD, ← h, Spec.extOf, Ty.ext, hr.1, hr.2, padCount, Spec.pad, zeros]

/-- the dialects differ only in the treatment of mutable structures: for every type of the sequential subset the
    standard dialect and the dust-dds dialect of the specification give the same bytes -/
theorem C10_dialect_irrelevant_without_mutable (cfg : Cfg) (ver : Ver) (e : Endian) (t : Ty) (v : Val)
    (hwf : wfVal cfg ver t v = true) (hnm : noMutable t = true) (hid : shortIds ver t = true)
    (hsz : maxSize t v < 2 ^ 32) (pos : Nat) :
    Spec.ser (Spec.Dialect.std ver) ver e t v pos = Spec.ser Spec.Dialect.dust ver e t v pos := by
  rw [← ser_eq_spec _ cfg ver e t v hwf (Or.inl hnm) hid hsz pos, ← ser_eq_spec _ cfg ver e t v hwf (Or.inl hnm) hid hsz pos]

/-! ### the exact differences of the two dialects (what dust-dds chooses / deviates in) -/

/-- XCDR1 parameter lists: dust-dds ends them with parameter id 1 (the RTPS `PID_SENTINEL`) aligned to 4, the
    specification's reading of XTypes is `PID_LIST_END` = 0x3F02 with the alignment of a UInt16; dust-dds writes the
    members of a mutable structure in ascending member id (the standard leaves the order open). -/
theorem C10_dialect_differences (ver : Ver) :
    Spec.Dialect.dust.sentinel = 1 ∧ (Spec.Dialect.std ver).sentinel = 0x3F02 ∧
    Spec.Dialect.dust.sentinelAlign = 4 ∧ (Spec.Dialect.std ver).sentinelAlign = 2 ∧
    Spec.Dialect.dust.byId = true ∧ (Spec.Dialect.std ver).byId = false := by
  refine ⟨rfl, rfl, rfl, rfl, rfl, rfl⟩

/-- EMHEADER1 length code: dust-dds and the book choice agree on every member type except
    (a) sequences of primitive elements (dust-dds: always 5), (b) appendable / mutable structures, appendable unions and sequences whose
    value happens to be 1, 2, 4 or 8 bytes long (dust-dds: 5, book: 0..3), (c) arrays of non-primitive elements of
    another size (dust-dds: 4, book: 5).  (b) and (c) are both valid encodings; (a) is not (finding D62). -/
theorem C10_lc_differences (t : Ty) (size : Nat) (h : Spec.lcDust t size ≠ Spec.lcStd .v2 t size) :
    (∃ p, t = .seq (.prim p)) ∨
    ((∃ ms, t = .struct .appendable ms) ∨ (∃ ms, t = .struct .mutable ms) ∨ (∃ el, t = .seq el) ∨
        (∃ d bs, t = .union true d bs)) ∧
      (size = 1 ∨ size = 2 ∨ size = 4 ∨ size = 8) ∨
    (∃ el n, t = .arr el n ∧ Spec.isPrimitive el = false) := by
  cases t with
  | prim p => simp [Spec.lcDust, Spec.lcStd, Spec.startsWithDheader] at h
  | str => simp [Spec.lcDust, Spec.lcStd, Spec.startsWithDheader] at h
  | enum hd ls x => simp [Spec.lcDust, Spec.lcStd, Spec.startsWithDheader] at h
  | wstr => simp [Spec.lcDust, Spec.lcStd, Spec.startsWithDheader] at h
  | union app d bs =>
    cases app with
    | false => simp [Spec.lcDust, Spec.lcStd, Spec.startsWithDheader] at h
    | true =>
      refine Or.inr (Or.inl ⟨Or.inr (Or.inr (Or.inr ⟨_, _, rfl⟩)), ?_⟩)
      simp only [Spec.lcDust, Spec.lcStd, Spec.startsWithDheader] at h
      by_cases h1 : size = 1; · exact Or.inl h1
      by_cases h2 : size = 2; · exact Or.inr (Or.inl h2)
      by_cases h4 : size = 4; · exact Or.inr (Or.inr (Or.inl h4))
      by_cases h8 : size = 8; · exact Or.inr (Or.inr (Or.inr h8))
      simp [h1, h2, h4, h8] at h
  | seq el =>
    cases el with
    | prim p => exact Or.inl ⟨p, rfl⟩
    | _ =>
      refine Or.inr (Or.inl ⟨Or.inr (Or.inr (Or.inl ⟨_, rfl⟩)), ?_⟩)
      simp only [Spec.lcDust, Spec.lcStd, Spec.startsWithDheader, Spec.isPrimitive] at h
      by_cases h1 : size = 1; · exact Or.inl h1
      by_cases h2 : size = 2; · exact Or.inr (Or.inl h2)
      by_cases h4 : size = 4; · exact Or.inr (Or.inr (Or.inl h4))
      by_cases h8 : size = 8; · exact Or.inr (Or.inr (Or.inr h8))
      simp [h1, h2, h4, h8] at h
  | arr el n =>
    cases hp : Spec.isPrimitive el with
    | true => simp [Spec.lcDust, Spec.lcStd, Spec.startsWithDheader, hp] at h
    | false => exact Or.inr (Or.inr ⟨el, n, rfl, hp⟩)
  | struct x ms =>
    cases x with
    | final => simp [Spec.lcDust, Spec.lcStd, Spec.startsWithDheader] at h
    | appendable =>
      refine Or.inr (Or.inl ⟨Or.inl ⟨_, rfl⟩, ?_⟩)
      simp only [Spec.lcDust, Spec.lcStd, Spec.startsWithDheader] at h
      by_cases h1 : size = 1; · exact Or.inl h1
      by_cases h2 : size = 2; · exact Or.inr (Or.inl h2)
      by_cases h4 : size = 4; · exact Or.inr (Or.inr (Or.inl h4))
      by_cases h8 : size = 8; · exact Or.inr (Or.inr (Or.inr h8))
      simp [h1, h2, h4, h8] at h
    | mutable =>
      refine Or.inr (Or.inl ⟨Or.inr (Or.inl ⟨_, rfl⟩), ?_⟩)
      simp only [Spec.lcDust, Spec.lcStd, Spec.startsWithDheader] at h
      by_cases h1 : size = 1; · exact Or.inl h1
      by_cases h2 : size = 2; · exact Or.inr (Or.inl h2)
      by_cases h4 : size = 4; · exact Or.inr (Or.inr (Or.inl h4))
      by_cases h8 : size = 8; · exact Or.inr (Or.inr (Or.inr h8))
      simp [h1, h2, h4, h8] at h

/-! ### enumerations with a declared extensibility, wide strings (follow-up 2) -/
/-- **length code of an enumeration member**: an enumeration has no DHEADER whatever extensibility its type declares
    (`@appendable` is the IDL default for enums), so in a mutable structure its EMHEADER1 carries the length code of
    its size (LC = 2 for the usual 32-bit holder), never 5 - in the model (`Ty.lc5`, transcription of
    `EMheader1::write_header`: the kind test STRUCTURE | UNION comes before the extensibility test), in the dust dialect
    and in the book dialect of the specification. -/
theorem C10_enum_length_code (h : Prim) (ls : List Int) (x : Ext) (size : Nat) :
    Ty.lc5 (.enum h ls x) = false ∧
    Spec.lcDust (.enum h ls x) size = Spec.lcStd .v2 (.enum h ls x) size ∧
    Spec.lcStd .v2 (.enum h ls x) 4 = 2 ∧ Spec.lcStd .v2 (.enum h ls x) 2 = 1 ∧ Spec.lcStd .v2 (.enum h ls x) 1 = 0 := by
  simp [Ty.lc5, Spec.lcDust, Spec.lcStd, Spec.startsWithDheader]

/-- `#[mutable] struct { a: E, b: u8 }` with `@appendable enum E` (32-bit), value (1, 7), XCDR2 little-endian: the
    EMHEADER1 of `a` is 0x20000000 (LC = 2); the same bytes for a final enumeration. Replayed by the corpus of C10
    (`cmp 2 le SM{0:Ei32a[0,1],1:u8} {1,7}`). -/
def tyEnumA : Ty := .struct .mutable (.cons 0 false false (.enum .i32 [0, 1] .appendable) (.cons 1 false false (.prim .u8) .nil))
def tyEnumF : Ty := .struct .mutable (.cons 0 false false (.enum .i32 [0, 1] .final) (.cons 1 false false (.prim .u8) .nil))
theorem C10_appendable_enum_member_bytes :
    serTop Cfg.fixed .v2 .le tyEnumA (.struct [.num 1, .num 7]) =
      [0, 0x0b, 0, 3, 0x0d, 0, 0, 0, 0, 0, 0, 0x20, 1, 0, 0, 0, 1, 0, 0, 0, 7, 0, 0, 0] ∧
    serTop Cfg.fixed .v2 .le tyEnumF (.struct [.num 1, .num 7]) = serTop Cfg.fixed .v2 .le tyEnumA (.struct [.num 1, .num 7]) ∧
    Spec.serTop .v2 .le tyEnumA (.struct [.num 1, .num 7]) = serTop Cfg.fixed .v2 .le tyEnumA (.struct [.num 1, .num 7]) := by
  decide +kernel

/-- a wide string with a character outside the BMP (U+1F600 = D83D DE00): the length prefix counts UTF-16 code units
    plus the terminating zero unit (5), not characters (4). Inside the hypotheses of `C10_model_eq_spec`. -/
def tyW : Ty := .struct .final (.cons 0 false false .wstr (.cons 1 false false (.prim .u8) .nil))
def valW : Val := .struct [.list [.num 97, .num 0xD83D, .num 0xDE00, .num 98], .num 7]
theorem C10_wstring_bytes :
    wfVal Cfg.fixed .v1 tyW valW = true ∧
    serTop Cfg.fixed .v1 .le tyW valW =
      [0, 1, 0, 1, 5, 0, 0, 0, 0x61, 0, 0x3d, 0xd8, 0, 0xde, 0x62, 0, 0, 0, 7, 0] := by
  decide +kernel

/-! ### non-vacuity and witnesses -/
def tyC10 : Ty := .struct .appendable (.cons 0 false false (.prim .u8) (.cons 1 true false (.prim .u64)
  (.cons 2 false false (.seq (.struct .final (.cons 0 false false .str (.cons 1 false false (.arr (.prim .i16) 2) .nil))))
  (.cons 3 false false (.enum .i8 [-1, 3] .final) .nil))))
def valC10 : Val := .struct [.num 7, .num 0x1122334455667788,
  .list [.struct [.str [0x61, 0x62], .list [.num 1, .num 65535]]], .num 255]
example : wfVal Cfg.fixed .v1 tyC10 valC10 = true ∧ noMutable tyC10 = true ∧ shortIds .v1 tyC10 = true ∧
    maxSize tyC10 valC10 < 2 ^ 32 := by decide

/-- non-vacuity with mutable structures (nested, ids out of order, an absent member, must-understand) -/
def tyC10M : Ty := .struct .mutable (.cons 7 false true (.prim .u64) (.cons 2 true false .str
  (.cons 3 false false (.struct .mutable (.cons 0 false false (.prim .u8) (.cons 5 false false (.seq (.prim .u8)) .nil)))
  (.cons 0 false false (.struct .appendable (.cons 0 false false (.prim .i16) .nil)) .nil))))
example : wfVal Cfg.fixed .v1 tyC10M (.struct [.num 5, .absent, .struct [.num 1, .list [.num 1, .num 2]], .struct [.num 9]]) = true ∧
    wfVal Cfg.fixed .v2 tyC10M (.struct [.num 5, .str [0x61], .struct [.num 1, .list [.num 1, .num 2]], .struct [.num 9]]) = true ∧
    shortIds .v1 tyC10M = true := by decide

def tyMutSeq : Ty := .struct .mutable (.cons 0 false false (.seq (.prim .u16)) (.cons 1 false false (.prim .u32) .nil))
def valMutSeq : Val := .struct [.list [.num 1, .num 2, .num 3], .num 7]
/-- D62: for `#[mutable] struct { a: sequence<u16>, b: u32 }` = ([1,2,3], 7) in XCDR2 dust-dds (model = dust dialect of
    the specification, bytes equal) writes LC = 5 for member `a`, whose value is 10 bytes long and starts with the element
    count 3: LC 5 claims 4 + 3 = 7 bytes. The book dialect writes LC = 4 with NEXTINT = 10, so the encodings differ. -/
theorem C10_lc5_primitive_sequence_counterexample :
    serTop Cfg.fixed .v2 .le tyMutSeq valMutSeq = Spec.serTopD Spec.Dialect.dust .v2 .le tyMutSeq valMutSeq ∧
    Spec.lcDust (.seq (.prim .u16)) 10 = 5 ∧ Spec.lcValid 5 10 3 = false ∧
    Spec.lcStd .v2 (.seq (.prim .u16)) 10 = 4 ∧
    Spec.serTopD Spec.Dialect.dust .v2 .le tyMutSeq valMutSeq ≠ Spec.serTopD (Spec.Dialect.std .v2) .v2 .le tyMutSeq valMutSeq := by
  decide +kernel

def tyMut1 : Ty := .struct .mutable (.cons 0 false false (.prim .u8) .nil)
/-- D67 / sentinel: `#[mutable] struct { a: u8 }` = 5 in XCDR1: dust-dds (= dust dialect) ends the parameter list with
    `01 00 00 00` after ALIGN(4), the book dialect with `02 3f 00 00` (PID_LIST_END) after ALIGN(2). -/
theorem C10_xcdr1_sentinel_counterexample :
    serTop Cfg.fixed .v1 .le tyMut1 (.struct [.num 5]) = Spec.serTopD Spec.Dialect.dust .v1 .le tyMut1 (.struct [.num 5]) ∧
    serTop Cfg.fixed .v1 .le tyMut1 (.struct [.num 5]) = [0, 3, 0, 0, 0, 0, 1, 0, 5, 0, 0, 0, 1, 0, 0, 0] ∧
    Spec.serTopD (Spec.Dialect.std .v1) .v1 .le tyMut1 (.struct [.num 5]) = [0, 3, 0, 2, 0, 0, 1, 0, 5, 0, 0x02, 0x3f, 0, 0, 0, 0] := by
  decide +kernel

end DustVerif.Xcdr
