import DustVerif.Model.Worker
/-! Property C31: the DDS worker never oversleeps its periodic duties.

    `requested u` is the delay (in ns, after the conversion `Duration -> core::time::Duration` with its `sec as u64`)
    that the worker loop hands to the runtime timer when the six `time_until_*` functions return `u`; each of them may be
    absent, positive, zero or NEGATIVE (an overdue duty). The model is the code with fixes/D36.patch
    (clamp at zero + the reader-deadline timer reads the stamps the check reads); `requestedAsIs` is the pinned code. -/
namespace DustVerif.Worker
open DustVerif.Time DustVerif.Deadline

theorem optMin_le (a : Int) (o : Option Int) : optMin a o ≤ a := by
  cases o <;> simp [optMin]; omega

theorem optMin_le_some (a v : Int) : optMin a (some v) ≤ v := by
  simp [optMin]; omega

theorem foldl_optMin_le (l : List (Option Int)) (a : Int) : l.foldl optMin a ≤ a := by
  induction l generalizing a with
  | nil => simp
  | cons o r ih =>
    simp only [List.foldl_cons]
    exact Int.le_trans (ih (optMin a o)) (optMin_le a o)

theorem foldl_optMin_le_mem (l : List (Option Int)) (a v : Int) (h : some v ∈ l) : l.foldl optMin a ≤ v := by
  induction l generalizing a with
  | nil => simp at h
  | cons o r ih =>
    simp only [List.foldl_cons]
    rcases List.mem_cons.mp h with h | h
    · subst h
      exact Int.le_trans (foldl_optMin_le r (optMin a (some v))) (optMin_le_some a v)
    · exact ih (optMin a o) h

theorem nextTaskAsIs_eq_foldl (u : Untils) :
    nextTaskAsIs u = [u.readerDeadline, u.writerDeadline, u.staleParticipant, u.staleSample, u.pendingWrite,
      u.announcement].foldl optMin POKE := rfl

theorem nextTaskAsIs_le_poke (u : Untils) : nextTaskAsIs u ≤ POKE := by
  rw [nextTaskAsIs_eq_foldl]
  exact foldl_optMin_le _ _

/-- a non-negative duration below one second converts exactly -/
theorem requested_of_small (x : Int) (h0 : 0 ≤ x) (h1 : x < 1000000000) : toCoreNs (toDur x) = x.toNat := by
  unfold toCoreNs toDur NSI TWO64
  have hs : x / 1000000000 = 0 := by omega
  have hn : x % 1000000000 = x := by omega
  simp only [hs, hn]
  have : ((0 : Int) % ((18446744073709551616 : Nat) : Int)).toNat = 0 := by decide
  rw [this]
  omega

/-- C31 (bound), for ALL values of the six timers, present or absent, positive, zero or negative:
    the delay requested from the runtime never exceeds the poke period of 50 ms -/
theorem C31_bound (u : Untils) : requested u ≤ 50000000 := by
  have hp := nextTaskAsIs_le_poke u
  unfold requested
  have h0 : 0 ≤ nextTask u := by unfold nextTask; omega
  have h1 : nextTask u ≤ 50000000 := by unfold nextTask; unfold POKE at hp; omega
  rw [requested_of_small (nextTask u) h0 (by omega)]
  omega

/-- every sleep of the modelled worker loop is bounded, whatever the state of the world -/
theorem C31_every_sleep_bounded (w : World) : (iterate w).lastReq.2 ≤ 50000000 := by
  unfold iterate sleep
  exact C31_bound _

theorem nextTaskAsIs_le_component (u : Untils) (v : Int)
    (h : u.readerDeadline = some v ∨ u.writerDeadline = some v ∨ u.staleParticipant = some v ∨
         u.staleSample = some v ∨ u.pendingWrite = some v ∨ u.announcement = some v) :
    nextTaskAsIs u ≤ v := by
  rw [nextTaskAsIs_eq_foldl]
  apply foldl_optMin_le_mem
  rcases h with h | h | h | h | h | h <;> simp [← h]

/-- C31 (no duty is overslept): the requested delay never exceeds the time left to ANY pending duty
    (an overdue duty, `v <= 0`, gives a zero delay) -/
theorem C31_wakes_by_every_duty (u : Untils) (v : Int)
    (h : u.readerDeadline = some v ∨ u.writerDeadline = some v ∨ u.staleParticipant = some v ∨
         u.staleSample = some v ∨ u.pendingWrite = some v ∨ u.announcement = some v) :
    (requested u : Int) ≤ max v 0 := by
  have hc := nextTaskAsIs_le_component u v h
  have hp := nextTaskAsIs_le_poke u
  unfold requested
  have h0 : 0 ≤ nextTask u := by unfold nextTask; omega
  have h1 : nextTask u ≤ 50000000 := by unfold nextTask; unfold POKE at hp; omega
  rw [requested_of_small (nextTask u) h0 (by omega)]
  unfold nextTask at *
  omega

/-- C31 (second clause): while a write is blocked with expiry `e` and the worker computes its sleep at `now < e`, the next
    wake-up (a zero delay advances the clock by at least 1 ns) is at or before `e`; at the first wake-up with `now >= e`
    `check_pending_writer_sample_timeout` answers Timeout. Hence, with a timer that is at most one poke period late, Timeout
    arrives no later than max_blocking_time + one poke period -/
theorem C31_timeout_wakeup (u : Untils) (now e : Int) (hlt : now < e)
    (hp : u.pendingWrite = some (if e > now then e - now else 0)) :
    now + max (requested u : Int) 1 ≤ e := by
  have h := C31_wakes_by_every_duty u (if e > now then e - now else 0) (by simp [hp])
  have he : (if e > now then e - now else 0) = e - now := by simp [hlt]
  rw [he] at h
  omega

theorem minList_foldl_mem (l : List Int) (a : Int) : l.foldl min a = a ∨ l.foldl min a ∈ l := by
  induction l generalizing a with
  | nil => simp
  | cons x r ih =>
    simp only [List.foldl_cons, List.mem_cons]
    rcases ih (min a x) with h | h
    · by_cases hx : a ≤ x
      · left; rw [h]; omega
      · right; left; rw [h]; omega
    · right; right; exact h

theorem minList_mem (l : List Int) (v : Int) (h : minList l = some v) : v ∈ l := by
  cases l with
  | nil => simp [minList] at h
  | cons x r =>
    simp only [minList, Option.some.injEq] at h
    rcases minList_foldl_mem r x with h' | h'
    · rw [h'] at h; simp [← h]
    · rw [h] at h'; simp [h']

/-- C31 (progress, reader deadlines): when the reader-deadline timer is due (`<= 0`, so the worker asks for a zero delay),
    the check of ANY later instant finds an expired instance and re-arms it — timer and check read the same stamps, so a zero
    delay is never answered by "nothing to do" -/
theorem C31_progress_reader (r : Reader) (now now' v : Int) (hu : untilReader r now = some v) (hv : v ≤ 0)
    (hlater : now < now') : (checkReader r now').2 ≠ [] := by
  unfold untilReader at hu
  cases hp : r.period with
  | none => simp [hp] at hu
  | some p =>
    simp only [hp] at hu
    have hm := minList_mem _ v hu
    obtain ⟨i, hi, hiv⟩ := List.mem_map.mp hm
    unfold checkReader
    simp only [hp]
    intro hnil
    have hmem : i.key ∈ (r.insts.filter (expired now' p)).map (·.key) := by
      apply List.mem_map.mpr
      refine ⟨i, ?_, rfl⟩
      apply List.mem_filter.mpr
      refine ⟨hi, ?_⟩
      simp only [expired, decide_eq_true_eq]
      omega
    rw [hnil] at hmem
    simp at hmem

/-- C31 (progress, writer deadlines) -/
theorem C31_progress_writer (w : Writer) (now now' v : Int) (hu : untilWriter w now = some v) (hv : v ≤ 0)
    (hlater : now < now') : (checkWriter w now').2 ≠ [] := by
  unfold untilWriter at hu
  cases hp : w.period with
  | none => simp [hp] at hu
  | some p =>
    simp only [hp] at hu
    have hm := minList_mem _ v hu
    obtain ⟨t, ht, htv⟩ := List.mem_map.mp hm
    obtain ⟨i, hi, hit⟩ := List.mem_filterMap.mp ht
    unfold checkWriter
    simp only [hp]
    intro hnil
    have hmem : i.key ∈ (w.insts.filter (wExpired now' p)).map (·.key) := by
      apply List.mem_map.mpr
      refine ⟨i, ?_, rfl⟩
      apply List.mem_filter.mpr
      refine ⟨hi, ?_⟩
      simp only [wExpired, hit, decide_eq_true_eq]
      omega
    rw [hnil] at hmem
    simp at hmem

/-- D36 as pinned: ONE overdue duty (here: 1 ns late) makes the worker ask for u64::MAX seconds; the simulator records the
    nanosecond count saturated at u64::MAX -/
theorem C31_asis_counterexample :
    requestedAsIs { readerDeadline := some (-1), writerDeadline := none, staleParticipant := none, staleSample := none,
                    pendingWrite := none, announcement := none } = 18446744073709551615 ∧
    (toDur (-1)).sec % (TWO64 : Int) = 18446744073709551615 := by
  decide

/-- the clamp ALONE does not repair D36: with the pinned timer (reads the ownership stamps) and the pinned check (reads the
    instance stamps), a sample dropped by the time-based filter at +0.4 s leaves the timer due at +1.0 s while the check finds
    nothing until +1.4 s: the clamped delay is zero at every instant in between (a busy loop) -/
theorem C31_clamp_alone_counterexample :
    let r : Reader := { period := some 1000000000, insts := [{ key := 1, stamp := 400000000 }],
                        owns := [{ key := 1, owner := 1, stamp := 0 }] }
    untilReaderAsIs r 1000000000 = some 0 ∧ untilReaderAsIs r 1200000000 = some (-200000000) ∧
    (checkReaderAsIs r 1000000001).2 = [] ∧ (checkReaderAsIs r 1200000000).2 = [] ∧
    (checkReaderAsIs r 1200000000).1 = r := by
  decide

/-! ### non-vacuity -/

/-- the bound is attained, and overdue / imminent duties shorten the sleep -/
example :
    requested { readerDeadline := none, writerDeadline := none, staleParticipant := none, staleSample := none,
                pendingWrite := none, announcement := none } = 50000000 ∧
    requested { readerDeadline := some (-1), writerDeadline := some 7, staleParticipant := none, staleSample := none,
                pendingWrite := none, announcement := none } = 0 ∧
    requested { readerDeadline := some 30000000, writerDeadline := some 70000000, staleParticipant := some 100000000000,
                staleSample := none, pendingWrite := some 20000000, announcement := some 0 } = 0 ∧
    requested { readerDeadline := some 30000000, writerDeadline := some 70000000, staleParticipant := some 100000000000,
                staleSample := none, pendingWrite := some 20000000, announcement := none } = 20000000 := by
  decide

/-- hypotheses of the progress theorem are satisfiable: a due reader deadline, and the check one nanosecond later re-arms it -/
example :
    let r : Reader := { period := some 100, insts := [{ key := 1, stamp := 0 }, { key := 2, stamp := 60 }] }
    untilReader r 100 = some 0 ∧ (checkReader r 101).2 = [1] ∧ untilReader (checkReader r 101).1 101 = some 59 := by
  decide

end DustVerif.Worker
