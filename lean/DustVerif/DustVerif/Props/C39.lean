import DustVerif.Proofs.AssignLemmas
import DustVerif.Props.C09
/-! Property C39: compatible type evolution preserves the common members.

The reader decodes the writer's bytes with its own type: `deTop cfg tr (serTop cfg ver e tw v)`
(`deserialize_top_level_type(reader type, serialize_cdr<ver>_<e>(writer value))`). `project tr tw v`
(Model/Assign.lean) is the value the reader should see; `assignable tr tw` transcribes
`CompleteTypeObject::is_assignable_from` (type_object.rs:2665); `evolves tr tw` is the evolution relation covered by
the theorem. -/
namespace DustVerif.Xcdr

/-- the decoder selects the version and byte order the serializer used, whatever the two types are -/
theorem deTop_serTop2 (cfg : Cfg) (ver : Ver) (e : Endian) (tr tw : Ty) (v : Val) :
    deTop cfg tr (serTop cfg ver e tw v) =
      deTopGo cfg tr ver e ⟨(ser cfg ver e tw v 0).1 ++ zeros (padCount (4 + (ser cfg ver e tw v 0).1.length)), 0⟩ := by
  simp only [serTop, deTop, List.cons_append, List.nil_append, repId_toNat]
  cases ver <;> cases e <;> cases hx : tw.ext <;> simp [repId]

theorem wfFs_length (cfg : Cfg) (ver : Ver) : (ms : Ms) → (fs : List Val) → wfFs cfg ver ms fs = true → fs.length = ms.length
  | .nil, [], _ => rfl
  | .cons _ _ _ _ r, _ :: fs, h => by
    simp only [wfFs, Bool.and_eq_true] at h
    simp [Ms.length, wfFs_length cfg ver r fs h.2]
  | .nil, _ :: _, h => by simp [wfFs] at h
  | .cons _ _ _ _ _, [], h => by simp [wfFs] at h

theorem isPrefix_length : (a b : Ms) → a.isPrefix b = true → a.length ≤ b.length
  | .nil, _, _ => by simp [Ms.length]
  | .cons _ _ _ _ r, .cons _ _ _ _ w, h => by
    simp only [Ms.isPrefix, Bool.and_eq_true] at h
    have := isPrefix_length r w h.2
    simp only [Ms.length]; omega
  | .cons _ _ _ _ _, .nil, h => by simp [Ms.isPrefix] at h

theorem readerLonger_length : (a b : Ms) → a.readerLonger b = true → b.length ≤ a.length
  | .cons _ _ _ _ r, .cons _ _ _ _ w, h => by
    simp only [Ms.readerLonger, Bool.and_eq_true] at h
    have := readerLonger_length r w h.2
    simp only [Ms.length]; omega
  | .nil, .nil, _ => by simp
  | .cons _ _ _ _ _, .nil, _ => by simp [Ms.length]
  | .nil, .cons _ _ _ _ _, h => by simp [Ms.readerLonger] at h

/-- the members of an appendable structure read with a shorter or a longer member list, fewer than four bytes behind -/
theorem app_core (cfg : Cfg) (ver : Ver) (e : Endian) (msr msw : Ms) (fs : List Val)
    (hev : evolves (.struct .appendable msr) (.struct .appendable msw) = true)
    (hwf : wfFs cfg ver msw fs = true) (hsz : maxSizeMs msw fs < 2 ^ 32) (pos : Nat) (rest : Bytes)
    (hrest : rest.length < 4) :
    ∃ s', deF cfg ver e true msr ⟨(serF cfg ver e msw fs pos).1 ++ rest, pos⟩ = .ok (projPos msr.length fs) s' := by
  have hlen := wfFs_length cfg ver msw fs hwf
  simp only [evolves, Bool.or_eq_true, Bool.and_eq_true] at hev
  rcases hev with h | h
  · obtain ⟨s', hs⟩ := deF_prefix cfg ver e msr msw fs h.1.1 hwf hsz true pos rest
    have hl := isPrefix_length msr msw h.1.1
    refine ⟨s', ?_⟩
    have : msr.length - fs.length = 0 := by omega
    simp only [projPos, this, absents, List.replicate_zero, List.append_nil, hs]
  · obtain ⟨s', hs⟩ := deF_readerLonger cfg ver e msr msw fs h.1.1 hwf hsz pos rest hrest
    have hl := readerLonger_length msr msw h.1.1
    refine ⟨s', ?_⟩
    have : fs.take msr.length = fs := List.take_of_length_le (by omega)
    simp only [projPos, this, hs]

theorem project_appendable (cfg : Cfg) (ver : Ver) (e : Endian) (msr msw : Ms) (fs : List Val)
    (hev : evolves (.struct .appendable msr) (.struct .appendable msw) = true)
    (hwf : wfVal cfg ver (.struct .appendable msw) (.struct fs) = true)
    (hsz : maxSize (.struct .appendable msw) (.struct fs) < 2 ^ 32) :
    (deTop cfg (.struct .appendable msr) (serTop cfg ver e (.struct .appendable msw) (.struct fs))).val? =
      some (.struct (projPos msr.length fs)) := by
  rw [deTop_serTop2]
  simp only [wfVal] at hwf
  simp only [maxSize] at hsz
  have hpad : (zeros (padCount (4 + (ser cfg ver e (.struct .appendable msw) (.struct fs) 0).1.length))).length < 4 := by
    rw [zeros_length]; exact padCount_lt _
  generalize zeros (padCount (4 + (ser cfg ver e (.struct .appendable msw) (.struct fs) 0).1.length)) = rest at hpad
  cases ver with
  | v1 =>
    have hv : (Ver.v1 == Ver.v1) = true := by decide
    obtain ⟨s', hs⟩ := app_core cfg .v1 e msr msw fs hev hwf (by omega) 0 rest hpad
    simp only [deTopGo, de, ser, hv, if_true, hs, Res.map, Res.val?]
  | v2 =>
    have hv : (Ver.v2 == Ver.v1) = false := by decide
    have hf := serFFacts cfg .v2 e msw fs hwf (wPrim .v2 e .u32 0 0).2
    obtain ⟨s', hs⟩ := app_core cfg .v2 e msr msw fs hev hwf (by omega) (wPrim .v2 e .u32 0 0).2 rest hpad
    simp only [deTopGo, de, ser, hv, Bool.false_eq_true, if_false]
    split
    · simp only [dDelimited]
      rw [dPrim_wDh .v2 e _ 0 rest (by have := hf.1; omega)]
      simp only [Res.bind, List.length_append]
      have hle : (serF cfg .v2 e msw fs (wPrim .v2 e .u32 0 0).2).1.length ≤
          (serF cfg .v2 e msw fs (wPrim .v2 e .u32 0 0).2).1.length + rest.length := by omega
      simp only [hle, if_true, hs, Res.restore, Res.map, Res.val?]
    · rw [dPrim_wDh .v2 e _ 0 rest (by have := hf.1; omega)]
      simp only [hs, Res.map, Res.val?]

theorem anyCommon_length : (a b : Ms) → a.anyCommon b = true → 0 < a.length
  | .nil, _, h => by simp [Ms.anyCommon] at h
  | .cons _ _ _ _ _, _, _ => by simp [Ms.length]

theorem project_mutable (cfg : Cfg) (ver : Ver) (e : Endian) (msr msw : Ms) (fs : List Val)
    (hev : evolves (.struct .mutable msr) (.struct .mutable msw) = true)
    (hwf : wfVal cfg ver (.struct .mutable msw) (.struct fs) = true)
    (hsz : maxSize (.struct .mutable msw) (.struct fs) < 2 ^ 32)
    (hszr : maxSizeMs msr (projById msr msw fs) < 2 ^ 32) :
    (deTop cfg (.struct .mutable msr) (serTop cfg ver e (.struct .mutable msw) (.struct fs))).val? =
      some (.struct (projById msr msw fs)) := by
  rw [deTop_serTop2]
  simp only [maxSize] at hsz
  simp only [evolves, Bool.and_eq_true, decide_eq_true_eq] at hev
  obtain ⟨⟨⟨⟨⟨hcompat, hndr⟩, hndw⟩, hcommon⟩, _⟩, _⟩ := hev
  have hpad : (zeros (padCount (4 + (ser cfg ver e (.struct .mutable msw) (.struct fs) 0).1.length))).length < 4 := by
    rw [zeros_length]; exact padCount_lt _
  generalize zeros (padCount (4 + (ser cfg ver e (.struct .mutable msw) (.struct fs) 0).1.length)) = rest at hpad
  cases ver with
  | v2 =>
    simp only [wfVal, Bool.and_eq_true, decide_eq_true_eq] at hwf
    obtain ⟨⟨h47, hnd⟩, hm⟩ := hwf
    have hv : (Ver.v2 == Ver.v1) = false := by decide
    obtain ⟨hp, hsub, habs⟩ := reader_side cfg .v2 e msw fs hnd hm msr hcompat
    have hK0 := chunks_K2 cfg e msw fs hm (by omega)
    have hK : ∀ d ∈ sortChunks (chunks cfg .v2 e msw fs), K2 e d := fun d hd => hK0 d ((mem_sortChunks d _).mp hd)
    have hnd' := chunks_nodup cfg .v2 e msw fs hnd
    have hinj : ∀ a ∈ sortChunks (chunks cfg .v2 e msw fs), ∀ b ∈ sortChunks (chunks cfg .v2 e msw fs),
        a.id % 2 ^ 16 = b.id % 2 ^ 16 → a = b := fun a ha b hb hab =>
      inj_of_nodup_map (fun c : Chunk => c.id % 2 ^ 16) _ hnd' a ((mem_sortChunks a _).mp ha) b
        ((mem_sortChunks b _).mp hb) hab
    have hef := emit2_facts e (sortChunks (chunks cfg .v2 e msw fs)) (fun d hd => (hK d hd).1) (wPrim .v2 e .u32 0 0).2
    have hal : (wPrim .v2 e .u32 0 0).2 % 4 = 0 := by
      simp [wPrim, primBytes, Prim.size, encNat_length, wPad_v2_4, padTo]
    have habs' := absOk_congr _ (sortChunks (chunks cfg .v2 e msw fs)) (fun c hc => (mem_sortChunks c _).mp hc) msr _ habs
    have hM := rtM2a cfg e msr (projById msr msw fs) hp hszr (sortChunks (chunks cfg .v2 e msw fs))
      (wPrim .v2 e .u32 0 0).2 rest hal hK hinj (fun c hc => (mem_sortChunks c _).mpr (hsub c hc)) habs' hpad
    have hlen : (emit2 e (sortChunks (chunks cfg .v2 e msw fs)) (wPrim .v2 e .u32 0 0).2).1.length < 2 ^ 32 := by
      have h1 := hef.2
      rw [sum_sortChunks] at h1
      have h2 := (chunksFacts cfg .v2 e msw fs hm).1
      omega
    simp only [deTopGo, de, ser, hv, Bool.false_eq_true, if_false, h47, if_true]
    simp only [dDelimited]
    rw [dPrim_wDh .v2 e _ 0 rest hlen]
    simp only [Res.bind, List.length_append]
    have hle : (emit2 e (sortChunks (chunks cfg .v2 e msw fs)) (wPrim .v2 e .u32 0 0).2).1.length ≤
        (emit2 e (sortChunks (chunks cfg .v2 e msw fs)) (wPrim .v2 e .u32 0 0).2).1.length + rest.length := by omega
    simp only [hle, if_true, hM, Res.restore, Res.map, Res.val?]
  | v1 =>
    simp only [wfVal, Bool.and_eq_true, decide_eq_true_eq] at hwf
    obtain ⟨⟨⟨⟨h45, h61⟩, _⟩, hnd⟩, hm⟩ := hwf
    have hv : (Ver.v1 == Ver.v1) = true := by decide
    obtain ⟨hp, hsub, habs⟩ := reader_side cfg .v1 e msw fs hnd hm msr hcompat
    have hC0 := chunks_C1 cfg e msw fs hm
    have hC : ∀ d ∈ sortChunks (chunks cfg .v1 e msw fs), C1 d := fun d hd => hC0 d ((mem_sortChunks d _).mp hd)
    have hnd' := chunks_nodup cfg .v1 e msw fs hnd
    have hinj : ∀ a ∈ sortChunks (chunks cfg .v1 e msw fs), ∀ b ∈ sortChunks (chunks cfg .v1 e msw fs),
        a.id % 2 ^ 16 = b.id % 2 ^ 16 → a = b := fun a ha b hb hab =>
      inj_of_nodup_map (fun c : Chunk => c.id % 2 ^ 16) _ hnd' a ((mem_sortChunks a _).mp ha) b
        ((mem_sortChunks b _).mp hb) hab
    have habs' := absOk_congr _ (sortChunks (chunks cfg .v1 e msw fs)) (fun c hc => (mem_sortChunks c _).mp hc) msr _ habs
    have hal : (0 + wPad .v1 4 0) % 4 = 0 := by rw [wPad_v1_4]; exact padTo_dvd 4 0 (by omega)
    have hM := rtM1 cfg h45 h61 e msr (projById msr msw fs) (wfMp_v1 cfg msr _ hp) hszr
      (sortChunks (chunks cfg .v1 e msw fs)) (0 + wPad .v1 4 0) rest hal hC hinj
      (fun c hc => (mem_sortChunks c _).mpr (hsub c hc)) habs'
    have hne := anyCommon_length msr msw hcommon
    have hpre : deM cfg .v1 e msr ⟨(emit1 cfg e (sortChunks (chunks cfg .v1 e msw fs)) 0).1 ++ rest, 0⟩ =
        deM cfg .v1 e msr ⟨(emit1 cfg e (sortChunks (chunks cfg .v1 e msw fs)) (0 + wPad .v1 4 0)).1 ++ rest,
          0 + wPad .v1 4 0⟩ := by
      cases msr with
      | nil => simp [Ms.length] at hne
      | cons id opt mu t r =>
        simp only [deM]
        rw [dMem1_prealign cfg e _ id _ _ (rAlign_emit1 cfg h61 e _ 0 rest) (rAlign_aligned _ hal _)]
    simp only [deTopGo, de, ser, hv, if_true, hpre, hM, Res.bind]
    rw [seek1_sentinel cfg h61 e _ hC _ hal rest]
    simp only [Res.bind, Res.val?]

/-! ## the claims -/

/-- **C39_refl**: every type is assignable from itself (`if self == t2 { return true; }`), for every type with key
    flags, optional / must-understand members, any nesting. -/
theorem C39_refl (t : KTy) : assignable t t = true := by
  simp [assignable, KTy.beq_refl]

/-- **C39 projection** - for ALL pairs of top-level structure types related by `evolves` (appendable: one member list
    is a prefix of the other, the first member only the reader has is not optional and of a type whose encoding begins
    with at least four bytes; mutable: members added, removed, reordered at will, common members - same id modulo
    2^16 - have the same type and must-understand flag), every writer value inside the C09 round-trip subset
    (`wfVal`), every configuration, XCDR1 and XCDR2, both byte orders: decoding the writer's bytes with the reader's
    type yields exactly the projection - common members keep their value, members only the reader has are without
    value, members only the writer has are skipped.

    Partial (each exclusion is a finding with a kernel-checked witness below, replayed on the real code):
    * evolution of NESTED structure types is outside `evolves` (common members must have equal types): XCDR1 does not
      delimit nested appendable structures (`C39_xcdr1_nested_appendable_counterexample`), XCDR2 does not bound the
      reader by the DHEADER (`C39_xcdr2_nested_appendable_counterexample`, D48) nor the member search of a nested
      mutable structure (C09 D65);
    * a first reader-only member smaller than four bytes, or optional, may be read from the encapsulation padding
      (`C39_reader_extra_member_reads_padding_counterexample`);
    * `assignable` (the code) accepts pairs that are not related at all: nested types are not compared
      (`C39_nested_types_not_compared_counterexample`), so `assignable` alone does not imply the projection. -/
theorem C39_project_partial (cfg : Cfg) (ver : Ver) (e : Endian) (tr tw : Ty) (v : Val)
    (hev : evolves tr tw = true) (hwf : wfVal cfg ver tw v = true) (hsz : maxSize tw v < 2 ^ 32)
    (hszr : maxSize tr (project tr tw v) < 2 ^ 32) :
    (deTop cfg tr (serTop cfg ver e tw v)).val? = some (project tr tw v) := by
  cases tr with
  | struct xr msr =>
    cases tw with
    | struct xw msw =>
      cases v with
      | struct fs =>
        cases xr <;> cases xw <;> first
          | (simp [evolves] at hev; done)
          | (simp only [project]; exact project_appendable cfg ver e msr msw fs hev hwf hsz)
          | (simp only [project, maxSize] at hszr ⊢
             exact project_mutable cfg ver e msr msw fs hev hwf hsz (by omega))
      | num _ => cases xw <;> simp [wfVal] at hwf
      | str _ => cases xw <;> simp [wfVal] at hwf
      | list _ => cases xw <;> simp [wfVal] at hwf
      | absent => cases xw <;> simp [wfVal] at hwf
    | prim _ => cases xr <;> simp [evolves] at hev
    | str => cases xr <;> simp [evolves] at hev
    | enum _ _ _ => cases xr <;> simp [evolves] at hev
    | wstr => cases xr <;> simp [evolves] at hev
    | union _ _ _ => cases xr <;> simp [evolves] at hev
    | seq _ => cases xr <;> simp [evolves] at hev
    | arr _ _ => cases xr <;> simp [evolves] at hev
  | prim _ => simp [evolves] at hev
  | str => simp [evolves] at hev
  | enum _ _ _ => simp [evolves] at hev
  | wstr => simp [evolves] at hev
  | union _ _ _ => simp [evolves] at hev
  | seq _ => simp [evolves] at hev
  | arr _ _ => simp [evolves] at hev

/-- **C39_agrees**: every pair of the evolution relation is accepted by the code's assignability check (so the
    projection theorem speaks about readers and writers the middleware does match). The converse fails
    (`C39_nested_types_not_compared_counterexample`). -/
theorem C39_agrees (tr tw : Ty) (hev : evolves tr tw = true) : assignable (tyK tr) (tyK tw) = true := by
  unfold assignable
  split
  · rfl
  · cases tr with
    | struct xr msr =>
      cases tw with
      | struct xw msw =>
        simp only [tyK, infos_msK]
        cases xr <;> cases xw <;> first
          | (simp [evolves] at hev; done)
          | (simp only [evolves, Bool.or_eq_true, Bool.and_eq_true, decide_eq_true_eq] at hev
             rcases hev with h | h
             · obtain ⟨ex, he, hx⟩ := isPrefix_infos msr msw h.1.1
               have hl : infosOf msr ≠ [] := by
                 cases msr with
                 | nil => simp [Ms.length] at h
                 | cons _ _ _ _ _ => simp [infosOf]
               rw [he]
               refine (SA_prefix (infosOf msr) ex hl ?_ ?_ hx).1
               · rw [← he, infosOf_ids]; exact h.2
               · rw [← he]; exact infosOf_key msw
             · obtain ⟨ex, he, hx⟩ := readerLonger_infos msr msw h.1.1
               have hl : infosOf msw ≠ [] := by
                 cases msw with
                 | nil => simp [Ms.length] at h
                 | cons _ _ _ _ _ => simp [infosOf]
               rw [he]
               refine (SA_prefix (infosOf msw) ex hl ?_ ?_ hx).2
               · rw [← he, infosOf_ids]; exact h.2
               · rw [← he]; exact infosOf_key msr)
          | (simp only [evolves, Bool.and_eq_true, decide_eq_true_eq] at hev
             obtain ⟨⟨⟨⟨⟨hcompat, _⟩, _⟩, hcommon⟩, hmu1⟩, hmu2⟩ := hev
             exact SAgen .mutable (by decide) _ _ (Or.inl rfl) (anyCommon_mem msr msw hcommon)
               (mutCompat_tid msr msw hcompat) (muBoth_mem msr msw hmu1) (muBoth_mem msw msr hmu2)
               (infosOf_key msr) (infosOf_key msw))
      | prim _ => cases xr <;> simp [evolves] at hev
      | str => cases xr <;> simp [evolves] at hev
      | enum _ _ _ => cases xr <;> simp [evolves] at hev
      | wstr => cases xr <;> simp [evolves] at hev
      | union _ _ _ => cases xr <;> simp [evolves] at hev
      | seq _ => cases xr <;> simp [evolves] at hev
      | arr _ _ => cases xr <;> simp [evolves] at hev
    | prim _ => simp [evolves] at hev
    | str => simp [evolves] at hev
    | enum _ _ _ => simp [evolves] at hev
    | wstr => simp [evolves] at hev
    | union _ _ _ => simp [evolves] at hev
    | seq _ => simp [evolves] at hev
    | arr _ _ => simp [evolves] at hev

/-! ## the hypotheses are satisfiable (non-vacuity) -/
private def u8 : Ty := .prim .u8
private def u16 : Ty := .prim .u16
private def u32 : Ty := .prim .u32
private def u64 : Ty := .prim .u64
private def m (id : Nat) (t : Ty) (r : Ms) : Ms := .cons id false false t r

/-- writer `SM{0:u8,3:u32,2:s}`, reader `SM{2:s,5:u16,0:u8}`: a member removed, one added, order changed -/
def tyEvoW : Ty := .struct .mutable (m 0 u8 (m 3 u32 (m 2 .str .nil)))
def tyEvoR : Ty := .struct .mutable (m 2 .str (m 5 u16 (m 0 u8 .nil)))
def valEvoW : Val := .struct [.num 7, .num 9, .str [0x61, 0x62]]
example : evolves tyEvoR tyEvoW = true ∧ wfVal Cfg.fixed .v1 tyEvoW valEvoW = true ∧
    wfVal Cfg.fixed .v2 tyEvoW valEvoW = true ∧ assignable (tyK tyEvoR) (tyK tyEvoW) = true := by decide +kernel
example : project tyEvoR tyEvoW valEvoW = .struct [.str [0x61, 0x62], .absent, .num 7] := by decide +kernel
example : (deTop Cfg.fixed tyEvoR (serTop Cfg.fixed .v1 .le tyEvoW valEvoW)).val? = some (project tyEvoR tyEvoW valEvoW) ∧
    (deTop Cfg.fixed tyEvoR (serTop Cfg.fixed .v2 .be tyEvoW valEvoW)).val? = some (project tyEvoR tyEvoW valEvoW) := by
  decide +kernel

/-- appendable: `SA{0:u8,1:u32}` against `SA{0:u8}`, both directions -/
def tyApp1 : Ty := .struct .appendable (m 0 u8 .nil)
def tyApp2 : Ty := .struct .appendable (m 0 u8 (m 1 u32 .nil))
example : evolves tyApp1 tyApp2 = true ∧ evolves tyApp2 tyApp1 = true ∧
    project tyApp1 tyApp2 (.struct [.num 7, .num 9]) = .struct [.num 7] ∧
    project tyApp2 tyApp1 (.struct [.num 7]) = .struct [.num 7, .absent] := by decide +kernel

/-! ## as-is witnesses (every one replayed on the real code by the corpus of `vlib/props/C39.py`) -/

/-- **nested types are not compared**: a member of structure or enumeration type is `EkComplete { hash }`, and
    `EkComplete` is assignable from any `EkComplete` and from every integer type (type_object.rs:2628-2640).
    `SF{0:SF{0:u8},1:u16}` is "assignable" from `SF{0:SF{0:u64,1:s},1:u16}` and the reader sees `{{1},0}` for
    `{{1,"a"},5}`; an octet member is assignable from a structure member; an enumeration member from a `u64`. -/
theorem C39_nested_types_not_compared_counterexample :
    assignable (tyK (.struct .final (m 0 (.struct .final (m 0 u8 .nil)) (m 1 u16 .nil))))
               (tyK (.struct .final (m 0 (.struct .final (m 0 u64 (m 1 .str .nil))) (m 1 u16 .nil)))) = true ∧
    (deTop Cfg.fixed (.struct .final (m 0 (.struct .final (m 0 u8 .nil)) (m 1 u16 .nil)))
      (serTop Cfg.fixed .v2 .le (.struct .final (m 0 (.struct .final (m 0 u64 (m 1 .str .nil))) (m 1 u16 .nil)))
        (.struct [.struct [.num 1, .str [0x61]], .num 5]))).val? = some (.struct [.struct [.num 1], .num 0]) ∧
    assignable (tyK (.struct .appendable (m 0 u8 .nil)))
               (tyK (.struct .appendable (m 0 (.struct .final (m 0 u8 .nil)) .nil))) = true ∧
    assignable (tyK (.struct .appendable (m 0 (.enum .i8 [1] .final) .nil))) (tyK (.struct .appendable (m 0 u64 .nil))) = true ∧
    (deTop Cfg.fixed (.struct .appendable (m 0 (.enum .i8 [1] .final) .nil))
      (serTop Cfg.fixed .v1 .le (.struct .appendable (m 0 u64 .nil)) (.struct [.num 7]))).val? = none := by
  decide +kernel

/-- **a reader-only member is read from the encapsulation padding**: the writer's `SA{0:u8}` value `{7}` occupies one
    byte, three padding bytes follow; a reader with `SA{0:u8,1:u8}` gets `{7,0}` (member 1 has a value the writer never
    sent; the DHEADER of XCDR2 does not bound the reader either), a reader with `SA{0:u8,1:Ei8[1,2]}` gets
    `InvalidData` for the whole sample. -/
theorem C39_reader_extra_member_reads_padding_counterexample :
    (deTop Cfg.fixed (.struct .appendable (m 0 u8 (m 1 u8 .nil)))
      (serTop Cfg.fixed .v1 .le tyApp1 (.struct [.num 7]))).val? = some (.struct [.num 7, .num 0]) ∧
    (deTop Cfg.fixed (.struct .appendable (m 0 u8 (m 1 u8 .nil)))
      (serTop Cfg.fixed .v2 .le tyApp1 (.struct [.num 7]))).val? = some (.struct [.num 7, .num 0]) ∧
    project (.struct .appendable (m 0 u8 (m 1 u8 .nil))) tyApp1 (.struct [.num 7]) = .struct [.num 7, .absent] ∧
    (deTop Cfg.fixed (.struct .appendable (m 0 u8 (m 1 (.enum .i8 [1, 2] .final) .nil)))
      (serTop Cfg.fixed .v2 .le tyApp1 (.struct [.num 7]))).val? = none ∧
    assignable (tyK (.struct .appendable (m 0 u8 (m 1 (.enum .i8 [1, 2] .final) .nil)))) (tyK tyApp1) = true := by
  decide +kernel

/-- **D48** (second half, still open): XCDR2, a nested appendable structure whose reader-side type has one more
    member: the reader is not bounded by the DHEADER of the nested value and takes the next EMHEADER of the enclosing
    mutable structure for the member (`{{7},5}` is seen as `{{7,268435458},5}`). -/
theorem C39_xcdr2_nested_appendable_counterexample :
    (deTop Cfg.fixed (.struct .mutable (m 0 (.struct .appendable (m 0 u8 (m 1 u32 .nil))) (m 2 u16 .nil)))
      (serTop Cfg.fixed .v2 .le (.struct .mutable (m 0 (.struct .appendable (m 0 u8 .nil)) (m 2 u16 .nil)))
        (.struct [.struct [.num 7], .num 5]))).val? = some (.struct [.struct [.num 7, .num 268435458], .num 5]) := by
  decide +kernel

/-- XCDR1 has no delimiter for a nested appendable structure: a writer-side extra member of the nested type shifts
    everything behind it (`{{7,9},5}` is seen as `{{7},0}`); with XCDR2 the same pair decodes correctly (D47 repaired).
    The code calls the pair assignable whatever the data representation. -/
theorem C39_xcdr1_nested_appendable_counterexample :
    (deTop Cfg.fixed (.struct .final (m 0 (.struct .appendable (m 0 u8 .nil)) (m 1 u16 .nil)))
      (serTop Cfg.fixed .v1 .le (.struct .final (m 0 (.struct .appendable (m 0 u8 (m 1 u32 .nil))) (m 1 u16 .nil)))
        (.struct [.struct [.num 7, .num 9], .num 5]))).val? = some (.struct [.struct [.num 7], .num 0]) ∧
    (deTop Cfg.fixed (.struct .final (m 0 (.struct .appendable (m 0 u8 .nil)) (m 1 u16 .nil)))
      (serTop Cfg.fixed .v2 .le (.struct .final (m 0 (.struct .appendable (m 0 u8 (m 1 u32 .nil))) (m 1 u16 .nil)))
        (.struct [.struct [.num 7, .num 9], .num 5]))).val? = some (.struct [.struct [.num 7], .num 5]) := by
  decide +kernel

/-- **D49** (open): the typed sample. A member the reader's type has and the writer's lacks has no value in the decoded
    `DynamicData` (that is the projection), and `create_sample` of the derived type then yields `None`: the
    application receives `Sample { data: None, .. }` - the common member `a = 7` is lost as well. Replayed with the
    derived types `EvoA1 { a: u8 }` / `EvoA2 { a: u8, b: u32 }` of the harness (`typed 1 a1-a2`). -/
theorem C39_typed_sample_lost_counterexample :
    (deTop Cfg.fixed tyApp2 (serTop Cfg.fixed .v1 .le tyApp1 (.struct [.num 7]))).val? = some (.struct [.num 7, .absent]) ∧
    typedView tyApp2 (.struct [.num 7, .absent]) = none ∧
    typedView tyApp1 (.struct [.num 7]) = some (.struct [.num 7]) := by
  decide +kernel

end DustVerif.Xcdr
