import DustVerif.Model.Listener
/-! Property C33: each communication status change is delivered to exactly one listener, the most specific
    one whose mask enables the status (entity, then publisher/subscriber, then participant), none if no mask
    enables it; new data is signalled as data-on-readers on the subscriber when enabled there and as
    data-available otherwise.

    `callbacks e c` (Model/Listener.lean) is what the code does for one status change `e` under the listener
    configuration `c` (three slots, each an arbitrary mask and an installed-or-nil listener): the
    `if / else if` chain of the raising site followed by the listener task of the chosen level.
    `specCallbacks` below is the DDS rule, written independently.
    The model is main + fixes/D38.patch, D-listen-1.patch, D-listen-2.patch, D-listen-3.patch; `callbacksOld`,
    `dispatchOld`, `iterateOld` are the code before these patches (regression witnesses at the end). -/
namespace DustVerif.Listener

/-! ### specification -/

/-- levels a status change about an endpoint / a topic may be delivered to, most specific first -/
def levels : Event → List Level
  | .inconsistentTopic => [.entity, .participant]
  | _ => [.entity, .group, .participant]

/-- the first level (most specific first) whose mask enables `k` -/
def firstEnabled (k : Status) (c : Chain) : List Level → Option Level
  | [] => none
  | l :: r => if (c.slot l).enabled k then some l else firstEnabled k c r

/-- the callback is made iff the chosen level has a listener object (a nil listener is a no-op listener) -/
def deliverTo (c : Chain) (k : Status) : Option Level → List Mail
  | none => []
  | some l => if (c.slot l).installed then [{ level := l, cb := k }] else []

/-- DDS 1.4 §2.2.4.2.3 / §2.2.4.2.4.1: exactly one receiver per status change -/
def specCallbacks (e : Event) (c : Chain) : List Mail :=
  match e with
  | .dataArrived =>
    if c.group.enabled .dataOnReaders then deliverTo c .dataOnReaders (some .group)
    else deliverTo c .dataAvailable (firstEnabled .dataAvailable c [.entity, .group, .participant])
  | e => deliverTo c e.status (firstEnabled e.status c (levels e))

/-- the configurations in which the code BEFORE the patches reached the right listener: everything except
    (a) new data while the reader's own mask lacks DATA_AVAILABLE but the subscriber's or participant's has it (D38),
    (b) an inconsistent topic while the TOPIC's own mask enables the status and a topic listener is installed
        (the topic listener task discarded the mail, D-listen-3) -/
def CoveredOld (e : Event) (c : Chain) : Prop :=
  match e with
  | .dataArrived =>
      c.group.enabled .dataOnReaders = true ∨ c.entity.enabled .dataAvailable = true ∨
      (c.group.enabled .dataAvailable = false ∧ c.participant.enabled .dataAvailable = false)
  | .inconsistentTopic => ¬ (c.entity.enabled .inconsistentTopic = true ∧ c.entity.installed = true)
  | _ => True

instance (e : Event) (c : Chain) : Decidable (CoveredOld e c) := by
  cases e <;> unfold CoveredOld <;> exact inferInstance

/-! ### theorems -/

/-- every listener task calls the callback of the mail it receives: the callbacks are the mails -/
theorem callbacks_eq_dispatch (e : Event) (c : Chain) : callbacks e c = dispatch e c := by
  unfold callbacks
  apply List.filter_eq_self.mpr
  intro m _
  rfl

theorem callbacksOld_eq_dispatchOld (e : Event) (c : Chain) (h : e ≠ .inconsistentTopic) :
    callbacksOld e c = dispatchOld e c := by
  unfold callbacksOld
  apply List.filter_eq_self.mpr
  intro m _
  cases e <;> simp_all [taskInvokesOld]

theorem chain3_spec (k : Status) (c : Chain) :
    chain3 k c = deliverTo c k (firstEnabled k c [.entity, .group, .participant]) := by
  cases h1 : c.entity.enabled k <;> cases h2 : c.group.enabled k <;> cases h3 : c.participant.enabled k <;>
    simp [chain3, firstEnabled, deliverTo, sendTo, Chain.slot, h1, h2, h3]

theorem chain2_spec (k : Status) (c : Chain) :
    chain2 k c = deliverTo c k (firstEnabled k c [.entity, .participant]) := by
  cases h1 : c.entity.enabled k <;> cases h3 : c.participant.enabled k <;>
    simp [chain2, firstEnabled, deliverTo, sendTo, Chain.slot, h1, h3]

theorem dataArrived_spec (c : Chain) : dataArrived c = specCallbacks .dataArrived c := by
  simp only [dataArrived, specCallbacks, chain3_spec, sendTo, deliverTo, Chain.slot]

/-- C33 (the dispatch DECISION, all nine status-raising events): for ALL masks and listener placements the mail goes to
    the first level whose mask enables the status, to nobody if none does; new data is DATA_ON_READERS on the subscriber
    when enabled there, DATA_AVAILABLE along the same chain otherwise -/
theorem C33_dispatch_decision (e : Event) (c : Chain) : dispatch e c = specCallbacks e c := by
  cases e <;> first
    | exact dataArrived_spec c
    | exact chain3_spec _ c
    | exact chain2_spec _ c

/-- C33 (FULL): for ALL events, masks and listener placements the listener callbacks made for one status change are
    exactly those the DDS rule names — one receiver, the most specific enabled one, none if no mask enables the status -/
theorem C33_dispatch (e : Event) (c : Chain) : callbacks e c = specCallbacks e c := by
  rw [callbacks_eq_dispatch]
  exact C33_dispatch_decision e c

/-- C33 (at most one callback per status change), for ALL events, masks and placements -/
theorem C33_at_most_one (e : Event) (c : Chain) : (callbacks e c).length ≤ 1 := by
  rw [C33_dispatch]
  cases e <;> simp only [specCallbacks, deliverTo] <;> (repeat' split) <;> simp

/-- C33 (never a wrong listener): whoever is called back is the receiver the rule names, with the right callback -/
theorem C33_never_wrong_listener (e : Event) (c : Chain) (m : Mail) (hm : m ∈ callbacks e c) :
    m ∈ specCallbacks e c := by
  rw [← C33_dispatch]; exact hm

/-- C33 (once per change, in time): a worker iteration that finds no new status change makes no callback — an endpoint
    that is still incompatible or still type-inconsistent is evaluated again but not notified again -/
theorem C33_iteration_without_change_is_silent (w : World) : (iterate w).log = w.log := rfl

/-- an endpoint already known as incompatible / inconsistent does not change the status again -/
theorem C33_known_endpoint_not_renotified (w : World) (n who : String) (e : Ent) (hf : w.find n = some e)
    (hk : e.known.contains who = true) : noteKnown w n who = (w, false) := by
  unfold noteKnown
  simp only [hf, hk, if_true]

/-- D-listen-2, repaired: an inconsistent remote endpoint is a new inconsistency at most once, and not at all when its type
    was already reported on arrival of its representation (the topic-discovery / type-lookup path keeps reporting) -/
theorem C33_inconsistent_endpoint_reported_once (w : World) (topic who whoTy : String) (t : Ent)
    (hf : w.find topic = some t) (h : t.known.contains who = true ∨ t.badTypes.contains whoTy = true) :
    (noteEndpoint w topic who whoTy).2 = false := by
  unfold noteEndpoint
  rcases h with h | h
  · simp only [hf, h, if_true]
  · by_cases hk : t.known.contains who = true
    · simp only [hf, hk, if_true]
    · have hk' : ¬ who ∈ t.known := by simpa using hk
      have h' : whoTy ∈ t.badTypes := by simpa using h
      simp [hf, hk', h']

/-- a discovered type is counted once per topic: resolving it again changes nothing -/
theorem C33_inconsistent_type_counted_once (w : World) (local_ remoteTy : String) (t : Ent)
    (hf : w.find local_ = some t) (h : t.badTypes.contains remoteTy = true) : resolveType w local_ remoteTy = w := by
  unfold resolveType
  have h' : remoteTy ∈ t.badTypes := by simpa using h
  simp [hf, h']

/-! ### histories with set_listener steps, passes with several changes -/

/-- the DDS rule applied along a history: each change judged by the configuration in force at that moment -/
def specHist (c : Chain) : List Step → List (List Mail)
  | [] => []
  | .setListener l i m :: r => specHist (c.set l { installed := i, mask := m }) r
  | .change e :: r => specCallbacks e c :: specHist c r

/-- C33 (exactly the named receiver, over histories): for ALL initial configurations and ALL interleavings of set_listener
    steps (any level, listener installed or removed, any mask) and status changes, every change is delivered to exactly
    the receiver the rule names for the configuration in force at THAT moment -/
theorem C33_exactly_one_over_histories (c : Chain) (h : List Step) : runHist c h = specHist c h := by
  induction h generalizing c with
  | nil => rfl
  | cons st r ih =>
    cases st with
    | setListener l i m => simp only [runHist, specHist]; exact ih _
    | change e => simp only [runHist, specHist, C33_dispatch]; rw [ih]

theorem C33_at_most_one_over_histories (c : Chain) (h : List Step) : ∀ ms ∈ runHist c h, ms.length ≤ 1 := by
  induction h generalizing c with
  | nil => simp [runHist]
  | cons st r ih =>
    cases st with
    | setListener l i m => simp only [runHist]; exact ih _
    | change e =>
      simp only [runHist, List.mem_cons]
      rintro ms (h | h)
      · rw [h]; exact C33_at_most_one e c
      · exact ih c ms h

theorem firstEnabled_enabled (k : Status) (c : Chain) (ls : List Level) (l : Level)
    (h : firstEnabled k c ls = some l) : (c.slot l).enabled k = true := by
  induction ls with
  | nil => simp [firstEnabled] at h
  | cons x r ih =>
    simp only [firstEnabled] at h
    split at h
    · cases h; assumption
    · exact ih h

theorem mem_deliverTo (c : Chain) (k : Status) (o : Option Level) (m : Mail) (h : m ∈ deliverTo c k o) :
    o = some m.level ∧ m.cb = k := by
  cases o with
  | none => simp [deliverTo] at h
  | some l =>
    simp only [deliverTo] at h
    split at h
    · simp only [List.mem_singleton] at h; subst h; exact ⟨rfl, rfl⟩
    · simp at h

/-- whoever is called back has the status of the callback enabled in its own mask -/
theorem callback_level_enables (e : Event) (c : Chain) (m : Mail) (hm : m ∈ callbacks e c) :
    (c.slot m.level).enabled m.cb = true := by
  rw [C33_dispatch] at hm
  by_cases hd : e = .dataArrived
  · subst hd
    simp only [specCallbacks] at hm
    split at hm
    · have := mem_deliverTo c _ _ m hm
      have hl : m.level = .group := by have := this.1; simp at this; exact this.symm
      rw [hl, this.2]; simpa [Chain.slot]
    · have := mem_deliverTo c _ _ m hm
      rw [this.2]; exact firstEnabled_enabled _ c _ _ this.1
  · have hs : specCallbacks e c = deliverTo c e.status (firstEnabled e.status c (levels e)) := by
      cases e <;> first | rfl | exact absurd rfl hd
    rw [hs] at hm
    have := mem_deliverTo c _ _ m hm
    rw [this.2]; exact firstEnabled_enabled _ c _ _ this.1

/-- C33 (set_listener(None, NO_STATUS) clears the mask): after the step the level enables nothing, so it can neither
    receive nor swallow a status — no callback is made at that level, and (C33_exactly_one_over_histories) every change
    goes on to the first outer level that enables it -/
theorem C33_set_listener_none_clears_mask (c : Chain) (l : Level) (k : Status) :
    ((c.set l { installed := false, mask := [] }).slot l).enabled k = false ∧
    (∀ e : Event, ∀ m ∈ callbacks e (c.set l { installed := false, mask := [] }), m.level ≠ l) := by
  have h1 : ∀ k, ((c.set l { installed := false, mask := [] }).slot l).enabled k = false := by
    intro k; cases l <;> simp [Chain.set, Chain.slot, Slot.enabled]
  refine ⟨h1 k, ?_⟩
  intro e m hm hl
  have := callback_level_enables e _ m hm
  rw [hl, h1] at this
  exact Bool.false_ne_true this

/-- the same at world level: the step of the scenario language stores presence and mask together -/
theorem C33_set_listener_stores_both (c : Chain) (l : Level) (i : Bool) (m : List Status) :
    (c.set l { installed := i, mask := m }).slot l = { installed := i, mask := m } := by
  cases l <;> rfl

/-- seed C33_d (stale mask after removing the listener): writer listener with PUBLICATION_MATCHED removed by
    set_listener(None, NO_STATUS); publisher listener enables the status: the rule names the publisher, the seeded
    step leaves the writer's mask in force and nobody is called; the coded step calls the publisher -/
theorem C33_stale_mask_seeded_counterexample :
    let c : Chain := { entity := { installed := true, mask := [.publicationMatched] },
                       group := { installed := true, mask := [.publicationMatched] }, participant := Slot.none }
    let h : List Step := [.setListener .entity false [], .change .publicationMatched]
    runHistSeeded c h = [[]] ∧ runHist c h = [[{ level := .group, cb := .publicationMatched }]] ∧
    specHist c h = [[{ level := .group, cb := .publicationMatched }]] := by
  decide

/-- C33 (several new-data changes in one pass): every change of the pass is signalled by the rule on its own — with
    DATA_ON_READERS enabled on the subscriber ALL of them are data-on-readers -/
theorem C33_pass_every_change (n : Nat) (c : Chain) :
    passData n c = (List.replicate n (specCallbacks .dataArrived c)).flatten := by
  induction n with
  | zero => rfl
  | succ k ih => simp only [passData, C33_dispatch, ih, List.replicate_succ, List.flatten_cons]

/-- seed C33_c (data-on-readers coalesced by a flag that replaces the mask test): two changes in one pass, subscriber
    enables DATA_ON_READERS, reader DATA_AVAILABLE: the second change is signalled as data-available on the reader -/
theorem C33_pass_coalesced_seeded_counterexample :
    let c : Chain := { entity := { installed := true, mask := [.dataAvailable] },
                       group := { installed := true, mask := [.dataOnReaders] }, participant := Slot.none }
    passDataSeeded (c.group.enabled .dataOnReaders) 2 c =
      [{ level := .group, cb := .dataOnReaders }, { level := .entity, cb := .dataAvailable }] ∧
    passData 2 c = [{ level := .group, cb := .dataOnReaders }, { level := .group, cb := .dataOnReaders }] := by
  decide

/-- non-vacuity: a history that installs, replaces and removes listeners at all three levels -/
example :
    let h : List Step := [.change .sampleRejected, .setListener .entity true [.sampleRejected], .change .sampleRejected,
      .setListener .entity false [.sampleRejected], .change .sampleRejected, .setListener .entity false [],
      .setListener .participant true [.sampleRejected], .change .sampleRejected,
      .setListener .group true [.sampleRejected], .change .sampleRejected]
    runHist { entity := Slot.none, group := Slot.none, participant := Slot.none } h =
      [[], [⟨.entity, .sampleRejected⟩], [], [⟨.participant, .sampleRejected⟩], [⟨.group, .sampleRejected⟩]] := by
  decide

/-! ### the code before the patches (regression witnesses; each was replayed on the real code, see notes/w2a.md) -/

/-- the old code reached the named receiver outside the two findings -/
theorem C33_dispatch_old_partial (e : Event) (c : Chain) (h : CoveredOld e c) :
    callbacksOld e c = specCallbacks e c := by
  by_cases ht : e = .inconsistentTopic
  · subst ht
    simp only [CoveredOld] at h
    cases h1 : c.entity.enabled .inconsistentTopic <;> cases h2 : c.entity.installed <;>
      cases h3 : c.participant.enabled .inconsistentTopic <;> cases h4 : c.participant.installed <;>
      simp_all [callbacksOld, dispatchOld, dispatch, specCallbacks, chain2, levels, firstEnabled, deliverTo, sendTo,
        Chain.slot, Event.status, taskInvokesOld]
  · rw [callbacksOld_eq_dispatchOld e c ht]
    by_cases hd : e = .dataArrived
    · subst hd
      simp only [CoveredOld] at h
      simp only [dispatchOld, specCallbacks, dataArrivedOld, firstEnabled, deliverTo, sendTo, Chain.slot]
      (repeat' split) <;> simp_all
    · have : dispatchOld e c = dispatch e c := by cases e <;> first | rfl | exact absurd rfl hd
      rw [this]
      exact C33_dispatch_decision e c

/-- D38 (before the patch): subscriber listener with DATA_AVAILABLE, reader without listener: the rule names the subscriber,
    the old code called nobody; the repaired code calls the subscriber -/
theorem C33_data_available_old_counterexample :
    let c : Chain := { entity := Slot.none, group := { installed := true, mask := [.dataAvailable] },
                       participant := { installed := true, mask := [.dataAvailable] } }
    callbacksOld .dataArrived c = [] ∧ specCallbacks .dataArrived c = [{ level := .group, cb := .dataAvailable }] ∧
    callbacks .dataArrived c = [{ level := .group, cb := .dataAvailable }] := by
  decide

/-- D-listen-3 (before the patch): topic created with a listener and mask INCONSISTENT_TOPIC: the mail was sent to the topic's
    listener task, which never called `on_inconsistent_topic`; the participant's listener was not tried -/
theorem C33_topic_listener_old_counterexample :
    let c : Chain := { entity := { installed := true, mask := [.inconsistentTopic] }, group := Slot.none,
                       participant := { installed := true, mask := [.inconsistentTopic] } }
    callbacksOld .inconsistentTopic c = [] ∧
    specCallbacks .inconsistentTopic c = [{ level := .entity, cb := .inconsistentTopic }] ∧
    callbacks .inconsistentTopic c = [{ level := .entity, cb := .inconsistentTopic }] := by
  decide

/-- D-listen-1 / D-listen-2 (before the patches): an incompatible pair was re-evaluated by every worker iteration and each
    iteration notified the listener again although no status changed; the repaired iteration is silent -/
theorem C33_renotified_every_iteration_old_counterexample :
    let p : Ent := { name := "P", kind := .participant, parent := "", slot := { installed := true, mask := [.offeredIncompatibleQos] } }
    let g : Ent := { name := "pub", kind := .publisher, parent := "P" }
    let wr : Ent := { name := "w", kind := .writer, parent := "pub" }
    let w0 : World := { ents := [p, g, wr], persist := [(.offeredIncompatibleQos, "w")] }
    (iterateOld w0).log.length = 1 ∧ (iterateOld (iterateOld w0)).log.length = 2 ∧ (iterate (iterate w0)).log.length = 0 := by
  decide

/-! ### non-vacuity -/

/-- the three-level chain reaches each level and nobody, and a nil listener at the chosen level swallows the change -/
example :
    let on : Slot := { installed := true, mask := [.sampleRejected] }
    let nil : Slot := { installed := false, mask := [.sampleRejected] }
    callbacks .sampleRejected { entity := on, group := on, participant := on } = [⟨.entity, .sampleRejected⟩] ∧
    callbacks .sampleRejected { entity := Slot.none, group := on, participant := on } = [⟨.group, .sampleRejected⟩] ∧
    callbacks .sampleRejected { entity := Slot.none, group := Slot.none, participant := on } = [⟨.participant, .sampleRejected⟩] ∧
    callbacks .sampleRejected { entity := Slot.none, group := Slot.none, participant := Slot.none } = [] ∧
    callbacks .sampleRejected { entity := nil, group := on, participant := on } = [] := by
  decide

/-- new data reaches the subscriber and the participant when the more specific levels do not enable DATA_AVAILABLE -/
example :
    let on : Slot := { installed := true, mask := [.dataAvailable] }
    callbacks .dataArrived { entity := on, group := on, participant := on } = [⟨.entity, .dataAvailable⟩] ∧
    callbacks .dataArrived { entity := Slot.none, group := on, participant := on } = [⟨.group, .dataAvailable⟩] ∧
    callbacks .dataArrived { entity := Slot.none, group := Slot.none, participant := on } = [⟨.participant, .dataAvailable⟩] := by
  decide

/-- the hypothesis of the old partial theorem is satisfiable with a callback actually made -/
example :
    let c : Chain := { entity := Slot.none, group := Slot.none, participant := { installed := true, mask := [.inconsistentTopic] } }
    CoveredOld .inconsistentTopic c ∧ callbacksOld .inconsistentTopic c = [⟨.participant, .inconsistentTopic⟩] := by
  decide

/-- two incompatible readers change a writer's status twice, the same reader met again does not -/
example :
    let p : Ent := { name := "P", kind := .participant, parent := "", slot := { installed := true, mask := [.offeredIncompatibleQos] } }
    let g : Ent := { name := "pub", kind := .publisher, parent := "P" }
    let s : Ent := { name := "sub", kind := .subscriber, parent := "P" }
    let t : Ent := { name := "t", kind := .topic, parent := "P", tname := "T", ty := "ki" }
    let wr : Ent := { name := "w", kind := .writer, parent := "pub", topic := "t", reliable := false }
    let r1 : Ent := { name := "r1", kind := .reader, parent := "sub", topic := "t", reliable := true }
    let r2 : Ent := { name := "r2", kind := .reader, parent := "sub", topic := "t", reliable := true }
    let w0 : World := { ents := [p, g, s, t, wr, r1, r2] }
    (meet w0 "w" "r1").log.length = 1 ∧ (meet (meet w0 "w" "r1") "w" "r1").log.length = 1 ∧
    (meet (meet w0 "w" "r1") "w" "r2").log.length = 2 := by
  decide

/-- two topics T of different type in two participants: one notification on each at discovery; a writer and a reader created
    afterwards are evaluated but add nothing; the old iteration would have notified again -/
example :
    let l : Slot := { installed := true, mask := [.inconsistentTopic] }
    let p1 : Ent := { name := "P1", kind := .participant, parent := "", slot := l }
    let p2 : Ent := { name := "P2", kind := .participant, parent := "", slot := l }
    let g : Ent := { name := "pub", kind := .publisher, parent := "P1" }
    let s : Ent := { name := "sub", kind := .subscriber, parent := "P2" }
    let t1 : Ent := { name := "t1", kind := .topic, parent := "P1", tname := "T", ty := "ki" }
    let t2 : Ent := { name := "t2", kind := .topic, parent := "P2", tname := "T", ty := "ni" }
    let wr : Ent := { name := "w", kind := .writer, parent := "pub", topic := "t1", reliable := true }
    let rd : Ent := { name := "r", kind := .reader, parent := "sub", topic := "t2", reliable := true }
    let w0 : World := meetTopics { ents := [p1, p2, g, s, t1, t2, wr, rd] } "t2"
    w0.log = ["P1.on_inconsistent_topic src=t1", "P2.on_inconsistent_topic src=t2"] ∧
    (meet w0 "w" "r").log.length = 2 ∧ ((meet w0 "w" "r").find "t1").map (·.incons) = some 1 := by
  decide

/-- data-on-readers wins over the reader's data-available -/
example :
    let c : Chain := { entity := { installed := true, mask := [.dataAvailable] },
                       group := { installed := true, mask := [.dataOnReaders] }, participant := Slot.none }
    callbacks .dataArrived c = [⟨.group, .dataOnReaders⟩] := by
  decide

end DustVerif.Listener
