import DustVerif.Model.Listener
/-! Property C33: each communication status change is delivered to exactly one listener, the most specific
    one whose mask enables the status (entity, then publisher/subscriber, then participant), none if no mask
    enables it; new data is signalled as data-on-readers on the subscriber when enabled there and as
    data-available otherwise.

    `callbacks e c` (Model/Listener.lean) is what the code does for one status change `e` under the listener
    configuration `c` (three slots, each an arbitrary mask and an installed-or-nil listener): the
    `if / else if` chain of the raising site followed by the listener task of the chosen level.
    `specCallbacks` below is the DDS rule, written independently. -/
namespace DustVerif.Listener

/-! ### specification -/

/-- levels a status change about an endpoint / a topic may be delivered to, most specific first -/
def levels : Event → List Level
  | .inconsistentTopic => [.entity, .participant]
  | _ => [.entity, .group, .participant]

/-- the first level (most specific first) whose mask enables `k` -/
def firstEnabled (k : Status) (c : Chain) : List Level → Option Level
  | [] => none
  | l :: r => if (c.slot l).enabled k then some l else firstEnabled k c r

/-- the callback is made iff the chosen level has a listener object (a nil listener is a no-op listener) -/
def deliverTo (c : Chain) (k : Status) : Option Level → List Mail
  | none => []
  | some l => if (c.slot l).installed then [{ level := l, cb := k }] else []

/-- DDS 1.4 §2.2.4.2.3 / §2.2.4.2.4.1: exactly one receiver per status change -/
def specCallbacks (e : Event) (c : Chain) : List Mail :=
  match e with
  | .dataArrived =>
    if c.group.enabled .dataOnReaders then deliverTo c .dataOnReaders (some .group)
    else deliverTo c .dataAvailable (firstEnabled .dataAvailable c [.entity, .group, .participant])
  | e => deliverTo c e.status (firstEnabled e.status c (levels e))

/-- the configurations in which the code as it is reaches the right listener: everything except
    (a) new data while the reader's own mask lacks DATA_AVAILABLE but the subscriber's or participant's has it (D38),
    (b) an inconsistent topic while the TOPIC's own mask enables the status and a topic listener is installed
        (the topic listener task discards the mail, D-listen-3) -/
def Covered (e : Event) (c : Chain) : Prop :=
  match e with
  | .dataArrived =>
      c.group.enabled .dataOnReaders = true ∨ c.entity.enabled .dataAvailable = true ∨
      (c.group.enabled .dataAvailable = false ∧ c.participant.enabled .dataAvailable = false)
  | .inconsistentTopic => ¬ (c.entity.enabled .inconsistentTopic = true ∧ c.entity.installed = true)
  | _ => True

instance (e : Event) (c : Chain) : Decidable (Covered e c) := by
  cases e <;> unfold Covered <;> exact inferInstance

/-! ### theorems -/

/-- every listener task except the topic's calls the callback: for all other events the callbacks are the mails -/
theorem callbacks_eq_dispatch (e : Event) (c : Chain) (h : e ≠ .inconsistentTopic) :
    callbacks e c = dispatch e c := by
  unfold callbacks
  apply List.filter_eq_self.mpr
  intro m _
  cases e <;> simp_all [taskInvokes]

theorem chain3_spec (k : Status) (c : Chain) :
    chain3 k c = deliverTo c k (firstEnabled k c [.entity, .group, .participant]) := by
  cases h1 : c.entity.enabled k <;> cases h2 : c.group.enabled k <;> cases h3 : c.participant.enabled k <;>
    simp [chain3, firstEnabled, deliverTo, sendTo, Chain.slot, h1, h2, h3]

theorem chain2_spec (k : Status) (c : Chain) :
    chain2 k c = deliverTo c k (firstEnabled k c [.entity, .participant]) := by
  cases h1 : c.entity.enabled k <;> cases h3 : c.participant.enabled k <;>
    simp [chain2, firstEnabled, deliverTo, sendTo, Chain.slot, h1, h3]

/-- C33 (the dispatch DECISION, all eight status kinds that have a precedence chain): for ALL masks and listener
    placements the mail goes to the first level whose mask enables the status, to nobody if none does -/
theorem C33_dispatch_decision (e : Event) (c : Chain) (h : e ≠ .dataArrived) :
    dispatch e c = specCallbacks e c := by
  cases e <;> first
    | exact absurd rfl h
    | exact chain3_spec _ c
    | exact chain2_spec _ c

/-- C33 (at most one callback per status change), full: for ALL events, masks and placements -/
theorem C33_at_most_one (e : Event) (c : Chain) : (callbacks e c).length ≤ 1 := by
  have hd : (dispatch e c).length ≤ 1 := by
    cases e <;> simp only [dispatch, chain3, chain2, dataArrivedAsCoded, sendTo] <;> (repeat' split) <;> simp
  exact Nat.le_trans (List.length_filter_le _ _) hd

/-- C33 (never a wrong listener), full: whoever is called back is the receiver the rule names, with the right callback -/
theorem C33_never_wrong_listener (e : Event) (c : Chain) (m : Mail) (hm : m ∈ callbacks e c) :
    m ∈ specCallbacks e c := by
  have hm' : m ∈ dispatch e c := (List.mem_filter.mp hm).1
  by_cases hd : e = .dataArrived
  · subst hd
    revert hm'
    simp only [dispatch, specCallbacks, dataArrivedAsCoded, firstEnabled, deliverTo, sendTo, Chain.slot]
    (repeat' split) <;> simp_all
  · rw [← C33_dispatch_decision e c hd]
    exact hm'

/-- C33 (exactly the named receiver) for every configuration outside the two open findings:
    excluded are D38 (DATA_AVAILABLE enabled only above the reader) and D-listen-3 (installed topic listener) -/
theorem C33_dispatch_partial (e : Event) (c : Chain) (h : Covered e c) :
    callbacks e c = specCallbacks e c := by
  by_cases ht : e = .inconsistentTopic
  · subst ht
    simp only [Covered] at h
    cases h1 : c.entity.enabled .inconsistentTopic <;> cases h2 : c.entity.installed <;>
      cases h3 : c.participant.enabled .inconsistentTopic <;> cases h4 : c.participant.installed <;>
      simp_all [callbacks, dispatch, specCallbacks, chain2, levels, firstEnabled, deliverTo, sendTo, Chain.slot,
        Event.status, taskInvokes]
  · rw [callbacks_eq_dispatch e c ht]
    by_cases hd : e = .dataArrived
    · subst hd
      simp only [Covered] at h
      simp only [dispatch, specCallbacks, dataArrivedAsCoded, firstEnabled, deliverTo, sendTo, Chain.slot]
      (repeat' split) <;> simp_all
    · exact C33_dispatch_decision e c hd

/-- what the repair of D38 would give: with the two missing `else if` branches the data rule holds for ALL configurations -/
theorem C33_data_dispatch_repaired (c : Chain) :
    dataArrivedRepaired c = specCallbacks .dataArrived c := by
  simp only [dataArrivedRepaired, specCallbacks, chain3, firstEnabled, deliverTo, sendTo, Chain.slot]
  (repeat' split) <;> simp_all

/-- D38: subscriber listener with DATA_AVAILABLE, reader without listener: the rule names the subscriber, the code calls nobody -/
theorem C33_data_available_counterexample :
    let c : Chain := { entity := Slot.none, group := { installed := true, mask := [.dataAvailable] },
                       participant := { installed := true, mask := [.dataAvailable] } }
    callbacks .dataArrived c = [] ∧ specCallbacks .dataArrived c = [{ level := .group, cb := .dataAvailable }] := by
  decide

/-- D-listen-3: topic created with a listener and mask INCONSISTENT_TOPIC: the mail is sent to the topic's listener
    task, which never calls `on_inconsistent_topic`; the participant's listener is not tried -/
theorem C33_topic_listener_counterexample :
    let c : Chain := { entity := { installed := true, mask := [.inconsistentTopic] }, group := Slot.none,
                       participant := { installed := true, mask := [.inconsistentTopic] } }
    callbacks .inconsistentTopic c = [] ∧
    specCallbacks .inconsistentTopic c = [{ level := .entity, cb := .inconsistentTopic }] := by
  decide

/-- D-listen-1 (exactly ONE notification per change is violated in time): an incompatible pair is re-evaluated by every
    worker iteration; each iteration notifies the listener again although no status changed -/
theorem C33_renotified_every_iteration_counterexample :
    let p : Ent := { name := "P", kind := .participant, parent := "", slot := { installed := true, mask := [.offeredIncompatibleQos] } }
    let g : Ent := { name := "pub", kind := .publisher, parent := "P" }
    let wr : Ent := { name := "w", kind := .writer, parent := "pub" }
    let w0 : World := { ents := [p, g, wr], persist := [(.offeredIncompatibleQos, "w")] }
    (iterate w0).log.length = 1 ∧ (iterate (iterate w0)).log.length = 2 := by
  decide

/-! ### non-vacuity -/

/-- the three-level chain reaches each level and nobody, and a nil listener at the chosen level swallows the change -/
example :
    let on : Slot := { installed := true, mask := [.sampleRejected] }
    let nil : Slot := { installed := false, mask := [.sampleRejected] }
    callbacks .sampleRejected { entity := on, group := on, participant := on } = [⟨.entity, .sampleRejected⟩] ∧
    callbacks .sampleRejected { entity := Slot.none, group := on, participant := on } = [⟨.group, .sampleRejected⟩] ∧
    callbacks .sampleRejected { entity := Slot.none, group := Slot.none, participant := on } = [⟨.participant, .sampleRejected⟩] ∧
    callbacks .sampleRejected { entity := Slot.none, group := Slot.none, participant := Slot.none } = [] ∧
    callbacks .sampleRejected { entity := nil, group := on, participant := on } = [] := by
  decide

/-- `Covered` is satisfiable for the two restricted events, with a callback actually made -/
example :
    let c : Chain := { entity := { installed := true, mask := [.dataAvailable] },
                       group := { installed := true, mask := [.dataAvailable] }, participant := Slot.none }
    Covered .dataArrived c ∧ callbacks .dataArrived c = [⟨.entity, .dataAvailable⟩] := by
  decide

example :
    let c : Chain := { entity := Slot.none, group := Slot.none, participant := { installed := true, mask := [.inconsistentTopic] } }
    Covered .inconsistentTopic c ∧ callbacks .inconsistentTopic c = [⟨.participant, .inconsistentTopic⟩] := by
  decide

/-- data-on-readers wins over the reader's data-available -/
example :
    let c : Chain := { entity := { installed := true, mask := [.dataAvailable] },
                       group := { installed := true, mask := [.dataOnReaders] }, participant := Slot.none }
    callbacks .dataArrived c = [⟨.group, .dataOnReaders⟩] := by
  decide

end DustVerif.Listener
