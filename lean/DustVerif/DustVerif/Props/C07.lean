import DustVerif.Proofs.WireSize
/-!
Property C07 (RTPS part): `RtpsMessageRead::try_from` and the submessage parsers are total.

`decode` is the decoder as it is in the repository, `decodeFixed` the decoder with fixes/D5.patch
(Model/Wire.lean, `decodeG false` / `decodeG true`).  Octets are `Nat`; the theorems quantify over every
`List Nat`, so in particular over every list of real octets (`C07_rtps_total_fixed_u8`).

The code as it is can panic (D5, D-wire-1): `C07_rtps_numbits_counterexample`,
`C07_rtps_fragment_overflow_counterexample` (both replayed on the real code by the check).  What is proved
for it: the fragment-number-set reader is the only panic source and panics exactly under `FragSetPanics`
(`C07_rtps_total_partial`, `C07_rtps_fragset_panic_iff`).
-/
namespace DustVerif.Wire
open Outcome

/-- FULL (for the decoder with fixes/D5.patch): for every octet string the result is `ok` or `err`. -/
theorem C07_rtps_total_fixed (b : List Nat) : (∃ m, decodeFixed b = ok m) ∨ (∃ e, decodeFixed b = err e) := by
  have hnp : decodeFixed b ≠ .panic := by
    unfold decodeFixed decodeG
    have := decodeLoop_guarded_np MAX_SUBMESSAGES (b.drop 20)
    repeat' split
    all_goals simp_all
  cases h : decodeFixed b with
  | ok m => exact Or.inl ⟨m, rfl⟩
  | err e => exact Or.inr ⟨e, rfl⟩
  | panic => exact absurd h hnp

/-- the same statement over real octets -/
theorem C07_rtps_total_fixed_u8 (b : List UInt8) :
    (∃ m, decodeFixed (b.map UInt8.toNat) = ok m) ∨ (∃ e, decodeFixed (b.map UInt8.toNat) = err e) :=
  C07_rtps_total_fixed _

/-- PARTIAL (decoder as it is).  Excluded: datagrams that contain, at some offset, a NACK_FRAG submessage
    header (id 0x12) whose fragment-number set has `numBits > 256` or a set bit denoting a fragment number
    above `u32::MAX` (`FragSetPanics`, findings D5 and D-wire-1).  Every panic of the decoder is of that kind:
    no other slice index, subtraction, addition or cast in `RtpsMessageRead::try_from` and the parsers can fail. -/
theorem C07_rtps_total_partial (b : List Nat) (h : decode b = .panic) :
    ∃ pre fl l0 l1 rest, b = pre ++ 0x12 :: fl :: l0 :: l1 :: rest ∧
      FragSetPanics (decide (fl % 2 = 1)) (rest.drop 16) := by
  unfold decode decodeG at h
  split at h
  · simp at h
  · split at h
    · simp at h
    · split at h
      · simp at h
      · simp at h
      · rename_i hl
        obtain ⟨pre, fl, l0, l1, rest, he, hp⟩ := decodeLoop_false_panic _ _ hl
        refine ⟨b.take 20 ++ pre, fl, l0, l1, rest, ?_, hp⟩
        rw [List.append_assoc, ← he, List.take_append_drop]

/-- consequence: a datagram without the octet 0x12 is decoded without panic by the code as it is -/
theorem C07_rtps_total_without_nackfrag (b : List Nat) (h : 0x12 ∉ b) :
    (∃ m, decode b = ok m) ∨ (∃ e, decode b = err e) := by
  cases hd : decode b with
  | ok m => exact Or.inl ⟨m, rfl⟩
  | err e => exact Or.inr ⟨e, rfl⟩
  | panic =>
    obtain ⟨pre, fl, l0, l1, rest, he, _⟩ := C07_rtps_total_partial b hd
    exact absurd (by rw [he]; simp) h

/-- the panic condition of `FragmentNumberSet::try_read_from_bytes` is exact -/
theorem C07_rtps_fragset_panic_iff (le : Bool) (d : List Nat) :
    fnsetRead false le d = .panic ↔ FragSetPanics le d :=
  fnsetRead_false_panic_iff le d

/-- D5 witness: header + NACK_FRAG with numBits = 300 (72 + 12 octets) -/
def d5Witness : List Nat :=
  [82, 84, 80, 83, 2, 3, 9, 8, 3, 3, 3, 3, 3, 3, 3, 3, 3, 3, 3, 3, 18, 1, 60, 0, 1, 2, 3, 4, 6, 7, 8, 9, 0, 0, 0, 0, 4, 0, 0,
   0, 2, 0, 0, 0, 44, 1, 0, 0, 0, 0, 0, 128, 0, 0, 0, 0, 0, 0, 0, 0, 0, 0, 0, 0, 0, 0, 0, 0, 0, 0, 0, 0, 0, 0, 0, 0, 0, 0,
   0, 0, 3, 0, 0, 0]
set_option maxRecDepth 100000 in
theorem C07_rtps_numbits_counterexample : decode d5Witness = .panic ∧ decodeFixed d5Witness ≠ .panic := by
  decide

/-- D-wire-1 witness: NACK_FRAG with base 0xFFFFFFFF, numBits 2, bit 1 set -/
def dw1Witness : List Nat :=
  [82, 84, 80, 83, 2, 3, 9, 8, 3, 3, 3, 3, 3, 3, 3, 3, 3, 3, 3, 3, 18, 1, 32, 0, 1, 2, 3, 4, 6, 7, 8, 9, 0, 0, 0, 0, 4, 0, 0,
   0, 255, 255, 255, 255, 2, 0, 0, 0, 0, 0, 0, 192, 3, 0, 0, 0]
theorem C07_rtps_fragment_overflow_counterexample : decode dw1Witness = .panic := by
  decide

/-- number of decoded submessages: at most MAX_SUBMESSAGES and at most one per 4 octets after the header -/
theorem C07_rtps_submessage_count (g : Bool) (b : List Nat) (m : Msg) (h : decodeG g b = ok m) :
    m.subs.length ≤ MAX_SUBMESSAGES ∧ 4 * m.subs.length + 20 ≤ b.length := by
  unfold decodeG at h
  split at h
  · simp at h
  · rename_i hlen
    split at h
    · simp at h
    · split at h
      · rename_i ss hl
        simp at h
        subst h
        obtain ⟨h1, h2, _, _⟩ := decodeLoop_bounds g _ _ _ hl
        rw [List.length_drop] at h2
        exact ⟨h1, by simp; omega⟩
      · simp at h
      · simp at h

/-- PARTIAL allocation bound.  Excluded: messages in which an INFO_REPLY was decoded (finding D-wire-3).
    Otherwise the octets held by the decoded value (payloads, parameter values) never exceed the input length. -/
theorem C07_rtps_size_partial (g : Bool) (b : List Nat) (m : Msg) (h : decodeG g b = ok m)
    (hr : ∀ s ∈ m.subs, s.isReply = false) : subsSize m.subs ≤ b.length := by
  unfold decodeG at h
  split at h
  · simp at h
  · split at h
    · simp at h
    · split at h
      · rename_i ss hl
        simp at h
        subst h
        obtain ⟨_, _, _, h4⟩ := decodeLoop_bounds g _ _ _ hl
        have := h4 hr
        rw [List.length_drop] at this
        show subsSize ss ≤ b.length
        omega
      · simp at h
      · simp at h

/-- general bound (INFO_REPLY included): every single submessage holds at most the input length, so the whole
    value holds at most (number of submessages) × (input length) ≤ len²/4 octets -/
theorem C07_rtps_size_each (g : Bool) (b : List Nat) (m : Msg) (h : decodeG g b = ok m) :
    ∀ s ∈ m.subs, s.size ≤ b.length := by
  unfold decodeG at h
  split at h
  · simp at h
  · split at h
    · simp at h
    · split at h
      · rename_i ss hl
        simp at h
        subst h
        obtain ⟨_, _, h3, _⟩ := decodeLoop_bounds g _ _ _ hl
        intro s hs
        have := h3 s hs
        rw [List.length_drop] at this
        omega
      · simp at h
      · simp at h

/-- D-wire-3 witness: 84 octets (header + eight 8-octet INFO_REPLY submessages whose locator lists overlap)
    decode to a value holding 168 octets of locators -/
def dw3Witness : List Nat :=
  [82, 84, 80, 83, 2, 3, 1, 20, 0, 0, 0, 0, 0, 0, 0, 0, 0, 0, 0, 0, 15, 1, 4, 0, 2, 0, 0, 0, 15, 1, 4, 0, 2, 0, 0, 0, 15, 1, 4,
   0, 1, 0, 0, 0, 15, 1, 4, 0, 1, 0, 0, 0, 15, 1, 4, 0, 1, 0, 0, 0, 15, 1, 4, 0, 0, 0, 0, 0, 15, 1, 4, 0, 0, 0, 0, 0, 15, 1,
   4, 0, 0, 0, 0, 0]
theorem C07_rtps_size_counterexample :
    ∃ m, decode dw3Witness = ok m ∧ subsSize m.subs = 168 ∧ dw3Witness.length = 84 := by
  refine ⟨_, rfl, ?_, ?_⟩ <;> decide

/-! non-vacuity -/
example : ∃ m, decode (d5Witness.take 20) = ok m := ⟨_, rfl⟩
example : (0x12 : Nat) ∉ dw3Witness := by decide
example : FragSetPanics true (d5Witness.drop 40) :=
  ⟨2, 300, [2147483648, 0, 0, 0, 0, 0, 0, 0], _, _, _, rfl, rfl, rfl, Or.inl (by decide)⟩

end DustVerif.Wire
