import DustVerif.Proofs.WireAccessor
/-!
Property C07 (RTPS part): `RtpsMessageRead::try_from` and the submessage parsers are total, and the decoded value
is bounded by the input.

`decode` is the decoder of the repository `main` (bdfece3, D5 fix committed) with fixes/D-wire-3.patch and
fixes/D-wire-4.patch (`decodeG Cfg.fixed`, Model/Wire.lean); `decodeMain` is `main` without those two patches,
`decodeOrig` the tree before the D5 fix.  Octets are `Nat`; the theorems quantify over every `List Nat`, so in
particular over every list of real octets (`C07_rtps_total_u8`).

FULL for the delivered decoder: `C07_rtps_total` (never panics), `C07_rtps_size` (linear bound, explicit
constants, INFO_REPLY included), `C07_rtps_submessage_count`, `C07_rtps_accessors_total` (the accessors `set()` of
every decoded set are total).  The theorems about `decodeOrig` / `decodeMain` are kept as regression witnesses of
the repaired defects D5, D-wire-1, D-wire-3, D-wire-4 (all replayed on the real code of those trees).
-/
namespace DustVerif.Wire
open Outcome

/-- FULL, for every tree that contains the D5 fix (in particular `main` and `main` + patches): no panic. -/
theorem C07_rtps_total_any (c : Cfg) (hd : c.d5 = true) (b : List Nat) :
    (∃ m, decodeG c b = ok m) ∨ (∃ e, decodeG c b = err e) := by
  have hnp : decodeG c b ≠ .panic := by
    unfold decodeG
    have := decodeLoop_guarded_np c hd MAX_SUBMESSAGES (b.drop 20)
    repeat' split
    all_goals simp_all
  cases h : decodeG c b with
  | ok m => exact Or.inl ⟨m, rfl⟩
  | err e => exact Or.inr ⟨e, rfl⟩
  | panic => exact absurd h hnp

/-- FULL: for every octet string the decoder returns a message or an error, never panics. -/
theorem C07_rtps_total (b : List Nat) : (∃ m, decode b = ok m) ∨ (∃ e, decode b = err e) :=
  C07_rtps_total_any Cfg.fixed rfl b

/-- the same statement over real octets -/
theorem C07_rtps_total_u8 (b : List UInt8) :
    (∃ m, decode (b.map UInt8.toNat) = ok m) ∨ (∃ e, decode (b.map UInt8.toNat) = err e) :=
  C07_rtps_total _

/-- FULL allocation bound, INFO_REPLY included (needs fixes/D-wire-3.patch, `c.ext`): the octets held by the
    decoded value (payloads, parameter values, 24 per locator) plus 4 per decoded submessage plus the 20 header
    octets never exceed the input length. -/
theorem C07_rtps_size_any (c : Cfg) (he : c.ext = true) (b : List Nat) (m : Msg) (h : decodeG c b = ok m) :
    subsSize m.subs + 4 * m.subs.length + 20 ≤ b.length := by
  unfold decodeG at h
  split at h
  · simp at h
  · split at h
    · simp at h
    · split at h
      · rename_i ss hl
        simp at h
        subst h
        obtain ⟨_, _, _, h4⟩ := decodeLoop_bounds c _ _ _ hl
        have := h4 (Or.inl he)
        rw [List.length_drop] at this
        show subsSize ss + 4 * ss.length + 20 ≤ b.length
        omega
      · simp at h
      · simp at h

theorem C07_rtps_size (b : List Nat) (m : Msg) (h : decode b = ok m) :
    subsSize m.subs + 4 * m.subs.length + 20 ≤ b.length :=
  C07_rtps_size_any Cfg.fixed rfl b m h

/-- number of decoded submessages: at most MAX_SUBMESSAGES and at most one per 4 octets after the header (any tree) -/
theorem C07_rtps_submessage_count (c : Cfg) (b : List Nat) (m : Msg) (h : decodeG c b = ok m) :
    m.subs.length ≤ MAX_SUBMESSAGES ∧ 4 * m.subs.length + 20 ≤ b.length := by
  unfold decodeG at h
  split at h
  · simp at h
  · rename_i hlen
    split at h
    · simp at h
    · split at h
      · rename_i ss hl
        simp at h
        subst h
        obtain ⟨h1, h2, _, _⟩ := decodeLoop_bounds c _ _ _ hl
        rw [List.length_drop] at h2
        exact ⟨h1, by simp; omega⟩
      · simp at h
      · simp at h

/-- FULL (needs fixes/D-wire-4.patch and the D5 fix): the accessors `SequenceNumberSet::set()` /
    `FragmentNumberSet::set()` of every set in every decoded message are total. -/
theorem C07_rtps_accessors_total_any (c : Cfg) (hd : c.d5 = true) (hc : c.snchk = true) (b : List Nat) (m : Msg)
    (h : decodeG c b = ok m) : ∀ s ∈ m.subs, s.accessorsOk := by
  unfold decodeG at h
  split at h
  · simp at h
  · split at h
    · simp at h
    · split at h
      · rename_i ss hl
        simp at h
        subst h
        exact decodeLoop_all c Sub.accessorsOk (decodeSub_accessors c hd hc) _ _ _ hl
      · simp at h
      · simp at h

theorem C07_rtps_accessors_total (b : List Nat) (m : Msg) (h : decode b = ok m) : ∀ s ∈ m.subs, s.accessorsOk :=
  C07_rtps_accessors_total_any Cfg.fixed rfl rfl b m h

/-! ### regression witnesses and what was proved about the earlier trees -/

/-- tree before the D5 fix: every panic of the decoder comes from a NACK_FRAG submessage header (id 0x12) whose
    fragment-number set has `numBits > 256` or a set bit denoting a fragment number above `u32::MAX`
    (`FragSetPanics`, D5 and D-wire-1) -/
theorem C07_rtps_total_partial (b : List Nat) (h : decodeOrig b = .panic) :
    ∃ pre fl l0 l1 rest, b = pre ++ 0x12 :: fl :: l0 :: l1 :: rest ∧
      FragSetPanics (decide (fl % 2 = 1)) (rest.drop 16) := by
  unfold decodeOrig decodeG at h
  split at h
  · simp at h
  · split at h
    · simp at h
    · split at h
      · simp at h
      · simp at h
      · rename_i hl
        obtain ⟨pre, fl, l0, l1, rest, he, hp⟩ := decodeLoop_false_panic Cfg.orig rfl rfl _ _ hl
        refine ⟨b.take 20 ++ pre, fl, l0, l1, rest, ?_, hp⟩
        rw [List.append_assoc, ← he, List.take_append_drop]

theorem C07_rtps_total_without_nackfrag (b : List Nat) (h : 0x12 ∉ b) :
    (∃ m, decodeOrig b = ok m) ∨ (∃ e, decodeOrig b = err e) := by
  cases hd : decodeOrig b with
  | ok m => exact Or.inl ⟨m, rfl⟩
  | err e => exact Or.inr ⟨e, rfl⟩
  | panic =>
    obtain ⟨pre, fl, l0, l1, rest, he, _⟩ := C07_rtps_total_partial b hd
    exact absurd (by rw [he]; simp) h

/-- the panic condition of the unguarded `FragmentNumberSet::try_read_from_bytes` is exact -/
theorem C07_rtps_fragset_panic_iff (le : Bool) (d : List Nat) :
    fnsetRead false le d = .panic ↔ FragSetPanics le d :=
  fnsetRead_false_panic_iff le d

/-- D5 witness: header + NACK_FRAG with numBits = 300 (84 octets) -/
def d5Witness : List Nat :=
  [82, 84, 80, 83, 2, 3, 9, 8, 3, 3, 3, 3, 3, 3, 3, 3, 3, 3, 3, 3, 18, 1, 60, 0, 1, 2, 3, 4, 6, 7, 8, 9, 0, 0, 0, 0, 4, 0, 0,
   0, 2, 0, 0, 0, 44, 1, 0, 0, 0, 0, 0, 128, 0, 0, 0, 0, 0, 0, 0, 0, 0, 0, 0, 0, 0, 0, 0, 0, 0, 0, 0, 0, 0, 0, 0, 0, 0, 0,
   0, 0, 3, 0, 0, 0]
set_option maxRecDepth 100000 in
theorem C07_rtps_numbits_counterexample :
    decodeOrig d5Witness = .panic ∧ decodeMain d5Witness ≠ .panic ∧ decode d5Witness ≠ .panic := by
  decide

/-- D-wire-1 witness: NACK_FRAG with base 0xFFFFFFFF, numBits 2, bit 1 set -/
def dw1Witness : List Nat :=
  [82, 84, 80, 83, 2, 3, 9, 8, 3, 3, 3, 3, 3, 3, 3, 3, 3, 3, 3, 3, 18, 1, 32, 0, 1, 2, 3, 4, 6, 7, 8, 9, 0, 0, 0, 0, 4, 0, 0,
   0, 255, 255, 255, 255, 2, 0, 0, 0, 0, 0, 0, 192, 3, 0, 0, 0]
theorem C07_rtps_fragment_overflow_counterexample :
    decodeOrig dw1Witness = .panic ∧ decode dw1Witness ≠ .panic := by
  decide

/-- trees without fixes/D-wire-3.patch: the linear bound holds only when no INFO_REPLY was decoded -/
theorem C07_rtps_size_partial (c : Cfg) (b : List Nat) (m : Msg) (h : decodeG c b = ok m)
    (hr : ∀ s ∈ m.subs, s.isReply = false) : subsSize m.subs ≤ b.length := by
  unfold decodeG at h
  split at h
  · simp at h
  · split at h
    · simp at h
    · split at h
      · rename_i ss hl
        simp at h
        subst h
        obtain ⟨_, _, _, h4⟩ := decodeLoop_bounds c _ _ _ hl
        have := h4 (Or.inr hr)
        rw [List.length_drop] at this
        show subsSize ss ≤ b.length
        omega
      · simp at h
      · simp at h

/-- any tree: every single submessage holds at most the input length -/
theorem C07_rtps_size_each (c : Cfg) (b : List Nat) (m : Msg) (h : decodeG c b = ok m) :
    ∀ s ∈ m.subs, s.size ≤ b.length := by
  unfold decodeG at h
  split at h
  · simp at h
  · split at h
    · simp at h
    · split at h
      · rename_i ss hl
        simp at h
        subst h
        obtain ⟨_, _, h3, _⟩ := decodeLoop_bounds c _ _ _ hl
        intro s hs
        have := h3 s hs
        rw [List.length_drop] at this
        omega
      · simp at h
      · simp at h

/-- D-wire-3 regression witness: 84 octets (header + eight 8-octet INFO_REPLY submessages whose locator lists
    overlap) decoded by `main` without the patch hold 168 octets of locators; with the patch the value is bounded -/
def dw3Witness : List Nat :=
  [82, 84, 80, 83, 2, 3, 1, 20, 0, 0, 0, 0, 0, 0, 0, 0, 0, 0, 0, 0, 15, 1, 4, 0, 2, 0, 0, 0, 15, 1, 4, 0, 2, 0, 0, 0, 15, 1, 4,
   0, 1, 0, 0, 0, 15, 1, 4, 0, 1, 0, 0, 0, 15, 1, 4, 0, 1, 0, 0, 0, 15, 1, 4, 0, 0, 0, 0, 0, 15, 1, 4, 0, 0, 0, 0, 0, 15, 1,
   4, 0, 0, 0, 0, 0]
theorem C07_rtps_size_counterexample :
    (∃ m, decodeMain dw3Witness = ok m ∧ subsSize m.subs = 168 ∧ dw3Witness.length = 84) ∧
    (∃ m, decode dw3Witness = ok m ∧ subsSize m.subs = 0) := by
  refine ⟨⟨_, rfl, ?_, ?_⟩, ⟨_, rfl, ?_⟩⟩ <;> decide

/-- D-wire-4 regression witness: ACKNACK with base = i64::MAX, numBits 2, both bits set: `main` decodes it and the
    accessor of the decoded set panics; with fixes/D-wire-4.patch the submessage is rejected -/
def dw4Witness : List Nat :=
  [82, 84, 80, 83, 2, 3, 9, 8, 3, 3, 3, 3, 3, 3, 3, 3, 3, 3, 3, 3, 6, 1, 28, 0, 1, 2, 3, 4, 6, 7, 8, 9, 255, 255, 255, 127,
   255, 255, 255, 255, 2, 0, 0, 0, 0, 0, 0, 192, 1, 0, 0, 0]
theorem C07_rtps_accessor_counterexample :
    (∃ r w set c, decodeMain dw4Witness = ok ⟨⟨[2, 3], [9, 8], [3, 3, 3, 3, 3, 3, 3, 3, 3, 3, 3, 3]⟩,
        [.ackNack false r w set c]⟩ ∧ snsetMembers set = .panic) ∧
    decode dw4Witness = ok ⟨⟨[2, 3], [9, 8], [3, 3, 3, 3, 3, 3, 3, 3, 3, 3, 3, 3]⟩, []⟩ := by
  refine ⟨⟨_, _, _, _, rfl, ?_⟩, ?_⟩ <;> decide

/-! non-vacuity -/
example : ∃ m, decode (d5Witness.take 20) = ok m := ⟨_, rfl⟩
example : (0x12 : Nat) ∉ dw3Witness := by decide
example : FragSetPanics true (d5Witness.drop 40) :=
  ⟨2, 300, [2147483648, 0, 0, 0, 0, 0, 0, 0], _, _, _, rfl, rfl, rfl, Or.inl (by decide)⟩
example : Cfg.fixed.ext = true ∧ Cfg.fixed.d5 = true ∧ Cfg.fixed.snchk = true := by decide

end DustVerif.Wire
