import DustVerif.Proofs.RtpsSys
/-! Property C02: best-effort delivery never duplicates, reorders or corrupts samples (safety only).
    Model: `Model/Rtps.lean` with a best-effort reader (`write_message_best_effort`, `sn ≥ expected` acceptance,
    `lost_changes_update`, best-effort DATA_FRAG buffering). The adversary delivers any in-flight datagram, drops and
    duplicates; it does not forge. -/
namespace DustVerif.Rtps

/-- **C02_subsequence**: for EVERY step list — writes of arbitrary payloads (fragmented or not), removals, ticks, match
    and re-announcements, and an adversary that delivers any in-flight datagram in any order, drops and duplicates —
    what the best-effort reader has delivered is a sub-list of the publication log: strictly increasing sequence numbers
    (no duplicate, no reordering) and every entry IS the published change of that number (payload byte-identical).
    Proved for every variant of the code that contains fixes/D43.patch (`cfg.fixD43`); the other repairs are not needed. -/
theorem C02_subsequence (cfg : Cfg) (hfix : cfg.fixD43 = true) (tl : Bool) (f : Nat) (hf : 1 ≤ f) (hf16 : f < 65536)
    (steps : List Step) (hsteps : ∀ st, st ∈ steps → StepOK st) (s : Sys)
    (hrun : Sys.run cfg (Sys.init false tl f) steps = .ok s) :
    (s.r.cache.map snOf).Pairwise (· < ·) ∧ (∀ c, c ∈ s.r.cache → c ∈ s.log) ∧ s.r.cache.Sublist s.log :=
  delivered_sublist cfg hfix false tl f hf hf16 steps hsteps s hrun

/-- non-vacuity: a late best-effort reader, a fragmented and two plain samples, a removal, duplicates, loss and
    out-of-order delivery; the run does not panic and delivers 2 of the 3 samples -/
example :
    (match Sys.run Cfg.fixed (Sys.init false true 8)
        [.write [1], .doMatch, .write (List.range 20), .write [3], .dup 1, .deliver 2, .drop 0, .deliver 1,
         .deliver 0, .deliver 1, .deliver 0, .remove 2, .doMatch] with
      | .ok s => s.r.cache.map snOf
      | .panic => [0]) = [2, 3] := by decide

/-- **C02_frag_no_resurrect**: once the reader has moved past a sequence number (a later DATA was accepted, a GAP or a
    HEARTBEAT moved `available_changes_max`), a fragment of that number — whatever the buffer still holds — never adds
    anything to the delivered list (best-effort and reliable readers alike). -/
theorem C02_frag_no_resurrect (r : Reader) (p : WProxy) (hp : r.proxy = some p) (fr : Frag)
    (hold : fr.sn ≤ p.availMax) : (r.onFrag fr).cache = r.cache := by
  unfold Reader.onFrag
  rw [hp]
  simp only
  have hacc : ¬ (if r.reliable = true then fr.sn = p.availMax + 1 else fr.sn ≥ p.availMax + 1) := by
    split <;> omega
  rw [if_neg hacc]
  cases hre : reassemble p.fragBuf fr.sn with
  | none => simp [reconstruct, hre]
  | some d =>
    simp only [reconstruct, hre]
    unfold Reader.onData
    simp only
    have e : ({ p with fragBuf := p.fragBuf.filter (notSn fr.sn) } : WProxy).availMax = p.availMax := rfl
    rw [e]
    split
    · rw [if_neg (by omega)]
    · rw [if_neg (by omega)]

/-- **C02_gap_never_rewinds**: whatever GAP a reader is handed — an old one, a late copy, any start / base / set, for a
    best-effort or a reliable reader, repaired or as-is glue — `highest_received_change_sn` does not decrease and the
    delivered list is untouched: a replayed GAP cannot make the reader accept again a DATA it has moved past. -/
theorem C02_gap_never_rewinds (cfg : Cfg) (r : Reader) (start base : Nat) (set : List Nat) (p : WProxy)
    (hp : r.proxy = some p) :
    (r.onGap cfg start base set).cache = r.cache ∧
    ∃ p', (r.onGap cfg start base set).proxy = some p' ∧ p.highestRecv ≤ p'.highestRecv ∧ p.availMax ≤ p'.availMax := by
  -- first_available_seq_num is not touched by a GAP
  have hfr : ∀ (q : WProxy) (a b : Nat), (q.irrelevantRange a b).firstAvail = q.firstAvail := by
    intro q a b; unfold WProxy.irrelevantRange; split <;> rfl
  have hfi : ∀ (q : WProxy) (a : Nat), (q.irrelevant cfg a).firstAvail = q.firstAvail := by
    intro q a
    unfold WProxy.irrelevant
    split
    · exact hfr q a a
    · split <;> rfl
  have hfa : ∀ (l : List Nat) (q : WProxy), (l.foldl (WProxy.irrelevant cfg) q).firstAvail = q.firstAvail := by
    intro l
    induction l with
    | nil => intro q; rfl
    | cons x xs ih => intro q; simp only [List.foldl_cons]; rw [ih, hfi]
  generalize hq : (set.foldl (WProxy.irrelevant cfg)
      (if cfg.fixD2 = true then (if base > start then p.irrelevantRange start (base - 1) else p)
       else (if base > start then (rangeIncl start (base - 1)).foldl (WProxy.irrelevant cfg) p else p))) = q
  have hle : ProxyLe p q := by
    rw [← hq]
    refine ProxyLe.trans ?_ (foldl_irrelevant_le cfg set _)
    split
    · split
      · exact irrelevantRange_le p _ _
      · exact ProxyLe.refl p
    · split
      · exact foldl_irrelevant_le cfg _ p
      · exact ProxyLe.refl p
  have hfq : q.firstAvail = p.firstAvail := by
    rw [← hq, hfa]
    split
    · split
      · exact hfr p _ _
      · rfl
    · split
      · exact hfa _ p
      · rfl
  have hres : r.onGap cfg start base set = { r with proxy := some q } := by
    unfold Reader.onGap
    rw [hp]
    simp only
    rw [hq]
  rw [hres]
  refine ⟨rfl, q, rfl, hle.2, ?_⟩
  unfold WProxy.availMax
  rw [hfq]
  have := hle.2
  omega

/-- a DATA whose number is not above `highest_received_change_sn` is refused by any reader (best-effort or reliable) -/
theorem onData_refused_of_le_highest (r : Reader) (p : WProxy) (hp : r.proxy = some p) (sn : Nat) (payload : Payload)
    (hsn : sn ≤ p.highestRecv) : (r.onData sn payload).cache = r.cache := by
  unfold Reader.onData
  rw [hp]
  simp only
  have hm : p.highestRecv ≤ p.availMax := by unfold WProxy.availMax; omega
  split
  · rw [if_neg (by omega)]
  · rw [if_neg (by omega)]

/-- **C02_hb_never_reopens**: whatever HEARTBEAT a reader is handed — any `first` / `last` / count / flags, for a
    best-effort or a reliable reader, repaired or as-is glue, in particular one whose `first` lies far below what the
    reader has seen (it overwrites `first_available_seq_num`) — the delivered list is untouched,
    `highest_received_change_sn` does not decrease, and a DATA of a number the reader has already received is still
    refused afterwards: a HEARTBEAT cannot make the reader deliver a sample twice. -/
theorem C02_hb_never_reopens (cfg : Cfg) (r r' : Reader) (p : WProxy) (hp : r.proxy = some p)
    (first last count : Nat) (fin lv : Bool) (out : List Dgram)
    (h : r.onHb cfg first last count fin lv = .ok (r', out)) :
    r'.cache = r.cache ∧
    ∃ p', r'.proxy = some p' ∧ p.highestRecv ≤ p'.highestRecv ∧
      ∀ sn payload, sn ≤ p.highestRecv → (r'.onData sn payload).cache = r'.cache := by
  unfold Reader.onHb at h
  rw [hp] at h
  simp only at h
  split at h
  · split at h
    · rename_i p2 out2 hw
      injection h with h; injection h with h1 h2; subst h1; subst h2
      obtain ⟨hle, _⟩ := proxy_writeMessage_ok cfg _ p2 _ hw
      have hhr : p.highestRecv ≤ p2.highestRecv := hle.2
      refine ⟨rfl, p2, rfl, hhr, ?_⟩
      intro sn payload hsn
      exact onData_refused_of_le_highest _ p2 rfl sn payload (by omega)
    · cases h
  · injection h with h; injection h with h1 h2; subst h1; subst h2
    refine ⟨rfl, p, hp, Nat.le_refl _, ?_⟩
    intro sn payload hsn
    exact onData_refused_of_le_highest _ p hp sn payload hsn

/-- non-vacuity of C02_hb_never_reopens: a best-effort reader that has received 1..3 is handed a HEARTBEAT with
    first = 1, last = 9 and a fresh count; DATA 2 is refused afterwards, DATA 4 is delivered -/
example :
    (match (Reader.onHb Cfg.fixed { reliable := false, proxy := some { WProxy.new with highestRecv := 3, firstAvail := 3 },
                                     cache := [⟨3, [7]⟩] } 1 9 5 true false) with
      | .ok (r', _) => (((r'.onData 2 [8]).cache.map snOf), ((r'.onData 4 [9]).cache.map snOf))
      | .panic => ([], [])) = ([3], [3, 4]) := by decide

/-- **C02_forged_hb_no_duplicate**: in EVERY reachable state of the system (any step list, any faults) a HEARTBEAT
    of ANY content — also one that never came from the writer — followed by a copy of the DATA of any sample the reader
    has already delivered leaves the delivered list as it was: the HEARTBEAT branch, the one the adversary of
    `C02_subsequence` cannot forge, cannot be used to make the reader present a sample twice. -/
theorem C02_forged_hb_no_duplicate (cfg : Cfg) (hfix : cfg.fixD43 = true) (rel tl : Bool) (f : Nat) (hf : 1 ≤ f) (hf16 : f < 65536)
    (steps : List Step) (hsteps : ∀ st, st ∈ steps → StepOK st) (s : Sys)
    (hrun : Sys.run cfg (Sys.init rel tl f) steps = .ok s)
    (first last count : Nat) (fin lv : Bool) (r' : Reader) (out : List Dgram)
    (h : s.r.onHb cfg first last count fin lv = .ok (r', out)) :
    r'.cache = s.r.cache ∧ ∀ c, c ∈ s.r.cache → ∀ payload, (r'.onData c.sn payload).cache = r'.cache := by
  have hinv := inv1_run cfg hfix steps _ s hsteps (inv1_init rel tl f hf hf16) hrun
  cases hp : s.r.proxy with
  | none =>
    have hc : s.r.cache = [] := hinv.reader.noProxy hp
    unfold Reader.onHb at h
    rw [hp] at h
    simp only at h
    injection h with h; injection h with h1 h2; subst h1
    exact ⟨rfl, by intro c hcm; rw [hc] at hcm; cases hcm⟩
  | some p =>
    obtain ⟨hcache, p', _, _, hre⟩ := C02_hb_never_reopens cfg s.r r' p hp first last count fin lv out h
    refine ⟨hcache, ?_⟩
    intro c hc payload
    exact hre c.sn payload (hinv.reader.bound p hp c hc)

/-- non-vacuity of C02_forged_hb_no_duplicate: a reachable best-effort state with two delivered samples, a forged
    HEARTBEAT (first = 1, last = 50, count 1000, not final), then a copy of DATA 1: still [1, 2] -/
example :
    (match Sys.run Cfg.fixed (Sys.init false true 8) [.doMatch, .write [1], .write [2], .deliver 0, .deliver 0] with
      | .ok s =>
        (match s.r.onHb Cfg.fixed 1 50 1000 false false with
         | .ok (r', _) => (s.r.cache.map snOf, (r'.onData 1 [1]).cache.map snOf)
         | .panic => ([], []))
      | .panic => ([], [])) = ([1, 2], [1, 2]) := by decide

/-- **C02_forged_gap_no_duplicate**: in EVERY reachable state a GAP of ANY content (any start / base / set, also one the
    writer never sent) followed by a copy of the DATA of any delivered sample leaves the delivered list as it was. -/
theorem C02_forged_gap_no_duplicate (cfg : Cfg) (hfix : cfg.fixD43 = true) (rel tl : Bool) (f : Nat) (hf : 1 ≤ f) (hf16 : f < 65536)
    (steps : List Step) (hsteps : ∀ st, st ∈ steps → StepOK st) (s : Sys)
    (hrun : Sys.run cfg (Sys.init rel tl f) steps = .ok s) (start base : Nat) (set : List Nat) :
    (s.r.onGap cfg start base set).cache = s.r.cache ∧
    ∀ c, c ∈ s.r.cache → ∀ payload,
      ((s.r.onGap cfg start base set).onData c.sn payload).cache = (s.r.onGap cfg start base set).cache := by
  have hinv := inv1_run cfg hfix steps _ s hsteps (inv1_init rel tl f hf hf16) hrun
  cases hp : s.r.proxy with
  | none =>
    have hc : s.r.cache = [] := hinv.reader.noProxy hp
    have hg : s.r.onGap cfg start base set = s.r := by unfold Reader.onGap; rw [hp]
    rw [hg]
    exact ⟨rfl, by intro c hcm; rw [hc] at hcm; cases hcm⟩
  | some p =>
    obtain ⟨hcache, p', hp', hhr, _⟩ := C02_gap_never_rewinds cfg s.r start base set p hp
    refine ⟨hcache, ?_⟩
    intro c hc payload
    have := hinv.reader.bound p hp c hc
    exact onData_refused_of_le_highest _ p' hp' c.sn payload (by omega)

/-- as-is (D43): a re-announcement of the match replaces both proxies by fresh ones — the writer sends its history
    again and the reader accepts it again: sample 1 is delivered twice with no fault at all -/
theorem C02_rematch_duplicates_asis_counterexample :
    (match Sys.run Cfg.asIs (Sys.init false true 8)
        [.doMatch, .write [1], .deliver 0, .doMatch, .tick 1, .deliver 0] with
      | .ok s => s.r.cache.map snOf
      | .panic => []) = [1, 1] := by decide

/-- the same schedule on the repaired code delivers sample 1 once -/
example :
    (match Sys.run Cfg.fixed (Sys.init false true 8)
        [.doMatch, .write [1], .deliver 0, .doMatch, .tick 1, .deliver 0] with
      | .ok s => s.r.cache.map snOf
      | .panic => []) = [1] := by decide

end DustVerif.Rtps
