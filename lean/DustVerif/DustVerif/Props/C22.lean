import DustVerif.Proofs.HistLemmas
import DustVerif.Model.HistOps
/-! Property C22 (instance life cycle): the instance_state and the two generation counters kept by the reader
    refine the DDS instance automaton for every received change, whatever the outcome of the change
    (stored, filtered, rejected); the double application of `update_state` inside `add_reader_change`
    (before the filters and again on insertion) is harmless.
    The view_state is part of the automaton: NEW for a new instance and after a rebirth, NOT_NEW after the
    application has read samples of the instance (the pre-repair behaviour, finding D28, is kept as a witness). -/
namespace DustVerif.Hist

/-- the DDS instance automaton: instance_state × view_state × disposed_generation_count × no_writers_generation_count -/
structure Life where
  st : IState
  viewNew : Bool
  dgc : Int
  nwgc : Int
deriving DecidableEq, Repr

/-- DDS 1.4 fig. 2.11 (single registered writer): dispose → NOT_ALIVE_DISPOSED, unregister → NOT_ALIVE_NO_WRITERS,
    a data sample on a not-alive instance → ALIVE with the corresponding generation counter incremented -/
def lifeStep (l : Life) (k : Kind) : Life :=
  match l.st, k with
  | .alive, .disposed => { l with st := .disposed }
  | .alive, .disposedUnregistered => { l with st := .disposed }
  | .alive, .unregistered => { l with st := .noWriters }
  | .disposed, .alive => { l with st := .alive, dgc := l.dgc + 1, viewNew := true }
  | .noWriters, .alive => { l with st := .alive, nwgc := l.nwgc + 1, viewNew := true }
  | _, _ => l

def Inst.life (i : Inst) : Life := { st := i.st, viewNew := i.viewNew, dgc := i.dgc, nwgc := i.nwgc }

/-- the life of an instance the reader has not seen yet -/
def lifeOf : Option Inst → Life
  | some i => i.life
  | none => { st := .alive, viewNew := true, dgc := 0, nwgc := 0 }

/-- one `update_state` is one step of the automaton -/
theorem C22_update_refines (i : Inst) (k : Kind) (now : Option Nat) :
    (i.update k now).life = lifeStep i.life k := by
  cases i with
  | mk h v st d n lr =>
    cases st <;> cases k <;> cases v <;> cases now <;> simp [Inst.update, Inst.life, lifeStep]

/-- applying `update_state` a second time with the same change kind (the code does this for every stored
    sample) changes neither the automaton state nor the view state -/
theorem C22_update_twice (i : Inst) (k : Kind) (a b : Option Nat) :
    ((i.update k a).update k b).life = (i.update k a).life ∧
    ((i.update k a).update k b).viewNew = (i.update k a).viewNew := by
  cases i with
  | mk h v st d n lr =>
    cases st <;> cases k <;> cases v <;> cases a <;> cases b <;> simp [Inst.update, Inst.life]

theorem update_h (i : Inst) (k : Kind) (now : Option Nat) : (i.update k now).h = i.h := by
  cases i with
  | mk h v st d n lr =>
    cases st <;> cases k <;> cases v <;> cases now <;> simp [Inst.update]

theorem findInst_mapInst (h : Nat) (f : Inst → Inst) (hf : ∀ i, (f i).h = i.h) (l : List Inst) :
    findInst h (mapInst h f l) = (findInst h l).map f := by
  induction l with
  | nil => rfl
  | cons x xs ih =>
    unfold mapInst findInst
    by_cases hx : x.h = h
    · simp [hx, hf]
    · simp [hx, ih]

theorem findInst_append_new (h : Nat) (l : List Inst) (j : Inst) (hj : j.h = h) (hn : findInst h l = none) :
    findInst h (l ++ [j]) = some j := by
  induction l with
  | nil => simp [findInst, hj]
  | cons x xs ih =>
    unfold findInst at hn
    by_cases hx : x.h = h
    · simp [hx] at hn
    · simp only [hx, if_false] at hn
      simp [findInst, hx, ih hn]

/-- effect of `touchInst` on the instance `h` -/
theorem touchInst_life (insts : List Inst) (h : Nat) (k : Kind) (now : Nat) (l : List Inst)
    (ht : touchInst insts h k now = some l) :
    ∃ i', findInst h l = some i' ∧ i'.life = lifeStep (lifeOf (findInst h insts)) k
      ∧ ∀ b, (i'.update k b).life = i'.life := by
  unfold touchInst at ht
  cases hf : findInst h insts with
  | some i =>
    simp only [hf] at ht
    injection ht with ht
    subst ht
    refine ⟨i.update k (some now), ?_, ?_, ?_⟩
    · rw [findInst_mapInst h _ (fun i => update_h i k (some now)), hf]; rfl
    · simp [lifeOf, C22_update_refines]
    · intro b; exact (C22_update_twice i k (some now) b).1
  | none =>
    simp only [hf] at ht
    split at ht
    · injection ht with ht
      subst ht
      refine ⟨(Inst.new h).update k (some now), ?_, ?_, ?_⟩
      · exact findInst_append_new h insts _ (by rw [update_h]; rfl) hf
      · rw [C22_update_refines]; rfl
      · intro b; exact (C22_update_twice (Inst.new h) k (some now) b).1
    · cases ht

/-- the second `touchInst` (on insertion) keeps the automaton state of instance `h` -/
theorem touchInst_again (insts : List Inst) (h : Nat) (k : Kind) (now : Nat) (i' : Inst)
    (hf : findInst h insts = some i') (hidem : ∀ b, (i'.update k b).life = i'.life) :
    ∃ i'', findInst h (match touchInst insts h k now with
        | some l => l
        | none => insts) = some i'' ∧ i''.life = i'.life := by
  unfold touchInst
  simp only [hf]
  refine ⟨i'.update k (some now), ?_, hidem _⟩
  rw [findInst_mapInst h _ (fun i => update_h i k (some now)), hf]; rfl

theorem finishAdd_insts (s2 : St) (x : Sample) (rts : Nat) (i' : Inst)
    (hf : findInst x.inst s2.insts = some i') (hidem : ∀ b, (i'.update x.kind b).life = i'.life) :
    ∃ i'', findInst x.inst (finishAdd s2 x rts).1.insts = some i'' ∧ i''.life = i'.life := by
  generalize hr : finishAdd s2 x rts = r
  unfold finishAdd at hr
  simp only [] at hr
  split at hr
  · subst hr; exact ⟨i', hf, rfl⟩
  · split at hr
    · subst hr; exact ⟨i', hf, rfl⟩
    · split at hr
      · subst hr; exact ⟨i', hf, rfl⟩
      · subst hr
        exact touchInst_again s2.insts x.inst x.kind rts i' hf hidem

/-- C22 (instance state and generation counts): for EVERY received change that is not answered with an error
    (a not-alive change for an unknown instance), the reader's instance_state and generation counters of that
    instance afterwards are exactly one step of the DDS instance automaton from the values before
    (a new instance starts ALIVE with both counters 0) — whether the sample was stored, filtered or rejected. -/
theorem C22_instance_state_refines (s : St) (w : Nat) (data : String) (k : Kind) (h : Nat) (sts : Option Nat)
    (rts : Nat) (hne : (addChange s w data k h sts rts).2 ≠ .error) :
    ∃ i', findInst h (addChange s w data k h sts rts).1.insts = some i' ∧
      i'.life = lifeStep (lifeOf (findInst h s.insts)) k := by
  generalize hr : addChange s w data k h sts rts = r at hne ⊢
  unfold addChange at hr
  split at hr
  · subst hr; exact absurd rfl hne
  · rename_i insts1 ht
    obtain ⟨i', hf, hl, hidem⟩ := touchInst_life s.insts h k rts insts1 ht
    simp only [] at hr
    split at hr
    · subst hr; exact ⟨i', hf, hl⟩
    · rename_i owns2 _
      unfold afterOwnership at hr
      simp only [] at hr
      split at hr
      · subst hr; exact ⟨i', hf, hl⟩
      · subst hr
        obtain ⟨i'', h1, h2⟩ := finishAdd_insts
          { s with insts := insts1, owns := if (mkSample w data k h sts (gensOf h insts1).1 (gensOf h insts1).2).kind.isAliveKind
              then owns2 else eraseOwn (mkSample w data k h sts (gensOf h insts1).1 (gensOf h insts1).2).inst owns2 }
          (mkSample w data k h sts (gensOf h insts1).1 (gensOf h insts1).2) rts i' hf hidem
        exact ⟨i'', h1, h2.trans hl⟩

theorem mem_insertAt_self (x : Sample) (n : Nat) (l : List Sample) : x ∈ insertAt x n l := by
  induction l generalizing n with
  | nil => cases n <;> simp [insertAt]
  | cons y ys ih => cases n <;> simp [insertAt, ih]

theorem mem_storeSample_self (q : Qos) (l : List Sample) (x : Sample) : x ∈ storeSample q l x := by
  unfold storeSample
  simp only []
  split
  · exact mem_insertAt_self ..
  · simp

/-- C22 (generation counts of a sample): a stored sample carries the generation counters of the generation it
    was received in, i.e. the automaton's counters AFTER the step caused by the sample itself (the sample that
    revives an instance already belongs to the new generation) -/
theorem C22_sample_generation_counts (s : St) (w : Nat) (data : String) (k : Kind) (h : Nat) (sts : Option Nat)
    (rts : Nat) (hadd : (addChange s w data k h sts rts).2 = .added) :
    ∃ x ∈ (addChange s w data k h sts rts).1.samples, x.data = data ∧ x.inst = h ∧ x.kind = k ∧
      x.dgc = (lifeStep (lifeOf (findInst h s.insts)) k).dgc ∧
      x.nwgc = (lifeStep (lifeOf (findInst h s.insts)) k).nwgc := by
  generalize hr : addChange s w data k h sts rts = r at hadd ⊢
  unfold addChange at hr
  split at hr
  · subst hr; cases hadd
  · rename_i insts1 ht
    obtain ⟨i', hf, hl, _⟩ := touchInst_life s.insts h k rts insts1 ht
    have hg : gensOf h insts1 = (i'.dgc, i'.nwgc) := by unfold gensOf; rw [hf]
    simp only [] at hr
    split at hr
    · subst hr; cases hadd
    · rename_i owns2 _
      rcases afterOwnership_cases { s with insts := insts1 } owns2
        (mkSample w data k h sts (gensOf h insts1).1 (gensOf h insts1).2) rts with ⟨_, hc⟩
      rw [hr] at hc
      rcases hc with ⟨h1, _⟩ | ⟨why, h1, _⟩ | ⟨_, h2, _⟩
      · rw [hadd] at h1; cases h1
      · rw [hadd] at h1; cases h1
      · refine ⟨mkSample w data k h sts (gensOf h insts1).1 (gensOf h insts1).2, ?_, rfl, rfl, rfl, ?_, ?_⟩
        · rw [h2]; exact mem_storeSample_self ..
        · rw [hg, ← hl]; rfl
        · rw [hg, ← hl]; rfl

/-- C22 (error case): a dispose/unregister for an instance the reader does not know changes nothing -/
theorem C22_unknown_not_alive_ignored (s : St) (w : Nat) (data : String) (k : Kind) (h : Nat) (sts : Option Nat)
    (rts : Nat) (he : (addChange s w data k h sts rts).2 = .error) :
    (addChange s w data k h sts rts).1 = s := by
  rcases (addChange_cases s w data k h sts rts).2 with ⟨_, h2⟩ | ⟨h1, _⟩ | ⟨why, h1, _⟩ | ⟨_, _, h1, _⟩
  · exact h2
  · rw [he] at h1; cases h1
  · rw [he] at h1; cases h1
  · rw [he] at h1; cases h1

/-- C22 (view state on read): a read/take marks exactly the instances that contributed samples NOT_NEW -/
theorem C22_markViewed (coll insts : List Inst) (i : Inst) (hi : i ∈ markViewed coll insts) :
    ∃ j ∈ insts, i.h = j.h ∧ ((findInst j.h coll).isSome → i.viewNew = false) ∧
      ((findInst j.h coll).isNone → i = j) := by
  unfold markViewed at hi
  obtain ⟨j, hj, hij⟩ := List.mem_map.mp hi
  refine ⟨j, hj, ?_⟩
  cases hc : findInst j.h coll with
  | some _ => simp only [hc] at hij; subst hij; simp
  | none => simp only [hc] at hij; subst hij; simp

/-- regression witness for the repaired defect D28: the old `update_state` made a NOT_NEW instance NEW when it was
    disposed and left it NOT_NEW when it was reborn; the repaired one does the opposite -/
theorem C22_view_state_old_counterexample :
    (({ h := 1, viewNew := false, st := .alive, dgc := 0, nwgc := 0, lastRecv := 0 } : Inst).updateOld .disposed none).viewNew = true ∧
    (({ h := 1, viewNew := false, st := .disposed, dgc := 0, nwgc := 0, lastRecv := 0 } : Inst).updateOld .alive none).viewNew = false ∧
    (({ h := 1, viewNew := false, st := .alive, dgc := 0, nwgc := 0, lastRecv := 0 } : Inst).update .disposed none).viewNew = false ∧
    (({ h := 1, viewNew := false, st := .disposed, dgc := 0, nwgc := 0, lastRecv := 0 } : Inst).update .alive none).viewNew = true := by
  decide

/-- non-vacuity: write, dispose, write on one instance gives ALIVE with disposed_generation_count 1 -/
example :
    let q : Qos := { depth := none, maxSamples := none, maxInst := none, maxSpi := none, bySource := false,
                     exclusive := false, minSep := some 0 }
    let s := run (St.init q true) [.add 1 "a" .alive 5 (some 1) 1, .add 1 "" .disposed 5 (some 2) 2,
                                   .add 1 "b" .alive 5 (some 3) 3]
    (findInst 5 s.insts).map Inst.life = some { st := .alive, viewNew := true, dgc := 1, nwgc := 0 } := by decide

end DustVerif.Hist
