import DustVerif.Model.Idl
import DustVerif.Props.C40
/-! Property C41: the Rust produced by the IDL compiler has the structure the IDL declares.

    For ALL specifications of the modelled subset (`Model/Idl.lean`):
    * `C41_structure_modules`       every struct of the specification — at any module depth — is generated exactly once, at
                                    the same module path, as `mapStruct` of its definition (structural induction over Def/Defs);
    * `C41_structure_names`         one field per declarator, in declaration order, with the declared name;
    * `C41_structure_partial`       … and the field type is the image of the declared type (arrays, `Option` for @optional)
                                    when no declarator has more than one dimension;
    * `C41_type_mapping_partial`, `C41_type_mapping_injective_partial`   base types: the Rust type is the one of the XTypes kind
                                    (all spellings except `wchar`, `octet`);
    * `C41_annotations`             key / id / optional reach the derive macro for EVERY declarator of EVERY member (full since the
                                    repairs D-gen-14 / D-gen-15); `C41_struct_header` likewise extensibility / qualified name (D-gen-14 / 16);
    * `C41_describe_names`          composition with C40: the published description of the generated struct lists the declared
                                    member names in order; `C41_describe_flags` the flags.

    FALSE for the code as it is (Lean witness, replayed on the real compiler in vlib/gen_idl.py `corpus`, known finding):
      multi-dimensional arrays (D-gen-11), bounds dropped (D-gen-10), wchar / wstring (D-gen-12), octet (D-gen-13), annotated unions
      are a syntax error (D-gen-22), typedef arrays panic (D-gen-23), @bit_bound spelling (D-gen-24: `C41_bit_bound_counterexample`,
      `_partial`, `_fixed`), TRUE / FALSE constants (D-gen-28: `C41_boolean_constant_counterexample`, `C41_constant_partial`), `>>` (D-gen-29).
    REPAIRED and committed (model = repaired code, old behaviour kept as `…_old_counterexample` on `…Old` functions):
      only the first #[dust_dds] attribute was read (D-gen-14), annotations reached only the first declarator (D-gen-15),
      @extensibility(..) ignored (D-gen-16). -/
namespace DustVerif.Idl
open DustVerif.Derive

/-! ### structure: names, order, types -/

theorem mapDecls_names (depth : Nat) (ty : TypeSpec) (isOpt : Bool) : ∀ (attrs : List FAttr) (ds : List Declr),
    (mapDecls depth ty isOpt attrs ds).map (·.name) = ds.map (·.name)
  | _, [] => rfl
  | attrs, d :: r => by simp [mapDecls, mapDecls_names depth ty isOpt attrs r]

theorem declaredOfMember_names (depth : Nat) (m : Member) : ∀ ds : List Declr,
    (declaredOfMember depth m ds).map (·.1) = ds.map (·.name)
  | [] => rfl
  | d :: r => by simp [declaredOfMember, declaredOfMember_names depth m r]

theorem mapMembers_names (depth : Nat) : ∀ ms : List Member,
    (mapMembers depth ms).map (·.name) = (declaredFields depth ms).map (·.1)
  | [] => rfl
  | m :: r => by
    simp only [mapMembers, declaredFields, List.map_append, mapMembers_names depth r, mapMember, mapDecls_names,
      declaredOfMember_names]

/-- The generated struct has one field per declarator of the IDL struct, in declaration order, under the declared name —
    for EVERY struct definition. -/
theorem C41_structure_names (mods : List String) (s : StructDef) :
    (mapStruct mods s).name = s.name ∧
    (mapStruct mods s).fields.map (·.name) = (declaredFields mods.length s.members).map (·.1) :=
  ⟨rfl, mapMembers_names mods.length s.members⟩

theorem wrapArray_eq_image (t : RustTy) : ∀ dims : List Nat, dims.length ≤ 1 → wrapArray t dims = arrayImage t dims
  | [], _ => rfl
  | [n], _ => rfl
  | _ :: _ :: _, h => by simp at h

def pairOf (f : RustField) : String × RustTy := (f.name, f.ty)

theorem mapDecls_pairs (depth : Nat) (m : Member) : ∀ (attrs : List FAttr) (ds : List Declr),
    (∀ d ∈ ds, d.dims.length ≤ 1) →
    (mapDecls depth m.ty (hasOptional m.anns) attrs ds).map pairOf = declaredOfMember depth m ds
  | _, [], _ => rfl
  | attrs, d :: r, h => by
    have h1 : d.dims.length ≤ 1 := h d (by simp)
    have h2 : ∀ d' ∈ r, d'.dims.length ≤ 1 := fun d' hd => h d' (by simp [hd])
    simp only [mapDecls, List.map_cons, declaredOfMember, pairOf, fieldImage, wrapArray_eq_image _ _ h1]
    rw [← mapDecls_pairs depth m attrs r h2]

theorem mapMembers_pairs (depth : Nat) : ∀ ms : List Member, (∀ m ∈ ms, ∀ d ∈ m.decls, d.dims.length ≤ 1) →
    (mapMembers depth ms).map pairOf = declaredFields depth ms
  | [], _ => rfl
  | m :: r, h => by
    have hm : ∀ d ∈ m.decls, d.dims.length ≤ 1 := h m (by simp)
    have hr : ∀ m' ∈ r, ∀ d ∈ m'.decls, d.dims.length ≤ 1 := fun m' hm' => h m' (by simp [hm'])
    simp only [mapMembers, declaredFields, List.map_append, mapMembers_pairs depth r hr, mapMember,
      mapDecls_pairs depth m _ _ hm]

/-- … and every field has the Rust type that is the image of the declared type: the mapped element type, one array level per
    dimension, `Option<..>` for @optional — provided no declarator has more than one dimension.
    EXCLUDED: multi-dimensional arrays (`C41_structure_counterexample`, D-gen-11). -/
theorem C41_structure_partial (mods : List String) (s : StructDef)
    (h : ∀ m ∈ s.members, ∀ d ∈ m.decls, d.dims.length ≤ 1) :
    (mapStruct mods s).fields.map pairOf = declaredFields mods.length s.members :=
  mapMembers_pairs mods.length s.members h

example : ∀ m ∈ [({ anns := [.key], ty := .base .long, decls := [{ name := "a", dims := [3] }, { name := "b", dims := [] }] } : Member)],
    ∀ d ∈ m.decls, d.dims.length ≤ 1 := by decide

/-- D-gen-11 — `long m[2][3]` becomes `[i32; 2]`: only the first dimension is used (rust.rs:703-707) -/
theorem C41_structure_counterexample :
    (mapStruct [] { name := "Matrix", anns := [], members := [{ anns := [], ty := .base .long, decls := [{ name := "m", dims := [2, 3] }] }] }).fields.map (·.ty)
      = [.arr (.prim .i32) 2] ∧
    (declaredFields 0 [{ anns := [], ty := .base .long, decls := [{ name := "m", dims := [2, 3] }] }]).map (·.2)
      = [.arr (.arr (.prim .i32) 3) 2] := by decide

/-! ### structure: the module tree -/

mutual
theorem rustStructsOf_genDef (mods : List String) : ∀ (d : Def) (k : RustItems),
    rustStructsOf mods (genDef mods d k) = (structsOfDef mods d).map mapStructAt ++ rustStructsOf mods k
  | .module n ds, k => by
    simp only [genDef, rustStructsOf, rustStructsOfItem, structsOfDef]
    rw [rustStructsOf_generate (mods ++ [n]) ds]
  | .struct s, k => by simp [genDef, rustStructsOf, rustStructsOfItem, structsOfDef, mapStructAt]
  | .enum e, k => by simp [genDef, rustStructsOf, rustStructsOfItem, structsOfDef]
  | .union u, k => by simp [genDef, rustStructsOf, rustStructsOfItem, structsOfDef]
  | .typedef ty ds, k => by
    simp only [genDef, structsOfDef, List.map_nil, List.nil_append]
    generalize mapTypedef mods.length ty ds = as
    induction as with
    | nil => rfl
    | cons a r ih => simp [aliasItems, rustStructsOf, rustStructsOfItem, ih]
  | .const c, k => by simp [genDef, rustStructsOf, rustStructsOfItem, structsOfDef]
theorem rustStructsOf_generate (mods : List String) : ∀ (ds : Defs),
    rustStructsOf mods (generate mods ds) = (structsOf mods ds).map mapStructAt
  | .nil => rfl
  | .cons d r => by
    simp only [generate, structsOf, List.map_append]
    rw [rustStructsOf_genDef mods d, rustStructsOf_generate mods r]
end

/-- The generated item tree mirrors the definition tree: every struct of the specification, at ANY module depth, is generated
    exactly once, in declaration order, inside the modules it was declared in, as `mapStruct <its modules> <its definition>`
    (so the theorems above about `mapStruct` speak about every generated struct). By structural induction over Def / Defs. -/
theorem C41_structure_modules (ds : Defs) :
    rustStructsOf [] (generate [] ds) = (structsOf [] ds).map mapStructAt :=
  rustStructsOf_generate [] ds

/-- … in particular a struct inside modules `A::B` gets the DDS type name `A::B::Name` as its LAST attribute -/
theorem C41_structure_qualified_name (mods : List String) (s : StructDef) (h : mods ≠ []) :
    (mapStruct mods s).attrs.getLast? = some (.name (String.intercalate "::" (mods ++ [s.name]))) := by
  have : mods.isEmpty = false := by cases mods <;> simp_all
  simp [mapStruct, this, qualified]

def exSpec : Defs :=
  .cons (.module "Outer" (.cons (.module "Inner" (.cons (.struct { name := "Leaf", anns := [.ext .appendable], members :=
      [{ anns := [.key], ty := .base .ulonglong, decls := [{ name := "id", dims := [] }] }] }) .nil))
    (.cons (.struct { name := "Mid", anns := [], members := [{ anns := [], ty := .name false ["Inner", "Leaf"], decls := [{ name := "leafs", dims := [2] }] }] }) .nil)))
  (.cons (.struct { name := "Root", anns := [], members := [{ anns := [.optional], ty := .str none, decls := [{ name := "note", dims := [] }] }] }) .nil)

example : (structsOf [] exSpec).map (·.1) = [["Outer", "Inner"], ["Outer"], []] := by decide
example : outcome exSpec = .ok ∧ (types exSpec).map (·.1) = [["Outer", "Inner", "Leaf"], ["Outer", "Mid"], ["Root"]] := by decide

/-! ### the type mapping -/

/-- Every base-type spelling except `wchar` and `octet` is mapped to the Rust primitive that dust_dds uses for its XTypes kind. -/
theorem C41_type_mapping_partial (b : Base) (h1 : b ≠ .wchar) (h2 : b ≠ .octet) : kindPrim (specKind b) = some (mapBase b) := by
  cases b <;> simp_all [specKind, kindPrim, mapBase]

/-- … so two spellings get the same Rust type exactly when they denote the same XTypes type (injective up to the IDL aliases
    `short`/`int16`, `long`/`int32`, …). EXCLUDED: `wchar` (shares `char` with `char`, D-gen-12) and `octet` (shares `u8` with `uint8`, D-gen-13). -/
theorem C41_type_mapping_injective_partial (a b : Base) (ha1 : a ≠ .wchar) (ha2 : a ≠ .octet) (hb1 : b ≠ .wchar) (hb2 : b ≠ .octet) :
    mapBase a = mapBase b ↔ specKind a = specKind b := by
  cases a <;> cases b <;> simp_all [specKind, mapBase]

/-- D-gen-12 / D-gen-13 — `wchar` and `char`, `octet` and `uint8` become the same Rust type although they are different XTypes types -/
theorem C41_type_mapping_counterexample :
    mapBase .wchar = mapBase .char ∧ specKind .wchar ≠ specKind .char ∧
    mapBase .octet = mapBase .uint8 ∧ specKind .octet ≠ specKind .uint8 := by decide

/-- D-gen-10 / D-gen-12 — bounds are not part of the generated type: `string<8>`, `wstring<8>` and `string` are all `String`,
    `sequence<long, 4>` and `sequence<long>` are both `Vec<i32>` -/
theorem C41_bounds_counterexample (depth : Nat) :
    mapType depth (.str (some 8)) = mapType depth (.str none) ∧
    mapType depth (.wstr (some 8)) = mapType depth (.str none) ∧
    mapType depth (.seq (.base .long) (some 4)) = mapType depth (.seq (.base .long) none) := ⟨rfl, rfl, rfl⟩

/-- sequences and scoped names keep their structure: element type mapped recursively; a relative name is written as it is;
    an absolute name `::A::B` below the root is reached through one `super` per enclosing module -/
theorem C41_type_mapping_structure (depth : Nat) (t : TypeSpec) (n : Option Nat) (p : List String) :
    mapType depth (.seq t n) = .vec (mapType depth t) ∧
    mapType depth (.name false p) = .path 0 false p ∧
    (0 < depth → mapType depth (.name true p) = .path depth false p) := by
  refine ⟨rfl, rfl, ?_⟩
  intro h
  have : depth ≠ 0 := by omega
  simp [mapType, this]

/-! ### annotations -/

theorem ann_views : ∀ anns : List MAnn,
    hasKey anns = attrKey (anns.filterMap mannAttr) ∧ hasOptional anns = attrOptional (anns.filterMap mannAttr)
  | [] => ⟨rfl, rfl⟩
  | a :: r => by
    obtain ⟨h1, h2⟩ := ann_views r
    cases a <;> simp [hasKey, hasOptional, List.filterMap_cons, mannAttr, attrKey, attrOptional, h1, h2]

theorem attrId_none : ∀ anns : List MAnn, idCount anns = 0 → attrId (anns.filterMap mannAttr) = none
  | [], _ => rfl
  | a :: r, h => by
    cases a <;> simp [idCount, List.filterMap_cons, mannAttr, attrId] at h ⊢ <;> exact attrId_none r h

theorem attrId_first : ∀ anns : List MAnn, idCount anns ≤ 1 → attrId (anns.filterMap mannAttr) = firstId anns
  | [], _ => rfl
  | a :: r, h => by
    cases a with
    | id n =>
      have hr : idCount r = 0 := by simp [idCount] at h; omega
      simp [List.filterMap_cons, mannAttr, attrId, firstId, attrId_none r hr]
    | key => simpa [idCount, List.filterMap_cons, mannAttr, attrId, firstId] using attrId_first r (by simpa [idCount] using h)
    | optional => simpa [idCount, List.filterMap_cons, mannAttr, attrId, firstId] using attrId_first r (by simpa [idCount] using h)
    | other x => simpa [idCount, List.filterMap_cons, mannAttr, attrId, firstId] using attrId_first r (by simpa [idCount] using h)

theorem mapDecls_attrs (depth : Nat) (ty : TypeSpec) (isOpt : Bool) (attrs : List FAttr) : ∀ ds : List Declr,
    (mapDecls depth ty isOpt attrs ds).map fieldAttr =
      ds.map (fun d => ({ name := d.name, key := attrKey attrs, id := attrId attrs, optional := attrOptional attrs,
                          nonSerialized := false, hashid := false } : FieldAttr))
  | [] => rfl
  | d :: r => by simp [mapDecls, fieldAttr, mapDecls_attrs depth ty isOpt attrs r]

/-- REPAIRED (fixes/D-gen-14.patch + fixes/D-gen-15.patch) — FULL statement: the key / id / optional annotations of a member
    reach the derive macro for EVERY declarator of the member, whatever their number and order (only IDL's own rule is
    assumed: at most one @id per member). -/
theorem C41_annotations (depth : Nat) (m : Member) (h1 : idCount m.anns ≤ 1) :
    (mapMember depth m).map fieldAttr = m.decls.map (declaredAttr m) := by
  obtain ⟨v1, v2⟩ := ann_views m.anns
  simp only [mapMember, mapDecls_attrs, ← v1, ← v2, attrId_first m.anns h1]
  rfl

example : idCount [MAnn.key, .other "external", .id 7, .optional] ≤ 1 := by decide

example : (mapMember 0 { anns := [.id 9, .key], ty := .base .long, decls := [{ name := "k1", dims := [] }, { name := "k2", dims := [] }] }).map fieldAttr
    = [{ name := "k1", key := true, id := some 9, optional := false, nonSerialized := false, hashid := false },
       { name := "k2", key := true, id := some 9, optional := false, nonSerialized := false, hashid := false }] := by decide

/-- regression witness D-gen-14 — AS IT WAS, `@key @id(5) long a;` produced `#[dust_dds(key)] #[dust_dds(id = 5)]` and the derive read
    only the first attribute: the id was lost; with `@id(9) @key` the KEY was lost.
    regression witness D-gen-15 — `@key long k1, k2;`: the attribute was written before `k1` only. -/
theorem C41_annotations_old_counterexample :
    (mapDeclsOld 0 (.base .long) false [.key, .id 5] [{ name := "a", dims := [] }]).map fieldAttrOld
      = [{ name := "a", key := true, id := none, optional := false, nonSerialized := false, hashid := false }] ∧
    (mapDeclsOld 0 (.base .long) false [.id 9, .key] [{ name := "b", dims := [] }]).map fieldAttrOld
      = [{ name := "b", key := false, id := some 9, optional := false, nonSerialized := false, hashid := false }] ∧
    ((mapDeclsOld 0 (.base .long) false [.key] [{ name := "k1", dims := [] }, { name := "k2", dims := [] }]).map fieldAttrOld).map (·.key)
      = [true, false] := by decide

theorem sannExt_eq (a : SAnn) : sannExt a = (annDeclaresExt a).map SAttr.ext := by
  cases a with
  | ext e => rfl
  | other n =>
    simp only [sannExt, annDeclaresExt]
    split <;> simp_all

theorem lastName_exts (t : List SAttr) : ∀ anns : List SAnn, lastName (anns.filterMap sannExt ++ t) = lastName t
  | [] => rfl
  | a :: r => by
    rw [List.filterMap_cons, sannExt_eq]
    cases annDeclaresExt a <;> simp [lastName, lastName_exts t r]

theorem lastExt_none (t : List SAttr) (ht : lastExt t = none) : ∀ anns : List SAnn, extCount anns = 0 →
    lastExt (anns.filterMap sannExt ++ t) = none
  | [], _ => by simpa using ht
  | a :: r, h => by
    rw [List.filterMap_cons, sannExt_eq]
    cases hd : annDeclaresExt a with
    | none => simp [extCount, hd] at h; simpa using lastExt_none t ht r h
    | some e => simp [extCount, hd] at h

theorem lastExt_declared (t : List SAttr) (ht : lastExt t = none) : ∀ anns : List SAnn, extCount anns ≤ 1 →
    (lastExt (anns.filterMap sannExt ++ t)).getD .final = declaredExt anns
  | [], _ => by simp [ht, declaredExt]
  | a :: r, h => by
    rw [List.filterMap_cons, sannExt_eq]
    cases hd : annDeclaresExt a with
    | none =>
      simp [extCount, hd] at h
      simpa [declaredExt, hd] using lastExt_declared t ht r h
    | some e =>
      have hr : extCount r = 0 := by simp [extCount, hd] at h; omega
      simp [declaredExt, hd, lastExt, lastExt_none t ht r hr]

/-- REPAIRED (fixes/D-gen-14.patch, fixes/D-gen-16.patch) — FULL statement: for EVERY struct, the derive macro sees the qualified DDS
    type name whenever the struct is inside modules, and the declared extensibility — shortcut or `@extensibility(..)` spelling —
    (only IDL's own rule is assumed: at most one extensibility annotation). -/
theorem C41_struct_header (mods : List String) (s : StructDef) :
    (structHdr (mapStruct mods s)).rename = (if mods.isEmpty then none else some (qualified mods s.name)) ∧
    (extCount s.anns ≤ 1 → (structHdr (mapStruct mods s)).ext = declaredExt s.anns) := by
  refine ⟨?_, ?_⟩
  · simp only [structHdr, mapStruct, lastName_exts]
    cases mods.isEmpty <;> simp [lastName]
  · intro h
    simp only [structHdr, mapStruct]
    apply lastExt_declared _ _ s.anns h
    cases mods.isEmpty <;> simp [lastExt]

example : extCount [SAnn.other "topic", .ext .mutable, .other "nested"] ≤ 1 := by decide
example : (structHdr (mapStruct ["Mo"] { name := "Attrs", anns := [.other "extensibility:APPENDABLE"], members := [] })).ext = .appendable ∧
    (structHdr (mapStruct ["Mo"] { name := "Attrs", anns := [.ext .mutable], members := [] })).rename = some "Mo::Attrs" := by decide

/-- regression witness D-gen-14 — AS IT WAS, `module Mo { @mutable struct Attrs {..}; };` lost the DDS type name `Mo::Attrs` (the
    name attribute comes second); regression witness D-gen-16 — `@extensibility(MUTABLE)` was not recognised at all -/
theorem C41_struct_header_old_counterexample :
    (structHdrOld (mapStruct ["Mo"] { name := "Attrs", anns := [.ext .mutable], members := [] })).rename = none ∧
    (mapStruct ["Mo"] { name := "Attrs", anns := [.ext .mutable], members := [] }).attrs = [.ext .mutable, .name "Mo::Attrs"] ∧
    sannExtOld (.other "extensibility:MUTABLE") = none := by decide

/-! ### composition with C40: the published description -/

theorem elabFields_attrs (cur : List String) (env : Env) : ∀ (fs : List RustField) (out : Fields),
    elabFields cur env fs = some out → out.attrs = fs.map fieldAttr
  | [], out, h => by simp [elabFields] at h; subst h; rfl
  | f :: r, out, h => by
    simp only [elabFields] at h
    cases h1 : resolve cur env f.ty <;> simp [h1] at h
    cases h2 : elabFields cur env r <;> simp [h2] at h
    subst h
    simp [Fields.attrs, elabFields_attrs cur env r _ h2]

/-- When the generated struct compiles, the `DynamicType` it publishes (C40's `describe`) is a STRUCTURE whose members carry the
    declared member names in declaration order — for every struct, every module path and every environment. -/
theorem C41_describe_names (cur : List String) (env : Env) (mods : List String) (s : StructDef) (t : Ty)
    (h : elabStruct cur env (mapStruct mods s) = some t) :
    (describe t).kind = .structure ∧
    (describe t).infos.map (·.name) = (declaredFields mods.length s.members).map (·.1) := by
  simp only [elabStruct] at h
  cases hf : elabFields cur env (mapStruct mods s).fields with
  | none => simp [hf] at h
  | some fs =>
    simp only [hf] at h
    split at h
    · cases h
      have hattrs := elabFields_attrs cur env _ fs hf
      obtain ⟨hk, _, _, _, hlen, hget⟩ := C40_describe_faithful (structHdr (mapStruct mods s)) fs
      refine ⟨hk, ?_⟩
      rw [← (C41_structure_names mods s).2]
      apply List.ext_getElem?
      intro i
      simp only [List.getElem?_map]
      cases ha : fs.attrs[i]? with
      | none =>
        have h1 : (describe (Ty.struct (structHdr (mapStruct mods s)) fs)).infos[i]? = none := by
          rw [List.getElem?_eq_none_iff] at ha ⊢; omega
        have h2 : (mapStruct mods s).fields[i]? = none := by
          rw [hattrs] at ha
          simpa using ha
        simp [h1, h2]
      | some a =>
        obtain ⟨m, hm, hn, _⟩ := hget i a ha
        rw [hattrs, List.getElem?_map] at ha
        cases hfi : (mapStruct mods s).fields[i]? with
        | none => simp [hfi] at ha
        | some f =>
          simp [hfi] at ha
          subst ha
          rw [hm]
          simp [hn, structHdr, fieldAttr]
    · cases h

/-- … with the declared key / optional / must-understand flags (one member, one declarator shown; any annotations) -/
theorem C41_describe_flags (cur : List String) (env : Env) (depth : Nat) (m : Member) (d : Declr) (hdr : StructHdr)
    (hd : m.decls = [d]) (h1 : idCount m.anns ≤ 1) (fs : Fields)
    (h : elabFields cur env (mapMember depth m) = some fs) :
    ∃ i, (describe (.struct hdr fs)).infos = [i] ∧ i.key = hasKey m.anns ∧ i.optional = hasOptional m.anns ∧
      i.mustUnderstand = hasKey m.anns := by
  have hattrs := elabFields_attrs cur env _ fs h
  rw [C41_annotations depth m h1, hd] at hattrs
  obtain ⟨_, _, _, _, hlen, hget⟩ := C40_describe_faithful hdr fs
  obtain ⟨i, hi, _, _, hk, ho, hmu, _⟩ := hget 0 (declaredAttr m d) (by simp [hattrs])
  refine ⟨i, ?_, by simp [hk, declaredAttr], by simp [ho, declaredAttr], by simp [hmu, declaredAttr]⟩
  rw [hattrs] at hlen
  match hl : (describe (.struct hdr fs)).infos with
  | [] => simp [hl] at hlen
  | [x] => simp [hl] at hi; simp [hi]
  | _ :: _ :: _ => simp [hl] at hlen

/-! ### accept / reject (as-is witnesses; each replayed on the real compiler) -/

/-- D-gen-22 — an annotation on a union is a syntax error (the grammar's `union_def` has no `annotation_appl`) -/
theorem C41_union_annotation_counterexample :
    outcome (.cons (.union { name := "AnnUn", anns := ["mutable"], disc := Base.long, cases := [{ labels := [.int 1], ty := .base .long, decl := { name := "x", dims := [] } }] }) .nil) = .err := by decide

/-- D-gen-23 — `typedef long Arr3[3];` reaches `Rule::array_declarator => todo!()` -/
theorem C41_typedef_array_counterexample :
    outcome (.cons (.typedef (.base .long) [{ name := "Arr3", dims := [3] }]) .nil) = .panic := by decide

/-- D-gen-24 (open) — `@bit_bound(8) enum Small { A, B };` is written as `#[dust_dds(bit_bound( 8))]`, which the derive rejects:
    EVERY enum with @bit_bound fails to compile -/
theorem C41_bit_bound_counterexample :
    outcome (.cons (.enum { name := "Small", bitBound := some 8, enumerators := [("A", none), ("B", none)] }) .nil) = .rustc ∧
    ∀ (e : RustEnum) (n : Nat), e.bitBoundAttr = some n → elabEnum e = none := by
  refine ⟨by decide, ?_⟩
  intro e n h
  simp [elabEnum, h]

/-- what holds as it is: an enum WITHOUT @bit_bound is understood by the derive as an enumeration held in an INT32, with the
    declared enumerators and @value discriminants, under its (qualified) name -/
theorem C41_bit_bound_partial (mods : List String) (d : EnumDef) (hb : d.bitBound = none) (t : Ty)
    (h : elabEnum (mapEnum mods d) = some t) :
    t = .enum { ident := d.name, rename := (if mods.isEmpty then none else some (qualified mods d.name)), nested := false,
                bits := 32, variants := d.enumerators, dflt := 0 } ∧
    (describe t).kind = .enum := by
  simp only [elabEnum, mapEnum, hb] at h
  generalize hr : (if mods.isEmpty = true then none else some (qualified mods d.name)) = rn at h ⊢
  by_cases hsup : supported (Ty.enum { ident := d.name, rename := rn, nested := false, bits := 32, variants := d.enumerators, dflt := 0 }) = true
  · simp only [hsup, if_true, Option.some.injEq] at h
    subst h; exact ⟨rfl, rfl⟩
  · simp [hsup] at h

example : elabEnum (mapEnum ["M"] { name := "Colors", bitBound := none, enumerators := [("RED", none), ("GREEN", some 5)] }) ≠ none := by decide

/-- the raised statement, about the REPAIRED variant `elabEnumFixed` (fixes/D-gen-24.patch or the test-neutral fixes/D-gen-24b.patch):
    @bit_bound(8|16|32) compiles and selects the holder type -/
theorem C41_bit_bound_fixed (e : RustEnum) (n : Nat) (hn : e.bitBoundAttr = some n) (t : Ty) (h : elabEnumFixed e = some t) :
    (n = 8 ∨ n = 16 ∨ n = 32) ∧
    t = .enum { ident := e.name, rename := e.nameAttr, nested := false, bits := n, variants := e.variants, dflt := 0 } := by
  simp only [elabEnumFixed, hn, Option.getD_some] at h
  split at h
  · rename_i hb
    split at h
    · cases h
      simp only [Bool.or_eq_true, beq_iff_eq] at hb
      exact ⟨by rcases hb with (h1 | h2) | h3 <;> simp_all, rfl⟩
    · cases h
  · cases h

example : elabEnumFixed { name := "Small", nameAttr := none, bitBoundAttr := some 8, variants := [("A", none), ("B", none)] } ≠ none := by decide

/-- D-gen-28 (open) — `const boolean Flag = TRUE;` is copied as `pub const Flag:bool=TRUE;`, which is not Rust: a specification
    with a boolean constant does not compile -/
theorem C41_boolean_constant_counterexample :
    outcome (.cons (.const { name := "Flag", ty := .base .boolean, text := "TRUE" })
      (.cons (.struct { name := "S", anns := [], members := [{ anns := [], ty := .base .long, decls := [{ name := "a", dims := [] }] }] }) .nil)) = .rustc ∧
    constCompiles (constTy 0 (.base .boolean)) = false := by decide

/-- what holds as it is: constants of every other base type and string constants are accepted;
    and, about the REPAIRED variant (fixes/D-gen-28.patch), boolean constants too -/
theorem C41_constant_partial (depth : Nat) (b : Base) (hb : b ≠ .boolean) :
    constCompiles (constTy depth (.base b)) = true ∧ constCompiles (constTy depth (.str none)) = true ∧
    constCompilesFixed (constTy depth (.base .boolean)) = true := by
  cases b <;> simp_all [constCompiles, constCompilesFixed, constTy, mapType, mapBase]

/-- D-gen-29 — `sequence<string<8>> names;`: `8>>` is read as a shift expression -/
theorem C41_shift_counterexample :
    outcome (.cons (.struct { name := "Shift", anns := [], members :=
      [{ anns := [], ty := .seq (.str (some 8)) none, decls := [{ name := "names", dims := [] }] }] }) .nil) = .err := by decide

end DustVerif.Idl
