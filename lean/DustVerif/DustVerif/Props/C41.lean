import DustVerif.Model.Idl
import DustVerif.Props.C40
/-! Property C41: the Rust produced by the IDL compiler has the structure the IDL declares.

    For ALL specifications of the modelled subset (`Model/Idl.lean`):
    * `C41_structure_modules`       every struct of the specification — at any module depth — is generated exactly once, at
                                    the same module path, as `mapStruct` of its definition (structural induction over Def/Defs);
    * `C41_structure_names`         one field per declarator, in declaration order, with the declared name;
    * `C41_structure_partial`       … and the field type is the image of the declared type (arrays, `Option` for @optional)
                                    when no declarator has more than one dimension;
    * `C41_type_mapping_partial`, `C41_type_mapping_injective_partial`   base types: the Rust type is the one of the XTypes kind
                                    (all spellings except `wchar`, `octet`);
    * `C41_annotations_partial`     key / id / optional reach the derive macro for a member with one declarator and at most one
                                    of these annotations; `C41_struct_header_partial` likewise for extensibility / qualified name;
    * `C41_describe_names`          composition with C40: the published description of the generated struct lists the declared
                                    member names in order; `C41_describe_flags_partial` the flags.

    FALSE for the code as it is (Lean witness, replayed on the real compiler in vlib/gen_idl.py `corpus`, known finding):
      multi-dimensional arrays (D-gen-11), bounds dropped (D-gen-10), wchar / wstring (D-gen-12), octet (D-gen-13), only the first
      #[dust_dds] attribute is read (D-gen-14), annotations reach only the first declarator (D-gen-15), annotated unions are a
      syntax error (D-gen-22), typedef arrays panic (D-gen-23), @bit_bound spelling (D-gen-24), `>>` (D-gen-29). -/
namespace DustVerif.Idl
open DustVerif.Derive

/-! ### structure: names, order, types -/

theorem mapDecls_names (depth : Nat) (ty : TypeSpec) (isOpt : Bool) : ∀ (attrs : List FAttr) (ds : List Declr),
    (mapDecls depth ty isOpt attrs ds).map (·.name) = ds.map (·.name)
  | _, [] => rfl
  | attrs, d :: r => by simp [mapDecls, mapDecls_names depth ty isOpt [] r]

theorem declaredOfMember_names (depth : Nat) (m : Member) : ∀ ds : List Declr,
    (declaredOfMember depth m ds).map (·.1) = ds.map (·.name)
  | [] => rfl
  | d :: r => by simp [declaredOfMember, declaredOfMember_names depth m r]

theorem mapMembers_names (depth : Nat) : ∀ ms : List Member,
    (mapMembers depth ms).map (·.name) = (declaredFields depth ms).map (·.1)
  | [] => rfl
  | m :: r => by
    simp only [mapMembers, declaredFields, List.map_append, mapMembers_names depth r, mapMember, mapDecls_names,
      declaredOfMember_names]

/-- The generated struct has one field per declarator of the IDL struct, in declaration order, under the declared name —
    for EVERY struct definition. -/
theorem C41_structure_names (mods : List String) (s : StructDef) :
    (mapStruct mods s).name = s.name ∧
    (mapStruct mods s).fields.map (·.name) = (declaredFields mods.length s.members).map (·.1) :=
  ⟨rfl, mapMembers_names mods.length s.members⟩

theorem wrapArray_eq_image (t : RustTy) : ∀ dims : List Nat, dims.length ≤ 1 → wrapArray t dims = arrayImage t dims
  | [], _ => rfl
  | [n], _ => rfl
  | _ :: _ :: _, h => by simp at h

def pairOf (f : RustField) : String × RustTy := (f.name, f.ty)

theorem mapDecls_pairs (depth : Nat) (m : Member) : ∀ (attrs : List FAttr) (ds : List Declr),
    (∀ d ∈ ds, d.dims.length ≤ 1) →
    (mapDecls depth m.ty (hasOptional m.anns) attrs ds).map pairOf = declaredOfMember depth m ds
  | _, [], _ => rfl
  | attrs, d :: r, h => by
    have h1 : d.dims.length ≤ 1 := h d (by simp)
    have h2 : ∀ d' ∈ r, d'.dims.length ≤ 1 := fun d' hd => h d' (by simp [hd])
    simp only [mapDecls, List.map_cons, declaredOfMember, pairOf, fieldImage, wrapArray_eq_image _ _ h1]
    rw [← mapDecls_pairs depth m [] r h2]

theorem mapMembers_pairs (depth : Nat) : ∀ ms : List Member, (∀ m ∈ ms, ∀ d ∈ m.decls, d.dims.length ≤ 1) →
    (mapMembers depth ms).map pairOf = declaredFields depth ms
  | [], _ => rfl
  | m :: r, h => by
    have hm : ∀ d ∈ m.decls, d.dims.length ≤ 1 := h m (by simp)
    have hr : ∀ m' ∈ r, ∀ d ∈ m'.decls, d.dims.length ≤ 1 := fun m' hm' => h m' (by simp [hm'])
    simp only [mapMembers, declaredFields, List.map_append, mapMembers_pairs depth r hr, mapMember,
      mapDecls_pairs depth m _ _ hm]

/-- … and every field has the Rust type that is the image of the declared type: the mapped element type, one array level per
    dimension, `Option<..>` for @optional — provided no declarator has more than one dimension.
    EXCLUDED: multi-dimensional arrays (`C41_structure_counterexample`, D-gen-11). -/
theorem C41_structure_partial (mods : List String) (s : StructDef)
    (h : ∀ m ∈ s.members, ∀ d ∈ m.decls, d.dims.length ≤ 1) :
    (mapStruct mods s).fields.map pairOf = declaredFields mods.length s.members :=
  mapMembers_pairs mods.length s.members h

example : ∀ m ∈ [({ anns := [.key], ty := .base .long, decls := [{ name := "a", dims := [3] }, { name := "b", dims := [] }] } : Member)],
    ∀ d ∈ m.decls, d.dims.length ≤ 1 := by decide

/-- D-gen-11 — `long m[2][3]` becomes `[i32; 2]`: only the first dimension is used (rust.rs:703-707) -/
theorem C41_structure_counterexample :
    (mapStruct [] { name := "Matrix", anns := [], members := [{ anns := [], ty := .base .long, decls := [{ name := "m", dims := [2, 3] }] }] }).fields.map (·.ty)
      = [.arr (.prim .i32) 2] ∧
    (declaredFields 0 [{ anns := [], ty := .base .long, decls := [{ name := "m", dims := [2, 3] }] }]).map (·.2)
      = [.arr (.arr (.prim .i32) 3) 2] := by decide

/-! ### structure: the module tree -/

mutual
theorem rustStructsOf_genDef (mods : List String) : ∀ (d : Def) (k : RustItems),
    rustStructsOf mods (genDef mods d k) = (structsOfDef mods d).map mapStructAt ++ rustStructsOf mods k
  | .module n ds, k => by
    simp only [genDef, rustStructsOf, rustStructsOfItem, structsOfDef]
    rw [rustStructsOf_generate (mods ++ [n]) ds]
  | .struct s, k => by simp [genDef, rustStructsOf, rustStructsOfItem, structsOfDef, mapStructAt]
  | .enum e, k => by simp [genDef, rustStructsOf, rustStructsOfItem, structsOfDef]
  | .union u, k => by simp [genDef, rustStructsOf, rustStructsOfItem, structsOfDef]
  | .typedef ty ds, k => by
    simp only [genDef, structsOfDef, List.map_nil, List.nil_append]
    generalize mapTypedef mods.length ty ds = as
    induction as with
    | nil => rfl
    | cons a r ih => simp [aliasItems, rustStructsOf, rustStructsOfItem, ih]
  | .const c, k => by simp [genDef, rustStructsOf, rustStructsOfItem, structsOfDef]
theorem rustStructsOf_generate (mods : List String) : ∀ (ds : Defs),
    rustStructsOf mods (generate mods ds) = (structsOf mods ds).map mapStructAt
  | .nil => rfl
  | .cons d r => by
    simp only [generate, structsOf, List.map_append]
    rw [rustStructsOf_genDef mods d, rustStructsOf_generate mods r]
end

/-- The generated item tree mirrors the definition tree: every struct of the specification, at ANY module depth, is generated
    exactly once, in declaration order, inside the modules it was declared in, as `mapStruct <its modules> <its definition>`
    (so the theorems above about `mapStruct` speak about every generated struct). By structural induction over Def / Defs. -/
theorem C41_structure_modules (ds : Defs) :
    rustStructsOf [] (generate [] ds) = (structsOf [] ds).map mapStructAt :=
  rustStructsOf_generate [] ds

/-- … in particular a struct inside modules `A::B` gets the DDS type name `A::B::Name` as its LAST attribute -/
theorem C41_structure_qualified_name (mods : List String) (s : StructDef) (h : mods ≠ []) :
    (mapStruct mods s).attrs.getLast? = some (.name (String.intercalate "::" (mods ++ [s.name]))) := by
  have : mods.isEmpty = false := by cases mods <;> simp_all
  simp [mapStruct, this, qualified]

def exSpec : Defs :=
  .cons (.module "Outer" (.cons (.module "Inner" (.cons (.struct { name := "Leaf", anns := [.ext .appendable], members :=
      [{ anns := [.key], ty := .base .ulonglong, decls := [{ name := "id", dims := [] }] }] }) .nil))
    (.cons (.struct { name := "Mid", anns := [], members := [{ anns := [], ty := .name false ["Inner", "Leaf"], decls := [{ name := "leafs", dims := [2] }] }] }) .nil)))
  (.cons (.struct { name := "Root", anns := [], members := [{ anns := [.optional], ty := .str none, decls := [{ name := "note", dims := [] }] }] }) .nil)

example : (structsOf [] exSpec).map (·.1) = [["Outer", "Inner"], ["Outer"], []] := by decide
example : outcome exSpec = .ok ∧ (types exSpec).map (·.1) = [["Outer", "Inner", "Leaf"], ["Outer", "Mid"], ["Root"]] := by decide

/-! ### the type mapping -/

/-- Every base-type spelling except `wchar` and `octet` is mapped to the Rust primitive that dust_dds uses for its XTypes kind. -/
theorem C41_type_mapping_partial (b : Base) (h1 : b ≠ .wchar) (h2 : b ≠ .octet) : kindPrim (specKind b) = some (mapBase b) := by
  cases b <;> simp_all [specKind, kindPrim, mapBase]

/-- … so two spellings get the same Rust type exactly when they denote the same XTypes type (injective up to the IDL aliases
    `short`/`int16`, `long`/`int32`, …). EXCLUDED: `wchar` (shares `char` with `char`, D-gen-12) and `octet` (shares `u8` with `uint8`, D-gen-13). -/
theorem C41_type_mapping_injective_partial (a b : Base) (ha1 : a ≠ .wchar) (ha2 : a ≠ .octet) (hb1 : b ≠ .wchar) (hb2 : b ≠ .octet) :
    mapBase a = mapBase b ↔ specKind a = specKind b := by
  cases a <;> cases b <;> simp_all [specKind, mapBase]

/-- D-gen-12 / D-gen-13 — `wchar` and `char`, `octet` and `uint8` become the same Rust type although they are different XTypes types -/
theorem C41_type_mapping_counterexample :
    mapBase .wchar = mapBase .char ∧ specKind .wchar ≠ specKind .char ∧
    mapBase .octet = mapBase .uint8 ∧ specKind .octet ≠ specKind .uint8 := by decide

/-- D-gen-10 / D-gen-12 — bounds are not part of the generated type: `string<8>`, `wstring<8>` and `string` are all `String`,
    `sequence<long, 4>` and `sequence<long>` are both `Vec<i32>` -/
theorem C41_bounds_counterexample (depth : Nat) :
    mapType depth (.str (some 8)) = mapType depth (.str none) ∧
    mapType depth (.wstr (some 8)) = mapType depth (.str none) ∧
    mapType depth (.seq (.base .long) (some 4)) = mapType depth (.seq (.base .long) none) := ⟨rfl, rfl, rfl⟩

/-- sequences and scoped names keep their structure: element type mapped recursively; a relative name is written as it is;
    an absolute name `::A::B` below the root is reached through one `super` per enclosing module -/
theorem C41_type_mapping_structure (depth : Nat) (t : TypeSpec) (n : Option Nat) (p : List String) :
    mapType depth (.seq t n) = .vec (mapType depth t) ∧
    mapType depth (.name false p) = .path 0 false p ∧
    (0 < depth → mapType depth (.name true p) = .path depth false p) := by
  refine ⟨rfl, rfl, ?_⟩
  intro h
  have : depth ≠ 0 := by omega
  simp [mapType, this]

/-! ### annotations -/

def fKey : List FAttr → Bool
  | [] => false
  | .key :: _ => true
  | _ :: r => fKey r
def fOptional : List FAttr → Bool
  | [] => false
  | .optional :: _ => true
  | _ :: r => fOptional r
def fId : List FAttr → Option Nat
  | [] => none
  | .id n :: _ => some n
  | _ :: r => fId r

theorem ann_views : ∀ anns : List MAnn,
    hasKey anns = fKey (anns.filterMap mannAttr) ∧ hasOptional anns = fOptional (anns.filterMap mannAttr) ∧
    firstId anns = fId (anns.filterMap mannAttr)
  | [] => ⟨rfl, rfl, rfl⟩
  | a :: r => by
    obtain ⟨h1, h2, h3⟩ := ann_views r
    cases a <;> simp [hasKey, hasOptional, firstId, List.filterMap_cons, mannAttr, fKey, fOptional, fId, h1, h2, h3]

/-- key / id / optional of a member reach the derive macro — for a member with ONE declarator that carries AT MOST ONE of these
    annotations (others, like @external, do not count). EXCLUDED: two or more of them on one member (only the first
    `#[dust_dds(..)]` attribute is parsed, D-gen-14) and further declarators (the attributes are written before the first one only, D-gen-15). -/
theorem C41_annotations_partial (depth : Nat) (m : Member) (d : Declr) (hd : m.decls = [d])
    (h1 : (m.anns.filterMap mannAttr).length ≤ 1) :
    (mapMember depth m).map fieldAttr = [declaredAttr m d] := by
  obtain ⟨v1, v2, v3⟩ := ann_views m.anns
  simp only [mapMember, hd, mapDecls, List.map_cons, List.map_nil, fieldAttr, declaredAttr, v1, v2, v3]
  generalize List.filterMap mannAttr m.anns = as at h1
  match as, h1 with
  | [], _ => simp [fKey, fOptional, fId]
  | [x], _ => cases x <;> simp [fKey, fOptional, fId]
  | _ :: _ :: _, h => simp at h

example : (({ anns := [.other "external", .id 7], ty := .base .long, decls := [{ name := "a", dims := [] }] } : Member).anns.filterMap mannAttr).length ≤ 1 := by decide

/-- D-gen-14 — `@key @id(5) long a;`: two attributes `#[dust_dds(key)] #[dust_dds(id = 5)]` are generated and the derive reads
    only the first: the id is lost; with `@id(9) @key` the KEY is lost.
    D-gen-15 — `@key long k1, k2;`: the attribute is written before `k1` only. -/
theorem C41_annotations_counterexample :
    (mapMember 0 { anns := [.key, .id 5], ty := .base .long, decls := [{ name := "a", dims := [] }] }).map fieldAttr
      = [{ name := "a", key := true, id := none, optional := false, nonSerialized := false, hashid := false }] ∧
    (mapMember 0 { anns := [.id 9, .key], ty := .base .long, decls := [{ name := "b", dims := [] }] }).map fieldAttr
      = [{ name := "b", key := false, id := some 9, optional := false, nonSerialized := false, hashid := false }] ∧
    ((mapMember 0 { anns := [.key], ty := .base .long, decls := [{ name := "k1", dims := [] }, { name := "k2", dims := [] }] }).map fieldAttr).map (·.key)
      = [true, false] := by decide

/-- Extensibility and qualified type name reach the derive macro when the struct carries no extensibility shortcut (then: `final`
    and, inside modules, the `::`-qualified name) or is declared at the root with exactly one shortcut.
    EXCLUDED: a shortcut on a struct inside a module (`C41_struct_header_counterexample`, D-gen-14: the name attribute comes second). -/
theorem C41_struct_header_partial (mods : List String) (s : StructDef) :
    (s.anns.filterMap sannExt = [] →
      (structHdr (mapStruct mods s)).ext = .final ∧
      (structHdr (mapStruct mods s)).rename = (if mods.isEmpty then none else some (qualified mods s.name))) ∧
    (∀ e, mods = [] → s.anns.filterMap sannExt = [.ext e] →
      (structHdr (mapStruct mods s)).ext = e ∧ (structHdr (mapStruct mods s)).rename = none) := by
  refine ⟨?_, ?_⟩
  · intro h
    cases hm : mods.isEmpty <;> simp [structHdr, mapStruct, h, hm]
  · intro e hm h
    subst hm
    simp [structHdr, mapStruct, h]

/-- D-gen-14 — `module Mo { @mutable struct Attrs {..}; };`: the DDS type name `Mo::Attrs` is lost -/
theorem C41_struct_header_counterexample :
    (structHdr (mapStruct ["Mo"] { name := "Attrs", anns := [.ext .mutable], members := [] })).rename = none ∧
    (mapStruct ["Mo"] { name := "Attrs", anns := [.ext .mutable], members := [] }).attrs = [.ext .mutable, .name "Mo::Attrs"] := by decide

/-! ### composition with C40: the published description -/

theorem elabFields_attrs (cur : List String) (env : Env) : ∀ (fs : List RustField) (out : Fields),
    elabFields cur env fs = some out → out.attrs = fs.map fieldAttr
  | [], out, h => by simp [elabFields] at h; subst h; rfl
  | f :: r, out, h => by
    simp only [elabFields] at h
    cases h1 : resolve cur env f.ty <;> simp [h1] at h
    cases h2 : elabFields cur env r <;> simp [h2] at h
    subst h
    simp [Fields.attrs, elabFields_attrs cur env r _ h2]

/-- When the generated struct compiles, the `DynamicType` it publishes (C40's `describe`) is a STRUCTURE whose members carry the
    declared member names in declaration order — for every struct, every module path and every environment. -/
theorem C41_describe_names (cur : List String) (env : Env) (mods : List String) (s : StructDef) (t : Ty)
    (h : elabStruct cur env (mapStruct mods s) = some t) :
    (describe t).kind = .structure ∧
    (describe t).infos.map (·.name) = (declaredFields mods.length s.members).map (·.1) := by
  simp only [elabStruct] at h
  cases hf : elabFields cur env (mapStruct mods s).fields with
  | none => simp [hf] at h
  | some fs =>
    simp only [hf] at h
    split at h
    · cases h
      have hattrs := elabFields_attrs cur env _ fs hf
      obtain ⟨hk, _, _, _, hlen, hget⟩ := C40_describe_faithful (structHdr (mapStruct mods s)) fs
      refine ⟨hk, ?_⟩
      rw [← (C41_structure_names mods s).2]
      apply List.ext_getElem?
      intro i
      simp only [List.getElem?_map]
      cases ha : fs.attrs[i]? with
      | none =>
        have h1 : (describe (Ty.struct (structHdr (mapStruct mods s)) fs)).infos[i]? = none := by
          rw [List.getElem?_eq_none_iff] at ha ⊢; omega
        have h2 : (mapStruct mods s).fields[i]? = none := by
          rw [hattrs] at ha
          simpa using ha
        simp [h1, h2]
      | some a =>
        obtain ⟨m, hm, hn, _⟩ := hget i a ha
        rw [hattrs, List.getElem?_map] at ha
        cases hfi : (mapStruct mods s).fields[i]? with
        | none => simp [hfi] at ha
        | some f =>
          simp [hfi] at ha
          subst ha
          rw [hm]
          simp [hn, structHdr, fieldAttr]
    · cases h

/-- … with the declared key / optional flags when every member has one declarator and at most one of @key / @id / @optional -/
theorem C41_describe_flags_partial (cur : List String) (env : Env) (depth : Nat) (m : Member) (d : Declr) (hdr : StructHdr)
    (hd : m.decls = [d]) (h1 : (m.anns.filterMap mannAttr).length ≤ 1) (fs : Fields)
    (h : elabFields cur env (mapMember depth m) = some fs) :
    ∃ i, (describe (.struct hdr fs)).infos = [i] ∧ i.key = hasKey m.anns ∧ i.optional = hasOptional m.anns ∧
      i.mustUnderstand = hasKey m.anns := by
  have hattrs := elabFields_attrs cur env _ fs h
  rw [C41_annotations_partial depth m d hd h1] at hattrs
  obtain ⟨_, _, _, _, hlen, hget⟩ := C40_describe_faithful hdr fs
  obtain ⟨i, hi, _, _, hk, ho, hmu, _⟩ := hget 0 (declaredAttr m d) (by simp [hattrs])
  refine ⟨i, ?_, by simp [hk, declaredAttr], by simp [ho, declaredAttr], by simp [hmu, declaredAttr]⟩
  rw [hattrs] at hlen
  match hl : (describe (.struct hdr fs)).infos with
  | [] => simp [hl] at hlen
  | [x] => simp [hl] at hi; simp [hi]
  | _ :: _ :: _ => simp [hl] at hlen

/-! ### accept / reject (as-is witnesses; each replayed on the real compiler) -/

/-- D-gen-22 — an annotation on a union is a syntax error (the grammar's `union_def` has no `annotation_appl`) -/
theorem C41_union_annotation_counterexample :
    outcome (.cons (.union { name := "AnnUn", anns := ["mutable"], disc := Base.long, cases := [{ labels := [.int 1], ty := .base .long, decl := { name := "x", dims := [] } }] }) .nil) = .err := by decide

/-- D-gen-23 — `typedef long Arr3[3];` reaches `Rule::array_declarator => todo!()` -/
theorem C41_typedef_array_counterexample :
    outcome (.cons (.typedef (.base .long) [{ name := "Arr3", dims := [3] }]) .nil) = .panic := by decide

/-- D-gen-24 — `@bit_bound(8) enum Small { A, B };` is written as `#[dust_dds(bit_bound( 8))]`, which the derive rejects -/
theorem C41_bit_bound_counterexample :
    outcome (.cons (.enum { name := "Small", bitBound := some 8, enumerators := [("A", none), ("B", none)] }) .nil) = .rustc := by decide

/-- D-gen-29 — `sequence<string<8>> names;`: `8>>` is read as a shift expression -/
theorem C41_shift_counterexample :
    outcome (.cons (.struct { name := "Shift", anns := [], members :=
      [{ anns := [], ty := .seq (.str (some 8)) none, decls := [{ name := "names", dims := [] }] }] }) .nil) = .err := by decide

end DustVerif.Idl
