import DustVerif.Proofs.HistCollect
/-! Property C19 (reader side): resource limits are enforced, a rejected sample is not stored and is
    reported through the sample-rejected status with the matching reason. -/
namespace DustVerif.Hist

/-- a rejected sample leaves the stored samples untouched, increments the status by exactly one and
    records reason and instance; the reason is the FIRST limit that is exceeded -/
theorem C19_rejected_not_stored_and_reported (s : St) (w : Nat) (data : String) (k : Kind) (h : Nat)
    (sts : Option Nat) (rts : Nat) (h' : Nat) (why : Reject)
    (hr : (addChange s w data k h sts rts).2 = .rejected h' why) :
    (addChange s w data k h sts rts).1.samples = s.samples ∧
    (addChange s w data k h sts rts).1.rej.total = s.rej.total + 1 ∧
    (addChange s w data k h sts rts).1.rej.reason = some why ∧
    (addChange s w data k h sts rts).1.rej.inst = h ∧ h' = h ∧
    RejWhy s.qos s.samples h why := by
  obtain ⟨_, hc⟩ := addChange_cases s w data k h sts rts
  rcases hc with ⟨h1, _⟩ | ⟨h1, _⟩ | ⟨why', h1, h2, h3, h4, h5, h6⟩ | ⟨_, _, h1, _⟩
  · rw [h1] at hr; cases hr
  · rw [h1] at hr; cases hr
  · rw [h1] at hr
    injection hr with ha hb
    subst ha; subst hb
    exact ⟨h2, h3, h4, h5, rfl, h6⟩
  · rw [h1] at hr; cases hr

/-- the status counter changes only on a rejection -/
theorem C19_status_only_on_rejection (s : St) (w : Nat) (data : String) (k : Kind) (h : Nat)
    (sts : Option Nat) (rts : Nat)
    (hr : ∀ h' why, (addChange s w data k h sts rts).2 ≠ .rejected h' why) :
    (addChange s w data k h sts rts).1.rej = s.rej := by
  obtain ⟨_, hc⟩ := addChange_cases s w data k h sts rts
  rcases hc with ⟨_, h2⟩ | ⟨_, _, h3⟩ | ⟨why', h1, _⟩ | ⟨_, _, _, _, h3, _⟩
  · rw [h2]
  · exact h3
  · exact absurd h1 (hr _ _)
  · exact h3

/-- the two counting limits -/
def LimitsInv (s : St) : Prop :=
  (∀ d, s.qos.depth = some d → 1 ≤ d) ∧
  (∀ m, s.qos.maxSamples = some m → cnt isAlive s.samples ≤ m) ∧
  (∀ m, s.qos.maxSpi = some m → ∀ h, cnt (isInst h) s.samples ≤ m)

theorem isAliveOf_imp_isAlive (h : Nat) (x : Sample) (hp : isAliveOf h x = true) : isAlive x = true := by
  simp [isAliveOf, isAlive] at *; exact hp.2
theorem isAliveOf_imp_isInst (h : Nat) (x : Sample) (hp : isAliveOf h x = true) : isInst h x = true := by
  simp [isAliveOf, isInst] at *; exact hp.1

/-- erasing the first element satisfying `p` removes one element of any predicate implied by `p` -/
theorem cnt_eraseFirst_implied (p q : Sample → Bool) (l : List Sample) (himp : ∀ x, p x = true → q x = true)
    (h : 0 < cnt p l) : cnt q (eraseFirst p l) + 1 = cnt q l := by
  induction l with
  | nil => simp at h
  | cons x xs ih =>
    rw [eraseFirst_cons]
    by_cases hp : p x = true
    · simp [hp, himp x hp]; omega
    · have hp' : p x = false := by simpa using hp
      simp only [cnt_cons, hp', Bool.false_eq_true, if_false] at h ⊢
      have := ih (by omega)
      omega

theorem storeSample_limits (q : Qos) (l : List Sample) (x : Sample)
    (hdepth : ∀ d, q.depth = some d → 1 ≤ d)
    (hno : NoLimitHit q l x.inst)
    (h1 : ∀ m, q.maxSamples = some m → cnt isAlive l ≤ m)
    (h2 : ∀ m, q.maxSpi = some m → ∀ h, cnt (isInst h) l ≤ m) :
    (∀ m, q.maxSamples = some m → cnt isAlive (storeSample q l x) ≤ m) ∧
    (∀ m, q.maxSpi = some m → ∀ h, cnt (isInst h) (storeSample q l x) ≤ m) := by
  obtain ⟨hs, _, hp⟩ := hno
  have hrc01 : replacedCount q l x.inst = 1 ∨ replacedCount q l x.inst = 0 := by
    unfold replacedCount
    split
    · split
      · exact Or.inl rfl
      · exact Or.inr rfl
    · exact Or.inr rfl
  have hpos : replacedCount q l x.inst = 1 → 0 < cnt (isAliveOf x.inst) l := by
    intro h; unfold replacedCount at h
    split at h
    · rename_i d hdq
      have := hdepth d hdq
      split at h
      · omega
      · omega
    · omega
  constructor
  · intro m hm
    rw [cnt_storeSample]
    unfold hitSamples limitHit at hs
    rw [hm] at hs
    have hb := h1 m hm
    rcases hrc01 with hr | hr
    · rw [hr] at hs ⊢
      simp only [if_true]
      have := cnt_eraseFirst_implied (isAliveOf x.inst) isAlive l (isAliveOf_imp_isAlive x.inst) (hpos hr)
      split <;> omega
    · rw [hr] at hs ⊢
      have h01 : ¬ ((0 : Nat) = 1) := by omega
      simp only [h01, if_false]
      simp at hs
      split <;> omega
  · intro m hm h
    rw [cnt_storeSample]
    unfold hitSpi limitHit at hp
    rw [hm] at hp
    have hb := h2 m hm
    rcases hrc01 with hr | hr
    · rw [hr] at hp ⊢
      simp only [if_true]
      by_cases hh : h = x.inst
      · subst hh
        have := cnt_eraseFirst_implied (isAliveOf x.inst) (isInst x.inst) l (isAliveOf_imp_isInst x.inst) (hpos hr)
        have := hb x.inst
        split <;> omega
      · have hx : isInst h x = false := by simp [isInst]; exact fun e => hh e.symm
        simp only [hx, Bool.false_eq_true, if_false, Nat.zero_add]
        exact Nat.le_trans (cnt_eraseFirst_le _ _ _) (hb h)
    · rw [hr] at hp ⊢
      have h01 : ¬ ((0 : Nat) = 1) := by omega
      simp only [h01, if_false]
      simp at hp
      by_cases hh : h = x.inst
      · subst hh
        have := hb x.inst
        split <;> omega
      · have hx : isInst h x = false := by simp [isInst]; exact fun e => hh e.symm
        simp only [hx, Bool.false_eq_true, if_false, Nat.zero_add]
        exact hb h

theorem C19_limits_step (s : St) (hinv : LimitsInv s) (op : Op) :
    LimitsInv (applyOp s op) ∧ (applyOp s op).qos = s.qos := by
  cases op with
  | add w data k h sts rts =>
    obtain ⟨hqos, hc⟩ := addChange_cases s w data k h sts rts
    refine ⟨?_, hqos⟩
    show LimitsInv (addChange s w data k h sts rts).1
    unfold LimitsInv
    rw [hqos]
    rcases hc with ⟨_, h2⟩ | ⟨_, h2, _⟩ | ⟨_, _, h2, _⟩ | ⟨a, b, _, h2, _, _, hno⟩
    · rw [h2]; exact hinv
    · rw [h2]; exact hinv
    · rw [h2]; exact hinv
    · rw [h2]
      exact ⟨hinv.1, storeSample_limits s.qos s.samples _ hinv.1 hno hinv.2.1 hinv.2.2⟩
  | readTake max m only take =>
    have ha := readOrTake_cnt_le isAlive readBlind_isAlive s max m only take
    have hi := fun h' => readOrTake_cnt_le (isInst h') (readBlind_isInst h') s max m only take
    refine ⟨⟨?_, ?_, ?_⟩, ha.2⟩
    · intro d hd; exact hinv.1 d (by rw [← ha.2]; exact hd)
    · intro m' hm; exact Nat.le_trans ha.1 (hinv.2.1 m' (by rw [← ha.2]; exact hm))
    · intro m' hm h'; exact Nat.le_trans (hi h').1 (hinv.2.2 m' (by rw [← ha.2]; exact hm) h')
  | nextInstance max prev m take =>
    have ha := readTakeNextInstance_cnt_le isAlive readBlind_isAlive s max prev m take
    have hi := fun h' => readTakeNextInstance_cnt_le (isInst h') (readBlind_isInst h') s max prev m take
    refine ⟨⟨?_, ?_, ?_⟩, ha.2⟩
    · intro d hd; exact hinv.1 d (by rw [← ha.2]; exact hd)
    · intro m' hm; exact Nat.le_trans ha.1 (hinv.2.1 m' (by rw [← ha.2]; exact hm))
    · intro m' hm h'; exact Nat.le_trans (hi h').1 (hinv.2.2 m' (by rw [← ha.2]; exact hm) h')
  | pub w st => exact ⟨hinv, rfl⟩
  | unpub w =>
    have e : applyOp s (Op.unpub w) = removePub s w := rfl
    rw [e]
    rcases removePub_cases s w with h | ⟨p, o, h⟩ <;> rw [h] <;> exact ⟨hinv, rfl⟩
  | rejStatus => exact ⟨hinv, rfl⟩

/-- C19 (limits, partial: max_samples and max_samples_per_instance; max_instances is covered by the
    correspondence run and its oracle only): in every reachable state the reader holds no more data samples
    than max_samples and no more samples of an instance than max_samples_per_instance -/
theorem C19_reader_limits_partial (q : Qos) (en : Bool) (hq : ∀ d, q.depth = some d → 1 ≤ d) (ops : List Op) :
    LimitsInv (run (St.init q en) ops) := by
  suffices h : ∀ s : St, LimitsInv s → LimitsInv (run s ops) by
    exact h _ ⟨hq, by intro m _; simp [St.init], by intro m _ h; simp [St.init]⟩
  induction ops with
  | nil => intro s hinv; exact hinv
  | cons op ops ih => intro s hinv; exact ih _ (C19_limits_step s hinv op).1

/-- non-vacuity: max_samples = 1 rejects the second instance's sample with reason `samples`, status 1 -/
example :
    let q : Qos := { depth := none, maxSamples := some 1, maxInst := none, maxSpi := none, bySource := false,
                     exclusive := false, minSep := some 0 }
    let s1 := (addChange (St.init q true) 1 "aa" .alive 5 (some 10) 100).1
    (addChange s1 1 "bb" .alive 6 (some 20) 200).2 = .rejected 6 .samples ∧
    (addChange s1 1 "bb" .alive 6 (some 20) 200).1.rej.total = 1 := by decide

end DustVerif.Hist
