import DustVerif.Model.Deadline
/-! Property C24, deadline clause: "ownership passes to another writer when the owner misses its deadline".
    `check_missed_reader_deadline` (discovery_methods.rs:263-266) releases the exclusive ownership of EVERY instance whose
    deadline expired in the pass (`instance_ownership.retain(..)` inside the per-instance loop). -/
namespace DustVerif.Deadline

theorem mem_missed (insts : List RInst) (now p k : Int) :
    k ∈ (insts.filter (expired now p)).map (·.key) ↔ ∃ i ∈ insts, i.key = k ∧ now - i.stamp > p := by
  simp only [List.mem_map, List.mem_filter, expired, decide_eq_true_eq]
  constructor
  · rintro ⟨i, ⟨hi, he⟩, hk⟩
    exact ⟨i, hi, hk, he⟩
  · rintro ⟨i, hi, hk, he⟩
    exact ⟨i, ⟨hi, he⟩, hk⟩

/-- C24 (hand-over on deadline miss), for ALL instance lists and ownership lists: after a check at time `now`
    (1) no ownership entry is left for any instance with `now - last_received > period`,
    (2) every ownership entry of an instance that did not expire is kept, and nothing is invented -/
theorem C24_handover_on_deadline_miss (r : Reader) (p now : Int) (hp : r.period = some p) :
    (∀ o ∈ (checkReader r now).1.owns, ¬ ∃ i ∈ r.insts, i.key = o.key ∧ now - i.stamp > p) ∧
    (∀ o ∈ r.owns, (¬ ∃ i ∈ r.insts, i.key = o.key ∧ now - i.stamp > p) → o ∈ (checkReader r now).1.owns) ∧
    (∀ o ∈ (checkReader r now).1.owns, o ∈ r.owns) := by
  unfold checkReader
  simp only [hp]
  refine ⟨?_, ?_, ?_⟩
  · intro o ho hex
    have hf := (List.mem_filter.mp ho).2
    simp only [ownKept, ownKeyIn, Bool.not_eq_true', List.contains_eq_mem, decide_eq_false_iff_not] at hf
    exact hf ((mem_missed r.insts now p o.key).mpr hex)
  · intro o ho hne
    apply List.mem_filter.mpr
    refine ⟨ho, ?_⟩
    simp only [ownKept, ownKeyIn, Bool.not_eq_true', List.contains_eq_mem, decide_eq_false_iff_not]
    intro hm
    exact hne ((mem_missed r.insts now p o.key).mp hm)
  · intro o ho
    exact (List.mem_filter.mp ho).1

/-- the same holds for the pinned check (without the re-arm of D35.patch) -/
theorem C24_handover_on_deadline_miss_asis (r : Reader) (p now : Int) (hp : r.period = some p) :
    (∀ o ∈ (checkReaderAsIs r now).1.owns, ¬ ∃ i ∈ r.insts, i.key = o.key ∧ now - i.stamp > p) ∧
    (∀ o ∈ r.owns, (¬ ∃ i ∈ r.insts, i.key = o.key ∧ now - i.stamp > p) → o ∈ (checkReaderAsIs r now).1.owns) := by
  unfold checkReaderAsIs
  simp only [hp]
  refine ⟨?_, ?_⟩
  · intro o ho hex
    have hf := (List.mem_filter.mp ho).2
    simp only [ownKept, ownKeyIn, Bool.not_eq_true', List.contains_eq_mem, decide_eq_false_iff_not] at hf
    exact hf ((mem_missed r.insts now p o.key).mpr hex)
  · intro o ho hne
    apply List.mem_filter.mpr
    refine ⟨ho, ?_⟩
    simp only [ownKept, ownKeyIn, Bool.not_eq_true', List.contains_eq_mem, decide_eq_false_iff_not]
    intro hm
    exact hne ((mem_missed r.insts now p o.key).mp hm)

theorem find_none_of_no_key (owns : List Own) (k : Int) (h : ∀ o ∈ owns, o.key ≠ k) :
    owns.find? (fun o => o.key == k) = none := by
  apply List.find?_eq_none.mpr
  intro o ho
  simp [h o ho]

/-- C24 (consequence): after the check, a sample of ANY matched writer — in particular a weaker one — passes the
    exclusive-ownership filter on EVERY instance that expired in this pass -/
theorem C24_any_writer_accepted_after_miss (r : Reader) (p now : Int) (hp : r.period = some p) (pubs : List Pub)
    (k : Int) (w : Nat) (hk : ∃ i ∈ r.insts, i.key = k ∧ now - i.stamp > p) :
    ownershipAccepts (checkReader r now).1.owns pubs k w = true := by
  have h := (C24_handover_on_deadline_miss r p now hp).1
  unfold ownershipAccepts
  rw [find_none_of_no_key]
  intro o ho hok
  apply h o ho
  obtain ⟨i, hi, hik, he⟩ := hk
  exact ⟨i, hi, by rw [hok]; exact hik, he⟩

/-- regression witness for "first expired instance only": two instances expire in one pass; releasing only the first
    leaves the second owned by the strong writer, and the weaker writer (strength 1 < 10) is still refused there -/
theorem C24_first_instance_only_counterexample :
    let pubs : List Pub := [{ id := 1, strength := 10 }, { id := 2, strength := 1 }]
    let r : Reader := { period := some 10, insts := [⟨1, 0⟩, ⟨2, 0⟩],
                        owns := [{ key := 1, owner := 1, stamp := 0 }, { key := 2, owner := 1, stamp := 0 }] }
    let firstOnly : List Own := r.owns.filter (fun o => o.key != 1)
    ownershipAccepts firstOnly pubs 2 2 = false ∧
    ownershipAccepts (checkReader r 11).1.owns pubs 1 2 = true ∧
    ownershipAccepts (checkReader r 11).1.owns pubs 2 2 = true := by
  decide

/-- non-vacuity: three owned instances, two expire, the third keeps its owner and still refuses the weaker writer -/
example :
    let pubs : List Pub := [{ id := 1, strength := 10 }, { id := 2, strength := 1 }]
    let r : Reader := { period := some 10, insts := [⟨1, 0⟩, ⟨2, 5⟩, ⟨3, 1⟩],
                        owns := [⟨1, 1, 0⟩, ⟨2, 1, 5⟩, ⟨3, 1, 1⟩] }
    (checkReader r 12).1.owns = [⟨2, 1, 5⟩] ∧ ownershipAccepts (checkReader r 12).1.owns pubs 2 2 = false ∧
    ownershipAccepts (checkReader r 12).1.owns pubs 3 2 = true := by
  decide

end DustVerif.Deadline
