import DustVerif.Proofs.PlistTotal2
/-! Property C07, parameter-list part: decoding a discovery parameter list (participant, publication, subscription,
    topic) from ANY byte string returns a value or an error; it never panics and never reserves memory beyond a
    small multiple of the input length.  Model: Model/Plist.lean; lemmas: Proofs/PlistTotal{,2}.lean.
    The theorems speak about the decoder of repository main (D11 and D13 repaired), with or without
    fixes/D-plist-1.patch (`Cfg.main`, `Cfg.fixed`); the as-is behaviour is kept as witnesses.  The inner XCDR2 decoding of a PID_TYPE_INFORMATION value is not
    part of this model (it is the XCDR engine's `C07_xcdr_*`). -/
namespace DustVerif.Plist

/-- C07 (parameter lists, repaired code): for EVERY schema (so for the four records) and EVERY byte string of at
    most `allocLimit / 24` = 11 184 810 octets, `from_bytes` answers `Ok` or `Err` — no panic, and no single
    reservation above `allocLimit` (every reservation is bounded by 24 × the number of octets left). -/
theorem C07_plist_total (cfg : Cfg) (h11 : cfg.fixD11 = true) (h13 : cfg.fixD13 = true) (D : List DecField)
    (data : Bytes) (hsz : data.length * 24 ≤ allocLimit) : (fromBytes cfg D data).total := by
  unfold fromBytes
  split
  · simp [Out.total]
  · apply decFields_total cfg h11 h13
    intro p hp
    have := mkPl_items_le cfg data p hp
    exact Nat.le_trans (Nat.mul_le_mul_right 24 this) hsz

/-- the same, spelled out for the delivered configuration (main + fixes/D-plist-1.patch) -/
theorem C07_plist_total_fixed (D : List DecField) (data : Bytes) (hsz : data.length * 24 ≤ allocLimit) :
    (∃ r, fromBytes Cfg.fixed D data = .ok r) ∨ (∃ e, fromBytes Cfg.fixed D data = .err e) := by
  have := C07_plist_total Cfg.fixed rfl rfl D data hsz
  cases h : fromBytes Cfg.fixed D data with
  | ok r => exact Or.inl ⟨r, rfl⟩
  | err e => exact Or.inr ⟨e, rfl⟩
  | panic => simp [h, Out.total] at this
  | alloc => simp [h, Out.total] at this

/-- non-vacuity: the size hypothesis admits every datagram-sized input -/
example : (65507 : Nat) * 24 ≤ allocLimit := by decide

/-- the 60-octet SPDP payload of finding D11: a participant announcement whose PID_DOMAIN_TAG string has length 0 -/
def d11Bytes : Bytes :=
  [0, 3, 0, 0,
   0x50, 0, 16, 0, 8, 8, 8, 8, 8, 8, 8, 8, 8, 8, 8, 8, 0, 0, 1, 0xc1,
   0x15, 0, 4, 0, 2, 4, 0, 0,
   0x16, 0, 4, 0, 73, 74, 0, 0,
   0x58, 0, 4, 0, 2, 0, 0, 0,
   0x14, 0x40, 4, 0, 0, 0, 0, 0]

/-- C07 as-is counter-example (D11, replayed): `length as usize - 1` (rtps_data_representation.rs:284) panics -/
theorem C07_plist_zero_length_string_counterexample :
    fromBytes Cfg.asIs participantDec d11Bytes = .panic := by decide

/-- the same bytes after fixes/D11.patch: an error -/
theorem C07_plist_zero_length_string_fixed :
    fromBytes Cfg.fixed participantDec d11Bytes = .err .invalidData := by decide

/-- C07 as-is counter-example (D13, replayed): a 12-octet publication announcement whose PID_PARTITION sequence
    claims 2^24 strings makes `Vec::with_capacity` (deserializer.rs:759) reserve 402 MB -/
theorem C07_plist_alloc_counterexample :
    fromBytes Cfg.asIs publicationDec [0, 3, 0, 0, 0x29, 0, 4, 0, 0, 0, 0, 1] = .alloc := by decide

/-- the same bytes after fixes/D13.patch: the sequence is incomplete, the policy falls back to its default and the
    record decodes -/
theorem C07_plist_alloc_fixed :
    ∃ r, fromBytes Cfg.fixed publicationDec [0, 3, 0, 0, 0x29, 0, 4, 0, 0, 0, 0, 1] = .ok r := by
  refine ⟨_, rfl⟩

end DustVerif.Plist
