import DustVerif.Proofs.HistCollect
/-! Property C18: KEEP_LAST(depth) keeps at most `depth` data samples per instance, replaces the oldest
    one instead of rejecting; KEEP_ALL keeps every accepted sample until it is taken. -/
namespace DustVerif.Hist

/-- per instance at most `d` ALIVE (data) samples are stored -/
def DepthInv (d : Nat) (s : St) : Prop := ∀ h, cnt (isAliveOf h) s.samples ≤ d

theorem isAliveOf_mkSample_true (h w : Nat) (data : String) (k : Kind) (h' : Nat) (sts : Option Nat) (a b : Int)
    (hp : isAliveOf h (mkSample w data k h' sts a b) = true) : h' = h := by
  simp [isAliveOf, mkSample] at hp; exact hp.1

theorem storeSample_depth (q : Qos) (d : Nat) (hq : q.depth = some d) (hd : 1 ≤ d) (l : List Sample) (x : Sample)
    (hinv : ∀ h, cnt (isAliveOf h) l ≤ d) : ∀ h, cnt (isAliveOf h) (storeSample q l x) ≤ d := by
  intro h
  rw [cnt_storeSample]
  have hrc : replacedCount q l x.inst = if d = cnt (isAliveOf x.inst) l then 1 else 0 := by
    unfold replacedCount; rw [hq]
  by_cases hp : isAliveOf h x = true
  · have hx : x.inst = h := by simp [isAliveOf] at hp; exact hp.1
    subst hx
    simp only [hp, if_true]
    rw [hrc]
    by_cases hfull : d = cnt (isAliveOf x.inst) l
    · simp only [hfull, if_true]
      have := cnt_eraseFirst_same (isAliveOf x.inst) l (by omega)
      omega
    · have := hinv x.inst
      simp only [hfull, if_false]
      have h01 : ¬ ((0 : Nat) = 1) := by omega
      simp only [h01, if_false]
      omega
  · have hp' : isAliveOf h x = false := by simpa using hp
    simp only [hp', Bool.false_eq_true, if_false, Nat.zero_add]
    split
    · exact Nat.le_trans (cnt_eraseFirst_le _ _ _) (hinv h)
    · exact hinv h

/-- one step preserves the depth bound and the QoS -/
theorem C18_bound_step (d : Nat) (hd : 1 ≤ d) (s : St) (hq : s.qos.depth = some d) (hinv : DepthInv d s) (op : Op) :
    DepthInv d (applyOp s op) ∧ (applyOp s op).qos = s.qos := by
  cases op with
  | add w data k h sts rts =>
    have hc := addChange_cases s w data k h sts rts
    obtain ⟨hqos, hc⟩ := hc
    refine ⟨?_, hqos⟩
    intro h'
    show cnt (isAliveOf h') (addChange s w data k h sts rts).1.samples ≤ d
    rcases hc with ⟨_, h2⟩ | ⟨_, h2, _⟩ | ⟨_, _, h2, _⟩ | ⟨a, b, _, h2, _⟩
    · rw [h2]; exact hinv h'
    · rw [h2]; exact hinv h'
    · rw [h2]; exact hinv h'
    · rw [h2]; exact storeSample_depth s.qos d hq hd s.samples _ hinv h'
  | readTake max m only take =>
    have := fun h' => readOrTake_cnt_le (isAliveOf h') (readBlind_isAliveOf h') s max m only take
    exact ⟨fun h' => Nat.le_trans (this h').1 (hinv h'), (this 0).2⟩
  | nextInstance max prev m take =>
    have := fun h' => readTakeNextInstance_cnt_le (isAliveOf h') (readBlind_isAliveOf h') s max prev m take
    exact ⟨fun h' => Nat.le_trans (this h').1 (hinv h'), (this 0).2⟩
  | pub w st => exact ⟨hinv, rfl⟩
  | unpub w =>
    have e : applyOp s (Op.unpub w) = removePub s w := rfl
    rw [e]
    rcases removePub_cases s w with h | ⟨p, o, h⟩ <;> rw [h] <;> exact ⟨hinv, rfl⟩
  | rejStatus => exact ⟨hinv, rfl⟩

/-- C18 (bound): after ANY operation list a KEEP_LAST(d) reader holds at most d data samples per instance -/
theorem C18_bound (q : Qos) (en : Bool) (d : Nat) (hq : q.depth = some d) (hd : 1 ≤ d) (ops : List Op) :
    DepthInv d (run (St.init q en) ops) := by
  suffices h : ∀ s : St, s.qos.depth = some d → DepthInv d s →
      DepthInv d (run s ops) by
    exact h _ hq (by intro h; simp [St.init])
  induction ops with
  | nil => intro s _ hinv; exact hinv
  | cons op ops ih =>
    intro s hqs hinv
    have := C18_bound_step d hd s hqs hinv op
    exact ih (applyOp s op) (by rw [this.2]; exact hqs) this.1

/-- C18 (newest kept, by-reception order): the stored list after an accepted sample is the old list minus its
    OLDEST data sample of that instance (only when the instance was full) with the new sample at the end -/
theorem C18_replaces_oldest (q : Qos) (l : List Sample) (x : Sample) (d : Nat) (hq : q.depth = some d)
    (hb : q.bySource = false) :
    storeSample q l x =
      (if cnt (isAliveOf x.inst) l = d then eraseFirst (isAliveOf x.inst) l else l) ++ [x] := by
  unfold storeSample replacedCount
  rw [hq]
  by_cases hf : d = cnt (isAliveOf x.inst) l
  · simp [hf, hb]
  · have hf' : ¬ cnt (isAliveOf x.inst) l = d := fun h => hf h.symm
    simp [hf, hf', hb]

/-- C18 (KEEP_ALL): an accepted sample never removes anything -/
theorem C18_keep_all (q : Qos) (l : List Sample) (x : Sample) (hq : q.depth = none) (p : Sample → Bool) :
    cnt p (storeSample q l x) = (if p x then 1 else 0) + cnt p l := by
  rw [cnt_storeSample]
  unfold replacedCount; rw [hq]; simp

/-- C18 (never rejected for depth), partial: when the instance holds only data samples (no dispose /
    unregister / filtered markers, finding D52) and depth ≤ max_samples_per_instance, a new sample is never
    rejected for samples-per-instance -/
theorem C18_not_rejected_for_depth_partial (s : St) (d m : Nat) (hq : s.qos.depth = some d) (hd : 1 ≤ d)
    (hm : s.qos.maxSpi = some m) (hdm : d ≤ m) (hinv : DepthInv d s)
    (w : Nat) (data : String) (k : Kind) (h : Nat) (sts : Option Nat) (rts : Nat)
    (honly : cnt (isInst h) s.samples = cnt (isAliveOf h) s.samples) :
    (addChange s w data k h sts rts).2 ≠ .rejected h .spi := by
  intro hrej
  obtain ⟨_, hc⟩ := addChange_cases s w data k h sts rts
  rcases hc with ⟨h1, _⟩ | ⟨h1, _⟩ | ⟨why, h1, _, _, _, _, hwhy⟩ | ⟨_, _, h1, _⟩
  · rw [h1] at hrej; cases hrej
  · rw [h1] at hrej; cases hrej
  · rw [h1] at hrej
    injection hrej with _ hw
    subst hw
    obtain ⟨_, _, hspi⟩ := hwhy
    unfold hitSpi limitHit replacedCount at hspi
    rw [hm, hq, honly] at hspi
    have := hinv h
    by_cases hf : d = cnt (isAliveOf h) s.samples
    · simp [hf] at hspi; omega
    · simp [hf] at hspi; omega
  · rw [h1] at hrej; cases hrej

/-- C18 (a replacement is never rejected for max_samples): when the instance already holds `depth` data samples
    (so the new sample only replaces the oldest one) and the reader respects its max_samples limit so far, the new
    sample is not rejected with reason `samples` -/
theorem C18_replacement_not_rejected_for_max_samples (s : St) (d m : Nat) (hq : s.qos.depth = some d) (hd : 1 ≤ d)
    (hm : s.qos.maxSamples = some m) (hlim : cnt isAlive s.samples ≤ m)
    (w : Nat) (data : String) (k : Kind) (h : Nat) (sts : Option Nat) (rts : Nat)
    (hfull : cnt (isAliveOf h) s.samples = d) :
    (addChange s w data k h sts rts).2 ≠ .rejected h .samples := by
  intro hrej
  obtain ⟨_, hc⟩ := addChange_cases s w data k h sts rts
  rcases hc with ⟨h1, _⟩ | ⟨h1, _⟩ | ⟨why, h1, _, _, _, _, hwhy⟩ | ⟨_, _, h1, _⟩
  · rw [h1] at hrej; cases hrej
  · rw [h1] at hrej; cases hrej
  · rw [h1] at hrej
    injection hrej with _ hw
    subst hw
    unfold RejWhy hitSamples limitHit replacedCount at hwhy
    rw [hm, hq] at hwhy
    have hpos : 1 ≤ cnt isAlive s.samples := by
      have : cnt (isAliveOf h) s.samples ≤ cnt isAlive s.samples := by
        clear hwhy hfull hlim
        induction s.samples with
        | nil => simp
        | cons x xs ih =>
          simp only [cnt]
          by_cases hx : isAliveOf h x = true
          · have : isAlive x = true := by simp [isAliveOf, isAlive] at *; exact hx.2
            simp [hx, this]; omega
          · have hx' : isAliveOf h x = false := by simpa using hx
            simp only [hx', Bool.false_eq_true, if_false]
            split <;> omega
      omega
    simp [hfull] at hwhy
    omega
  · rw [h1] at hrej; cases hrej

/-- non-vacuity: a full instance with depth = max_samples_per_instance = 1 accepts the next sample -/
example :
    let q : Qos := { depth := some 1, maxSamples := none, maxInst := none, maxSpi := some 1, bySource := false,
                     exclusive := false, minSep := some 0 }
    let s1 := (addChange (St.init q true) 1 "aa" .alive 5 (some 10) 100).1
    (addChange s1 1 "bb" .alive 5 (some 20) 200).2 = .added ∧
    ((addChange s1 1 "bb" .alive 5 (some 20) 200).1.samples.map (·.data)) = ["bb"] := by decide

end DustVerif.Hist
