import DustVerif.Model.Partition
/-! Property C15, PARTITION part: the inline partition test of process_discovered_readers / process_discovered_writers
    (Model/Partition.lean). Theorems `C15_partition_*`:
    * both sides compute the same verdict (the test is symmetric in the two partitions);
    * the empty list behaves exactly like the list `[""]` (DDS 1.4 2.2.3.13: the empty sequence IS the default partition "";
      repaired defect D20a, regression witness on `partitionMatchOld`);
    * on pattern-free lists — empty ones included — the verdict is exactly the DDS rule "some name in common";
    * an expression is matched against the NAMES of the other side only (repaired defect D20b, regression witness on
      `partitionMatchOldB`), and on all lists of expressions and clean names the verdict is the DDS rule (`C15_partition_spec`);
    * still open: `+` is a regex quantifier (D20c; two tests of the repository rely on it). -/
namespace DustVerif.Partition

/-! ### symmetry -/

theorem anyCommonName_iff (a b : List Name) : anyCommonName a b = true ↔ ∃ n, n ∈ a ∧ n ∈ b := by
  simp [anyCommonName, List.any_eq_true]

theorem anyCommonName_comm (a b : List Name) : anyCommonName a b = anyCommonName b a := by
  rw [Bool.eq_iff_iff, anyCommonName_iff, anyCommonName_iff]
  constructor <;> (rintro ⟨n, h1, h2⟩; exact ⟨n, h2, h1⟩)

theorem beq_list_comm (a b : List Name) : (a == b) = (b == a) := by
  rw [Bool.eq_iff_iff]; simp only [beq_iff_eq]; exact eq_comm

/-- C15 (partition, both sides): the writer's participant evaluates `partitionMatch readerPartition publisherPartition`,
    the reader's participant `partitionMatch writerPartition subscriberPartition`: for ALL name lists the two verdicts
    are the same -/
theorem defaultMatch_comm (a b : List Name) : defaultMatch a b = defaultMatch b a := by
  unfold defaultMatch
  cases (a.isEmpty && matchesDefault b) <;> cases (b.isEmpty && matchesDefault a) <;> rfl

theorem C15_partition_symmetric (a b : List Name) : partitionMatch a b = partitionMatch b a := by
  unfold partitionMatch
  rw [beq_list_comm a b, anyCommonName_comm a b, defaultMatch_comm a b]
  cases (b == a) <;> cases anyCommonName b a <;> cases anyPatternMatch a b <;> cases anyPatternMatch b a <;> rfl

/-- C15 (partition, the two copies of the test): the expression in process_discovered_readers (writer side) and the one in
    process_discovered_writers (reader side) give the same verdict for every publisher partition and every subscriber
    partition — so `matched` on the writer and `matched` on the reader can never disagree because of the partitions -/
theorem C15_partition_sides_agree (pub sub : List Name) : writerSideMatch pub sub = readerSideMatch pub sub := by
  have h1 : writerSideMatch pub sub = partitionMatch sub pub := rfl
  have h2 : readerSideMatch pub sub = partitionMatch pub sub := rfl
  rw [h1, h2, C15_partition_symmetric]

/-- both copies are the model function the other theorems speak about -/
theorem C15_partition_sides_are_partitionMatch (pub sub : List Name) :
    writerSideMatch pub sub = partitionMatch pub sub ∧ readerSideMatch pub sub = partitionMatch pub sub :=
  ⟨by rw [C15_partition_sides_agree]; rfl, rfl⟩

/-- one of two names matched by the other side's pattern is enough, on both sides and in both roles -/
example : writerSideMatch ["A1".toList, "B1".toList] ["A*".toList] = true ∧ readerSideMatch ["A1".toList, "B1".toList] ["A*".toList] = true ∧
    writerSideMatch ["A*".toList] ["B1".toList, "A1".toList] = true ∧ readerSideMatch ["A*".toList] ["B1".toList, "A1".toList] = true ∧
    readerSideMatch ["A1".toList] ["B*".toList, "A*".toList] = true ∧ readerSideMatch ["B1".toList, "c1".toList] ["A*".toList] = false := by
  decide

/-! ### the empty list -/

theorem globMatch_nil (n : Name) : globMatch [] n = n.isEmpty := by
  simp [globMatch, parsePat, parseAux, matchP]

theorem anyPatternMatch_iff (ps ns : List Name) :
    anyPatternMatch ps ns = true ↔ ∃ p, p ∈ ps ∧ ∃ n, n ∈ ns ∧ isPattern n = false ∧ globMatch p n = true := by
  simp [anyPatternMatch, nameMatches, List.any_eq_true]

theorem isPattern_nil : isPattern [] = false := rfl

theorem partitionMatch_nil_cons (x : Name) (xs : List Name) : partitionMatch [] (x :: xs) = matchesDefault (x :: xs) := by
  simp [partitionMatch, defaultMatch, anyCommonName, anyPatternMatch, nameMatches]

theorem matchesDefault_iff (b : List Name) : matchesDefault b = true ↔ ∃ n, n ∈ b ∧ (n = [] ∨ globMatch n [] = true) := by
  simp [matchesDefault, List.any_eq_true, List.isEmpty_iff]

theorem partitionMatch_emptyName_cons (x : Name) (xs : List Name) :
    partitionMatch [[]] (x :: xs) = matchesDefault (x :: xs) := by
  rw [Bool.eq_iff_iff, matchesDefault_iff]
  have hd : defaultMatch [[]] (x :: xs) = false := by simp [defaultMatch]
  simp only [partitionMatch, Bool.or_eq_true, beq_iff_eq, anyCommonName_iff, anyPatternMatch_iff, hd, Bool.false_eq_true, or_false,
    List.mem_singleton]
  constructor
  · rintro (((h | ⟨n, hn, hm⟩) | ⟨p, hp, n, hn, _, hm⟩) | ⟨p, hp, n, hn, _, hm⟩)
    · exact ⟨[], by rw [← h]; simp, Or.inl rfl⟩
    · exact ⟨[], hn ▸ hm, Or.inl rfl⟩
    · subst hp
      rw [globMatch_nil] at hm
      exact ⟨n, hn, Or.inl (List.isEmpty_iff.mp hm)⟩
    · subst hn
      exact ⟨p, hp, Or.inr hm⟩
  · rintro ⟨n, hn, hm | hm⟩
    · exact Or.inl (Or.inl (Or.inr ⟨[], rfl, hm ▸ hn⟩))
    · exact Or.inr ⟨n, hn, [], rfl, isPattern_nil, hm⟩

/-- C15 (partition, empty list = default partition): for ALL lists `b`, patterns included, the empty name list gets exactly the
    verdict of the list `[""]` — on either side (`C15_partition_symmetric`) -/
theorem C15_partition_empty_is_default (b : List Name) : partitionMatch [] b = partitionMatch [[]] b := by
  cases b with
  | nil => decide
  | cons x xs => rw [partitionMatch_nil_cons, partitionMatch_emptyName_cons]

/-- regression witness for the repaired defect D20a: before the repair `[]` matched neither `[""]` nor `["*"]` although `[""]`
    matches `["*"]`; now it does -/
theorem C15_partition_empty_old_counterexample :
    partitionMatchOld [] [[]] = false ∧ partitionMatchOld [] ["*".toList] = false ∧ partitionMatchOld [[]] ["*".toList] = true ∧
    partitionMatch [] [[]] = true ∧ partitionMatch [] ["*".toList] = true ∧ partitionMatch [] ["A".toList] = false := by
  decide

/-! ### pattern-free lists -/

def plainName (n : Name) : Bool := n.all (fun c => !isMeta c)
def plainList (l : List Name) : Bool := l.all plainName

theorem parseAux_plain (rest : List Char) (h : plainName rest = true) :
    ∀ fuel acc, rest.length ≤ fuel → parseAux fuel rest acc = some (acc.reverse ++ rest.map Atom.lit) := by
  induction rest with
  | nil => intro fuel acc _; cases fuel <;> simp [parseAux]
  | cons c cs ih =>
    intro fuel acc hf
    cases fuel with
    | zero => simp at hf
    | succ f =>
      have hc : isMeta c = false ∧ plainName cs = true := by
        simpa [plainName, List.all_cons] using h
      have hm := hc.1
      simp only [isMeta, Bool.or_eq_false_iff, beq_eq_false_iff_ne] at hm
      obtain ⟨⟨⟨⟨⟨h1, h2⟩, h3⟩, h4⟩, h5⟩, h6⟩ := hm
      unfold parseAux
      simp only [beq_iff_eq, h1, h2, h3, h4, h5, h6, if_false, Bool.or_eq_true, or_self]
      rw [ih hc.2 f _ (by simpa using hf)]
      simp

theorem parsePat_plain (p : Name) (h : plainName p = true) : parsePat p = some (p.map Atom.lit) := by
  unfold parsePat
  rw [parseAux_plain p h p.length [] (Nat.le_refl _)]
  simp

theorem matchP_lits (p : List Char) : ∀ s, matchP (p.map Atom.lit) s = true ↔ s = p := by
  induction p with
  | nil => intro s; cases s <;> simp [matchP]
  | cons c cs ih =>
    intro s
    cases s with
    | nil => simp [matchP]
    | cons d ds =>
      simp only [List.map_cons, matchP, atomMatch, Bool.and_eq_true, beq_iff_eq, ih ds, List.cons.injEq]
      constructor
      · rintro ⟨h1, h2⟩; exact ⟨h1.symm, h2⟩
      · rintro ⟨h1, h2⟩; exact ⟨h1.symm, h2⟩

/-- a name without glob characters, read as a pattern, matches exactly itself -/
theorem globMatch_plain (p n : Name) (h : plainName p = true) : globMatch p n = true ↔ n = p := by
  unfold globMatch
  rw [parsePat_plain p h]
  exact matchP_lits p n

theorem plain_not_pattern (n : Name) (h : plainName n = true) : isPattern n = false := by
  simp only [plainName, List.all_eq_true, Bool.not_eq_true'] at h
  cases hp : isPattern n with
  | false => rfl
  | true =>
    simp only [isPattern, List.any_eq_true, Bool.or_eq_true, beq_iff_eq] at hp
    obtain ⟨c, hc, hm⟩ := hp
    have := h c hc
    rcases hm with (rfl | rfl) | rfl <;> simp [isMeta] at this

theorem anyPatternMatch_plain (ps ns : List Name) (h : plainList ps = true) :
    anyPatternMatch ps ns = true ↔ ∃ n, n ∈ ps ∧ n ∈ ns := by
  rw [anyPatternMatch_iff]
  constructor
  · rintro ⟨p, hp, n, hn, _, hm⟩
    have hpl : plainName p = true := List.all_eq_true.mp h p hp
    have := (globMatch_plain p n hpl).mp hm
    exact ⟨p, hp, this ▸ hn⟩
  · rintro ⟨n, h1, h2⟩
    have hpl : plainName n = true := List.all_eq_true.mp h n h1
    exact ⟨n, h1, n, h2, plain_not_pattern n hpl, (globMatch_plain n n hpl).mpr rfl⟩

/-- the DDS rule on pattern-free lists: the empty sequence stands for the partition "" -/
def normalise (l : List Name) : List Name := if l.isEmpty then [[]] else l
def SpecPlainMatch (a b : List Name) : Prop := ∃ n, n ∈ normalise a ∧ n ∈ normalise b

theorem partitionMatch_plain_nonempty (a b : List Name) (ha : plainList a = true) (hb : plainList b = true)
    (hae : a ≠ []) (hbe : b ≠ []) : partitionMatch a b = true ↔ ∃ n, n ∈ a ∧ n ∈ b := by
  have hd : defaultMatch a b = false := by
    cases a with
    | nil => exact absurd rfl hae
    | cons x xs => cases b with
      | nil => exact absurd rfl hbe
      | cons y ys => simp [defaultMatch]
  unfold partitionMatch
  simp only [Bool.or_eq_true, anyCommonName_iff, anyPatternMatch_plain a b ha, anyPatternMatch_plain b a hb, beq_iff_eq, hd,
    Bool.false_eq_true, or_false]
  constructor
  · rintro (((h | h) | h) | ⟨n, h1, h2⟩)
    · subst h
      cases a with
      | nil => exact absurd rfl hae
      | cons x xs => exact ⟨x, by simp, by simp⟩
    · exact h
    · exact h
    · exact ⟨n, h2, h1⟩
  · intro h; exact Or.inl (Or.inl (Or.inr h))

/-- C15 (partition, pattern-free lists): for ALL lists of names without glob characters — the empty list on one or both sides
    included — the verdict is the DDS rule: the two sides have a name in common, the empty sequence standing for `[""]` -/
theorem C15_partition_plain (a b : List Name) (ha : plainList a = true) (hb : plainList b = true) :
    partitionMatch a b = true ↔ SpecPlainMatch a b := by
  have hp : plainList [[]] = true := by decide
  unfold SpecPlainMatch
  cases a with
  | nil =>
    cases b with
    | nil => exact ⟨fun _ => ⟨[], by simp [normalise], by simp [normalise]⟩, fun _ => by decide⟩
    | cons y ys =>
      rw [C15_partition_empty_is_default]
      have := partitionMatch_plain_nonempty [[]] (y :: ys) hp hb (by simp) (by simp)
      simpa [normalise] using this
  | cons x xs =>
    cases b with
    | nil =>
      rw [C15_partition_symmetric, C15_partition_empty_is_default, C15_partition_symmetric]
      have := partitionMatch_plain_nonempty (x :: xs) [[]] ha hp (by simp) (by simp)
      simpa [normalise] using this
    | cons y ys =>
      have := partitionMatch_plain_nonempty (x :: xs) (y :: ys) ha hb (by simp) (by simp)
      simpa [normalise] using this

/-- the two empty lists match, as the DDS rule says (both are the partition "") -/
theorem C15_partition_both_empty : partitionMatch [] [] = true ∧ SpecPlainMatch [] [] := by
  refine ⟨by decide, [], by simp [normalise], by simp [normalise]⟩

example : plainList ["A".toList, "B1".toList] = true ∧ partitionMatch ["A".toList, "B1".toList] ["C".toList, "B1".toList] = true := by
  decide

/-! ### what the glob matcher means -/

def isSingle : Atom → Bool
  | .lit _ => true
  | .any => true
  | .cls _ _ => true
  | _ => false

/-- declarative meaning of a parsed pattern: every one-character atom consumes one accepted character, `*` any run of
    characters without a newline, `<atom>+` one or more accepted characters -/
inductive Matches : List Atom → List Char → Prop
  | nil : Matches [] []
  | one (a : Atom) (ps : List Atom) (c : Char) (s : List Char) :
      isSingle a = true → atomMatch a c = true → Matches ps s → Matches (a :: ps) (c :: s)
  | star (ps : List Atom) (pre s : List Char) :
      (∀ c ∈ pre, c ≠ '\n') → Matches ps s → Matches (.star :: ps) (pre ++ s)
  | rep (a : Atom) (ps : List Atom) (c : Char) (pre s : List Char) :
      atomMatch a c = true → (∀ x ∈ pre, atomMatch a x = true) → Matches ps s → Matches (.rep a :: ps) (c :: pre ++ s)

theorem mem_starTails (t : List Char) : ∀ s, t ∈ starTails s ↔ ∃ pre, s = pre ++ t ∧ ∀ c ∈ pre, c ≠ '\n' := by
  intro s
  induction s with
  | nil =>
    simp only [starTails, List.mem_singleton]
    constructor
    · intro h; exact ⟨[], by simp [h], by simp⟩
    · rintro ⟨pre, h, _⟩
      have := List.append_eq_nil_iff.mp h.symm
      exact this.2
  | cons c s ih =>
    simp only [starTails, List.mem_cons]
    constructor
    · rintro (h | h)
      · exact ⟨[], by simp [h], by simp⟩
      · by_cases hc : c = '\n'
        · simp [hc] at h
        · simp only [beq_iff_eq, hc, if_false] at h
          obtain ⟨pre, h1, h2⟩ := ih.mp h
          refine ⟨c :: pre, by simp [h1], ?_⟩
          intro x hx
          rcases List.mem_cons.mp hx with rfl | hx
          · exact hc
          · exact h2 x hx
    · rintro ⟨pre, h1, h2⟩
      cases pre with
      | nil => left; simpa using h1.symm
      | cons p pre' =>
        right
        simp only [List.cons_append, List.cons.injEq] at h1
        have hc : c ≠ '\n' := by rw [h1.1]; exact h2 p (by simp)
        simp only [beq_iff_eq, hc, if_false]
        exact ih.mpr ⟨pre', h1.2, fun x hx => h2 x (by simp [hx])⟩

theorem mem_repTails (a : Atom) (t : List Char) :
    ∀ s, t ∈ repTails a s ↔ ∃ c pre, s = c :: pre ++ t ∧ atomMatch a c = true ∧ ∀ x ∈ pre, atomMatch a x = true := by
  intro s
  induction s with
  | nil => simp [repTails]
  | cons c s ih =>
    unfold repTails
    by_cases hc : atomMatch a c = true
    · simp only [hc, if_true, List.mem_cons]
      constructor
      · rintro (h | h)
        · exact ⟨c, [], by simp [h], hc, by simp⟩
        · obtain ⟨c', pre, h1, h2, h3⟩ := ih.mp h
          refine ⟨c, c' :: pre, by simp [h1], hc, ?_⟩
          intro x hx
          rcases List.mem_cons.mp hx with rfl | hx
          · exact h2
          · exact h3 x hx
      · rintro ⟨c', pre, h1, h2, h3⟩
        simp only [List.cons_append, List.cons.injEq] at h1
        cases pre with
        | nil => left; simpa using h1.2.symm
        | cons p pre' =>
          right
          exact ih.mpr ⟨p, pre', by simpa using h1.2, h3 p (by simp), fun x hx => h3 x (by simp [hx])⟩
    · simp only [hc, Bool.false_eq_true, if_false, List.not_mem_nil, false_iff]
      rintro ⟨c', pre, h1, h2, _⟩
      simp only [List.cons_append, List.cons.injEq] at h1
      exact hc (h1.1 ▸ h2)

theorem matchP_sound : ∀ (ps : List Atom) (s : List Char), matchP ps s = true → Matches ps s := by
  intro ps
  induction ps with
  | nil =>
    intro s h
    cases s with
    | nil => exact Matches.nil
    | cons c s => simp [matchP] at h
  | cons a ps ih =>
    intro s h
    cases a with
    | star =>
      simp only [matchP, List.any_eq_true] at h
      obtain ⟨t, ht, hm⟩ := h
      obtain ⟨pre, h1, h2⟩ := (mem_starTails t s).mp ht
      rw [h1]
      exact Matches.star ps pre t h2 (ih t hm)
    | rep b =>
      simp only [matchP, List.any_eq_true] at h
      obtain ⟨t, ht, hm⟩ := h
      obtain ⟨c, pre, h1, h2, h3⟩ := (mem_repTails b t s).mp ht
      rw [h1]
      exact Matches.rep b ps c pre t h2 h3 (ih t hm)
    | lit x =>
      cases s with
      | nil => simp [matchP] at h
      | cons c s =>
        simp only [matchP, Bool.and_eq_true] at h
        exact Matches.one _ ps c s rfl h.1 (ih s h.2)
    | any =>
      cases s with
      | nil => simp [matchP] at h
      | cons c s =>
        simp only [matchP, Bool.and_eq_true] at h
        exact Matches.one _ ps c s rfl h.1 (ih s h.2)
    | cls n items =>
      cases s with
      | nil => simp [matchP] at h
      | cons c s =>
        simp only [matchP, Bool.and_eq_true] at h
        exact Matches.one _ ps c s rfl h.1 (ih s h.2)

theorem matchP_complete (ps : List Atom) (s : List Char) (h : Matches ps s) : matchP ps s = true := by
  induction h with
  | nil => rfl
  | one a ps c s hs hm _ ih =>
    cases a with
    | lit x => simp [matchP, hm, ih]
    | any => simp [matchP, hm, ih]
    | cls n items => simp [matchP, hm, ih]
    | star => simp [isSingle] at hs
    | rep b => simp [isSingle] at hs
  | star ps pre s hpre _ ih =>
    simp only [matchP, List.any_eq_true]
    exact ⟨s, (mem_starTails s (pre ++ s)).mpr ⟨pre, rfl, hpre⟩, ih⟩
  | rep a ps c pre s hc hpre _ ih =>
    simp only [matchP, List.any_eq_true]
    exact ⟨s, (mem_repTails a s (c :: pre ++ s)).mpr ⟨c, pre, rfl, hc, hpre⟩, ih⟩

/-- C15 (partition, glob matcher): the executable matcher the model uses for `fnmatch_to_regex` + `Regex::is_match` accepts
    exactly the strings the declarative reading of the pattern describes — for all parsed patterns and all strings -/
theorem C15_partition_glob_spec (ps : List Atom) (s : List Char) : matchP ps s = true ↔ Matches ps s :=
  ⟨matchP_sound ps s, matchP_complete ps s⟩

/-- `*` alone matches every name without a newline, the empty name included -/
theorem C15_partition_star_matches_all (n : Name) (h : ∀ c ∈ n, c ≠ '\n') : globMatch ['*'] n = true := by
  have : parsePat ['*'] = some [.star] := by decide
  unfold globMatch
  rw [this]
  apply matchP_complete
  have := Matches.star [] n [] h Matches.nil
  simpa using this

/-! ### patterns (D20) -/

/-- regression witness for the repaired defect D20b: before the repair an expression was tested against the other side's
    EXPRESSIONS as if they were names: `A*` "matched" `A?`. Now it does not; identical strings are still equal names
    (`A*` on both sides), and `A*` still matches the name `A1` -/
theorem C15_partition_pattern_vs_pattern_counterexample :
    partitionMatchOldB ["A*".toList] ["A?".toList] = true ∧ partitionMatch ["A*".toList] ["A?".toList] = false ∧
    partitionMatch ["A*".toList] ["A*".toList] = true ∧ partitionMatch ["A*".toList] ["A1".toList, "B*".toList] = true ∧
    partitionMatch ["A*".toList] ["B*".toList] = false := by decide

/-! ### the DDS partition rule, expressions included -/

/-- do the entries `x` and `y` of the two sides match? DDS 1.4 2.2.3.13 as read here: equal strings are equal names; otherwise an
    expression (an entry with `*`, `?`, `[`) is matched against a NAME of the other side; two expressions are not matched
    against each other -/
def EntryMatch (x y : Name) : Prop :=
  x = y ∨ (isPattern x = true ∧ isPattern y = false ∧ globMatch x y = true) ∨
    (isPattern y = true ∧ isPattern x = false ∧ globMatch y x = true)

/-- the DDS partition rule: some entry of one side matches some entry of the other, the empty sequence standing for `[""]` -/
def SpecMatch (a b : List Name) : Prop := ∃ x, x ∈ normalise a ∧ ∃ y, y ∈ normalise b ∧ EntryMatch x y

/-- every entry is an expression or a name without glob / regex characters (this excludes names with `+`, `]`, `\`:
    finding D20c and the patterns outside the model) -/
def cleanList (l : List Name) : Bool := l.all (fun n => isPattern n || plainName n)

theorem partitionMatch_spec_nonempty (a b : List Name) (ha : cleanList a = true) (hb : cleanList b = true)
    (hae : a ≠ []) (hbe : b ≠ []) :
    partitionMatch a b = true ↔ ∃ x, x ∈ a ∧ ∃ y, y ∈ b ∧ EntryMatch x y := by
  have hd : defaultMatch a b = false := by
    cases a with
    | nil => exact absurd rfl hae
    | cons x xs => cases b with
      | nil => exact absurd rfl hbe
      | cons y ys => simp [defaultMatch]
  have clean : ∀ l : List Name, cleanList l = true → ∀ n ∈ l, isPattern n = false → plainName n = true := by
    intro l hl n hn hp
    have := List.all_eq_true.mp hl n hn
    simpa [hp] using this
  unfold partitionMatch
  simp only [Bool.or_eq_true, beq_iff_eq, anyCommonName_iff, anyPatternMatch_iff, hd, Bool.false_eq_true, or_false]
  constructor
  · rintro (((h | ⟨n, h1, h2⟩) | ⟨p, hp, n, hn, hnp, hm⟩) | ⟨p, hp, n, hn, hnp, hm⟩)
    · subst h
      cases a with
      | nil => exact absurd rfl hae
      | cons x xs => exact ⟨x, by simp, x, by simp, Or.inl rfl⟩
    · exact ⟨n, h1, n, h2, Or.inl rfl⟩
    · cases hpp : isPattern p with
      | true => exact ⟨p, hp, n, hn, Or.inr (Or.inl ⟨hpp, hnp, hm⟩)⟩
      | false =>
        have := (globMatch_plain p n (clean a ha p hp hpp)).mp hm
        exact ⟨p, hp, n, hn, Or.inl this.symm⟩
    · cases hpp : isPattern p with
      | true => exact ⟨n, hn, p, hp, Or.inr (Or.inr ⟨hpp, hnp, hm⟩)⟩
      | false =>
        have := (globMatch_plain p n (clean b hb p hp hpp)).mp hm
        exact ⟨n, hn, p, hp, Or.inl this⟩
  · rintro ⟨x, hx, y, hy, h | ⟨h1, h2, h3⟩ | ⟨h1, h2, h3⟩⟩
    · exact Or.inl (Or.inl (Or.inr ⟨x, hx, h ▸ hy⟩))
    · exact Or.inl (Or.inr ⟨x, hx, y, hy, h2, h3⟩)
    · exact Or.inr ⟨y, hy, x, hx, h2, h3⟩

/-- C15 (partition = the DDS rule): for ALL lists whose entries are expressions of the modelled subset or names without glob /
    regex characters — the empty list on one or both sides included — the verdict of the code is the DDS partition rule: some
    entry of one side matches some entry of the other, where equal strings match, an expression matches the names it describes,
    and two different expressions never match each other -/
theorem C15_partition_spec (a b : List Name) (ha : cleanList a = true) (hb : cleanList b = true) :
    partitionMatch a b = true ↔ SpecMatch a b := by
  have hp : cleanList [[]] = true := by decide
  unfold SpecMatch
  cases a with
  | nil =>
    cases b with
    | nil => exact ⟨fun _ => ⟨[], by simp [normalise], [], by simp [normalise], Or.inl rfl⟩, fun _ => by decide⟩
    | cons y ys =>
      rw [C15_partition_empty_is_default]
      have := partitionMatch_spec_nonempty [[]] (y :: ys) hp hb (by simp) (by simp)
      simpa [normalise] using this
  | cons x xs =>
    cases b with
    | nil =>
      rw [C15_partition_symmetric, C15_partition_empty_is_default, C15_partition_symmetric]
      have := partitionMatch_spec_nonempty (x :: xs) [[]] ha hp (by simp) (by simp)
      simpa [normalise] using this
    | cons y ys =>
      have := partitionMatch_spec_nonempty (x :: xs) (y :: ys) ha hb (by simp) (by simp)
      simpa [normalise] using this

example : cleanList ["A*".toList, "B1".toList] = true ∧ cleanList ["?1".toList, []] = true ∧ cleanList ["a+".toList] = false := by
  decide


/-- D20c (open): `+` is not a glob character, but the translation emits it as the regex quantifier: the name `a+` matches `aa`
    (and does not match the name `a+` through the pattern path — only through name equality) -/
theorem C15_partition_plus_counterexample :
    globMatch "a+".toList "aa".toList = true ∧ globMatch "a+".toList "a+".toList = false := by decide

/-- sanity of the glob matcher on the generator's alphabet -/
example : globMatch "A*".toList "A".toList = true ∧ globMatch "A*".toList "AB1".toList = true ∧ globMatch "A*".toList "BA".toList = false ∧
    globMatch "?1".toList "b1".toList = true ∧ globMatch "?1".toList "1".toList = false ∧
    globMatch "[a-b]1".toList "b1".toList = true ∧ globMatch "[a-b]1".toList "c1".toList = false ∧
    globMatch "[!a-b]1".toList "c1".toList = true ∧ globMatch "*".toList [] = true := by decide

end DustVerif.Partition
