import DustVerif.Proofs.HistLemmas
/-! Property C25 (TIME_BASED_FILTER): an accepted sample is at least minimum_separation after every STORED
    earlier sample of its instance, and a sample that far from all of them is not filtered.
    (Partial: samples already taken / replaced and later-stamped stored samples are not consulted by the
    code — findings D31a/D31b.) -/
namespace DustVerif.Hist

/-- `closestBefore` dominates every stored stamp of the instance that is ≤ the new stamp -/
theorem closestBefore_ge (h : Nat) (ts : Option Nat) (l : List Sample) (y : Sample) (hy : y ∈ l)
    (hi : y.inst = h) (hle : optLe y.sts ts = true) :
    ∃ c, closestBefore h ts l = some c ∧ optLe y.sts c = true := by
  induction l with
  | nil => cases hy
  | cons x xs ih =>
    unfold closestBefore
    simp only []
    rcases List.mem_cons.mp hy with hxy | hmem
    · subst hxy
      have hc : (y.inst == h && optLe y.sts ts) = true := by simp [hi, hle]
      simp only [hc, if_true]
      cases hrest : closestBefore h ts xs with
      | none => exact ⟨_, rfl, by cases y.sts <;> simp [optLe]⟩
      | some r =>
        simp only []
        by_cases hlt : optLt y.sts r = true
        · simp only [hlt, if_true]
          refine ⟨_, rfl, ?_⟩
          revert hlt; cases y.sts <;> cases r <;> simp [optLt, optLe]; omega
        · simp only [hlt, if_false]
          exact ⟨_, rfl, by cases y.sts <;> simp [optLe]⟩
    · obtain ⟨c, hc1, hc2⟩ := ih hmem
      rw [hc1]
      by_cases hcx : (x.inst == h && optLe x.sts ts) = true
      · simp only [hcx, if_true]
        by_cases hlt : optLt x.sts c = true
        · simp only [hlt, if_true]; exact ⟨_, rfl, hc2⟩
        · simp only [hlt, if_false]
          refine ⟨_, rfl, ?_⟩
          have hlt' : optLt x.sts c = false := by simpa using hlt
          revert hlt' hc2; cases y.sts <;> cases x.sts <;> cases c <;> simp [optLt, optLe]; omega
      · simp only [hcx, if_false]; exact ⟨_, rfl, hc2⟩

/-- C25 (separation, partial): if a sample with source stamp `st` is accepted, every sample of the same
    instance that is stored at that moment with a stamp `t ≤ st` satisfies `minimum_separation ≤ st - t`
    (and the separation is finite) -/
theorem C25_separation_partial (s : St) (w : Nat) (data : String) (k : Kind) (h : Nat) (st rts : Nat)
    (hadd : (addChange s w data k h (some st) rts).2 = .added)
    (y : Sample) (hy : y ∈ s.samples) (hi : y.inst = h) (t : Nat) (hyt : y.sts = some t) (hle : t ≤ st) :
    ∃ m, s.qos.minSep = some m ∧ m ≤ st - t := by
  obtain ⟨_, hc⟩ := addChange_cases s w data k h (some st) rts
  rcases hc with ⟨h1, _⟩ | ⟨h1, _⟩ | ⟨_, h1, _⟩ | ⟨_, _, _, _, _, htime, _⟩
  · rw [h1] at hadd; cases hadd
  · rw [h1] at hadd; cases hadd
  · rw [h1] at hadd; cases hadd
  · obtain ⟨c, hc1, hc2⟩ := closestBefore_ge h (some st) s.samples y hy hi (by simp [hyt, optLe, hle])
    unfold timeOk at htime
    rw [hc1] at htime
    rw [hyt] at hc2
    cases c with
    | none => simp [optLe] at hc2
    | some tc =>
      simp only [optLe, decide_eq_true_eq] at hc2
      simp only [] at htime
      cases hm : s.qos.minSep with
      | none => simp [hm] at htime
      | some m =>
        simp [hm] at htime
        exact ⟨m, rfl, by omega⟩

/-- C25 (no over-filtering): if every stored sample of the instance with a stamp ≤ `st` is at least
    `m = minimum_separation` older, the time filter lets the sample through -/
theorem C25_no_overfilter (q : Qos) (m : Nat) (hm : q.minSep = some m) (l : List Sample) (h st : Nat)
    (hfar : ∀ y ∈ l, y.inst = h → ∀ t, y.sts = some t → t ≤ st → m ≤ st - t) :
    timeOk q l h (some st) = true := by
  unfold timeOk
  cases hc : closestBefore h (some st) l with
  | none => rfl
  | some c =>
    cases c with
    | none => rfl
    | some tc =>
      simp only [hm, decide_eq_true_eq]
      -- the closest stamp is the stamp of some stored sample of the instance
      have : ∀ (l : List Sample) (tc : Nat), closestBefore h (some st) l = some (some tc) →
          ∃ y ∈ l, y.inst = h ∧ y.sts = some tc ∧ tc ≤ st := by
        intro l
        induction l with
        | nil => intro tc h0; simp [closestBefore] at h0
        | cons x xs ih =>
          intro tc h0
          unfold closestBefore at h0
          simp only [] at h0
          by_cases hcx : (x.inst == h && optLe x.sts (some st)) = true
          · simp only [hcx, if_true] at h0
            have hxi : x.inst = h := by simp at hcx; exact hcx.1
            have hxle : optLe x.sts (some st) = true := by simp at hcx; exact hcx.2
            cases hrest : closestBefore h (some st) xs with
            | none =>
              rw [hrest] at h0; simp only [] at h0
              injection h0 with h0
              refine ⟨x, List.mem_cons_self, hxi, h0, ?_⟩
              rw [h0] at hxle; simpa [optLe] using hxle
            | some r =>
              rw [hrest] at h0; simp only [] at h0
              split at h0
              · injection h0 with h0; subst h0
                obtain ⟨y, hy, hyi, hys, hyl⟩ := ih tc hrest
                exact ⟨y, List.mem_cons_of_mem _ hy, hyi, hys, hyl⟩
              · injection h0 with h0
                refine ⟨x, List.mem_cons_self, hxi, h0, ?_⟩
                rw [h0] at hxle; simpa [optLe] using hxle
          · simp only [hcx, if_false] at h0
            obtain ⟨y, hy, hyi, hys, hyl⟩ := ih tc h0
            exact ⟨y, List.mem_cons_of_mem _ hy, hyi, hys, hyl⟩
      obtain ⟨y, hy, hyi, hys, hyl⟩ := this l tc hc
      exact hfar y hy hyi tc hys hyl

/-- as-is counter-example (D31a): stamp 8 is accepted after stamp 10 with minimum_separation 3 -/
theorem C25_out_of_order_counterexample :
    let q : Qos := { depth := none, maxSamples := none, maxInst := none, maxSpi := none, bySource := false,
                     exclusive := false, minSep := some 3 }
    let s1 := (addChange (St.init q true) 1 "a" .alive 5 (some 10) 100).1
    (addChange s1 1 "b" .alive 5 (some 8) 110).2 = .added := by decide

end DustVerif.Hist
