import DustVerif.Proofs.DeriveLemmas
/-! Property C40: `#[derive(DdsType)]` describes and converts types faithfully.

    For ALL declaration trees of the model (`Model/Derive.lean`: struct / tuple struct / enum / union with every
    attribute of `attributes.rs` except default_value, try_construct, external, base_type) and ALL values:

    * `C40_roundtrip`               create_sample (create_dynamic_sample v) = v, non_serialized members defaulted, for every
                                    well-formed declaration (`good`);
    * `C40_roundtrip_identity`      … = v itself when no member is non_serialized;
    * `C40_describe_faithful`       kind, type name, extensibility, nested flag; member names, order, index, key / optional /
                                    must-understand flags are those declared;
    * `C40_describe_ids`, `C40_explicit_ids_mutable`, `C40_sequential_ids`  the member-id rule;
    * `C40_ids_distinct_partial`    ids are distinct for declarations without `hashid` that are not mutable or whose
                                    explicit ids ascend;
    * `C40_describe_union`          discriminator member, labels and default flags of a union.

    FALSE for the code as it is (witness + replay in vlib/props/C40.py corpus + known finding):
    * explicit ids respected in final/appendable structs   `C40_explicit_ids_counterexample`            D-gen-2
    * enumerators published                                `C40_enum_literals_counterexample`           D-gen-3
    REPAIRED (model = repaired code; the old behaviour is kept as `…_old_counterexample` on an `…Old` model function):
    * ids distinct for every accepted declaration          `C40_ids_distinct`                           D-gen-1
    * `Vec<i8>` described as sequence of INT8              `C40_describe_vec_elem`                      D-gen-4
    * round trip for unions whose default is not last      `C40_roundtrip_default_first`                D-gen-5
    * round trip with colliding (implicit) labels          `C40_roundtrip_label_collision_counterexample` D-gen-6/7 -/
namespace DustVerif.Derive

/-! ### round trip -/

/-- `create_sample(create_dynamic_sample(v))` returns `v` with the non_serialized members replaced by their default,
    for EVERY declaration that is supported (compiles, inside the modelled language) and well-formed (`good`: distinct
    member ids, `Option` members marked optional, union labels select their own variant) and EVERY value of it.
    Excluded by `good`, each with its own counterexample below: colliding first labels
    (D-gen-6/7), `None` in a bare `Option` (documented panic). The position of a `default` variant no longer matters (D-gen-5 repaired). -/
theorem C40_roundtrip (t : Ty) (v : Val) (hd : t.isDecl = true) (hs : supported t = true) (hg : good t = true)
    (ht : hasType t v = true) : roundTrip t v = .ok (scrub t v) := by
  obtain ⟨x, h1, h2⟩ := rtTy t v hs hg ht (by cases t <;> simp [Ty.isDecl, Ty.isOpt] at hd ⊢)
  have hshape := toStorage_shape t (by cases t <;> simp_all [Ty.isDecl, Ty.isElem]) v x h1
  cases t with
  | struct h fs =>
    cases x <;> simp [shapeOf] at hshape
    simp [roundTrip, createDynamic, createSample, h1, h2]
  | enum h =>
    cases x <;> simp [shapeOf] at hshape
    simp [roundTrip, createDynamic, createSample, h1, h2]
  | union h us =>
    cases x <;> simp [shapeOf] at hshape
    simp [roundTrip, createDynamic, createSample, h1, h2]
  | prim _ => simp [Ty.isDecl] at hd
  | vec _ => simp [Ty.isDecl] at hd
  | arr _ _ => simp [Ty.isDecl] at hd
  | opt _ => simp [Ty.isDecl] at hd

/-- without non_serialized members the round trip is the identity -/
theorem C40_roundtrip_identity (t : Ty) (v : Val) (hd : t.isDecl = true) (hs : supported t = true) (hg : good t = true)
    (hn : noNonSer t = true) (ht : hasType t v = true) : roundTrip t v = .ok v := by
  rw [C40_roundtrip t v hd hs hg ht, scrub_id t v hn ht]

/-- a non_serialized member comes back as its default whatever it held -/
theorem C40_roundtrip_non_serialized (h : StructHdr) (a : FieldAttr) (t : Ty) (r : Fields) (v : Val) (vs : List Val)
    (hs : supported (.struct h (.cons a t r)) = true) (hg : good (.struct h (.cons a t r)) = true)
    (ht : hasType (.struct h (.cons a t r)) (.struct (v :: vs)) = true) (hn : a.nonSerialized = true) :
    roundTrip (.struct h (.cons a t r)) (.struct (v :: vs)) = .ok (.struct (defaultVal t :: scrubFields r vs)) := by
  rw [C40_roundtrip _ _ rfl hs hg ht]
  simp [scrub, scrubFields, hn]

/-! non-vacuity: a mutable struct with key, explicit id, optional Option<Vec<u8>>, non_serialized member, a nested appendable
    struct, an enum with gaps and a union with a default as LAST variant is supported and good; a value of it has the type. -/
def exInner : Ty := .struct { ident := "In", rename := none, ext := .appendable, nested := true, tuple := false }
  (.cons { name := "k", key := true, id := none, optional := false, nonSerialized := false, hashid := false } (.prim .i32)
  (.cons { name := "s", key := false, id := none, optional := false, nonSerialized := false, hashid := false } (.prim .string) .nil))
def exEnum : Ty := .enum { ident := "E", rename := none, nested := false, bits := 8, variants := [("A", some 1), ("B", none), ("C", some 10)], dflt := 1 }
def exUnion : Ty := .union { ident := "U", rename := none, ext := .final, nested := false, disc := .i16, discKey := false }
  (.data { name := "X", cases := [5, 7], isDefault := false, field := none } (.prim .u8)
  (.unit { name := "Y", cases := [6], isDefault := false, field := none }
  (.data { name := "D", cases := [], isDefault := true, field := some "inner" } exInner .nil)))
def exOuter : Ty := .struct { ident := "Out", rename := some "my::Out", ext := .mutable, nested := false, tuple := false }
  (.cons { name := "id", key := true, id := some 3, optional := false, nonSerialized := false, hashid := false } (.prim .u64)
  (.cons { name := "o", key := false, id := none, optional := true, nonSerialized := false, hashid := false } (.opt (.vec (.prim .u8)))
  (.cons { name := "skip", key := false, id := none, optional := false, nonSerialized := true, hashid := false } (.prim .u32)
  (.cons { name := "e", key := false, id := some 10, optional := false, nonSerialized := false, hashid := false } (.vec exEnum)
  (.cons { name := "u", key := false, id := none, optional := false, nonSerialized := false, hashid := false } exUnion .nil)))))
def exVal : Val := .struct [.i 7, .some (.list [.i 1, .i 2]), .i 99, .list [.enumv 2, .enumv 0],
  .unionv 2 (some (.struct [.i (-1), .s "x"]))]

example : exOuter.isDecl = true ∧ supported exOuter = true ∧ good exOuter = true ∧ hasType exOuter exVal = true := by decide
example : roundTrip exOuter exVal = .ok (.struct [.i 7, .some (.list [.i 1, .i 2]), .i 0, .list [.enumv 2, .enumv 0],
    .unionv 2 (some (.struct [.i (-1), .s "x"]))]) := by
  rw [C40_roundtrip exOuter exVal (by decide) (by decide) (by decide) (by decide)]; rfl

/-! #### as-is counterexamples (replayed on the real macro: corpus of vlib/props/C40.py) -/

def exDup : Ty := .struct { ident := "C1Dup", rename := none, ext := .mutable, nested := false, tuple := false }
  (.cons { name := "a", key := false, id := none, optional := false, nonSerialized := false, hashid := false } (.prim .u8)
  (.cons { name := "b", key := false, id := none, optional := false, nonSerialized := false, hashid := false } (.prim .u16)
  (.cons { name := "c", key := false, id := some 1, optional := false, nonSerialized := false, hashid := false } (.prim .u32) .nil)))

/-- regression witness D-gen-1 — AS IT WAS: `a`, `b`, `#[dust_dds(id = 1)] c` in a mutable struct: `b` and `c` both get id 1 and
    the macro accepted it (every value then decoded to `None`); REPAIRED (fixes/D-gen-1.patch): it is a compile error now -/
theorem C40_ids_distinct_old_counterexample :
    supportedStructOld { ident := "C1Dup", rename := none, ext := .mutable, nested := false, tuple := false }
      (.cons { name := "a", key := false, id := none, optional := false, nonSerialized := false, hashid := false } (.prim .u8)
      (.cons { name := "b", key := false, id := none, optional := false, nonSerialized := false, hashid := false } (.prim .u16)
      (.cons { name := "c", key := false, id := some 1, optional := false, nonSerialized := false, hashid := false } (.prim .u32) .nil)))
      = true ∧
    memberIds { ident := "C1Dup", rename := none, ext := .mutable, nested := false, tuple := false }
      (.cons { name := "a", key := false, id := none, optional := false, nonSerialized := false, hashid := false } (.prim .u8)
      (.cons { name := "b", key := false, id := none, optional := false, nonSerialized := false, hashid := false } (.prim .u16)
      (.cons { name := "c", key := false, id := some 1, optional := false, nonSerialized := false, hashid := false } (.prim .u32) .nil)))
      = [0, 1, 1] ∧
    supported exDup = false := by decide

def exDefaultFirst : Ty := .union { ident := "C5Union", rename := none, ext := .final, nested := false, disc := .i32, discKey := false }
  (.data { name := "Dflt", cases := [], isDefault := true, field := none } (.prim .u8)
  (.data { name := "X", cases := [5], isDefault := false, field := none } (.prim .i16) .nil))

/-- D-gen-5, REPAIRED (fixes/D-gen-5.patch: the `_` arm is emitted last): `#[dust_dds(default)] Dflt(u8), #[dust_dds(case = 5)] X(i16)`
    is well-formed — a default variant may stand anywhere — and `X(3)` round-trips -/
theorem C40_roundtrip_default_first :
    supported exDefaultFirst = true ∧ good exDefaultFirst = true ∧
      roundTrip exDefaultFirst (.unionv 1 (some (.i 3))) = .ok (.unionv 1 (some (.i 3))) ∧
      roundTrip exDefaultFirst (.unionv 0 (some (.i 7))) = .ok (.unionv 0 (some (.i 7))) := by
  refine ⟨by decide, by decide, ?_, ?_⟩
  · rw [C40_roundtrip exDefaultFirst _ (by decide) (by decide) (by decide) (by decide)]; rfl
  · rw [C40_roundtrip exDefaultFirst _ (by decide) (by decide) (by decide) (by decide)]; rfl

/-- D-gen-5 REPAIRED — the FULL statement for unions: EVERY union whose variants write pairwise distinct labels (first `case`, or
    index + 1) and which has at most one `default` variant — at ANY position — converts every value to dynamic data and back
    (payload types well-formed, no bare `Option` payload: `goodVariants`). Before the fix this needed "no variant after the default one". -/
theorem C40_roundtrip_union (h : UnionHdr) (us : Variants) (v : Val) (hs : supported (.union h us) = true)
    (hl : labelsDistinct us = true) (hg : goodVariants us = true) (ht : hasType (.union h us) v = true) :
    roundTrip (.union h us) v = .ok (scrub (.union h us) v) :=
  C40_roundtrip (.union h us) v rfl hs (by simp [good, selects_of_labelsDistinct us hl, hg]) ht

example : labelsDistinct (match exDefaultFirst with | .union _ us => us | _ => .nil) = true ∧
    labelsDistinct (match exUnion with | .union _ us => us | _ => .nil) = true := by decide

/-- regression witness: AS IT WAS before the fix, the `_` arm of `Dflt` stood first in the generated `match`, so `X(3)` was read
    through `Dflt`'s arm, whose member is absent: `None` (replayed on the unrepaired macro in round 1) -/
theorem C40_roundtrip_default_first_old_counterexample :
    roundTripUnionOld { ident := "C5Union", rename := none, ext := .final, nested := false, disc := .i32, discKey := false }
      (.data { name := "Dflt", cases := [], isDefault := true, field := none } (.prim .u8)
      (.data { name := "X", cases := [5], isDefault := false, field := none } (.prim .i16) .nil))
      (.unionv 1 (some (.i 3))) = .none := rfl

def exCollide : Ty := .union { ident := "C6Union", rename := none, ext := .final, nested := false, disc := .u8, discKey := false }
  (.data { name := "A", cases := [2], isDefault := false, field := none } (.prim .u8)
  (.data { name := "B", cases := [], isDefault := false, field := none } (.prim .u8)
  (.unit { name := "C", cases := [], isDefault := false, field := none } .nil)))

/-- D-gen-6/7: a variant without `case` gets label index + 1 (README: "the 0-indexed index"), here 2 = the explicit label of `A`:
    `B(9)` is written with discriminator 2 and read through `A`'s arm: `None` -/
theorem C40_roundtrip_label_collision_counterexample :
    supported exCollide = true ∧ hasType exCollide (.unionv 1 (some (.i 9))) = true ∧
      (describe exCollide).infos.map (·.labels) = [[], [2], [2], [3]] ∧
      roundTrip exCollide (.unionv 1 (some (.i 9))) = .none := by
  refine ⟨by decide, by decide, by decide, rfl⟩

/-- documented behaviour, excluded by `good`: `None` in an `Option` member without `#[dust_dds(optional)]` panics
    (data_storage.rs:663 "Only options with value are converted …") -/
theorem C40_roundtrip_bare_option_counterexample :
    roundTrip (.struct { ident := "C9Bare", rename := none, ext := .final, nested := false, tuple := false }
      (.cons { name := "o", key := false, id := none, optional := false, nonSerialized := false, hashid := false } (.opt (.prim .u8)) .nil))
      (.struct [.none]) = .panic := rfl

/-! ### description -/

/-- The published `DynamicType` of a struct is the declaration: kind STRUCTURE, the (re)name, extensibility and nested flag
    as declared, one member per field IN ORDER, each with the declared name (its position for tuple structs), its position
    as index, the declared key and optional flags, and must-understand = key. -/
theorem C40_describe_faithful (h : StructHdr) (fs : Fields) :
    (describe (.struct h fs)).kind = .structure ∧
    (describe (.struct h fs)).name = h.rename.getD h.ident ∧
    (describe (.struct h fs)).ext = h.ext ∧
    (describe (.struct h fs)).nested = h.nested ∧
    (describe (.struct h fs)).infos.length = fs.attrs.length ∧
    ∀ (i : Nat) (a : FieldAttr), fs.attrs[i]? = some a →
      ∃ m, (describe (.struct h fs)).infos[i]? = some m ∧
        m.name = (if h.tuple then toString i else a.name) ∧ m.index = i ∧
        m.key = a.key ∧ m.optional = a.optional ∧ m.mustUnderstand = a.key ∧ m.labels = [] ∧ m.isDefault = false := by
  refine ⟨rfl, rfl, rfl, rfl, ?_, ?_⟩
  · simp [describe, TypeDesc.infos, TypeDesc.members, infos_length]
  · intro i a ha
    obtain ⟨n', hn⟩ := infos_get h.ext h.tuple fs 0 0 i a ha
    refine ⟨_, by simpa [describe, TypeDesc.infos, TypeDesc.members] using hn, ?_⟩
    simp [fieldInfo, memberName]

example : (describe exOuter).infos.map (·.name) = ["id", "o", "skip", "e", "u"] ∧
    (describe exOuter).infos.map (·.key) = [true, false, false, false, false] ∧
    (describe exOuter).infos.map (·.optional) = [false, true, false, false, false] := by decide

/-- the published member ids are `memberIds` (the id rule of type_support.rs:56-99) -/
theorem C40_describe_ids (h : StructHdr) (fs : Fields) :
    (describe (.struct h fs)).infos.map (·.id) = memberIds h fs := by
  simp [describe, TypeDesc.infos, TypeDesc.members, memberIds, infos_describeFields]

/-- in a MUTABLE struct an explicit `id = n` (without `hashid`) is the member's id -/
theorem C40_explicit_ids_mutable (h : StructHdr) (fs : Fields) (hm : h.ext = .mutable) (i n : Nat) (a : FieldAttr)
    (ha : fs.attrs[i]? = some a) (hh : a.hashid = false) (hi : a.id = some n) :
    ((describe (.struct h fs)).infos.map (·.id))[i]? = some n := by
  rw [C40_describe_ids, memberIds, hm]
  exact idsFrom_explicit h.tuple fs.attrs 0 0 i a n ha hh hi

example : ((describe exOuter).infos.map (·.id)) = [3, 4, 5, 10, 11] := by decide

/-- D-gen-2 — FALSE in general: in a final or appendable struct an explicit id is ignored (type_support.rs:78-80) -/
theorem C40_explicit_ids_counterexample :
    (describe (.struct { ident := "C2Ign", rename := none, ext := .appendable, nested := false, tuple := false }
      (.cons { name := "a", key := false, id := some 10, optional := false, nonSerialized := false, hashid := false } (.prim .u8)
      (.cons { name := "b", key := false, id := none, optional := false, nonSerialized := false, hashid := false } (.prim .i32) .nil)))).infos.map (·.id)
      = [0, 1] := by decide

/-- what holds for final / appendable structs instead: the id of a member without `hashid` is its position -/
theorem C40_explicit_ids_partial (h : StructHdr) (fs : Fields) (hm : h.ext ≠ .mutable) (i : Nat) (a : FieldAttr)
    (ha : fs.attrs[i]? = some a) (hh : a.hashid = false) :
    ∃ m, (describe (.struct h fs)).infos[i]? = some m ∧ m.id = i := by
  obtain ⟨n', hn⟩ := infos_get h.ext h.tuple fs 0 0 i a ha
  refine ⟨_, by simpa [describe, TypeDesc.infos, TypeDesc.members] using hn, ?_⟩
  cases he : h.ext <;> simp_all [fieldInfo, memberId]

/-- sequential ids: a member without `id` and `hashid` that follows a member without `hashid` gets that member's id + 1
    (in every extensibility; after an explicit id the count continues from it) -/
theorem C40_sequential_ids (h : StructHdr) (fs : Fields) (i : Nat) (a b : FieldAttr)
    (ha : fs.attrs[i]? = some a) (hb : fs.attrs[i + 1]? = some b)
    (hah : a.hashid = false) (hbh : b.hashid = false) (hbi : b.id = none) :
    ∃ x, ((describe (.struct h fs)).infos.map (·.id))[i]? = some x ∧
         ((describe (.struct h fs)).infos.map (·.id))[i + 1]? = some (x + 1) := by
  rw [C40_describe_ids, memberIds]
  exact idsFrom_consecutive h.ext h.tuple fs.attrs 0 0 i a b ha hb hah hbh hbi

/-- and the first member, without `id` / `hashid`, gets id 0 -/
theorem C40_sequential_ids_first (h : StructHdr) (a : FieldAttr) (t : Ty) (r : Fields)
    (hh : a.hashid = false) (hi : a.id = none) :
    ((describe (.struct h (.cons a t r))).infos.map (·.id))[0]? = some 0 := by
  rw [C40_describe_ids, memberIds]
  cases he : h.ext <;> simp [Fields.attrs, idsFrom, memberId, hh, hi]

/-- Member ids are pairwise distinct when no member uses `hashid` and either the struct is final / appendable, or it is
    mutable and the explicit ids are given in ascending order (`explicitAscending`: each one at least the running
    `next_auto_id`). EXCLUDED: an explicit id below an earlier id (`C40_ids_distinct_counterexample`, D-gen-1) and
    `hashid` members (an MD5 value may coincide with any other id; nothing checks it). -/
theorem C40_ids_distinct_partial (h : StructHdr) (fs : Fields) (hh : noHash fs.attrs = true)
    (hx : h.ext ≠ .mutable ∨ explicitAscending 0 fs.attrs = true) :
    nodupNat ((describe (.struct h fs)).infos.map (·.id)) = true := by
  rw [C40_describe_ids, memberIds]
  by_cases hm : h.ext = .mutable
  · rcases hx with hx | hx
    · exact absurd hm hx
    · rw [hm]; exact (idsFrom_mutable_ge h.tuple fs.attrs 0 0 hh hx).2
  · exact (idsFrom_positional h.ext h.tuple hm fs.attrs 0 0 hh).2

example : noHash (match exOuter with | .struct _ fs => fs.attrs | _ => []) = true ∧
    explicitAscending 0 (match exOuter with | .struct _ fs => fs.attrs | _ => []) = true := by decide

/-- REPAIRED (fixes/D-gen-1.patch) — FULL statement: the member ids of EVERY struct the macro accepts are pairwise distinct
    (explicit, sequential and hashed ids alike: a repeated id is a compile error) -/
theorem C40_ids_distinct (h : StructHdr) (fs : Fields) (hs : supported (.struct h fs) = true) :
    nodupNat ((describe (.struct h fs)).infos.map (·.id)) = true := by
  rw [C40_describe_ids]
  simp only [supported, Bool.and_eq_true] at hs
  exact hs.1.2

example : supported exOuter = true := by decide

/-- a union publishes the discriminator as member 0 (key flag as declared, must-understand) and one member per variant
    with id = index = position + 1 and the declared default flag -/
theorem C40_describe_union (h : UnionHdr) (us : Variants) :
    (describe (.union h us)).kind = .union ∧ (describe (.union h us)).name = h.rename.getD h.ident ∧
    (describe (.union h us)).ext = h.ext ∧ (describe (.union h us)).nested = h.nested ∧
    (describe (.union h us)).infos.head? =
      some { name := "discriminator", id := 0, index := 0, key := h.discKey, optional := false, mustUnderstand := true,
             labels := [], isDefault := false } := by
  refine ⟨rfl, rfl, rfl, rfl, ?_⟩
  simp [describe, TypeDesc.infos, TypeDesc.members, MemberDescs.infos]

theorem infos_describeVariants : ∀ (us : Variants) (idx i : Nat) (a : VarAttr), us.attrs[i]? = some a →
    (describeVariants idx us).infos[i]? = some (variantInfo (idx + i) a)
  | .nil, _, i, a, h => by simp [Variants.attrs] at h
  | .unit b r, idx, 0, a, h => by simp [Variants.attrs] at h; subst h; simp [describeVariants, MemberDescs.infos]
  | .data b t r, idx, 0, a, h => by simp [Variants.attrs] at h; subst h; simp [describeVariants, MemberDescs.infos]
  | .unit b r, idx, i + 1, a, h => by
    simp [Variants.attrs] at h
    have e : idx + 1 + i = idx + (i + 1) := by omega
    simp [describeVariants, MemberDescs.infos, infos_describeVariants r (idx + 1) i a h, e]
  | .data b t r, idx, i + 1, a, h => by
    simp [Variants.attrs] at h
    have e : idx + 1 + i = idx + (i + 1) := by omega
    simp [describeVariants, MemberDescs.infos, infos_describeVariants r (idx + 1) i a h, e]

/-- the i-th variant is member i + 1: declared name, id = index = i + 1, declared default flag, and — when `case`s are
    given — exactly the declared labels -/
theorem C40_describe_union_variants (h : UnionHdr) (us : Variants) (i : Nat) (a : VarAttr) (ha : us.attrs[i]? = some a) :
    ∃ m, (describe (.union h us)).infos[i + 1]? = some m ∧ m.name = a.name ∧ m.id = i + 1 ∧ m.index = i + 1 ∧
      m.isDefault = a.isDefault ∧ m.key = false ∧ m.optional = false ∧ (a.cases ≠ [] → m.labels = a.cases) := by
  refine ⟨variantInfo i a, ?_, rfl, rfl, rfl, rfl, rfl, rfl, ?_⟩
  · have := infos_describeVariants us 0 i a ha
    simpa [describe, TypeDesc.infos, TypeDesc.members, MemberDescs.infos] using this
  · intro hne
    cases hc : a.cases <;> simp_all [variantInfo, variantLabels]

/-- D-gen-3 — the enumerators are NOT part of the published type: the member list of EVERY enum is empty (type_support.rs:606-611) -/
theorem C40_enum_literals_counterexample (h : EnumHdr) : (describe (.enum h)).infos = [] := rfl

/-- what an enum does publish: kind, name, nested flag, and the discriminator type selected by `bit_bound` -/
theorem C40_describe_enum (h : EnumHdr) :
    (describe (.enum h)).kind = .enum ∧ (describe (.enum h)).name = h.rename.getD h.ident ∧
    (describe (.enum h)).nested = h.nested ∧ (describe (.enum h)).ext = .final := ⟨rfl, rfl, rfl, rfl⟩

/-- D-gen-4, REPAIRED (fixes/D-gen-4.patch): a `Vec<P>` of ANY primitive publishes a SEQUENCE whose element type is `P`'s own type,
    like `[P; N]` does -/
theorem C40_describe_vec_elem (p : Prim) (n : Nat) :
    describe (.vec (.prim p)) = .mk .sequence "" .final false [U32MAX] (.some (primDesc p)) .none .nil ∧
    describe (.arr (.prim p) n) = .mk .array "" .final false [n] (.some (primDesc p)) .none .nil := ⟨rfl, rfl⟩

example : (match describe (.vec (.prim .i8)) with | .mk _ _ _ _ _ (.some e) _ _ => e.kind | _ => .none) = .int8 := by decide

/-- regression witness: AS IT WAS, `impl Type for Vec<i8>` named `u8::TYPE` (xtypes/type_support.rs:382) -/
theorem C40_vec_i8_old_counterexample : primKind (vecPrimElemOld .i8) = .uint8 ∧ primKind (vecPrimElemOld .u8) = .uint8 := by decide

end DustVerif.Derive
