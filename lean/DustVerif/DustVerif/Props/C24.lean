import DustVerif.Proofs.HistLemmas
import DustVerif.Model.HistOps
/-! Property C24 (EXCLUSIVE ownership): a sample from a writer that is not stronger than the current owner
    of the instance is never stored; a strictly stronger matched writer passes the ownership filter and
    becomes the owner. -/
namespace DustVerif.Hist

/-- a non-owner that is not strictly stronger than the owner is filtered -/
theorem ownershipFilter_blocks (s1 : St) (w h rts : Nat) (o : Own) (so sw : Int)
    (hex : s1.qos.exclusive = true) (ho : findOwn h s1.owns = some o)
    (hso : findPub o.owner s1.pubs = some so) (hsw : findPub w s1.pubs = some sw)
    (hne : o.owner ≠ w) (hle : sw ≤ so) : ownershipFilter s1 w h rts = none := by
  unfold ownershipFilter
  simp [hex, ho, hso, hsw, hne, hle]

/-- C24: with EXCLUSIVE ownership, a change from a matched writer `w` that is not the owner and whose strength
    does not exceed the owner's is not added and leaves the stored samples untouched (ties keep the first owner) -/
theorem C24_non_owner_not_stored (s : St) (w : Nat) (data : String) (k : Kind) (h : Nat) (sts : Option Nat)
    (rts : Nat) (o : Own) (so sw : Int)
    (hex : s.qos.exclusive = true) (ho : findOwn h s.owns = some o)
    (hso : findPub o.owner s.pubs = some so) (hsw : findPub w s.pubs = some sw)
    (hne : o.owner ≠ w) (hle : sw ≤ so) :
    ((addChange s w data k h sts rts).2 = .notAdded ∨ (addChange s w data k h sts rts).2 = .error) ∧
    (addChange s w data k h sts rts).1.samples = s.samples ∧
    (addChange s w data k h sts rts).1.owns = s.owns := by
  generalize hr : addChange s w data k h sts rts = r
  unfold addChange at hr
  split at hr
  · subst hr; exact ⟨Or.inr rfl, rfl, rfl⟩
  · rename_i insts1 _
    have hb := ownershipFilter_blocks { s with insts := insts1 } w h rts o so sw hex ho hso hsw hne hle
    simp only [hb] at hr
    subst hr; exact ⟨Or.inl rfl, rfl, rfl⟩

/-- a change from a writer that is not matched (unknown strength) is dropped when the instance has an owner -/
theorem C24_unmatched_writer_not_stored (s : St) (w : Nat) (data : String) (k : Kind) (h : Nat) (sts : Option Nat)
    (rts : Nat) (o : Own) (hex : s.qos.exclusive = true) (ho : findOwn h s.owns = some o)
    (hsw : findPub w s.pubs = none) :
    (addChange s w data k h sts rts).1.samples = s.samples := by
  generalize hr : addChange s w data k h sts rts = r
  unfold addChange at hr
  split at hr
  · subst hr; rfl
  · rename_i insts1 _
    have hb : ownershipFilter { s with insts := insts1 } w h rts = none := by
      unfold ownershipFilter
      simp only [hex, ho, hsw, if_true]
      cases findPub o.owner s.pubs <;> simp
    simp only [hb] at hr
    subst hr; rfl

/-- a strictly stronger matched writer passes the filter and is recorded as the owner -/
theorem C24_stronger_takes_over (s1 : St) (w h rts : Nat) (o : Own) (so sw : Int)
    (hex : s1.qos.exclusive = true) (ho : findOwn h s1.owns = some o)
    (hso : findPub o.owner s1.pubs = some so) (hsw : findPub w s1.pubs = some sw) (hgt : so < sw) :
    ownershipFilter s1 w h rts = some (mapOwn h (fun o => { o with owner := w }) s1.owns) := by
  unfold ownershipFilter
  have : ¬ sw ≤ so := by omega
  simp [hex, ho, hso, hsw, this]

/-- after a take-over the recorded owner of the instance is the new writer -/
theorem findOwn_mapOwn_owner (h w : Nat) (l : List Own) (o : Own) (ho : findOwn h l = some o) :
    ∃ o', findOwn h (mapOwn h (fun o => { o with owner := w }) l) = some o' ∧ o'.owner = w := by
  induction l with
  | nil => simp [findOwn] at ho
  | cons x xs ih =>
    unfold findOwn at ho
    unfold mapOwn
    by_cases hx : x.inst = h
    · simp only [hx, if_true]
      exact ⟨{ x with owner := w }, by simp [findOwn, hx], rfl⟩
    · simp only [hx, if_false] at ho ⊢
      obtain ⟨o', h1, h2⟩ := ih ho
      exact ⟨o', by simp [findOwn, hx, h1], h2⟩

/-- SHARED ownership never filters by writer -/
theorem C24_shared_never_filters (s1 : St) (w h rts : Nat) (hex : s1.qos.exclusive = false) :
    ownershipFilter s1 w h rts = some s1.owns := by
  unfold ownershipFilter; simp [hex]

def exQos24 : Qos :=
  { depth := none
    maxSamples := none
    maxInst := none
    maxSpi := none
    bySource := false
    exclusive := true
    minSep := some 0 }

/-- non-vacuity: owner strength 10 writes, weaker writer (1) is dropped, stronger (20) is stored -/
example :
    let s0 := addPub (addPub (addPub (St.init exQos24 true) 1 10) 2 1) 3 20
    let s1 := (addChange s0 1 "a" .alive 5 (some 10) 100).1
    (addChange s1 2 "b" .alive 5 (some 20) 200).2 = .notAdded ∧
    (addChange s1 3 "c" .alive 5 (some 30) 300).2 = .added := by decide

/-- ownership entries are unique per instance (invariant of the model: entries are only appended when absent) -/
def OwnUnique : List Own → Prop
  | [] => True
  | o :: os => findOwn o.inst os = none ∧ OwnUnique os

theorem findOwn_eraseOwn_unique (h : Nat) (l : List Own) (hu : OwnUnique l) : findOwn h (eraseOwn h l) = none := by
  induction l with
  | nil => rfl
  | cons x xs ih =>
    unfold eraseOwn
    by_cases hx : x.inst = h
    · simp only [hx, if_true]
      have := hu.1; rw [hx] at this; exact this
    · simp only [hx, if_false, findOwn]
      exact ih hu.2

/-- with no ownership entry for the instance every writer passes the filter and becomes the owner -/
theorem ownershipFilter_free (s1 : St) (w h rts : Nat) (hex : s1.qos.exclusive = true)
    (hfree : findOwn h s1.owns = none) :
    ownershipFilter s1 w h rts = some (s1.owns ++ [{ inst := h, owner := w, lastRecv := rts }]) := by
  unfold ownershipFilter
  simp [hex, hfree]

theorem findOwn_mapOwn_none (h h' : Nat) (f : Own → Own) (hf : ∀ o, (f o).inst = o.inst) (l : List Own)
    (hn : findOwn h l = none) : findOwn h (mapOwn h' f l) = none := by
  induction l with
  | nil => rfl
  | cons x xs ih =>
    unfold findOwn at hn
    by_cases hx : x.inst = h
    · simp [hx] at hn
    · simp only [hx, if_false] at hn
      unfold mapOwn
      by_cases hx' : x.inst = h'
      · simp only [hx', if_true, findOwn, hf]
        rw [hx'] at hx
        simp [hx, hn]
      · simp only [hx', if_false, findOwn, hx]
        exact ih hn

theorem ownUnique_mapOwn (h' : Nat) (f : Own → Own) (hf : ∀ o, (f o).inst = o.inst) (l : List Own)
    (hu : OwnUnique l) : OwnUnique (mapOwn h' f l) := by
  induction l with
  | nil => trivial
  | cons x xs ih =>
    unfold mapOwn
    by_cases hx : x.inst = h'
    · simp only [hx, if_true]
      exact ⟨by rw [hf]; exact hu.1, hu.2⟩
    · simp only [hx, if_false]
      exact ⟨findOwn_mapOwn_none x.inst h' f hf xs hu.1, ih hu.2⟩

theorem findOwn_append_none (h : Nat) (l : List Own) (x : Own) (hn : findOwn h l = none) (hx : x.inst ≠ h) :
    findOwn h (l ++ [x]) = none := by
  induction l with
  | nil => simp [findOwn, hx]
  | cons y ys ih =>
    unfold findOwn at hn
    by_cases hy : y.inst = h
    · simp [hy] at hn
    · simp only [hy, if_false] at hn
      simp [findOwn, hy, ih hn]

theorem ownUnique_append (l : List Own) (x : Own) (hu : OwnUnique l) (hn : findOwn x.inst l = none) :
    OwnUnique (l ++ [x]) := by
  induction l with
  | nil => exact ⟨rfl, trivial⟩
  | cons y ys ih =>
    unfold findOwn at hn
    by_cases hy : y.inst = x.inst
    · simp [hy] at hn
    · simp only [hy, if_false] at hn
      exact ⟨findOwn_append_none y.inst ys x hu.1 (fun e => hy e.symm), ih hu.2 hn⟩

theorem findOwn_eraseOwn_other (h h' : Nat) (l : List Own) (hn : findOwn h l = none) :
    findOwn h (eraseOwn h' l) = none := by
  induction l with
  | nil => rfl
  | cons x xs ih =>
    unfold findOwn at hn
    by_cases hx : x.inst = h
    · simp [hx] at hn
    · simp only [hx, if_false] at hn
      unfold eraseOwn
      by_cases hx' : x.inst = h'
      · simp only [hx', if_true]; exact hn
      · simp only [hx', if_false, findOwn, hx]; exact ih hn

theorem ownUnique_eraseOwn (h' : Nat) (l : List Own) (hu : OwnUnique l) : OwnUnique (eraseOwn h' l) := by
  induction l with
  | nil => trivial
  | cons x xs ih =>
    unfold eraseOwn
    by_cases hx : x.inst = h'
    · simp only [hx, if_true]; exact hu.2
    · simp only [hx, if_false]
      exact ⟨findOwn_eraseOwn_other x.inst h' xs hu.1, ih hu.2⟩

theorem findOwn_dropOwner_none (h w : Nat) (l : List Own) (hn : findOwn h l = none) :
    findOwn h (dropOwner w l) = none := by
  induction l with
  | nil => rfl
  | cons x xs ih =>
    unfold findOwn at hn
    by_cases hx : x.inst = h
    · simp [hx] at hn
    · simp only [hx, if_false] at hn
      unfold dropOwner
      by_cases hw : x.owner = w
      · simp only [hw, if_true]; exact ih hn
      · simp only [hw, if_false, findOwn, hx]; exact ih hn

theorem ownUnique_dropOwner (w : Nat) (l : List Own) (hu : OwnUnique l) : OwnUnique (dropOwner w l) := by
  induction l with
  | nil => trivial
  | cons x xs ih =>
    unfold dropOwner
    by_cases hw : x.owner = w
    · simp only [hw, if_true]; exact ih hu.2
    · simp only [hw, if_false]
      exact ⟨findOwn_dropOwner_none x.inst w xs hu.1, ih hu.2⟩

theorem ownershipFilter_unique (s1 : St) (w h rts : Nat) (o2 : List Own) (hu : OwnUnique s1.owns)
    (hf : ownershipFilter s1 w h rts = some o2) : OwnUnique o2 := by
  unfold ownershipFilter at hf
  cases hex : s1.qos.exclusive with
  | false =>
    simp only [hex, Bool.false_eq_true, if_false] at hf
    injection hf with hf; subst hf; exact hu
  | true =>
    cases ho : findOwn h s1.owns with
    | none =>
      simp only [hex, ho, if_true, Bool.false_eq_true, if_false] at hf
      injection hf with hf; subst hf
      exact ownUnique_append s1.owns _ hu ho
    | some o =>
      simp only [hex, ho, if_true] at hf
      split at hf
      · split at hf
        · cases hf
        · injection hf with hf; subst hf
          exact ownUnique_mapOwn h (fun o => { o with owner := w }) (fun _ => rfl) s1.owns hu
      · simp at hf

/-- the ownership list never holds two entries for one instance: invariant of `addChange` -/
theorem addChange_ownUnique (s : St) (w : Nat) (data : String) (k : Kind) (h : Nat) (sts : Option Nat) (rts : Nat)
    (hu : OwnUnique s.owns) : OwnUnique (addChange s w data k h sts rts).1.owns := by
  generalize hr : addChange s w data k h sts rts = r
  unfold addChange at hr
  split at hr
  · subst hr; exact hu
  · rename_i insts1 _
    simp only [] at hr
    split at hr
    · subst hr; exact hu
    · rename_i owns2 hof
      have huo : OwnUnique owns2 := ownershipFilter_unique { s with insts := insts1 } w h rts owns2 hu hof
      unfold afterOwnership at hr
      cases hk : k.isAliveKind with
      | true =>
        simp only [mkSample, hk, if_true] at hr
        split at hr
        · subst hr; exact huo
        · unfold finishAdd at hr
          simp only [hk, if_true] at hr
          split at hr
          · subst hr; exact huo
          · split at hr
            · subst hr; exact huo
            · split at hr
              · subst hr; exact huo
              · subst hr
                simp only []
                split
                · exact ownUnique_mapOwn _ _ (fun o => by split <;> rfl) _ huo
                · rename_i hnone
                  exact ownUnique_append _ _ huo hnone
      | false =>
        simp only [mkSample, hk, Bool.false_eq_true, if_false] at hr
        have hu3 := ownUnique_eraseOwn h owns2 huo
        split at hr
        · subst hr; exact hu3
        · unfold finishAdd at hr
          simp only [hk, Bool.false_eq_true, if_false] at hr
          split at hr
          · subst hr; exact hu3
          · split at hr
            · subst hr; exact hu3
            · split at hr
              · subst hr; exact hu3
              · subst hr; exact hu3

/-- C24 (invariant): in every reachable state each instance has at most one ownership entry -/
theorem C24_owner_unique (q : Qos) (en : Bool) (ops : List Op) : OwnUnique (run (St.init q en) ops).owns := by
  suffices ∀ s, OwnUnique s.owns → OwnUnique (run s ops).owns from this _ trivial
  induction ops with
  | nil => intro s hs; exact hs
  | cons op ops ih =>
    intro s hs
    apply ih
    cases op with
    | add w data k h sts rts => exact addChange_ownUnique s w data k h sts rts hs
    | readTake max m only take =>
      show OwnUnique (readOrTake s max m only take).1.owns
      unfold readOrTake collect
      split
      · exact hs
      · split
        · exact hs
        · simp only []; split <;> exact hs
    | nextInstance max prev m take =>
      show OwnUnique (readTakeNextInstance s max prev m take).1.owns
      have : ∀ fuel p, OwnUnique (nextInstanceLoop s max m take fuel p).1.owns := by
        intro fuel
        induction fuel with
        | zero => intro p; exact hs
        | succ n ihn =>
          intro p
          unfold nextInstanceLoop
          split
          · exact hs
          · split
            · exact ihn _
            · rename_i h' _ r hne
              unfold readOrTake collect
              split
              · exact hs
              · split
                · exact hs
                · simp only []; split <;> exact hs
      unfold readTakeNextInstance
      split
      · exact hs
      · exact this _ _
    | pub w st => exact hs
    | unpub w =>
      show OwnUnique (removePub s w).owns
      unfold removePub
      split
      · exact ownUnique_dropOwner w s.owns hs
      · exact hs
    | rejStatus => exact hs

/-- C24 (hand-over on dispose / unregister): after a not-alive change that was stored (it passed the ownership filter,
    i.e. came from the owner or a stronger writer) the instance has NO owner any more — so by `ownershipFilter_free`
    the next data sample of ANY matched writer passes the ownership filter and that writer becomes the owner -/
theorem C24_handover_on_unregister (s : St) (w : Nat) (data : String) (k : Kind) (h : Nat) (sts : Option Nat)
    (rts : Nat) (hk : k.isAliveKind = false) (hu : OwnUnique s.owns)
    (hadd : (addChange s w data k h sts rts).2 = .added) :
    findOwn h (addChange s w data k h sts rts).1.owns = none := by
  generalize hr : addChange s w data k h sts rts = r at hadd ⊢
  unfold addChange at hr
  split at hr
  · subst hr; cases hadd
  · rename_i insts1 _
    simp only [] at hr
    split at hr
    · subst hr; cases hadd
    · rename_i owns2 hof
      have huo : OwnUnique owns2 := ownershipFilter_unique { s with insts := insts1 } w h rts owns2 hu hof
      unfold afterOwnership at hr
      simp only [mkSample, hk, Bool.false_eq_true, if_false] at hr
      split at hr
      · subst hr; cases hadd
      · unfold finishAdd at hr
        simp only [hk, Bool.false_eq_true, if_false] at hr
        split at hr
        · subst hr; cases hadd
        · split at hr
          · subst hr; cases hadd
          · split at hr
            · subst hr; cases hadd
            · subst hr
              exact findOwn_eraseOwn_unique h owns2 huo

/-- C24 (hand-over when the owner's unregister / dispose is NOT stored): a not-alive change that passes the ownership filter
    (it comes from the owner or a stronger writer) releases the instance whatever happens to the change afterwards — dropped by
    the time-based filter, rejected by a resource limit, or stored (seeded change C24_d tied the release to the storing) -/
theorem C24_handover_even_if_not_stored (s : St) (w : Nat) (data : String) (k : Kind) (h : Nat) (sts : Option Nat)
    (rts : Nat) (hk : k.isAliveKind = false) (hu : OwnUnique s.owns)
    (insts1 : List Inst) (ht : touchInst s.insts h k rts = some insts1)
    (owns2 : List Own) (hof : ownershipFilter { s with insts := insts1 } w h rts = some owns2) :
    findOwn h (addChange s w data k h sts rts).1.owns = none := by
  have huo : OwnUnique owns2 := ownershipFilter_unique { s with insts := insts1 } w h rts owns2 hu hof
  have he := findOwn_eraseOwn_unique h owns2 huo
  unfold addChange
  simp only [ht, hof]
  unfold afterOwnership
  simp only [mkSample, hk, Bool.false_eq_true, if_false]
  split
  · exact he
  · unfold finishAdd
    simp only [hk, Bool.false_eq_true, if_false]
    split
    · exact he
    · split
      · exact he
      · split
        · exact he
        · exact he

theorem findOwn_dropOwner (h w : Nat) (l : List Own) (o : Own) (ho : findOwn h (dropOwner w l) = some o) :
    o.owner ≠ w := by
  induction l with
  | nil => simp [dropOwner, findOwn] at ho
  | cons x xs ih =>
    unfold dropOwner at ho
    by_cases hx : x.owner = w
    · simp only [hx, if_true] at ho; exact ih ho
    · simp only [hx, if_false] at ho
      unfold findOwn at ho
      by_cases hi : x.inst = h
      · simp only [hi, if_true] at ho; injection ho with ho; subst ho; exact hx
      · simp only [hi, if_false] at ho; exact ih ho

/-- C24 (hand-over when the owner is deleted): after a matched writer is removed no instance is owned by it, so it
    can no longer block the remaining writers -/
theorem C24_handover_on_writer_removed (s : St) (w : Nat) (st : Int) (hm : findPub w s.pubs = some st) (h : Nat) (o : Own)
    (ho : findOwn h (removePub s w).owns = some o) : o.owner ≠ w := by
  unfold removePub at ho
  simp only [hm] at ho
  exact findOwn_dropOwner h w s.owns o ho

/-- regression witness for the repaired defects D54/D55: owner 1 (strength 10) unregisters, or is removed; the
    weaker writer 2 is then accepted -/
example :
    let s0 := addPub (addPub (St.init exQos24 true) 1 10) 2 5
    let s1 := (addChange s0 1 "a" .alive 5 (some 10) 100).1
    (addChange s1 2 "b" .alive 5 (some 11) 101).2 = .notAdded ∧
    (addChange (addChange s1 1 "" .unregistered 5 (some 12) 102).1 2 "c" .alive 5 (some 13) 103).2 = .added ∧
    (addChange (removePub s1 1) 2 "d" .alive 5 (some 13) 103).2 = .added := by decide

end DustVerif.Hist
