import DustVerif.Proofs.HistLemmas
/-! Property C24 (EXCLUSIVE ownership): a sample from a writer that is not stronger than the current owner
    of the instance is never stored; a strictly stronger matched writer passes the ownership filter and
    becomes the owner. -/
namespace DustVerif.Hist

/-- a non-owner that is not strictly stronger than the owner is filtered -/
theorem ownershipFilter_blocks (s1 : St) (w h rts : Nat) (o : Own) (so sw : Int)
    (hex : s1.qos.exclusive = true) (ho : findOwn h s1.owns = some o)
    (hso : findPub o.owner s1.pubs = some so) (hsw : findPub w s1.pubs = some sw)
    (hne : o.owner ≠ w) (hle : sw ≤ so) : ownershipFilter s1 w h rts = none := by
  unfold ownershipFilter
  simp [hex, ho, hso, hsw, hne, hle]

/-- C24: with EXCLUSIVE ownership, a change from a matched writer `w` that is not the owner and whose strength
    does not exceed the owner's is not added and leaves the stored samples untouched (ties keep the first owner) -/
theorem C24_non_owner_not_stored (s : St) (w : Nat) (data : String) (k : Kind) (h : Nat) (sts : Option Nat)
    (rts : Nat) (o : Own) (so sw : Int)
    (hex : s.qos.exclusive = true) (ho : findOwn h s.owns = some o)
    (hso : findPub o.owner s.pubs = some so) (hsw : findPub w s.pubs = some sw)
    (hne : o.owner ≠ w) (hle : sw ≤ so) :
    ((addChange s w data k h sts rts).2 = .notAdded ∨ (addChange s w data k h sts rts).2 = .error) ∧
    (addChange s w data k h sts rts).1.samples = s.samples ∧
    (addChange s w data k h sts rts).1.owns = s.owns := by
  generalize hr : addChange s w data k h sts rts = r
  unfold addChange at hr
  split at hr
  · subst hr; exact ⟨Or.inr rfl, rfl, rfl⟩
  · rename_i insts1 _
    have hb := ownershipFilter_blocks { s with insts := insts1 } w h rts o so sw hex ho hso hsw hne hle
    simp only [hb] at hr
    subst hr; exact ⟨Or.inl rfl, rfl, rfl⟩

/-- a change from a writer that is not matched (unknown strength) is dropped when the instance has an owner -/
theorem C24_unmatched_writer_not_stored (s : St) (w : Nat) (data : String) (k : Kind) (h : Nat) (sts : Option Nat)
    (rts : Nat) (o : Own) (hex : s.qos.exclusive = true) (ho : findOwn h s.owns = some o)
    (hsw : findPub w s.pubs = none) :
    (addChange s w data k h sts rts).1.samples = s.samples := by
  generalize hr : addChange s w data k h sts rts = r
  unfold addChange at hr
  split at hr
  · subst hr; rfl
  · rename_i insts1 _
    have hb : ownershipFilter { s with insts := insts1 } w h rts = none := by
      unfold ownershipFilter
      simp only [hex, ho, hsw, if_true]
      cases findPub o.owner s.pubs <;> simp
    simp only [hb] at hr
    subst hr; rfl

/-- a strictly stronger matched writer passes the filter and is recorded as the owner -/
theorem C24_stronger_takes_over (s1 : St) (w h rts : Nat) (o : Own) (so sw : Int)
    (hex : s1.qos.exclusive = true) (ho : findOwn h s1.owns = some o)
    (hso : findPub o.owner s1.pubs = some so) (hsw : findPub w s1.pubs = some sw) (hgt : so < sw) :
    ownershipFilter s1 w h rts = some (mapOwn h (fun o => { o with owner := w }) s1.owns) := by
  unfold ownershipFilter
  have : ¬ sw ≤ so := by omega
  simp [hex, ho, hso, hsw, this]

/-- after a take-over the recorded owner of the instance is the new writer -/
theorem findOwn_mapOwn_owner (h w : Nat) (l : List Own) (o : Own) (ho : findOwn h l = some o) :
    ∃ o', findOwn h (mapOwn h (fun o => { o with owner := w }) l) = some o' ∧ o'.owner = w := by
  induction l with
  | nil => simp [findOwn] at ho
  | cons x xs ih =>
    unfold findOwn at ho
    unfold mapOwn
    by_cases hx : x.inst = h
    · simp only [hx, if_true]
      exact ⟨{ x with owner := w }, by simp [findOwn, hx], rfl⟩
    · simp only [hx, if_false] at ho ⊢
      obtain ⟨o', h1, h2⟩ := ih ho
      exact ⟨o', by simp [findOwn, hx, h1], h2⟩

/-- SHARED ownership never filters by writer -/
theorem C24_shared_never_filters (s1 : St) (w h rts : Nat) (hex : s1.qos.exclusive = false) :
    ownershipFilter s1 w h rts = some s1.owns := by
  unfold ownershipFilter; simp [hex]

def exQos24 : Qos :=
  { depth := none
    maxSamples := none
    maxInst := none
    maxSpi := none
    bySource := false
    exclusive := true
    minSep := some 0 }

/-- non-vacuity: owner strength 10 writes, weaker writer (1) is dropped, stronger (20) is stored -/
example :
    let s0 := addPub (addPub (addPub (St.init exQos24 true) 1 10) 2 1) 3 20
    let s1 := (addChange s0 1 "a" .alive 5 (some 10) 100).1
    (addChange s1 2 "b" .alive 5 (some 20) 200).2 = .notAdded ∧
    (addChange s1 3 "c" .alive 5 (some 30) 300).2 = .added := by decide

end DustVerif.Hist
