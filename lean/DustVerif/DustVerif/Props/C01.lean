import DustVerif.Proofs.RtpsSys2
import DustVerif.Proofs.RtpsNoPanic
import DustVerif.Proofs.RtpsFuel
import DustVerif.Props.C02
/-! Property C01: reliable delivery — every sample arrives exactly once, in order, payload intact, none skipped,
    despite any finite pattern of datagram loss, duplication, reordering and delay.
    Model: `Model/Rtps.lean` (write_message_reliable, on_acknack / on_nack_frag_submessage_received,
    on_data[_frag]_submessage, GAP / HEARTBEAT glue, ACKNACK / NACK_FRAG emission). The adversary delivers any
    in-flight datagram, drops and duplicates; it does not forge (C06).
    Safety is proved for every step list. The liveness clause is stated (`C01_eventual_statement`) and NOT proved:
    it is checked by the oracle of vlib/props/C01.py on every generated schedule. -/
namespace DustVerif.Rtps

/-- **C01_in_order_once**: for EVERY step list — writes of arbitrary payloads (fragmented or not), removals, ticks,
    match and re-announcements, and an adversary that delivers any in-flight datagram in any order, drops and
    duplicates — what the reliable reader has delivered has strictly increasing sequence numbers (exactly once, in
    publication order) and every entry IS the published change of that number (payload byte-identical): it is a
    sub-list of the publication log. Holds for every variant of the code that contains fixes/D43.patch. -/
theorem C01_in_order_once (cfg : Cfg) (hfix : cfg.fixD43 = true) (tl : Bool) (f : Nat) (hf : 1 ≤ f) (hf16 : f < 65536)
    (steps : List Step) (hsteps : ∀ st, st ∈ steps → StepOK st) (s : Sys)
    (hrun : Sys.run cfg (Sys.init true tl f) steps = .ok s) :
    (s.r.cache.map snOf).Pairwise (· < ·) ∧ (∀ c, c ∈ s.r.cache → c ∈ s.log) ∧ s.r.cache.Sublist s.log :=
  delivered_sublist cfg hfix true tl f hf hf16 steps hsteps s hrun

/-- **C01_no_skip**: for every step list and every sequence number at or below the reader's
    `available_changes_max` (everything the reader has moved past and acknowledges): the sample was delivered, or it
    is gone — it was published and the writer no longer holds it (removed: KEEP_LAST replacement, lifespan, ...), or it
    was never relevant to this reader (`≤ first_relevant_sample_seq_num`). `gone` only grows, so the sample was gone
    no later than the moment the reader moved past it. Needs fixes/D2_D8.patch and fixes/D43.patch. -/
theorem C01_no_skip (cfg : Cfg) (hfix : cfg.fixD43 = true) (hfix2 : cfg.fixD2 = true) (tl : Bool) (f : Nat)
    (hf : 1 ≤ f) (hf16 : f < 65536) (steps : List Step) (hsteps : ∀ st, st ∈ steps → StepOK st) (s : Sys)
    (hrun : Sys.run cfg (Sys.init true tl f) steps = .ok s) (p : WProxy) (hp : s.r.proxy = some p) (sn : Nat)
    (h1 : 1 ≤ sn) (h2 : sn ≤ p.availMax) : (∃ c, c ∈ s.r.cache ∧ c.sn = sn) ∨ s.Gone sn := by
  have h := inv2_run cfg hfix hfix2 steps _ s hsteps (inv2_init true tl f hf hf16) hrun
  have hrel : s.r.reliable = true := run_reliable cfg steps _ s hrun
  exact (h.rd p hp).2.2 hrel sn h1 h2

/-- corollary in the words of the property: a sample the writer still holds, that is relevant to the reader and that
    the reader has moved past, IS in the delivered list, payload included -/
theorem C01_held_not_skipped (cfg : Cfg) (hfix : cfg.fixD43 = true) (hfix2 : cfg.fixD2 = true) (tl : Bool) (f : Nat)
    (hf : 1 ≤ f) (hf16 : f < 65536) (steps : List Step) (hsteps : ∀ st, st ∈ steps → StepOK st) (s : Sys)
    (hrun : Sys.run cfg (Sys.init true tl f) steps = .ok s) (p : WProxy) (hp : s.r.proxy = some p) (c : Change)
    (hc : c ∈ s.w.changes) (hrelv : c.sn > s.w.firstRel) (hpast : c.sn ≤ p.availMax) : c ∈ s.r.cache := by
  have h1 := inv1_run cfg hfix steps _ s hsteps (inv1_init true tl f hf hf16) hrun
  have hsn := (h1.logSn c (h1.changes c hc)).1
  rcases C01_no_skip cfg hfix hfix2 tl f hf hf16 steps hsteps s hrun p hp c.sn hsn hpast with ⟨c', hc', heq⟩ | hg
  · have : c' = c := h1.logOK.uniq c' c (h1.reader.cacheInLog c' hc') (h1.changes c hc) heq
    rw [← this]; exact hc'
  · rcases hg.2 with hno | hle
    · exact absurd rfl (hno c hc)
    · omega

/-- **C01_no_panic**: for EVERY step list the modelled endpoints never panic — in particular the reader's ACKNACK /
    NACK_FRAG construction (`expect("At least a fragment must be missing")`, `FragmentNumberSet::new`) under any loss,
    duplication and reordering of fragments: the fragment buffer never holds a complete sample, and the request set is
    cut at base + 255. Holds for reliable and best-effort pairs; needs fixes/D1_D44.patch (as-is: D44,
    `C05_nackfrag_panic_asis_counterexample`) and fixes/D43.patch. Panics of code outside the model are C06. -/
theorem C01_no_panic (cfg : Cfg) (hfix : cfg.fixD43 = true) (hfix1 : cfg.fixD1 = true) (rel tl : Bool) (f : Nat)
    (hf : 1 ≤ f) (hf16 : f < 65536) (steps : List Step) (hsteps : ∀ st, st ∈ steps → StepOK st) :
    Sys.run cfg (Sys.init rel tl f) steps ≠ .panic :=
  run_no_panic cfg hfix hfix1 steps _ hsteps (inv5_init rel tl f hf hf16)

/-- non-vacuity: a fragmented sample, its first fragment lost, the last fragment and heartbeat overtaking everything,
    a duplicate repair — the run does not panic and delivers both samples byte-identically -/
example :
    (match Sys.run Cfg.fixed (Sys.init true false 8)
        [.doMatch, .write [1], .write (List.range 20), .deliver 3, .drop 1, .deliver 0, .deliver 0, .deliver 0,
         .deliver 0, .deliver 0, .deliver 0, .deliver 0, .deliver 0, .deliver 0, .deliver 0] with
      | .ok s => s.r.cache
      | .panic => []) = [⟨1, [1]⟩, ⟨2, List.range 20⟩] := by decide

/-- **C01_forged_hb_no_duplicate** (the "exactly once" clause against the one submessage kind the adversary of
    `C01_in_order_once` does not forge): in every reachable state of the RELIABLE pair a HEARTBEAT of any content followed
    by a copy of the DATA of any delivered sample leaves the delivered list unchanged. (A forged `first` can make a
    reliable reader skip samples — that is forgery of the writer's identity, outside C01; see C06.) -/
theorem C01_forged_hb_no_duplicate (cfg : Cfg) (hfix : cfg.fixD43 = true) (tl : Bool) (f : Nat) (hf : 1 ≤ f) (hf16 : f < 65536)
    (steps : List Step) (hsteps : ∀ st, st ∈ steps → StepOK st) (s : Sys)
    (hrun : Sys.run cfg (Sys.init true tl f) steps = .ok s)
    (first last count : Nat) (fin lv : Bool) (r' : Reader) (out : List Dgram)
    (h : s.r.onHb cfg first last count fin lv = .ok (r', out)) :
    r'.cache = s.r.cache ∧ ∀ c, c ∈ s.r.cache → ∀ payload, (r'.onData c.sn payload).cache = r'.cache :=
  C02_forged_hb_no_duplicate cfg hfix true tl f hf hf16 steps hsteps s hrun first last count fin lv r' out h

/-- as-is (D2): a GAP for a removed change moves `highest_received_change_sn` past an earlier change the writer still
    holds: history {1,3}, late reliable reader, DATA 1 lost once — sample 3 is delivered, sample 1 never is, and the
    reader acknowledges everything (ACKNACK base 4) -/
theorem C01_gap_skip_asis_counterexample :
    (match Sys.run Cfg.asIs (Sys.init true true 8)
        [.write [1], .write [2], .write [3], .remove 2, .doMatch, .tick 10, .drop 0, .deliver 0, .deliver 0, .deliver 0] with
      | .ok s => (s.r.cache.map snOf, s.w.changes.map snOf, s.r.proxy.map WProxy.availMax, s.net)
      | .panic => ([], [], none, [])) = ([3], [1, 3], some 3, [mkR [.dst, .acknack 4 [] 2 true]]) := by decide

/-- the same schedule on the repaired code: the non-contiguous GAP is ignored and sample 1 is requested again -/
example :
    (match Sys.run Cfg.fixed (Sys.init true true 8)
        [.write [1], .write [2], .write [3], .remove 2, .doMatch, .tick 10, .drop 0, .deliver 0, .deliver 0, .deliver 0,
         .deliver 0, .deliver 0, .deliver 0, .deliver 0, .deliver 0] with
      | .ok s => s.r.cache.map snOf
      | .panic => []) = [1, 3] := by decide

/-- as-is (D43): a re-announcement of the match after delivery, no fault at all: the history is delivered twice -/
theorem C01_rematch_duplicates_asis_counterexample :
    (match Sys.run Cfg.asIs (Sys.init true true 8)
        [.doMatch, .write [1], .deliver 0, .deliver 0, .doMatch, .tick 1, .deliver 0] with
      | .ok s => s.r.cache.map snOf
      | .panic => []) = [1, 1] := by decide

/-- **C01_model_loops_complete** (model fidelity, not a property of the code): the Rust `while let Some(..)` loops of
    `write_message_best_effort` / `write_message_reliable` are structural recursions with a fuel in the model; with the
    fuel the model passes, every loop ends because nothing is left to send / no request is left, never because the fuel
    ran out — the model's loops are the code's loops. -/
theorem C01_model_loops_complete (cfg : Cfg) (cs : List Change) (f now : Nat) (p : RProxy) :
    minAbove (beLoop cfg cs f (2 * cs.length + 2) p []).1.highestSent cs = none ∧
    minAbove (relUnsentLoop cfg cs f now (2 * cs.length + 2) p []).1.highestSent cs = none ∧
    (relRequestedLoop cs f now (p.requested.length + 1) p []).1.requested = [] := by
  have hm := unsentMeasure_le cs p.highestSent
  exact ⟨beLoop_complete cfg cs f _ p [] (by omega), relUnsentLoop_complete cfg cs f now _ p [] (by omega),
    relRequestedLoop_complete cs f now _ p [] (by omega)⟩

/-! ### liveness: stated, not proved -/

/-- FIFO delivery until nothing is in flight (at most `fuel` datagrams) -/
def Sys.flush (cfg : Cfg) : Nat → Sys → Out Sys
  | 0, s => .ok s
  | fuel + 1, s =>
    if s.net.isEmpty then .ok s
    else match s.deliverAt cfg 0 with
      | .panic => .panic
      | .ok (s', _) => Sys.flush cfg fuel s'

/-- `k` healing rounds: the writer's worker runs one heartbeat period later, then the network delivers FIFO to quiescence -/
def Sys.heal (cfg : Cfg) : Nat → Sys → Out Sys
  | 0, s => .ok s
  | k + 1, s =>
    match s.step cfg (.tick 250) with
    | .panic => .panic
    | .ok (s1, _) =>
      match Sys.flush cfg 100000 s1 with
      | .panic => .panic
      | .ok s2 => Sys.heal cfg k s2

/-- every relevant change the writer still holds has been delivered -/
def Sys.Delivered (s : Sys) : Prop := ∀ c, c ∈ s.w.changes → c.sn > s.w.firstRel → c ∈ s.r.cache

/-- **C01_eventual — STATEMENT ONLY (unproved, missing)**: from any reachable state of the repaired code, after at most
    `2·lastSn + 4` healing rounds (no loss, no duplication, FIFO, ticks one heartbeat period apart) the reader has
    delivered every relevant change the writer still holds. The oracle of vlib/props/C01.py checks exactly this on the
    implementation for every generated schedule; on the as-is code it fails through D1, D2, D43, D44 and D-rtps-1. -/
def C01_eventual_statement : Prop :=
  ∀ (tl : Bool) (f : Nat) (steps : List Step) (s : Sys), 1 ≤ f → f < 65536 → (∀ st, st ∈ steps → StepOK st) →
    Sys.run Cfg.fixed (Sys.init true tl f) steps = .ok s → s.w.proxy ≠ none →
    ∃ k s', k ≤ 2 * s.lastSn + 4 ∧ Sys.heal Cfg.fixed k s = .ok s' ∧ s'.Delivered

/-- one instance of the liveness statement (a test, not a proof): the lossy schedule of the non-vacuity example heals
    in one round -/
example :
    (match Sys.run Cfg.fixed (Sys.init true false 8)
        [.doMatch, .write [1], .write (List.range 20), .drop 1, .drop 0] with
      | .ok s => (match Sys.heal Cfg.fixed 1 s with | .ok s' => s'.r.cache.map snOf | .panic => [])
      | .panic => []) = [1, 2] := by decide

end DustVerif.Rtps
