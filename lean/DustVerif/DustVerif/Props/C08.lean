import DustVerif.Proofs.WireMsgRT
import DustVerif.Proofs.WireSetNew
/-!
Property C08: RTPS messages round-trip through their wire encoding.

`encode` is what `RtpsMessageWrite::new` writes (little-endian; with fixes/D-wire-2.patch), `encodeE le` the
encoding in either byte order, `decode` is `RtpsMessageRead::try_from` of `main` + fixes/D-wire-3.patch +
fixes/D-wire-4.patch (Model/Wire.lean, `Cfg.fixed`); the round trip holds for every tree (`C08_roundtrip_any`).  `Msg.WF` (Proofs/WireWF.lean) is
the explicit, decidable well-formedness predicate with the real limits:
every submessage's elements `< 65536` octets, `≤ 65536` submessages, field widths, set shape
(`numBits ≤ 256`, words beyond `M` zero; fragment sets as `new` builds them), parameter ids `≠ PID_SENTINEL`
and parameter lengths multiples of 4, inline QoS / payload / timestamp / multicast list present only with
their flags (INFO_REPLY: multicast locators only with the MulticastFlag, which the writer now sets).
-/
namespace DustVerif.Wire
open Outcome

/-- FULL: every well-formed message decodes back to itself from the encoding the repository writes. -/
theorem C08_roundtrip (m : Msg) (h : m.WF) : decode (encode m) = ok m :=
  decodeG_enc Cfg.fixed true m h

/-- FULL: the same for the big-endian encoding a peer may send (spec encoder `encodeE false`). -/
theorem C08_roundtrip_be (m : Msg) (h : m.WF) : decode (encodeE false m) = ok m :=
  decodeG_enc Cfg.fixed false m h

/-- FULL: either byte order, decoder of any tree (before/after each of the decoder repairs). -/
theorem C08_roundtrip_any (c : Cfg) (le : Bool) (m : Msg) (h : m.WF) : decodeG c (encodeE le m) = ok m :=
  decodeG_enc c le m h

/-- FULL: byte order chosen independently for every submessage (the E flag is per submessage): the submessage
    loop returns exactly the submessages. -/
theorem C08_roundtrip_mixed_endianness (c : Cfg) (ss : List (Bool × Sub)) (h : ∀ p ∈ ss, p.2.WF)
    (hn : ss.length ≤ MAX_SUBMESSAGES) : decodeLoop c MAX_SUBMESSAGES (subsEM ss) = ok (ss.map Prod.snd) :=
  decodeLoop_encM c ss MAX_SUBMESSAGES h hn

/-- FULL, per submessage: a well-formed submessage is recovered from its elements whatever octets follow
    (this is what makes submessages of different byte orders composable in one message). -/
theorem C08_sub_roundtrip (c : Cfg) (le : Bool) (s : Sub) (t : List Nat) (h : s.WF) :
    decodeSub c s.id (s.flags + b2n le) (s.body le).length le (s.body le ++ t) = ok s :=
  decodeSub_enc c le s t h

/-- FULL: SequenceNumberSet (GAP, ACKNACK) wire round trip for any well-formed set -/
theorem C08_snset_roundtrip (chk le : Bool) (s : SNSet) (t : List Nat) (h : s.WF) :
    snsetRead chk le (snsetE le s ++ t) = ok (s, t) :=
  snsetRead_enc chk le s t h

/-- FULL: FragmentNumberSet (NACK_FRAG) wire round trip, through the decoder's rebuild with `new` -/
theorem C08_fnset_roundtrip (g le : Bool) (s : FNSet) (t : List Nat) (h : s.WF) :
    fnsetRead g le (fnsetE le s ++ t) = ok (s, t) :=
  fnsetRead_enc g le s t h

/-- FULL, "any set contents" for GAP / ACKNACK: `SequenceNumberSet::new(base, set)` with ANY member list (any order,
    duplicates) inside `base ..= base + 255` does not panic, builds a well-formed set, that set survives the wire in
    either byte order, and its accessor `set()` returns exactly the members (no accessor overflow when
    `base + 255 ≤ i64::MAX`). -/
theorem C08_snset_any_contents (chk le : Bool) (base : Int) (set : List Int) (t : List Nat) (hb : isI64 base)
    (hs : ∀ x ∈ set, base ≤ x ∧ x < base + 256) (hi : ∀ x ∈ set, isI64 x) (ho : base + 255 < 9223372036854775808) :
    ∃ s l, snsetNew base set = ok s ∧ snsetRead chk le (snsetE le s ++ t) = ok (s, t) ∧
      snsetMembers s = ok l ∧ ∀ x, x ∈ l ↔ x ∈ set := by
  obtain ⟨s, l, h1, h2, h3, h4⟩ := snsetNew_members base set hb hs hi ho
  exact ⟨s, l, h1, snsetRead_enc chk le s t h2, h3, h4⟩

/-- FULL, sets near `i64::MAX` (no `base + 255` restriction): `new` from any `i64` members within
    `base ..= base + 255` gives a well-formed set that survives the wire with the decoder of every tree, in
    particular with the overflow check of fixes/D-wire-4.patch (`chk = true`). -/
theorem C08_snset_any_contents_wire (chk le : Bool) (base : Int) (set : List Int) (t : List Nat) (hb : isI64 base)
    (hs : ∀ x ∈ set, base ≤ x ∧ x < base + 256) (hi : ∀ x ∈ set, isI64 x) :
    ∃ s, snsetNew base set = ok s ∧ snsetRead chk le (snsetE le s ++ t) = ok (s, t) ∧
      ∀ d : Nat, d < 256 → getBit s.bitmap d = decide (base + (d : Int) ∈ set) := by
  obtain ⟨s, h1, h2, _, h4⟩ := snsetNew_wf base set hb hs hi
  exact ⟨s, h1, snsetRead_enc chk le s t h2, h4⟩

/-- FULL, "any set contents" for NACK_FRAG: the same for `FragmentNumberSet::new` and the decoder's rebuild. -/
theorem C08_fnset_any_contents (g le : Bool) (base : Nat) (set : List Nat) (t : List Nat) (hb : base < 4294967296)
    (hs : ∀ x ∈ set, base ≤ x ∧ x < base + 256 ∧ x < 4294967296) :
    ∃ s l, fnsetNew base set = ok s ∧ fnsetRead g le (fnsetE le s ++ t) = ok (s, t) ∧
      fnsetMembers s = ok l ∧ ∀ x, x ∈ l ↔ x ∈ set := by
  obtain ⟨s, l, h1, h2, h3, h4⟩ := fnsetNew_members base set hb hs
  exact ⟨s, l, h1, fnsetRead_enc g le s t h2, h3, h4⟩

/-- FULL: inline QoS parameter list round trip (sentinel included), any number of parameters below the
    decoder's MAX_PARAMETERS -/
theorem C08_params_roundtrip (le : Bool) (ps : List Param) (t : List Nat) (h : ∀ p ∈ ps, p.WF)
    (hn : ps.length < MAX_PARAMETERS) : paramListRead le MAX_PARAMETERS (paramListE le ps ++ t) = ok (ps, t) :=
  paramListRead_enc le ps t MAX_PARAMETERS h hn

/-- FULL: following the length fields of `encodeE le m` from header to header visits exactly the submessages
    of `m`; every octetsToNextHeader equals the octet length of that submessage's elements and the walk ends
    exactly at the end of the message. -/
theorem C08_lengths (le : Bool) (m : Msg) (h : m.WF) :
    walk le m.subs.length ((encodeE le m).drop 20) = some (m.subs.map (fun s => (s.id, (s.body le).length))) := by
  obtain ⟨⟨h1, h2, h3⟩, _, hs⟩ := h
  have : (encodeE le m).drop 20 = subsE le m.subs := by
    unfold encodeE headerE MAGIC
    have e : ([82, 84, 80, 83] ++ m.header.version ++ m.header.vendorId ++ m.header.guidPrefix).length = 20 := by
      simp [h1, h2, h3]
    exact List.drop_left' e
  rw [this]
  exact walk_enc le m.subs hs

/-- the length field as written is the element length modulo 2^16 (`len as u16`), for ANY submessage -/
theorem C08_length_field_truncated (le : Bool) (s : Sub) :
    ∃ fl, subE le s = s.id :: fl :: (u16E le ((s.body le).length % 65536) ++ s.body le) := by
  exact ⟨s.flags + b2n le, by simp [subE]⟩

/-! ### D14: `len as u16` truncation is real -/
def bigData (payload : List Nat) : Sub := .data false true false false [0, 0, 0, 0] [0, 0, 0, 0] 1 [] payload
def bigMsg (payload : List Nat) : Msg :=
  { header := { version := [2, 3], vendorId := [1, 20], guidPrefix := [0, 0, 0, 0, 0, 0, 0, 0, 0, 0, 0, 0] },
    subs := [bigData payload] }

/-- every DATA with a 65537-octet payload: all fields in range, elements take 65557 octets, the header says 21 -/
theorem C08_big_payload_length_field (payload : List Nat) (hp : payload.length = 65537) :
    (bigData payload).fieldsWF ∧ ((bigData payload).body true).length = 65557 ∧
      subE true (bigData payload) = 0x15 :: 5 :: 21 :: 0 :: (bigData payload).body true := by
  refine ⟨by simp [bigData, Sub.fieldsWF, isI64], ?_, ?_⟩
  · simp [bigData, Sub.body, snE, i32E, u32E, u16E, hp]
  · have : ((bigData payload).body true).length = 65557 := by
      simp [bigData, Sub.body, snE, i32E, u32E, u16E, hp]
    unfold subE
    rw [this]
    simp [u16E, bigData, Sub.id, Sub.flags, b2n]

/-- ... and it does not decode back: the first decoded submessage carries a 1-octet payload -/
theorem C08_big_payload_not_roundtrip (payload : List Nat) (hp : payload.length = 65537) :
    decode (encode (bigMsg payload)) ≠ ok (bigMsg payload) := by
  intro h
  have hsub := (C08_big_payload_length_field payload hp).2.2
  unfold decode decodeG encode encodeE at h
  simp only [bigMsg, headerE, MAGIC, subsE, hsub, List.append_nil] at h
  simp only [List.cons_append, List.nil_append, List.length_cons, List.take_succ_cons, List.take_zero,
    List.drop_succ_cons, List.drop_zero] at h
  have hlen : ¬ (((bigData payload).body true).length + 1 + 1 + 1 + 1 + 1 + 1 + 1 + 1 + 1 + 1 + 1 + 1 + 1 + 1 + 1 +
      1 + 1 + 1 + 1 + 1 + 1 + 1 + 1 + 1 < 20) := by omega
  simp only [hlen, if_false, ne_eq, not_true_eq_false] at h
  rw [show MAX_SUBMESSAGES = 65535 + 1 from rfl, decodeLoop] at h
  simp only [bigData, Sub.body, snE, i32E, u32E, u16E, u16of] at h
  have hfx : Cfg.fixed.ext = true := rfl
  simp [dataRead, decodeSub, readU16, u16of, readBytes, readSN, readI32, readU32, u32of, qosAndPayload, flagBit, hp,
    toI32, P31, extentOf, hfx] at h
  cases hrec : decodeLoop Cfg.fixed 65535 payload.tail with
  | ok ss =>
    simp [hrec] at h
    have : (List.take 1 (List.take 1 payload)).length = payload.length := by rw [h.1]
    simp [hp] at this
  | err e => simp [hrec] at h
  | panic => simp [hrec] at h

/-- D14 witness: a DATA submessage with a 65537-octet payload, every field in range, does not round-trip. -/
theorem C08_big_payload_counterexample :
    ∃ m : Msg, m.header.WF ∧ (∀ s ∈ m.subs, s.fieldsWF) ∧ m.subs.length ≤ MAX_SUBMESSAGES ∧
      decode (encode m) ≠ ok m := by
  obtain ⟨payload, hp⟩ : ∃ p : List Nat, p.length = 65537 := ⟨List.replicate 65537 0, List.length_replicate⟩
  refine ⟨bigMsg payload, by simp [bigMsg, Header.WF], ?_, by simp [bigMsg, MAX_SUBMESSAGES], ?_⟩
  · intro s hs
    simp [bigMsg] at hs
    subst hs
    exact (C08_big_payload_length_field _ hp).1
  · exact C08_big_payload_not_roundtrip _ hp

/-! ### D-wire-2 regression witness: the writer before fixes/D-wire-2.patch loses the multicast locators -/
def replyMsg : Msg :=
  { header := { version := [2, 3], vendorId := [1, 20], guidPrefix := [0, 0, 0, 0, 0, 0, 0, 0, 0, 0, 0, 0] },
    subs := [.infoReply true [] [⟨1, 7400, [0, 0, 0, 0, 0, 0, 0, 0, 0, 0, 0, 0, 0, 0, 0, 0]⟩]] }
set_option maxRecDepth 100000 in
theorem C08_info_reply_flag_counterexample :
    replyMsg.WF ∧ decode (encodeOld replyMsg) ≠ ok replyMsg ∧ decode (encode replyMsg) = ok replyMsg := by
  decide

/-! ### non-vacuity: concrete well-formed messages (all twelve kinds) -/
def exampleMsg : Msg :=
  { header := { version := [2, 3], vendorId := [1, 20], guidPrefix := [1, 2, 3, 4, 5, 6, 7, 8, 9, 10, 11, 12] },
    subs := [
      .infoTs false 5 6,
      .data true true false false [1, 2, 3, 4] [6, 7, 8, 9] (-5) [⟨0x70, [1, 2, 3, 4]⟩, ⟨-1, []⟩] [10, 11, 12],
      .dataFrag false true false [1, 2, 3, 4] [6, 7, 8, 9] 9223372036854775807 1 2 3 100 [] [7, 7],
      .gap [1, 2, 3, 4] [6, 7, 8, 9] 3 ⟨10, 256, [2684354560, 0, 0, 0, 0, 0, 0, 1]⟩,
      .heartbeat true false [1, 2, 3, 4] [6, 7, 8, 9] 1 (-9223372036854775808) (-1),
      .ackNack true [1, 2, 3, 4] [6, 7, 8, 9] ⟨-9223372036854775808, 0, [0, 0, 0, 0, 0, 0, 0, 0]⟩ 7,
      .nackFrag [1, 2, 3, 4] [6, 7, 8, 9] 4 ⟨2, 256, [2147483648, 0, 0, 0, 0, 0, 0, 1]⟩ 3,
      .heartbeatFrag [1, 2, 3, 4] [6, 7, 8, 9] 4 9 3,
      .infoDst [1, 2, 3, 4, 5, 6, 7, 8, 9, 10, 11, 12],
      .infoSrc [2, 4] [1, 2] [1, 2, 3, 4, 5, 6, 7, 8, 9, 10, 11, 12],
      .infoReply false [⟨1, 7400, [0, 0, 0, 0, 0, 0, 0, 0, 0, 0, 0, 0, 1, 2, 3, 4]⟩] [],
      .infoReply true [] [⟨2, 7401, [0, 0, 0, 0, 0, 0, 0, 0, 0, 0, 0, 0, 239, 255, 0, 1]⟩],
      .infoTs true 4294967295 4294967295,
      .pad] }
set_option maxRecDepth 100000 in
theorem exampleMsg_wf : exampleMsg.WF := by decide
example : decode (encode exampleMsg) = ok exampleMsg := C08_roundtrip _ exampleMsg_wf
example : ∀ x ∈ [12, 10, 265, 10], (10 : Int) ≤ x ∧ x < 10 + 256 := by decide

end DustVerif.Wire
