import DustVerif.Model.Time
/-! Property C14: time/duration wire conversions are exact; arithmetic normalised and monotone. -/
namespace DustVerif.Time

/-- the heart of C14: for every nanosecond value the fraction round trip is the identity -/
theorem C14_fraction_roundtrip (ns : Nat) (h : ns < NS) :
    fractionToNanosec (nanosecToFraction ns) = ns := by
  unfold fractionToNanosec nanosecToFraction NS TWO32 at *
  have hd : (ns * 4294967296 + (1000000000 - 1)) / 1000000000 < 4294967296 := by omega
  rw [Nat.mod_eq_of_lt hd]
  have h1 : 1000000000 * ((ns * 4294967296 + (1000000000 - 1)) / 1000000000)
      ≤ ns * 4294967296 + (1000000000 - 1) := Nat.mul_div_le _ _
  have h2 : ns * 4294967296
      ≤ 1000000000 * ((ns * 4294967296 + (1000000000 - 1)) / 1000000000) := by omega
  have hb : (ns * 4294967296 + (1000000000 - 1)) / 1000000000 * 1000000000 / 4294967296 = ns := by
    omega
  rw [hb]; omega

/-- the pinned commit's rounding version loses a nanosecond (kept: regression witness D18) -/
theorem C14_rounding_counterexample :
    fractionToNanosec (nanosecToFractionRounding 1) = 0 := by decide

theorem asI32_asU32 (s : Int) (h : inI32 s) : asI32 (asU32 s) = s := by
  unfold asI32 asU32 inI32 I32MIN I32MAX TWO32 at *
  simp only []
  omega

/-- Duration → behavior Duration → Duration -/
theorem C14_roundtrip_behavior (d : Dur) (h : d.normalized) : behToDur (durToBeh d) = d := by
  unfold behToDur durToBeh
  simp [C14_fraction_roundtrip d.ns h]

/-- Duration → message Time → Duration, all i32 seconds (wrap cast pair is the identity) -/
theorem C14_roundtrip_msg (d : Dur) (h : d.normalized) (hs : inI32 d.sec) :
    msgToDur (durToMsg d) = d := by
  unfold msgToDur durToMsg
  have := asI32_asU32 d.sec hs
  simp [C14_fraction_roundtrip d.ns h, this]

theorem transportNew_normalized (s : Int) (n : Nat) (h : n < NS) (hs : inI32 s) :
    transportNew s n = some { sec := s, ns := n } := by
  unfold transportNew inI32 I32MIN I32MAX NS at *
  have h1 : n / 1000000000 = 0 := by omega
  have h2 : n % 1000000000 = n := by omega
  simp [h1, h2]; omega

theorem new_normalized_id (s : Int) (n : Nat) (h : n < NS) (hs : inI32 s) :
    Dur.new s n = { sec := s, ns := n } := by
  unfold Dur.new sat32 inI32 I32MIN I32MAX NS at *
  have h1 : n / 1000000000 = 0 := by omega
  have h2 : n % 1000000000 = n := by omega
  simp [h1, h2]; omega

/-- source-timestamp path: writer's DDS time → transport → INFO_TS → transport → reader's DDS time -/
theorem C14_roundtrip_time_chain (t : Dur) (h : t.normalized) (hs : inI32 t.sec) :
    timeChain t = some t := by
  unfold timeChain
  rw [transportNew_normalized t.sec t.ns h hs]
  simp only []
  have h1 : ((asU32 t.sec : Int)).toNat = asU32 t.sec := by simp
  rw [h1, asI32_asU32 t.sec hs, C14_fraction_roundtrip t.ns h,
      transportNew_normalized t.sec t.ns h hs]
  simp [new_normalized_id t.sec t.ns h hs]

/-- `new` always normalises, whatever the inputs -/
theorem C14_new_normalized (s : Int) (n : Nat) : (Dur.new s n).normalized := by
  unfold Dur.new Dur.normalized NS; simp only []; omega

theorem C14_add_normalized (a b : Dur) : (a.add b).normalized := by
  unfold Dur.add Dur.normalized NS TWO32 at *; simp only []; omega

theorem C14_sub_normalized (a b : Dur) (ha : a.normalized) (hb : b.normalized) :
    (a.sub b).normalized := by
  unfold Dur.sub Dur.normalized asU32 NS TWO32 at *
  split <;> simp only [] <;> omega

theorem C14_timeSub_normalized (a b : Dur) : (timeSub a b).normalized :=
  C14_sub_normalized _ _ (C14_new_normalized _ _) (C14_new_normalized _ _)

/-- result seconds do not hit the i32 rails (no saturation happened) -/
def addNoSat (a d : Dur) : Prop := inI32 (a.sec + d.sec) ∧ inI32 (a.sec + d.sec + 1)
def subNoSat (a d : Dur) : Prop := inI32 (a.sec - d.sec) ∧ inI32 (a.sec - d.sec - 1)
instance (a d : Dur) : Decidable (addNoSat a d) := by unfold addNoSat inI32; exact inferInstance
instance (a d : Dur) : Decidable (subNoSat a d) := by unfold subNoSat inI32; exact inferInstance
instance (x : Int) : Decidable (inI32 x) := by unfold inI32; exact inferInstance
instance (d : Dur) : Decidable d.normalized := by unfold Dur.normalized; exact inferInstance

theorem asI32_small (q : Nat) (h : q ≤ 1) : asI32 q = q := by
  unfold asI32 TWO32; simp only []; omega

theorem sat32_id (x : Int) (h : inI32 x) : sat32 x = x := by
  unfold sat32 inI32 I32MIN I32MAX at *; repeat' split
  all_goals omega

/-- closed form of `add` away from saturation -/
theorem add_nosat (a d : Dur) (ha : a.normalized) (hd : d.normalized) (h : addNoSat a d) :
    a.add d = { sec := a.sec + d.sec + ((a.ns + d.ns) / NS : Nat), ns := (a.ns + d.ns) % NS } := by
  unfold Dur.normalized NS at *
  have q : (a.ns + d.ns) / 1000000000 ≤ 1 := by omega
  unfold Dur.add
  simp only []
  rw [sat32_id _ h.1, asI32_small _ (by unfold NS; exact q)]
  have hq : inI32 (a.sec + d.sec + (((a.ns + d.ns) / NS : Nat) : Int)) := by
    unfold addNoSat inI32 I32MIN I32MAX NS at *; omega
  rw [sat32_id _ hq]
  unfold NS TWO32
  congr 1
  omega

theorem sub_nosat (a d : Dur) (ha : a.normalized) (hd : d.normalized) (h : subNoSat a d) :
    a.sub d = if a.ns < d.ns then { sec := a.sec - d.sec - 1, ns := NS + a.ns - d.ns }
              else { sec := a.sec - d.sec, ns := a.ns - d.ns } := by
  unfold Dur.sub
  simp only []
  rw [sat32_id _ h.1, sat32_id _ h.2]
  split
  · congr 1
    unfold Dur.normalized asU32 NS TWO32 at *
    omega
  · rfl

/-- monotone in the left operand, away from saturation -/
theorem C14_add_monotone_partial (a b d : Dur) (ha : a.normalized) (hb : b.normalized)
    (hd : d.normalized) (hab : a.le b) (h1 : addNoSat a d) (h2 : addNoSat b d) :
    (a.add d).le (b.add d) := by
  rw [add_nosat a d ha hd h1, add_nosat b d hb hd h2]
  unfold Dur.le Dur.normalized NS at *
  simp only []
  omega

/-- monotone in the right operand (`d ≤ d' → t+d ≤ t+d'`), away from saturation -/
theorem C14_add_monotone_right_partial (t d e : Dur) (ht : t.normalized) (hd : d.normalized)
    (he : e.normalized) (hde : d.le e) (h1 : addNoSat t d) (h2 : addNoSat t e) :
    (t.add d).le (t.add e) := by
  rw [add_nosat t d ht hd h1, add_nosat t e ht he h2]
  unfold Dur.le Dur.normalized NS at *
  simp only []
  omega

theorem C14_sub_monotone_partial (a b d : Dur) (ha : a.normalized) (hb : b.normalized)
    (hd : d.normalized) (hab : a.le b) (h1 : subNoSat a d) (h2 : subNoSat b d) :
    (a.sub d).le (b.sub d) := by
  rw [sub_nosat a d ha hd h1, sub_nosat b d hb hd h2]
  unfold Dur.le Dur.normalized NS at *
  split <;> split <;> simp only [] <;> omega

/-- at the i32 rail seconds saturate but nanoseconds wrap: addition is not monotone there
    (finding D50; replayed on the implementation by the harness) -/
theorem C14_add_monotone_saturation_counterexample :
    let a : Dur := { sec := 2147483646, ns := 900000000 }
    let b : Dur := { sec := 2147483647, ns := 500000000 }
    let d : Dur := { sec := 0, ns := 600000000 }
    a.le b ∧ ¬ (a.add d).le (b.add d) := by decide

/-- non-vacuity: the hypotheses of the partial theorems are satisfiable -/
example : let a : Dur := { sec := 5, ns := 999999999 }; let d : Dur := { sec := -7, ns := 1 }
    a.normalized ∧ d.normalized ∧ addNoSat a d ∧ subNoSat a d ∧ inI32 a.sec := by decide

end DustVerif.Time
