import DustVerif.Model.Time
/-! Property C14: time/duration wire conversions are exact; arithmetic normalised and monotone. -/
namespace DustVerif.Time

/-- the heart of C14: for every nanosecond value the fraction round trip is the identity -/
theorem C14_fraction_roundtrip (ns : Nat) (h : ns < NS) :
    fractionToNanosec (nanosecToFraction ns) = ns := by
  unfold fractionToNanosec nanosecToFraction NS TWO32 at *
  have hd : (ns * 4294967296 + (1000000000 - 1)) / 1000000000 < 4294967296 := by omega
  rw [Nat.mod_eq_of_lt hd]
  have h1 : 1000000000 * ((ns * 4294967296 + (1000000000 - 1)) / 1000000000)
      ≤ ns * 4294967296 + (1000000000 - 1) := Nat.mul_div_le _ _
  have h2 : ns * 4294967296
      ≤ 1000000000 * ((ns * 4294967296 + (1000000000 - 1)) / 1000000000) := by omega
  have hb : (ns * 4294967296 + (1000000000 - 1)) / 1000000000 * 1000000000 / 4294967296 = ns := by
    omega
  rw [hb]; omega

/-- the pinned commit's rounding version loses a nanosecond (kept: regression witness D18) -/
theorem C14_rounding_counterexample :
    fractionToNanosec (nanosecToFractionRounding 1) = 0 := by decide

theorem asI32_asU32 (s : Int) (h : inI32 s) : asI32 (asU32 s) = s := by
  unfold asI32 asU32 inI32 I32MIN I32MAX TWO32 at *
  simp only []
  omega

/-- Duration → behavior Duration → Duration -/
theorem C14_roundtrip_behavior (d : Dur) (h : d.normalized) : behToDur (durToBeh d) = d := by
  unfold behToDur durToBeh
  simp [C14_fraction_roundtrip d.ns h]

/-- Duration → message Time → Duration, all i32 seconds (wrap cast pair is the identity) -/
theorem C14_roundtrip_msg (d : Dur) (h : d.normalized) (hs : inI32 d.sec) :
    msgToDur (durToMsg d) = d := by
  unfold msgToDur durToMsg
  have := asI32_asU32 d.sec hs
  simp [C14_fraction_roundtrip d.ns h, this]

theorem transportNew_normalized (s : Int) (n : Nat) (h : n < NS) (hs : inI32 s) :
    transportNew s n = some { sec := s, ns := n } := by
  unfold transportNew inI32 I32MIN I32MAX NS at *
  have h1 : n / 1000000000 = 0 := by omega
  have h2 : n % 1000000000 = n := by omega
  simp [h1, h2]; omega

theorem new_normalized_id (s : Int) (n : Nat) (h : n < NS) (hs : inI32 s) :
    Dur.new s n = { sec := s, ns := n } := by
  unfold Dur.new sat32 inI32 I32MIN I32MAX NS at *
  have h1 : n / 1000000000 = 0 := by omega
  have h2 : n % 1000000000 = n := by omega
  simp [h1, h2]; omega

/-- source-timestamp path: writer's DDS time → transport → INFO_TS → transport → reader's DDS time -/
theorem C14_roundtrip_time_chain (t : Dur) (h : t.normalized) (hs : inI32 t.sec) :
    timeChain t = some t := by
  unfold timeChain
  rw [transportNew_normalized t.sec t.ns h hs]
  simp only []
  have h1 : ((asU32 t.sec : Int)).toNat = asU32 t.sec := by simp
  rw [h1, asI32_asU32 t.sec hs, C14_fraction_roundtrip t.ns h,
      transportNew_normalized t.sec t.ns h hs]
  simp [new_normalized_id t.sec t.ns h hs]

/-- `new` always normalises, whatever the inputs -/
theorem C14_new_normalized (s : Int) (n : Nat) : (Dur.new s n).normalized := by
  unfold Dur.new Dur.normalized NS; simp only []; omega

/-- the clamped total is inside the representable range -/
theorem clampTot_range (t : Int) : TOT_MIN ≤ clampTot t ∧ clampTot t ≤ TOT_MAX := by
  unfold clampTot TOT_MIN TOT_MAX I32MIN I32MAX NS
  repeat' split
  all_goals omega

theorem clampTot_mono (t u : Int) (h : t ≤ u) : clampTot t ≤ clampTot u := by
  unfold clampTot TOT_MIN TOT_MAX I32MIN I32MAX NS
  repeat' split
  all_goals omega

theorem clampTot_id (t : Int) (h : TOT_MIN ≤ t ∧ t ≤ TOT_MAX) : clampTot t = t := by
  unfold clampTot; split
  · omega
  · split <;> omega

/-- `from_total_nanosec` always yields a normalised value with i32 seconds (the casts `as i32` / `as u32` are exact) -/
theorem fromTotal_normalized (t : Int) : (fromTotal t).normalized ∧ inI32 (fromTotal t).sec := by
  have h := clampTot_range t
  unfold fromTotal Dur.normalized inI32 TOT_MIN TOT_MAX I32MIN I32MAX NS at *
  simp only []
  omega

/-- decoding is monotone: a larger total gives a larger (sec, ns) pair -/
theorem fromTotal_mono (t u : Int) (h : t ≤ u) : (fromTotal t).le (fromTotal u) := by
  have h1 := clampTot_mono t u h
  have h2 := clampTot_range t
  unfold fromTotal Dur.le TOT_MIN TOT_MAX I32MIN I32MAX NS at *
  simp only []
  omega

/-- the (sec, ns) pair of a decoded total, put back together, is the clamped total -/
theorem totalNs_fromTotal (t : Int) : totalNs (fromTotal t) = clampTot t := by
  have h2 := clampTot_range t
  unfold totalNs fromTotal TOT_MIN TOT_MAX I32MIN I32MAX NS at *
  simp only []
  omega

/-- on normalised values the lexicographic order is the order of the totals -/
theorem le_iff_total (a b : Dur) (ha : a.normalized) (hb : b.normalized) :
    a.le b ↔ totalNs a ≤ totalNs b := by
  unfold Dur.le totalNs Dur.normalized NS at *
  constructor <;> intro h <;> omega

/-- every sum is normalised, whatever the operands (also unnormalised ones such as DURATION_INFINITE) -/
theorem C14_add_normalized (a b : Dur) : (a.add b).normalized := (fromTotal_normalized _).1

/-- every difference is normalised, whatever the operands -/
theorem C14_sub_normalized (a b : Dur) : (a.sub b).normalized := (fromTotal_normalized _).1

theorem C14_timeSub_normalized (a b : Dur) : (timeSub a b).normalized := C14_sub_normalized _ _

/-- the result is the exact sum / difference of the totals, saturated as a whole at the ends of the i32-second range -/
theorem C14_add_exact (a b : Dur) : totalNs (a.add b) = clampTot (totalNs a + totalNs b) := totalNs_fromTotal _
theorem C14_sub_exact (a b : Dur) : totalNs (a.sub b) = clampTot (totalNs a - totalNs b) := totalNs_fromTotal _

/-- result seconds do not hit the i32 rails (no saturation happened) -/
def addNoSat (a d : Dur) : Prop := inI32 (a.sec + d.sec) ∧ inI32 (a.sec + d.sec + 1)
def subNoSat (a d : Dur) : Prop := inI32 (a.sec - d.sec) ∧ inI32 (a.sec - d.sec - 1)
instance (a d : Dur) : Decidable (addNoSat a d) := by unfold addNoSat inI32; exact inferInstance
instance (a d : Dur) : Decidable (subNoSat a d) := by unfold subNoSat inI32; exact inferInstance
instance (x : Int) : Decidable (inI32 x) := by unfold inI32; exact inferInstance
instance (d : Dur) : Decidable d.normalized := by unfold Dur.normalized; exact inferInstance

/-- closed form of `add` away from saturation: the schoolbook carry -/
theorem C14_add_nosat (a d : Dur) (ha : a.normalized) (hd : d.normalized) (h : addNoSat a d) :
    a.add d = { sec := a.sec + d.sec + ((a.ns + d.ns) / NS : Nat), ns := (a.ns + d.ns) % NS } := by
  have hr : TOT_MIN ≤ totalNs a + totalNs d ∧ totalNs a + totalNs d ≤ TOT_MAX := by
    unfold addNoSat inI32 totalNs TOT_MIN TOT_MAX I32MIN I32MAX Dur.normalized NS at *; omega
  unfold Dur.add fromTotal
  simp only [clampTot_id _ hr]
  unfold totalNs Dur.normalized NS at *
  congr 1 <;> omega

/-- closed form of `sub` away from saturation: the schoolbook borrow -/
theorem C14_sub_nosat (a d : Dur) (ha : a.normalized) (hd : d.normalized) (h : subNoSat a d) :
    a.sub d = if a.ns < d.ns then { sec := a.sec - d.sec - 1, ns := NS + a.ns - d.ns }
              else { sec := a.sec - d.sec, ns := a.ns - d.ns } := by
  have hr : TOT_MIN ≤ totalNs a - totalNs d ∧ totalNs a - totalNs d ≤ TOT_MAX := by
    unfold subNoSat inI32 totalNs TOT_MIN TOT_MAX I32MIN I32MAX Dur.normalized NS at *; omega
  unfold Dur.sub fromTotal
  simp only [clampTot_id _ hr]
  unfold totalNs Dur.normalized NS at *
  split <;> (congr 1 <;> omega)

/-- FULL monotonicity in the left operand: for ALL normalised operands, saturation included -/
theorem C14_add_monotone (a b d : Dur) (ha : a.normalized) (hb : b.normalized) (hab : a.le b) :
    (a.add d).le (b.add d) := by
  have := (le_iff_total a b ha hb).1 hab
  exact fromTotal_mono _ _ (by omega)

/-- monotone in the right operand (`d ≤ e → t+d ≤ t+e`), all normalised operands -/
theorem C14_add_monotone_right (t d e : Dur) (hd : d.normalized) (he : e.normalized) (hde : d.le e) :
    (t.add d).le (t.add e) := by
  have := (le_iff_total d e hd he).1 hde
  exact fromTotal_mono _ _ (by omega)

/-- subtraction is monotone in the minuend ... -/
theorem C14_sub_monotone (a b d : Dur) (ha : a.normalized) (hb : b.normalized) (hab : a.le b) :
    (a.sub d).le (b.sub d) := by
  have := (le_iff_total a b ha hb).1 hab
  exact fromTotal_mono _ _ (by omega)

/-- ... and antitone in the subtrahend -/
theorem C14_sub_antitone_right (t d e : Dur) (hd : d.normalized) (he : e.normalized) (hde : d.le e) :
    (t.sub e).le (t.sub d) := by
  have := (le_iff_total d e hd he).1 hde
  exact fromTotal_mono _ _ (by omega)

/-- `Time - Time` (both operands re-normalised by `new`) is monotone in the left operand -/
theorem C14_timeSub_monotone (a b d : Dur) (hab : (Dur.new a.sec a.ns).le (Dur.new b.sec b.ns)) :
    (timeSub a d).le (timeSub b d) :=
  C14_sub_monotone _ _ _ (C14_new_normalized _ _) (C14_new_normalized _ _) hab

/-- a normalised value is determined by its total -/
theorem eq_of_total_eq (a b : Dur) (ha : a.normalized) (hb : b.normalized) (h : totalNs a = totalNs b) : a = b := by
  cases a with | mk as an => cases b with | mk bs bn =>
  unfold totalNs Dur.normalized NS at *
  simp only at *
  have h1 : as = bs := by omega
  have h2 : an = bn := by omega
  subst h1; subst h2; rfl

/-- **C14_add_sub_cancel**: away from saturation subtraction undoes addition exactly — for ALL normalised operands whose
    sum stays inside the i32-second range, `(a + d) - d = a`, seconds and nanoseconds (a deadline or lifespan added to a
    timestamp and taken off again gives the timestamp back, to the nanosecond). -/
theorem C14_add_sub_cancel (a d : Dur) (ha : a.normalized) (hd : d.normalized) (hs : inI32 a.sec) (h : addNoSat a d) :
    (a.add d).sub d = a := by
  apply eq_of_total_eq _ _ (C14_sub_normalized _ _) ha
  rw [C14_sub_exact, C14_add_exact]
  have hr : TOT_MIN ≤ totalNs a + totalNs d ∧ totalNs a + totalNs d ≤ TOT_MAX := by
    unfold addNoSat inI32 totalNs TOT_MIN TOT_MAX I32MIN I32MAX Dur.normalized NS at *; omega
  rw [clampTot_id _ hr]
  have hr2 : TOT_MIN ≤ totalNs a + totalNs d - totalNs d ∧ totalNs a + totalNs d - totalNs d ≤ TOT_MAX := by
    unfold inI32 totalNs TOT_MIN TOT_MAX I32MIN I32MAX Dur.normalized NS at *; omega
  rw [clampTot_id _ hr2]
  omega

/-- **C14_sub_add_cancel**: and addition undoes subtraction: `(a - d) + d = a` away from saturation. -/
theorem C14_sub_add_cancel (a d : Dur) (ha : a.normalized) (hd : d.normalized) (hs : inI32 a.sec) (h : subNoSat a d) :
    (a.sub d).add d = a := by
  apply eq_of_total_eq _ _ (C14_add_normalized _ _) ha
  rw [C14_add_exact, C14_sub_exact]
  have hr : TOT_MIN ≤ totalNs a - totalNs d ∧ totalNs a - totalNs d ≤ TOT_MAX := by
    unfold subNoSat inI32 totalNs TOT_MIN TOT_MAX I32MIN I32MAX Dur.normalized NS at *; omega
  rw [clampTot_id _ hr]
  have hr2 : TOT_MIN ≤ totalNs a - totalNs d + totalNs d ∧ totalNs a - totalNs d + totalNs d ≤ TOT_MAX := by
    unfold inI32 totalNs TOT_MIN TOT_MAX I32MIN I32MAX Dur.normalized NS at *; omega
  rw [clampTot_id _ hr2]
  omega

/-- at the rail the cancellation fails (saturation loses the excess): the `addNoSat` hypothesis is needed -/
theorem C14_add_sub_cancel_saturation_counterexample :
    let a : Dur := { sec := 2147483647, ns := 5 }
    let d : Dur := { sec := 1, ns := 0 }
    a.normalized ∧ d.normalized ∧ inI32 a.sec ∧ (a.add d).sub d ≠ a := by decide

/-- before fixes/D50.patch: at the i32 rail seconds saturated but nanoseconds wrapped, so addition was not monotone there
    (defect D50, repaired; regression witness on the old operator) -/
theorem C14_add_monotone_saturation_counterexample :
    let a : Dur := { sec := 2147483646, ns := 900000000 }
    let b : Dur := { sec := 2147483647, ns := 500000000 }
    let d : Dur := { sec := 0, ns := 600000000 }
    a.le b ∧ ¬ (a.addOld d).le (b.addOld d) ∧ (a.add d).le (b.add d) := by decide

/-- non-vacuity: the hypotheses of the theorems are satisfiable, at the rail too -/
example : let a : Dur := { sec := 5, ns := 999999999 }; let d : Dur := { sec := -7, ns := 1 }
    a.normalized ∧ d.normalized ∧ addNoSat a d ∧ subNoSat a d ∧ inI32 a.sec := by decide
example : let a : Dur := { sec := 2147483647, ns := 999999999 }; let d : Dur := { sec := 1, ns := 1 }
    a.normalized ∧ d.normalized ∧ a.add d = a ∧ (a.sub { sec := -1, ns := 0 }) = a := by decide
example : fromTotal (-1) = { sec := -1, ns := 999999999 } := by decide

end DustVerif.Time
