import DustVerif.Proofs.PlistCheck
/-! Property C13: discovery data round-trips through its parameter-list encoding; unknown or vendor-specific
    parameters are ignored.  Model: Model/Plist.lean (schema-generic PL_CDR codec; the four real schemas are
    tables).  Helper lemmas: Proofs/Plist{Codec,List,Record}.lean.
    Configurations: `Cfg.fixed` = repository main + fixes/D-plist-1.patch (delivered); `Cfg.main` = main without
    that patch (the iterator reads the encapsulation header as a parameter) is kept for the regression witnesses. -/
namespace DustVerif.Plist

/-- C13 (round trip, generic): for EVERY byte order `e`, EVERY schema whose decode rows are consistent with its
    encode rows (pairwise distinct pids, each a 16-bit pid other than the sentinel; same codec; the default assumed for
    an absent parameter is the value that is not written) and EVERY record whose field values are in the value domain
    of their codecs and whose parameters fit the 16-bit length field, decoding the announcement written in byte order
    `e` is `Ok` and every field holds what was written — up to the documented normalisation `normField` (HISTORY
    KEEP_ALL carries depth -1; a type-information blob comes back with its padding).
    dust-dds writes `e = .le` (`intoBytes`); `e = .be` is what another vendor may send.  For a decoder without
    fixes/D-plist-1.patch (`cfg.fixHdr = false`) `consistent` additionally demands that no pid equals what the
    encapsulation header reads as (0x0300 under LE, 0x0002 under BE). -/
theorem C13_roundtrip (cfg : Cfg) (e : End) (E : List EncField) (D : List DecField) (d : Nat → FVal)
    (hc : consistent cfg e E D = true) (hw : ∀ g ∈ E, WFf g (d g.pid)) (hfit : FitsU16 e E d) :
    fromBytes cfg D (intoBytesE e E d) = .ok (D.map (fun f => (f.pid, normField f.codec (d f.pid)))) := by
  simp only [consistent, Bool.and_eq_true] at hc
  obtain ⟨⟨hn, hpid⟩, hcompat⟩ := hc
  have hraw : ∀ p ∈ (recordParams e E d).map padP, RawOk p := by
    intro p hp
    simp only [List.mem_map] at hp
    obtain ⟨r, hr, rfl⟩ := hp
    have hmem := recordParams_pids e E d r hr
    simp only [List.mem_map] at hmem
    obtain ⟨g, hg, hgp⟩ := hmem
    have hok := allPidOk_mem cfg e E hpid g hg
    simp only [pidOk, Bool.and_eq_true, decide_eq_true_eq, bne_iff_ne, ne_eq] at hok
    refine ⟨?_, ?_, hfit r hr⟩
    · simp only [padP, ← hgp]; exact hok.1.1
    · simp only [padP, ← hgp]; exact hok.1.2
  have hbytes : intoBytesE e E d
      = plHeader e ++ (serRaws e ((recordParams e E d).map padP) ++ (sentinel e ++ [])) := by
    simp [intoBytesE, serParams_eq e _ hfit]
  have hpl : mkPl cfg (intoBytesE e E d) = plOf cfg e E d := by
    rw [hbytes, mkPl_raws cfg e _ _ hraw]; rfl
  have hlen : ¬ (intoBytesE e E d).length < 4 := by
    rw [hbytes]; simp [plHeader_length]
  simp only [fromBytes, hlen, if_false, hpl]
  apply decFields_ok
  intro f hf
  obtain ⟨g, hg, hcg⟩ := hasCompat_exists E f (allCompat_mem E D hcompat f hf)
  exact decField_enc cfg e E d g f hg hn (allPidOk_mem cfg e E hpid g hg) hcg (hw g hg)

/-- non-vacuity: a publication record with non-default reliability, partition, user data, representation, type
    information and two unicast locators (everything else at its default) -/
def exPub : Nat → FVal := fun pid =>
  if pid == PID_ENDPOINT_GUID then .one [.bs [1, 2, 3, 4, 5, 6, 7, 8, 9, 10, 11, 12, 0, 0, 1, 2]]
  else if pid == PID_PARTICIPANT_GUID then .one [.bs [1, 2, 3, 4, 5, 6, 7, 8, 9, 10, 11, 12, 0, 0, 1, 193]]
  else if pid == PID_TOPIC_NAME then .one [.bs [83, 113, 117, 97, 114, 101]]
  else if pid == PID_TYPE_NAME then .one [.bs [83, 104, 97, 112, 101, 195, 169]]
  else if pid == PID_TYPE_INFORMATION then .blob (some [1, 2, 3, 4, 5])
  else if pid == PID_RELIABILITY then .one [.i 1, .i 5, .n 7]
  else if pid == PID_PARTITION then .one [.ss [[65], [], [42]]]
  else if pid == PID_USER_DATA then .one [.bs [9, 9, 9]]
  else if pid == PID_DATA_REPRESENTATION then .one [.ns [2, 0]]
  else if pid == PID_UNICAST_LOCATOR then
    .many [[.i 1, .n 7400, .bs [0, 0, 0, 0, 0, 0, 0, 0, 0, 0, 0, 0, 127, 0, 0, 1]],
           [.i (-1), .n 4294967295, .bs [255, 0, 0, 0, 0, 0, 0, 0, 0, 0, 0, 0, 0, 0, 0, 1]]]
  else defaultRec publicationDec pid

/-- the hypotheses of `C13_roundtrip` are satisfiable by a non-trivial record of a real schema, in both byte orders -/
example : (∀ g ∈ publicationEnc, WFf g (exPub g.pid)) ∧ FitsU16 .le publicationEnc exPub
    ∧ FitsU16 .be publicationEnc exPub :=
  ⟨wfRecB_sound _ _ (by decide), fitsB_sound _ _ _ (by decide), fitsB_sound _ _ _ (by decide)⟩

/-- and the record is written as 11 parameters -/
example : (recordParams .le publicationEnc exPub).length = 11 := by decide

/-- the four real schemas satisfy the side condition for the repaired decoder in BOTH byte orders (checked by
    evaluation of the tables) -/
theorem C13_participant_schema_consistent (e : End) : consistent Cfg.fixed e participantEnc participantDec = true := by
  cases e <;> decide
theorem C13_publication_schema_consistent (e : End) : consistent Cfg.fixed e publicationEnc publicationDec = true := by
  cases e <;> decide
theorem C13_subscription_schema_consistent (e : End) :
    consistent Cfg.fixed e subscriptionEnc subscriptionDec = true := by
  cases e <;> decide
theorem C13_topic_schema_consistent (e : End) : consistent Cfg.fixed e topicEnc topicDec = true := by
  cases e <;> decide

/-- … and, for what dust-dds itself writes (little-endian), also for the decoder of main without the patch -/
theorem C13_real_schemas_consistent_le_main :
    consistent Cfg.main .le participantEnc participantDec = true ∧
    consistent Cfg.main .le publicationEnc publicationDec = true ∧
    consistent Cfg.main .le subscriptionEnc subscriptionDec = true ∧
    consistent Cfg.main .le topicEnc topicDec = true := by decide

/-- C13 (round trip) for the four real records — SpdpDiscoveredParticipantData, DiscoveredWriterData,
    DiscoveredReaderData, DiscoveredTopicData — written in EITHER byte order and read by the repaired decoder -/
theorem C13_roundtrip_real (e : End) (d : Nat → FVal) :
    ((∀ g ∈ participantEnc, WFf g (d g.pid)) → FitsU16 e participantEnc d →
      fromBytes Cfg.fixed participantDec (intoBytesE e participantEnc d)
        = .ok (participantDec.map (fun f => (f.pid, normField f.codec (d f.pid))))) ∧
    ((∀ g ∈ publicationEnc, WFf g (d g.pid)) → FitsU16 e publicationEnc d →
      fromBytes Cfg.fixed publicationDec (intoBytesE e publicationEnc d)
        = .ok (publicationDec.map (fun f => (f.pid, normField f.codec (d f.pid))))) ∧
    ((∀ g ∈ subscriptionEnc, WFf g (d g.pid)) → FitsU16 e subscriptionEnc d →
      fromBytes Cfg.fixed subscriptionDec (intoBytesE e subscriptionEnc d)
        = .ok (subscriptionDec.map (fun f => (f.pid, normField f.codec (d f.pid))))) ∧
    ((∀ g ∈ topicEnc, WFf g (d g.pid)) → FitsU16 e topicEnc d →
      fromBytes Cfg.fixed topicDec (intoBytesE e topicEnc d)
        = .ok (topicDec.map (fun f => (f.pid, normField f.codec (d f.pid))))) :=
  ⟨C13_roundtrip Cfg.fixed e _ _ d (C13_participant_schema_consistent e),
   C13_roundtrip Cfg.fixed e _ _ d (C13_publication_schema_consistent e),
   C13_roundtrip Cfg.fixed e _ _ d (C13_subscription_schema_consistent e),
   C13_roundtrip Cfg.fixed e _ _ d (C13_topic_schema_consistent e)⟩

/-- the announcements dust-dds writes itself (`into_bytes`, little-endian) also round-trip through the decoder of
    main without the patch -/
theorem C13_roundtrip_real_le_main (d : Nat → FVal) :
    ((∀ g ∈ participantEnc, WFf g (d g.pid)) → FitsU16 .le participantEnc d →
      fromBytes Cfg.main participantDec (intoBytes participantEnc d)
        = .ok (participantDec.map (fun f => (f.pid, normField f.codec (d f.pid))))) ∧
    ((∀ g ∈ publicationEnc, WFf g (d g.pid)) → FitsU16 .le publicationEnc d →
      fromBytes Cfg.main publicationDec (intoBytes publicationEnc d)
        = .ok (publicationDec.map (fun f => (f.pid, normField f.codec (d f.pid))))) ∧
    ((∀ g ∈ subscriptionEnc, WFf g (d g.pid)) → FitsU16 .le subscriptionEnc d →
      fromBytes Cfg.main subscriptionDec (intoBytes subscriptionEnc d)
        = .ok (subscriptionDec.map (fun f => (f.pid, normField f.codec (d f.pid))))) ∧
    ((∀ g ∈ topicEnc, WFf g (d g.pid)) → FitsU16 .le topicEnc d →
      fromBytes Cfg.main topicDec (intoBytes topicEnc d)
        = .ok (topicDec.map (fun f => (f.pid, normField f.codec (d f.pid))))) :=
  ⟨C13_roundtrip Cfg.main .le _ _ d C13_real_schemas_consistent_le_main.1,
   C13_roundtrip Cfg.main .le _ _ d C13_real_schemas_consistent_le_main.2.1,
   C13_roundtrip Cfg.main .le _ _ d C13_real_schemas_consistent_le_main.2.2.1,
   C13_roundtrip Cfg.main .le _ _ d C13_real_schemas_consistent_le_main.2.2.2⟩

/-- C13 (unknown parameters are ignored): take ANY well-delimited parameter list in either byte order (arbitrary
    parameters `ps1 ++ ps2`, not only self-produced ones, anything after the sentinel) and insert ANY parameter `q`
    whose pid is not one the record reads (it may carry the vendor-specific bit 0x8000 or the must-understand bit
    0x4000, be PID_PAD, have any value and any length below 2^16) at ANY position before the sentinel: the decoder
    returns exactly the same result (same record, or same error).  For every schema and every configuration. -/
theorem C13_unknown_ignored (cfg : Cfg) (e : End) (D : List DecField) (ps1 ps2 : List Param) (q : Param)
    (tail : Bytes) (hq : RawOk q) (hnot : ∀ f ∈ D, f.pid ≠ q.1) (h1 : ∀ p ∈ ps1, RawOk p)
    (h2 : ∀ p ∈ ps2, RawOk p) :
    fromBytes cfg D (plHeader e ++ (serRaws e (ps1 ++ q :: ps2) ++ (sentinel e ++ tail)))
      = fromBytes cfg D (plHeader e ++ (serRaws e (ps1 ++ ps2) ++ (sentinel e ++ tail))) := by
  have hA : ∀ p ∈ ps1 ++ q :: ps2, RawOk p := by
    intro p hp
    simp only [List.mem_append, List.mem_cons] at hp
    rcases hp with hp | hp | hp
    · exact h1 p hp
    · subst hp; exact hq
    · exact h2 p hp
  have hB : ∀ p ∈ ps1 ++ ps2, RawOk p := by
    intro p hp
    simp only [List.mem_append] at hp
    rcases hp with hp | hp
    · exact h1 p hp
    · exact h2 p hp
  have hl1 : ¬ (plHeader e ++ (serRaws e (ps1 ++ q :: ps2) ++ (sentinel e ++ tail))).length < 4 := by
    simp [plHeader_length]
  have hl2 : ¬ (plHeader e ++ (serRaws e (ps1 ++ ps2) ++ (sentinel e ++ tail))).length < 4 := by
    simp [plHeader_length]
  simp only [fromBytes, hl1, hl2, if_false, mkPl_raws cfg e _ _ hA, mkPl_raws cfg e _ _ hB]
  apply decFields_congr
  intro f hf
  have hne : q.1 ≠ f.pid := fun h => hnot f hf h.symm
  have := filterPid_insert f.pid (hdrItems cfg e ++ ps1) ps2 q hne
  simpa using this

/-- non-vacuity of `C13_unknown_ignored`: a vendor-specific parameter with an unpadded 3-octet value may be inserted
    between two parameters of a list, and its pid is not read by the participant record -/
example : RawOk (0x8001, [1, 2, 3]) ∧ RawOk (PID_VENDORID, [1, 16, 0, 0]) ∧ RawOk (0x4fff, [])
    ∧ (∀ f ∈ participantDec, f.pid ≠ 0x8001) := by
  refine ⟨by simp [RawOk], by simp [RawOk, PID_VENDORID], by simp [RawOk], by decide⟩

/-- C13 (the sentinel ends the list): whatever follows the sentinel — further parameters, also ones the record
    would read, or garbage — does not influence the result.  Any well-delimited list, either byte order, any schema. -/
theorem C13_after_sentinel_ignored (cfg : Cfg) (e : End) (D : List DecField) (ps : List Param) (tail : Bytes)
    (h : ∀ p ∈ ps, RawOk p) :
    fromBytes cfg D (plHeader e ++ (serRaws e ps ++ (sentinel e ++ tail)))
      = fromBytes cfg D (plHeader e ++ (serRaws e ps ++ (sentinel e ++ []))) := by
  have hl1 : ¬ (plHeader e ++ (serRaws e ps ++ (sentinel e ++ tail))).length < 4 := by simp [plHeader_length]
  have hl2 : ¬ (plHeader e ++ (serRaws e ps ++ (sentinel e ++ ([] : Bytes)))).length < 4 := by
    simp [plHeader_length]
  simp only [fromBytes, hl1, hl2, if_false, mkPl_raws cfg e _ _ h]

theorem ne_nil_of_length (big : Bytes) (hbig : big.length = 65536) : big ≠ [] := by
  intro h
  rw [h] at hbig
  simp at hbig

/-- what `write_cdr_parameter` emits for 65 536 octets of user data: the length field says 4 -/
theorem serParam_bigOctets (big : Bytes) (hl : big.length = 65536) :
    serParam .le (PID_USER_DATA, encCodec .le cOctets [.bs big])
      = serRaw .le (PID_USER_DATA, [0, 0, 1, 0]) ++ big := by
  have hpad : pad4 (encCodec .le cOctets [.bs big]) = [0, 0, 1, 0] ++ big := by
    simp [pad4, encCodec, cOctets, normPost, encMembers, encPrim, padTo, zeros, enc32, hl]
  simp [serParam, serRaw, hpad, hl, enc16, PID_USER_DATA]

/-- C13 (counter-example, finding D17, open): `write_cdr_parameter` stores the parameter length with
    `as u16` (rtps_data_representation_serialization.rs:46).  For EVERY participant record whose user_data is
    65 536 octets long (whatever the octets and the other fields) the announcement does not decode back to the
    record: the PID_USER_DATA parameter claims a length of 4, so the decoder reads an incomplete sequence and falls
    back to the empty default (or fails on what follows).  `C13_roundtrip` holds for every record that satisfies
    `FitsU16`.  Every configuration. -/
theorem C13_big_octets_counterexample (cfg : Cfg) (d : Nat → FVal) (big : Bytes) (hbig : big.length = 65536)
    (hd : d PID_USER_DATA = .one [.bs big]) :
    fromBytes cfg participantDec (intoBytes participantEnc d)
      ≠ .ok (participantDec.map (fun f => (f.pid, normField f.codec (d f.pid)))) := by
  intro heq
  have hnil := ne_nil_of_length big hbig
  -- the bytes: header, then the user-data parameter with the wrapped length, then everything else
  have hne : ([PVal.bs big] == dEmpty) = false := by
    simp [dEmpty, hnil]
  have hbytes : ∃ rest, intoBytes participantEnc d
      = plHeader .le ++ (serRaw .le (PID_USER_DATA, [0, 0, 1, 0]) ++ rest) := by
    refine ⟨big ++ (serParams .le (recordParams .le participantEnc.tail d) ++ sentinel .le), ?_⟩
    have : recordParams .le participantEnc d
        = (PID_USER_DATA, encCodec .le cOctets [.bs big]) :: recordParams .le participantEnc.tail d := by
      simp [participantEnc, recordParams, fieldParams, hd, hne]
    simp [intoBytes, intoBytesE, this, serParams, serParam_bigOctets big hbig]
  obtain ⟨rest, hb⟩ := hbytes
  obtain ⟨X, t, hpl⟩ := mkPl_first cfg .le (PID_USER_DATA, [0, 0, 1, 0]) rest (by simp [RawOk, PID_USER_DATA])
  have hlen : ¬ (intoBytes participantEnc d).length < 4 := by rw [hb]; simp [plHeader_length]
  rw [fromBytes, if_neg hlen, hb, hpl] at heq
  -- second field read: user data
  obtain ⟨v1, vs1, _, h2, hL1⟩ := decFields_cons_ok _ _ _ _ _ heq
  obtain ⟨v2, vs2, hud, _, hL2⟩ := decFields_cons_ok _ _ _ _ _ h2
  have hdec : decField cfg ⟨0, hdrByte .le, some .le, hdrItems cfg .le ++ (PID_USER_DATA, [0, 0, 1, 0]) :: X, t⟩
      ⟨PID_USER_DATA, cOctets, .optional dEmpty⟩ = .ok (.one dEmpty) := by
    by_cases hf : cfg.fixHdr = true
    · simp [hdrItems, hf, decField, seek, findPid, PID_USER_DATA, decFound, cOctets, decCodec, decMembers, decPrim,
        rdU32, alignTo, skip, padTo, takeN, rd32]
    · simp [hdrItems, hf, hdrPid, decField, seek, findPid, PID_USER_DATA, decFound, cOctets, decCodec, decMembers,
        decPrim, rdU32, alignTo, skip, padTo, takeN, rd32]
  rw [hdec] at hud
  simp only [Out.ok.injEq] at hud
  subst hud
  rw [hL2] at hL1
  simp only [participantDec, List.map_cons, List.cons.injEq, Prod.mk.injEq] at hL1
  have := hL1.2.1.2
  simp [normField, hd, normPost, cOctets, dEmpty, hnil] at this

/-- the hypothesis of the counter-example is satisfiable: there are octet strings of every length -/
example (n : Nat) : (List.replicate n 0 : Bytes).length = n := List.length_replicate ..

/-- the all-default participant announcement of the unit test `serialize_spdp_discovered_participant_data_all_default`
    in the big-endian encapsulation PL_CDR_BE (`00 02 00 00`), which RTPS 9.4.2.11 allows every sender to use -/
def beParticipant : Bytes :=
  [0, 2, 0, 0,
   0, 0x50, 0, 16, 8, 8, 8, 8, 8, 8, 8, 8, 8, 8, 8, 8, 0, 0, 1, 0xc1,
   0, 0x15, 0, 4, 2, 4, 0, 0,
   0, 0x16, 0, 4, 73, 74, 0, 0,
   0, 0x58, 0, 4, 0, 0, 0, 2,
   0, 0x02, 0, 8, 0, 0, 0, 100, 0, 0, 0, 0,
   0, 1, 0, 0]

/-- C13 regression witness of the repaired finding D-plist-1 (replayed on main): before fixes/D-plist-1.patch
    `PidIterator` started at offset 0 of the payload and read the encapsulation header as a parameter.  Under
    PL_CDR_BE the header `00 02 00 00` IS `PID_PARTICIPANT_LEASE_DURATION` (0x0002) with length 0 and is the first
    occurrence of that pid; decoding a Duration from zero octets fails, so EVERY big-endian participant announcement
    was rejected — which is also why the participant schema does not satisfy the side condition of `C13_roundtrip`
    for that decoder and byte order. -/
theorem C13_big_endian_participant_counterexample :
    fromBytes Cfg.asIs participantDec beParticipant = .err .notEnoughData ∧
    fromBytes Cfg.main participantDec beParticipant = .err .notEnoughData ∧
    consistent Cfg.main .be participantEnc participantDec = false := by decide

/-- … and with the patch the same octets decode to the announced record (lease duration 100 s, protocol 2.4,
    vendor 73.74, builtin endpoints 2) -/
theorem C13_big_endian_participant_fixed :
    fromBytes Cfg.fixed participantDec beParticipant
      = .ok (participantDec.map (fun f => (f.pid, normField f.codec
          ((fun pid => if pid == PID_PARTICIPANT_GUID then FVal.one [.bs [8, 8, 8, 8, 8, 8, 8, 8, 8, 8, 8, 8, 0, 0, 1, 0xc1]]
            else if pid == PID_VENDORID then .one [.bs [73, 74]]
            else if pid == PID_BUILTIN_ENDPOINT_SET then .one [.n 2]
            else if pid == PID_PROTOCOL_VERSION then .one [.bs [2, 4]]
            else defaultRec participantDec pid) f.pid)))) := by decide

end DustVerif.Plist
