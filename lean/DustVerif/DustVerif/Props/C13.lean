import DustVerif.Proofs.PlistCheck
/-! Property C13: discovery data round-trips through its parameter-list encoding; unknown or vendor-specific
    parameters are ignored.  Model: Model/Plist.lean (schema-generic PL_CDR codec; the four real schemas are
    tables).  Helper lemmas: Proofs/Plist{Codec,List,Record}.lean. -/
namespace DustVerif.Plist

/-- C13 (round trip, generic): for EVERY schema whose decode rows are consistent with its encode rows
    (pairwise distinct pids, each a findable 16-bit pid; same codec; the default assumed for an absent parameter
    is the value that is not written) and EVERY record whose field values are in the value domain of their codecs
    and whose parameters fit the 16-bit length field, `from_bytes (into_bytes d)` is `Ok` and every field holds
    what was written — up to the documented normalisation `normField` (HISTORY KEEP_ALL carries depth -1; a
    type-information blob comes back with its padding).  Holds for the as-is and for the repaired decoder. -/
theorem C13_roundtrip (cfg : Cfg) (E : List EncField) (D : List DecField) (d : Nat → FVal)
    (hc : consistent E D = true) (hw : ∀ g ∈ E, WFf g (d g.pid)) (hfit : FitsU16 E d) :
    fromBytes cfg D (intoBytes E d) = .ok (D.map (fun f => (f.pid, normField f.codec (d f.pid)))) := by
  simp only [consistent, Bool.and_eq_true] at hc
  obtain ⟨⟨hn, hpid⟩, hcompat⟩ := hc
  have hraw : ∀ p ∈ (recordParams E d).map padP, RawOk p := by
    intro p hp
    simp only [List.mem_map] at hp
    obtain ⟨r, hr, rfl⟩ := hp
    have hmem := recordParams_pids E d r hr
    simp only [List.mem_map] at hmem
    obtain ⟨g, hg, hgp⟩ := hmem
    have hok := allPidOk_mem E hpid g hg
    simp only [pidOk, Bool.and_eq_true, decide_eq_true_eq, bne_iff_ne, ne_eq] at hok
    refine ⟨?_, ?_, hfit r hr⟩
    · simp only [padP, ← hgp]; exact hok.1.1
    · simp only [padP, ← hgp]; exact hok.1.2
  have hbytes : intoBytes E d = plHeader ++ (serRaws ((recordParams E d).map padP) ++ (sentinel ++ [])) := by
    simp [intoBytes, serParams_eq _ hfit]
  have hpl : mkPl (intoBytes E d) = plOf E d := by
    rw [hbytes, mkPl_raws _ _ hraw]; rfl
  have hlen : ¬ (intoBytes E d).length < 4 := by
    rw [hbytes]; simp [plHeader]
  simp only [fromBytes, hlen, if_false, hpl]
  apply decFields_ok
  intro f hf
  obtain ⟨g, hg, hcg⟩ := hasCompat_exists E f (allCompat_mem E D hcompat f hf)
  have := decField_enc cfg E d g f hg hn (allPidOk_mem E hpid g hg) hcg (hw g hg)
  exact this

/-- non-vacuity: a publication record with non-default reliability, partition, user data, representation, type
    information and two unicast locators (everything else at its default) -/
def exPub : Nat → FVal := fun pid =>
  if pid == PID_ENDPOINT_GUID then .one [.bs [1, 2, 3, 4, 5, 6, 7, 8, 9, 10, 11, 12, 0, 0, 1, 2]]
  else if pid == PID_PARTICIPANT_GUID then .one [.bs [1, 2, 3, 4, 5, 6, 7, 8, 9, 10, 11, 12, 0, 0, 1, 193]]
  else if pid == PID_TOPIC_NAME then .one [.bs [83, 113, 117, 97, 114, 101]]
  else if pid == PID_TYPE_NAME then .one [.bs [83, 104, 97, 112, 101, 195, 169]]
  else if pid == PID_TYPE_INFORMATION then .blob (some [1, 2, 3, 4, 5])
  else if pid == PID_RELIABILITY then .one [.i 1, .i 5, .n 7]
  else if pid == PID_PARTITION then .one [.ss [[65], [], [42]]]
  else if pid == PID_USER_DATA then .one [.bs [9, 9, 9]]
  else if pid == PID_DATA_REPRESENTATION then .one [.ns [2, 0]]
  else if pid == PID_UNICAST_LOCATOR then
    .many [[.i 1, .n 7400, .bs [0, 0, 0, 0, 0, 0, 0, 0, 0, 0, 0, 0, 127, 0, 0, 1]],
           [.i (-1), .n 4294967295, .bs [255, 0, 0, 0, 0, 0, 0, 0, 0, 0, 0, 0, 0, 0, 0, 1]]]
  else defaultRec publicationDec pid

/-- the hypotheses of `C13_roundtrip` are satisfiable by a non-trivial record of a real schema -/
example : (∀ g ∈ publicationEnc, WFf g (exPub g.pid)) ∧ FitsU16 publicationEnc exPub :=
  ⟨wfRecB_sound _ _ (by decide), fitsB_sound _ _ (by decide)⟩

/-- and the record is written as 11 parameters -/
example : (recordParams publicationEnc exPub).length = 11 := by decide

/-- the four real schemas satisfy the side condition (checked by evaluation of the tables) -/
theorem C13_participant_schema_consistent : consistent participantEnc participantDec = true := by decide
theorem C13_publication_schema_consistent : consistent publicationEnc publicationDec = true := by decide
theorem C13_subscription_schema_consistent : consistent subscriptionEnc subscriptionDec = true := by decide
theorem C13_topic_schema_consistent : consistent topicEnc topicDec = true := by decide


/-- C13 (round trip) instantiated for the four real records: SpdpDiscoveredParticipantData, DiscoveredWriterData,
    DiscoveredReaderData, DiscoveredTopicData -/
theorem C13_roundtrip_real (cfg : Cfg) (d : Nat → FVal) :
    ((∀ g ∈ participantEnc, WFf g (d g.pid)) → FitsU16 participantEnc d →
      fromBytes cfg participantDec (intoBytes participantEnc d)
        = .ok (participantDec.map (fun f => (f.pid, normField f.codec (d f.pid))))) ∧
    ((∀ g ∈ publicationEnc, WFf g (d g.pid)) → FitsU16 publicationEnc d →
      fromBytes cfg publicationDec (intoBytes publicationEnc d)
        = .ok (publicationDec.map (fun f => (f.pid, normField f.codec (d f.pid))))) ∧
    ((∀ g ∈ subscriptionEnc, WFf g (d g.pid)) → FitsU16 subscriptionEnc d →
      fromBytes cfg subscriptionDec (intoBytes subscriptionEnc d)
        = .ok (subscriptionDec.map (fun f => (f.pid, normField f.codec (d f.pid))))) ∧
    ((∀ g ∈ topicEnc, WFf g (d g.pid)) → FitsU16 topicEnc d →
      fromBytes cfg topicDec (intoBytes topicEnc d)
        = .ok (topicDec.map (fun f => (f.pid, normField f.codec (d f.pid))))) :=
  ⟨C13_roundtrip cfg _ _ d C13_participant_schema_consistent,
   C13_roundtrip cfg _ _ d C13_publication_schema_consistent,
   C13_roundtrip cfg _ _ d C13_subscription_schema_consistent,
   C13_roundtrip cfg _ _ d C13_topic_schema_consistent⟩

/-- C13 (unknown parameters are ignored): take ANY well-delimited little-endian parameter list (arbitrary
    parameters `ps1 ++ ps2`, not only self-produced ones, anything after the sentinel) and insert ANY parameter `q`
    whose pid is not one the record reads (it may carry the vendor-specific bit 0x8000 or the must-understand bit
    0x4000, be PID_PAD, have any value and any length below 2^16) at ANY position before the sentinel: the decoder
    returns exactly the same result (same record, or same error).  For every schema and both configurations. -/
theorem C13_unknown_ignored (cfg : Cfg) (D : List DecField) (ps1 ps2 : List Param) (q : Param) (tail : Bytes)
    (hq : RawOk q) (hnot : ∀ f ∈ D, f.pid ≠ q.1) (h1 : ∀ p ∈ ps1, RawOk p) (h2 : ∀ p ∈ ps2, RawOk p) :
    fromBytes cfg D (plHeader ++ (serRaws (ps1 ++ q :: ps2) ++ (sentinel ++ tail)))
      = fromBytes cfg D (plHeader ++ (serRaws (ps1 ++ ps2) ++ (sentinel ++ tail))) := by
  have hA : ∀ p ∈ ps1 ++ q :: ps2, RawOk p := by
    intro p hp
    simp only [List.mem_append, List.mem_cons] at hp
    rcases hp with hp | hp | hp
    · exact h1 p hp
    · subst hp; exact hq
    · exact h2 p hp
  have hB : ∀ p ∈ ps1 ++ ps2, RawOk p := by
    intro p hp
    simp only [List.mem_append] at hp
    rcases hp with hp | hp
    · exact h1 p hp
    · exact h2 p hp
  have hl1 : ¬ (plHeader ++ (serRaws (ps1 ++ q :: ps2) ++ (sentinel ++ tail))).length < 4 := by simp [plHeader]
  have hl2 : ¬ (plHeader ++ (serRaws (ps1 ++ ps2) ++ (sentinel ++ tail))).length < 4 := by simp [plHeader]
  simp only [fromBytes, hl1, hl2, if_false, mkPl_raws _ _ hA, mkPl_raws _ _ hB]
  apply decFields_congr
  intro f hf
  have hne : q.1 ≠ f.pid := fun h => hnot f hf h.symm
  have := filterPid_insert f.pid ((768, []) :: ps1) ps2 q hne
  simpa using this

/-- non-vacuity of `C13_unknown_ignored`: a vendor-specific parameter with an unpadded 3-octet value may be inserted
    between two parameters of a list, and its pid is not read by the participant record -/
example : RawOk (0x8001, [1, 2, 3]) ∧ RawOk (PID_VENDORID, [1, 16, 0, 0]) ∧ RawOk (0x4fff, [])
    ∧ (∀ f ∈ participantDec, f.pid ≠ 0x8001) := by
  refine ⟨by simp [RawOk], by simp [RawOk, PID_VENDORID], by simp [RawOk], by decide⟩

/-- C13 (the sentinel ends the list): whatever follows the sentinel — further parameters, also ones the record
    would read, or garbage — does not influence the result.  Any well-delimited little-endian list, any schema. -/
theorem C13_after_sentinel_ignored (cfg : Cfg) (D : List DecField) (ps : List Param) (tail : Bytes)
    (h : ∀ p ∈ ps, RawOk p) :
    fromBytes cfg D (plHeader ++ (serRaws ps ++ (sentinel ++ tail)))
      = fromBytes cfg D (plHeader ++ (serRaws ps ++ (sentinel ++ []))) := by
  have hl1 : ¬ (plHeader ++ (serRaws ps ++ (sentinel ++ tail))).length < 4 := by simp [plHeader]
  have hl2 : ¬ (plHeader ++ (serRaws ps ++ (sentinel ++ ([] : Bytes)))).length < 4 := by simp [plHeader]
  simp only [fromBytes, hl1, hl2, if_false, mkPl_raws _ _ h]

theorem ne_nil_of_length (big : Bytes) (hbig : big.length = 65536) : big ≠ [] := by
  intro h
  rw [h] at hbig
  simp at hbig

/-- what `write_cdr_parameter` emits for 65 536 octets of user data: the length field says 4 -/
theorem serParam_bigOctets (big : Bytes) (hl : big.length = 65536) :
    serParam (PID_USER_DATA, encCodec cOctets [.bs big]) = serRaw (PID_USER_DATA, [0, 0, 1, 0]) ++ big := by
  have hpad : pad4 (encCodec cOctets [.bs big]) = [0, 0, 1, 0] ++ big := by
    simp [pad4, encCodec, cOctets, normPost, encMembers, encPrim, padTo, zeros, le32, hl]
  simp [serParam, serRaw, hpad, hl, le16, PID_USER_DATA]

/-- C13 (as-is counter-example, finding D17, open): `write_cdr_parameter` stores the parameter length with
    `as u16` (rtps_data_representation_serialization.rs:46).  For EVERY participant record whose user_data is
    65 536 octets long (whatever the octets and the other fields) the announcement does not decode back to the
    record: the PID_USER_DATA parameter claims a length of 4, so the decoder reads an incomplete sequence and falls
    back to the empty default (or fails on what follows).  `C13_roundtrip` holds for every record that satisfies
    `FitsU16`. -/
theorem C13_big_octets_counterexample (cfg : Cfg) (d : Nat → FVal) (big : Bytes) (hbig : big.length = 65536)
    (hd : d PID_USER_DATA = .one [.bs big]) :
    fromBytes cfg participantDec (intoBytes participantEnc d)
      ≠ .ok (participantDec.map (fun f => (f.pid, normField f.codec (d f.pid)))) := by
  intro heq
  have hnil := ne_nil_of_length big hbig
  -- the bytes: header, then the user-data parameter with the wrapped length, then everything else
  have hne : ([PVal.bs big] == dEmpty) = false := by
    simp [dEmpty, hnil]
  have hbytes : ∃ rest, intoBytes participantEnc d = plHeader ++ (serRaw (PID_USER_DATA, [0, 0, 1, 0]) ++ rest) := by
    refine ⟨big ++ (serParams (recordParams participantEnc.tail d) ++ sentinel), ?_⟩
    have : recordParams participantEnc d
        = (PID_USER_DATA, encCodec cOctets [.bs big]) :: recordParams participantEnc.tail d := by
      simp [participantEnc, recordParams, fieldParams, hd, hne]
    simp [intoBytes, this, serParams, serParam_bigOctets big hbig]
  obtain ⟨rest, hb⟩ := hbytes
  obtain ⟨X, t, hpl⟩ := mkPl_first (PID_USER_DATA, [0, 0, 1, 0]) rest (by simp [RawOk, PID_USER_DATA])
  have hlen : ¬ (intoBytes participantEnc d).length < 4 := by rw [hb]; simp [plHeader]
  rw [fromBytes, if_neg hlen, hb, hpl] at heq
  -- second field read: user data
  obtain ⟨v1, vs1, _, h2, hL1⟩ := decFields_cons_ok _ _ _ _ _ heq
  obtain ⟨v2, vs2, hud, _, hL2⟩ := decFields_cons_ok _ _ _ _ _ h2
  have hdec : decField cfg ⟨0, 3, some .le, (768, []) :: (PID_USER_DATA, [0, 0, 1, 0]) :: X, t⟩
      ⟨PID_USER_DATA, cOctets, .optional dEmpty⟩ = .ok (.one dEmpty) := by
    simp [decField, seek, findPid, PID_USER_DATA, decFound, cOctets, decCodec, decMembers, decPrim, rdU32, alignTo,
      skip, padTo, takeN, rd32]
  rw [hdec] at hud
  simp only [Out.ok.injEq] at hud
  subst hud
  rw [hL2] at hL1
  simp only [participantDec, List.map_cons, List.cons.injEq, Prod.mk.injEq] at hL1
  have := hL1.2.1.2
  simp [normField, hd, normPost, cOctets, dEmpty, hnil] at this

/-- the hypothesis of the counter-example is satisfiable: there are octet strings of every length -/
example (n : Nat) : (List.replicate n 0 : Bytes).length = n := List.length_replicate ..


/-- the all-default participant announcement of the unit test `serialize_spdp_discovered_participant_data_all_default`
    in the big-endian encapsulation PL_CDR_BE (`00 02 00 00`), which RTPS 9.4.2.11 allows every sender to use -/
def beParticipant : Bytes :=
  [0, 2, 0, 0,
   0, 0x50, 0, 16, 8, 8, 8, 8, 8, 8, 8, 8, 8, 8, 8, 8, 0, 0, 1, 0xc1,
   0, 0x15, 0, 4, 2, 4, 0, 0,
   0, 0x16, 0, 4, 73, 74, 0, 0,
   0, 0x58, 0, 4, 0, 0, 0, 2,
   0, 0x02, 0, 8, 0, 0, 0, 100, 0, 0, 0, 0,
   0, 1, 0, 0]

/-- C13 (as-is counter-example, finding D-plist-1, open, replayed): `PidIterator` starts at offset 0 of the
    payload, so it reads the encapsulation header as a parameter.  Under PL_CDR_BE the header `00 02 00 00` IS
    `PID_PARTICIPANT_LEASE_DURATION` (0x0002) with length 0, it is the first occurrence of that pid, and decoding a
    Duration from zero octets fails: every big-endian participant announcement is rejected (publication,
    subscription and topic data do not read pid 2 and are not affected; little-endian headers read as the unused
    pid 0x0300, which is why `pidOk` excludes that value). -/
theorem C13_big_endian_participant_counterexample :
    fromBytes Cfg.asIs participantDec beParticipant = .err .notEnoughData ∧
    fromBytes Cfg.fixed participantDec beParticipant = .err .notEnoughData := by decide

/-- … while the same list without the header pseudo-parameter in the way (lease duration removed, so the default
    100 s is taken) decodes: the rest of the big-endian path works -/
example : ∃ r, fromBytes Cfg.fixed participantDec
    [0, 3, 0, 0, 0x50, 0, 16, 0, 8, 8, 8, 8, 8, 8, 8, 8, 8, 8, 8, 8, 0, 0, 1, 0xc1, 0x15, 0, 4, 0, 2, 4, 0, 0,
     0x16, 0, 4, 0, 73, 74, 0, 0, 0x58, 0, 4, 0, 2, 0, 0, 0, 1, 0, 0, 0] = .ok r := ⟨_, rfl⟩

end DustVerif.Plist
