import DustVerif.Model.MatchSet
import DustVerif.Proofs.MatchWorldReach
/-! Property C16: the matched-status counters of a data writer / data reader track the actual matched set.
    All theorems are about `run side St.init ops` for ALL lists `ops` of bookkeeping steps (discover / re-announce with
    another record or another compatibility verdict / undiscover / participant gone / read status), i.e. about every state
    the bookkeeping can reach. The model is the code with the repairs D3, D21, D22 and D23; what the unrepaired code did is
    kept as `…AsIs` / `…Old` model functions with regression witnesses (`…_counterexample`). -/
namespace DustVerif.MatchSet

/-! ### list lemmas -/

theorem keys_append (l : List Ann) (a : Ann) : keys (l ++ [a]) = keys l ++ [a.key] := by
  simp [keys]

theorem keys_replaceAnn (a : Ann) (l : List Ann) : keys (replaceAnn a l) = keys l := by
  induction l with
  | nil => rfl
  | cons x xs ih =>
    unfold replaceAnn
    by_cases h : x.key = a.key
    · simp [h, keys]
    · simp only [beq_iff_eq, h, if_false]
      simp only [keys, List.map_cons] at ih ⊢
      rw [ih]

theorem length_replaceAnn (a : Ann) (l : List Ann) : (replaceAnn a l).length = l.length := by
  have := congrArg List.length (keys_replaceAnn a l)
  simpa [keys] using this

theorem any_hasKey_iff (k : Key) (l : List Ann) : l.any (hasKey k) = true ↔ k ∈ keys l := by
  simp only [List.any_eq_true, hasKey, beq_iff_eq, keys, List.mem_map]

theorem keys_eraseKey_of_nodup (k : Key) (l : List Ann) (h : (keys l).Nodup) :
    keys (eraseKey k l) = (keys l).filter (keyNe k) := by
  induction l with
  | nil => rfl
  | cons x xs ih =>
    have hx : x.key ∉ keys xs ∧ (keys xs).Nodup := by simpa [keys] using h
    by_cases e : x.key = k
    · subst e
      have hf : (keys xs).filter (keyNe x.key) = keys xs := by
        rw [List.filter_eq_self]
        intro y hy
        have : y ≠ x.key := fun e => hx.1 (e ▸ hy)
        simpa [keyNe] using this
      have h1 : eraseKey x.key (x :: xs) = xs := by simp [eraseKey]
      have h2 : (keys (x :: xs)).filter (keyNe x.key) = (keys xs).filter (keyNe x.key) := by simp [keys, keyNe]
      rw [h1, h2, hf]
    · have h1 : eraseKey k (x :: xs) = x :: eraseKey k xs := by simp [eraseKey, e]
      have h2 : (keys (x :: xs)).filter (keyNe k) = x.key :: (keys xs).filter (keyNe k) := by
        have : keyNe k x.key = true := by simp [keyNe, e]
        simp [keys, this]
      rw [h1, h2, ← ih hx.2]
      rfl

theorem length_eraseKey (k : Key) (l : List Ann) (h : k ∈ keys l) : (eraseKey k l).length + 1 = l.length := by
  induction l with
  | nil => simp [keys] at h
  | cons x xs ih =>
    unfold eraseKey
    by_cases e : x.key = k
    · simp [e]
    · have e' : (x.key == k) = false := by simpa using e
      have : k ∈ keys xs := by
        simp only [keys, List.map_cons, List.mem_cons] at h
        rcases h with h | h
        · exact absurd h.symm e
        · exact h
      simp only [e', List.length_cons]
      have := ih this
      simp only [Bool.false_eq_true, if_false, List.length_cons]
      omega

theorem nodup_filter {α} (p : α → Bool) (l : List α) (h : l.Nodup) : (l.filter p).Nodup :=
  List.Pairwise.filter p h

theorem keys_filter (p : Nat) (l : List Ann) :
    keys (l.filter (annNotPfx p)) = (keys l).filter (fun k => !(k.pfx == p)) := by
  induction l with
  | nil => rfl
  | cons x xs ih =>
    simp only [keys, List.map_cons, List.filter_cons, annNotPfx] at ih ⊢
    by_cases e : x.key.pfx = p
    · simp [e, ih]
    · simp [e, ih]

theorem pkeys_replaceProxy (p : Proxy) (l : List Proxy) : pkeys (replaceProxy p l) = pkeys l := by
  induction l with
  | nil => rfl
  | cons x xs ih =>
    unfold replaceProxy
    by_cases h : x.key = p.key
    · simp [h, pkeys]
    · simp only [beq_iff_eq, h, if_false]
      simp only [pkeys, List.map_cons] at ih ⊢
      rw [ih]

theorem any_proxyHasKey_iff (k : Key) (l : List Proxy) : l.any (proxyHasKey k) = true ↔ k ∈ pkeys l := by
  simp only [List.any_eq_true, proxyHasKey, beq_iff_eq, pkeys, List.mem_map]

theorem upsert_exact (p : Proxy) (l : List Proxy) (h : p.key ∈ pkeys l) : pkeys (upsertProxy p l) = pkeys l := by
  have := (any_proxyHasKey_iff p.key l).mpr h
  simp [upsertProxy, this, pkeys_replaceProxy]

theorem upsert_new (p : Proxy) (l : List Proxy) (h : p.key ∉ pkeys l) : pkeys (upsertProxy p l) = pkeys l ++ [p.key] := by
  have : ¬ (l.any (proxyHasKey p.key) = true) := fun e => h ((any_proxyHasKey_iff p.key l).mp e)
  simp [upsertProxy, this, pkeys]

theorem pkeys_filter (f : Key → Bool) (l : List Proxy) :
    pkeys (l.filter (fun x => f x.key)) = (pkeys l).filter f := by
  induction l with
  | nil => rfl
  | cons x xs ih =>
    simp only [pkeys, List.map_cons, List.filter_cons] at ih ⊢
    cases f x.key <;> simp [ih]

theorem pkeys_filter_notKey (k : Key) (l : List Proxy) :
    pkeys (l.filter (proxyNotKey k)) = (pkeys l).filter (keyNe k) := pkeys_filter (keyNe k) l

theorem pkeys_filter_kept (m : List Ann) (p : Nat) (l : List Proxy) :
    pkeys (l.filter (proxyKept m p)) = (pkeys l).filter (fun k => !(k.pfx == p && (keys m).contains k)) :=
  pkeys_filter (fun k => !(k.pfx == p && (keys m).contains k)) l

/-! ### the invariants -/

/-- the RTPS proxies are exactly the matched endpoints (same order), and no endpoint is matched twice -/
def ProxiesExact (s : St) : Prop := pkeys s.proxies = keys s.matched ∧ (keys s.matched).Nodup
/-- `current_count` is the size of the matched list -/
def CountOk (s : St) : Prop := s.status.current = s.matched.length

/-! ### every step keeps the invariants -/

theorem undiscover_exact (s : St) (k : Key) (h : ProxiesExact s) : ProxiesExact (undiscover s k) := by
  obtain ⟨hp, hn⟩ := h
  unfold undiscover
  split
  · refine ⟨?_, ?_⟩
    · simp only [keys_eraseKey_of_nodup k _ hn, pkeys_filter_notKey, hp]
    · simp only [keys_eraseKey_of_nodup k _ hn]
      exact nodup_filter _ _ hn
  · exact ⟨hp, hn⟩

theorem undiscover_count (s : St) (k : Key) (h : CountOk s) : CountOk (undiscover s k) := by
  unfold undiscover
  split
  · simp [CountOk]
  · exact h

theorem undiscover_keys (s : St) (k : Key) (hn : (keys s.matched).Nodup) :
    keys (undiscover s k).matched = (keys s.matched).filter (keyNe k) := by
  unfold undiscover
  split
  · exact keys_eraseKey_of_nodup k _ hn
  · rename_i h
    have hk : k ∉ keys s.matched := fun hm => h ((any_hasKey_iff _ _).mpr hm)
    symm
    rw [List.filter_eq_self]
    intro x hx
    have : x ≠ k := fun e => hk (e ▸ hx)
    simpa [keyNe] using this

theorem discover_exact (s : St) (a : Ann) (c : Bool) (l : Nat) (h : ProxiesExact s) : ProxiesExact (discover s a c l) := by
  unfold discover
  split
  · exact h
  · split
    · obtain ⟨hp, hn⟩ := h
      split
      · rename_i hk
        have hk' : a.key ∈ keys s.matched := (any_hasKey_iff _ _).mp hk
        refine ⟨?_, ?_⟩
        · simp only [keys_replaceAnn]
          rw [upsert_exact ⟨a.key, l⟩ _ (hp ▸ hk')]; exact hp
        · simpa only [keys_replaceAnn] using hn
      · rename_i hk
        have hk' : a.key ∉ keys s.matched := fun h => hk ((any_hasKey_iff _ _).mpr h)
        refine ⟨?_, ?_⟩
        · simp only [keys_append]
          rw [upsert_new ⟨a.key, l⟩ _ (hp ▸ hk'), hp]
        · simp only [keys_append]
          rw [List.nodup_append]
          refine ⟨hn, by simp, ?_⟩
          intro x hx y hy
          simp only [List.mem_singleton] at hy
          subst hy
          exact fun e => hk' (e ▸ hx)
    · exact undiscover_exact s a.key h

theorem discover_count (s : St) (a : Ann) (c : Bool) (l : Nat) (h : CountOk s) : CountOk (discover s a c l) := by
  unfold discover
  split
  · exact h
  · split
    · split <;> simp [CountOk]
    · exact undiscover_count s a.key h

theorem foldl_undiscover (P : St → Prop) (h : ∀ s k, P s → P (undiscover s k)) :
    ∀ (l : List Key) (s : St), P s → P (l.foldl undiscover s) := by
  intro l
  induction l with
  | nil => intro s hs; exact hs
  | cons k ks ih => intro s hs; exact ih _ (h s k hs)

theorem gone_exact (s : St) (p : Nat) (h : ProxiesExact s) : ProxiesExact (gone s p) :=
  foldl_undiscover ProxiesExact undiscover_exact _ s h

theorem gone_count (s : St) (p : Nat) (h : CountOk s) : CountOk (gone s p) :=
  foldl_undiscover CountOk undiscover_count _ s h

def Good (s : St) : Prop := CountOk s ∧ ProxiesExact s

theorem step_good (side : Side) (s : St) (x : Step) (h : Good s) : Good (step side s x) := by
  cases x with
  | discover a c l => exact ⟨discover_count s a c l h.1, discover_exact s a c l h.2⟩
  | undiscover k => exact ⟨undiscover_count s k h.1, undiscover_exact s k h.2⟩
  | gone p => exact ⟨gone_count s p h.1, gone_exact s p h.2⟩
  | read => exact h

theorem run_good (side : Side) (ops : List Step) : ∀ s, Good s → Good (run side s ops) := by
  induction ops with
  | nil => intro s h; exact h
  | cons x xs ih => intro s h; exact ih _ (step_good side s x h)

theorem init_good : Good St.init := ⟨rfl, rfl, by simp [St.init, keys]⟩

/-- C16 (current_count and proxies): on both sides and for ALL step lists — participant removal and incompatible
    re-announcements included — `current_count` is the number of matched endpoints, the RTPS proxies are exactly the matched
    endpoints (same order) and no endpoint is matched twice -/
theorem C16_current (side : Side) (ops : List Step) :
    CountOk (run side St.init ops) ∧ ProxiesExact (run side St.init ops) :=
  run_good side ops _ init_good

def kA : Key := ⟨1, 7⟩
def kB : Key := ⟨2, 7⟩

/-- regression witness for the repaired defect D23, writer side: the unrepaired participant removal emptied the matched list
    but left `current_count` at 1 -/
theorem C16_current_old_counterexample :
    let s := goneWriterOld (discover St.init ⟨kA, 0⟩ true 7) 1
    s.matched = [] ∧ s.status.current = 1 := by decide

/-- regression witness for D23, reader side: the unrepaired removal deleted the RTPS writer proxy but kept the writer in the
    matched list with `current_count` 1 -/
theorem C16_current_reader_old_counterexample :
    let s := goneReaderOld (discover St.init ⟨kA, 0⟩ true 7) 1
    s.matched = [⟨kA, 0⟩] ∧ s.status.current = 1 ∧ addressees s = [] := by decide

/-- non-vacuity: a match, a re-announcement, a second match, an endpoint that becomes incompatible, a participant removal -/
example :
    (run .writer St.init [.discover ⟨kA, 0⟩ true 7, .discover ⟨kA, 1⟩ true 7, .discover ⟨kB, 0⟩ true 7, .read,
      .discover ⟨kA, 2⟩ false 7]).status = ⟨2, 0, 1, -1⟩ ∧
    (run .reader St.init [.discover ⟨kA, 0⟩ true 7, .discover ⟨kB, 0⟩ true 7, .gone 1]).matched = [⟨kB, 0⟩] := by decide

/-! ### no traffic to a removed endpoint -/

theorem run_append (side : Side) (s : St) (a b : List Step) : run side s (a ++ b) = run side (run side s a) b := by
  induction a generalizing s with
  | nil => rfl
  | cons x xs ih => simp [run, ih]

theorem mem_upsert (p : Proxy) (x : Key) (l : List Proxy) : x ∈ pkeys (upsertProxy p l) ↔ x ∈ pkeys l ∨ x = p.key := by
  by_cases h : p.key ∈ pkeys l
  · rw [upsert_exact p l h]
    constructor
    · exact Or.inl
    · rintro (h' | h')
      · exact h'
      · exact h' ▸ h
  · rw [upsert_new p l h]; simp

theorem undiscover_not_proxy (s : St) (k k' : Key) (hk : k ∉ pkeys s.proxies) : k ∉ pkeys (undiscover s k').proxies := by
  unfold undiscover
  split
  · intro h
    simp only [pkeys_filter_notKey] at h
    exact hk (List.mem_filter.mp h).1
  · exact hk

/-- no step of the list announces endpoint `k` as compatible -/
def noCompatDiscoverOf (k : Key) : List Step → Bool
  | [] => true
  | .discover a c _ :: xs => (!(a.key == k) || !c) && noCompatDiscoverOf k xs
  | _ :: xs => noCompatDiscoverOf k xs

theorem step_not_proxy (side : Side) (s : St) (x : Step) (k : Key) (hk : k ∉ pkeys s.proxies)
    (hx : ∀ a c l, x = .discover a c l → a.key ≠ k ∨ c = false) : k ∉ pkeys (step side s x).proxies := by
  cases x with
  | discover a c l =>
    simp only [step, discover]
    split
    · exact hk
    · split
      · rename_i hc
        have hne : a.key ≠ k := by
          rcases hx a c l rfl with h | h
          · exact h
          · simp [h] at hc
        split <;>
        · intro h
          rcases (mem_upsert ⟨a.key, l⟩ _ _).mp h with h | h
          · exact hk h
          · exact hne h.symm
      · exact undiscover_not_proxy s k a.key hk
  | undiscover k' => exact undiscover_not_proxy s k k' hk
  | gone p =>
    exact foldl_undiscover (fun t => k ∉ pkeys t.proxies) (fun t k' h => undiscover_not_proxy t k k' h) _ s hk
  | read => exact hk

theorem run_not_proxy (side : Side) (k : Key) (ops : List Step) (h : noCompatDiscoverOf k ops = true) :
    ∀ s, k ∉ pkeys s.proxies → k ∉ pkeys (run side s ops).proxies := by
  induction ops with
  | nil => intro s hk; exact hk
  | cons x xs ih =>
    intro s hk
    have hx : (∀ a c l, x = .discover a c l → a.key ≠ k ∨ c = false) ∧ noCompatDiscoverOf k xs = true := by
      cases x with
      | discover a c l =>
        simp only [noCompatDiscoverOf, Bool.and_eq_true, Bool.or_eq_true, Bool.not_eq_true', beq_eq_false_iff_ne] at h
        refine ⟨?_, h.2⟩
        intro a' c' l' e
        cases e
        exact h.1
      | _ => simp_all [noCompatDiscoverOf]
    exact ih hx.2 _ (step_not_proxy side s x k hk hx.1)

theorem undiscover_removes (s : St) (k : Key) (h : ProxiesExact s) : k ∉ pkeys (undiscover s k).proxies := by
  have he := undiscover_exact s k h
  rw [he.1, undiscover_keys s k h.2]
  intro hm
  simpa [keyNe] using (List.mem_filter.mp hm).2

/-- C16 (not addressed, endpoint deleted): on both sides, after ANY history `ops1`, once the deletion of the remote endpoint
    `k` has been processed, `k` is not among the endpoints RTPS messages (DATA, HEARTBEAT, GAP / ACKNACK) are addressed
    to — and stays out along every continuation `ops2` in which `k` is not announced again as compatible -/
theorem C16_not_addressed (side : Side) (ops1 ops2 : List Step) (k : Key) (h : noCompatDiscoverOf k ops2 = true) :
    k ∉ addressees (run side St.init (ops1 ++ [.undiscover k] ++ ops2)) := by
  rw [run_append, run_append]
  apply run_not_proxy side k ops2 h
  exact undiscover_removes _ k (C16_current side ops1).2

theorem foldl_undiscover_keys : ∀ (l : List Key) (s : St), (keys s.matched).Nodup →
    ∀ x, x ∈ keys (l.foldl undiscover s).matched → x ∈ keys s.matched ∧ x ∉ l := by
  intro l
  induction l with
  | nil => intro s _ x hx; exact ⟨hx, by simp⟩
  | cons k ks ih =>
    intro s hn x hx
    have hn' : (keys (undiscover s k).matched).Nodup := by
      rw [undiscover_keys s k hn]; exact nodup_filter _ _ hn
    have := ih (undiscover s k) hn' x hx
    rw [undiscover_keys s k hn] at this
    have hf := List.mem_filter.mp this.1
    refine ⟨hf.1, ?_⟩
    simp only [List.mem_cons, not_or]
    exact ⟨by simpa [keyNe] using hf.2, this.2⟩

theorem gone_removes (s : St) (p : Nat) (k : Key) (hk : k.pfx = p) (h : ProxiesExact s) : k ∉ pkeys (gone s p).proxies := by
  rw [(gone_exact s p h).1]
  intro hm
  have := foldl_undiscover_keys (goneKeys s p) s h.2 k hm
  exact this.2 (List.mem_filter.mpr ⟨this.1, by simp [hk]⟩)

/-- C16 (not addressed, participant removed): the same after the removal of the participant `p` (deleted, lease expired or
    ignored) for every endpoint `k` of that participant -/
theorem C16_not_addressed_gone (side : Side) (ops1 ops2 : List Step) (p : Nat) (k : Key) (hk : k.pfx = p)
    (h : noCompatDiscoverOf k ops2 = true) :
    k ∉ addressees (run side St.init (ops1 ++ [.gone p] ++ ops2)) := by
  rw [run_append, run_append]
  apply run_not_proxy side k ops2 h
  exact gone_removes _ p k hk (C16_current side ops1).2

/-- C16 (participant removed, matched set): after the removal of participant `p` none of its endpoints is matched -/
theorem C16_gone_unmatched (side : Side) (ops : List Step) (p : Nat) (k : Key) (hk : k.pfx = p) :
    k ∉ keys (run side St.init (ops ++ [.gone p])).matched := by
  rw [run_append]
  have h := (C16_current side ops).2
  intro hm
  have := foldl_undiscover_keys (goneKeys _ p) _ h.2 k hm
  exact this.2 (List.mem_filter.mpr ⟨this.1, by simp [hk]⟩)

/-- regression witness for the repaired defect D3: the unrepaired code left the RTPS proxy of a deleted endpoint in place,
    so heartbeats and data were still addressed to it -/
theorem C16_not_addressed_asis_counterexample :
    let s := undiscoverAsIs (discover St.init ⟨kA, 0⟩ true 7) kA
    s.matched = [] ∧ s.status.current = 0 ∧ kA ∈ addressees s := by decide

example : noCompatDiscoverOf kA [.discover ⟨kB, 0⟩ true 7, .read, .gone 2, .discover ⟨kA, 5⟩ false 7] = true ∧
    addressees (run .writer St.init ([.discover ⟨kA, 0⟩ true 7] ++ [.undiscover kA] ++ [.discover ⟨kB, 0⟩ true 7, .read])) = [kB] := by
  decide

/-! ### an endpoint that is not compatible (any more) -/

/-- C16 (incompatible endpoint): on both sides, after ANY history — in particular when the endpoint was matched before —, once
    an announcement of endpoint `a.key` has been found incompatible (because its QoS or the local QoS changed), the endpoint
    is not in the matched list and not addressed, and stays out along every continuation without a compatible
    announcement of it -/
theorem C16_incompatible (side : Side) (ops1 ops2 : List Step) (a : Ann) (l : Nat) (h : noCompatDiscoverOf a.key ops2 = true) :
    a.key ∉ addressees (run side St.init (ops1 ++ [.discover a false l] ++ ops2)) ∧
    a.key ∉ keys (run side St.init (ops1 ++ [.discover a false l] ++ ops2)).matched := by
  have hnp : a.key ∉ addressees (run side St.init (ops1 ++ [.discover a false l] ++ ops2)) := by
    rw [run_append, run_append]
    apply run_not_proxy side a.key ops2 h
    have hs := (C16_current side ops1).2
    simp only [run, step, discover, Bool.and_false, Bool.false_eq_true, if_false]
    exact undiscover_removes _ a.key hs
  refine ⟨hnp, ?_⟩
  have := (C16_current side (ops1 ++ [.discover a false l] ++ ops2)).2.1
  rw [← this]; exact hnp

/-- regression witness for the repaired defect D22: the unrepaired code kept an endpoint that became incompatible in the matched
    list, with `current_count` 1, and went on addressing it -/
theorem C16_incompatible_old_counterexample :
    let s := discoverOld (discoverOld St.init ⟨kA, 0⟩ true 7) ⟨kA, 1⟩ false 7
    s.matched = [⟨kA, 0⟩] ∧ s.status.current = 1 ∧ kA ∈ addressees s ∧ s.incompat = [kA] := by decide

/-- the same when the LOCAL QoS changed (identical remote record, new verdict): the unrepaired shortcut skipped the endpoint -/
theorem C16_incompatible_local_old_counterexample :
    discoverOld (discoverOld St.init ⟨kA, 0⟩ true 7) ⟨kA, 0⟩ false 7 = discoverOld St.init ⟨kA, 0⟩ true 7 ∧
    (discover (discover St.init ⟨kA, 0⟩ true 7) ⟨kA, 0⟩ false 7).matched = [] := by decide

/-! ### total_count -/

/-- does this step add an endpoint that is not currently matched? -/
def isNewMatch (s : St) : Step → Bool
  | .discover a c _ => c && !(keys s.matched).contains a.key
  | _ => false

/-- number of steps of `ops` (started in `s`) that add an endpoint not matched at that moment -/
def newMatches (side : Side) (s : St) : List Step → Nat
  | [] => 0
  | x :: xs => (if isNewMatch s x then 1 else 0) + newMatches side (step side s x) xs

theorem mem_imp_key (s : St) (a : Ann) (h : a ∈ s.matched) : a.key ∈ keys s.matched :=
  List.mem_map_of_mem (f := Ann.key) h

theorem undiscover_total (s : St) (k : Key) : (undiscover s k).status.total = s.status.total ∧
    (undiscover s k).status.dTotal = s.status.dTotal := by
  unfold undiscover
  split <;> exact ⟨rfl, rfl⟩

theorem gone_total (s : St) (p : Nat) : (gone s p).status.total = s.status.total ∧ (gone s p).status.dTotal = s.status.dTotal := by
  have := foldl_undiscover (fun t => t.status.total = s.status.total ∧ t.status.dTotal = s.status.dTotal)
    (fun t k h => by rw [(undiscover_total t k).1, (undiscover_total t k).2]; exact h) (goneKeys s p) s ⟨rfl, rfl⟩
  exact this

theorem step_total (side : Side) (s : St) (x : Step) :
    (step side s x).status.total = s.status.total + (if isNewMatch s x then 1 else 0) := by
  cases x with
  | discover a c l =>
    simp only [step, discover, isNewMatch]
    cases c with
    | false => simp [(undiscover_total s a.key).1]
    | true =>
      by_cases h1 : a ∈ s.matched
      · simp [h1, mem_imp_key s a h1]
      · by_cases h2 : s.matched.any (hasKey a.key) = true
        · have := (any_hasKey_iff _ _).mp h2
          simp [h1, h2, this]
        · have : a.key ∉ keys s.matched := fun h => h2 ((any_hasKey_iff _ _).mpr h)
          simp [h1, h2, this]
  | undiscover k => simp [step, isNewMatch, (undiscover_total s k).1]
  | gone p => simp [step, isNewMatch, (gone_total s p).1]
  | read => simp [step, readStatus, isNewMatch]

/-- C16 (total_count): on both sides and for ALL step lists, `total_count` is the number of steps that added an
    endpoint which was not matched at that moment — a QoS re-announcement of a matched endpoint, an incompatible
    announcement, a removal or a status read never move it -/
theorem C16_total (side : Side) (ops : List Step) :
    (run side St.init ops).status.total = newMatches side St.init ops := by
  suffices h : ∀ s, (run side s ops).status.total = s.status.total + newMatches side s ops by
    simpa [St.init] using h St.init
  induction ops with
  | nil => intro s; simp [run, newMatches]
  | cons x xs ih =>
    intro s
    simp only [run, newMatches]
    rw [ih, step_total]
    split <;> simp <;> omega

/-- regression witness for the repaired defect D21: the unrepaired code counted the re-announcement of a matched
    endpoint (same key, changed user_data) as a second match -/
theorem C16_total_asis_counterexample :
    let s := discoverAsIs (discoverAsIs St.init ⟨kA, 0⟩ true 7) ⟨kA, 1⟩ true 7
    s.matched.length = 1 ∧ s.status.total = 2 ∧ s.status.dCurrent = 2 := by decide

example : newMatches .writer St.init [.discover ⟨kA, 0⟩ true 7, .discover ⟨kA, 1⟩ true 7, .discover ⟨kA, 2⟩ false 7,
    .discover ⟨kA, 1⟩ true 7, .gone 1, .discover ⟨kA, 1⟩ true 7] = 3 := by
  decide

/-! ### change fields -/

/-- the counter values reported by the most recent status read (before any read: the values the change fields are
    relative to, i.e. counter − change) -/
def lastRead (side : Side) (s : St) (base : Int × Int) : List Step → Int × Int
  | [] => base
  | .read :: xs => lastRead side (step side s .read) (s.status.total, s.status.current) xs
  | x :: xs => lastRead side (step side s x) base xs

theorem step_dTotal (side : Side) (s : St) (x : Step) (hx : x ≠ .read) :
    (step side s x).status.total - (step side s x).status.dTotal = s.status.total - s.status.dTotal := by
  cases x with
  | discover a c l =>
    simp only [step, discover]
    split
    · rfl
    · split
      · split
        · rfl
        · simp only []; omega
      · show (undiscover s a.key).status.total - (undiscover s a.key).status.dTotal = _
        rw [(undiscover_total s a.key).1, (undiscover_total s a.key).2]
  | undiscover k =>
    simp only [step]
    rw [(undiscover_total s k).1, (undiscover_total s k).2]
  | gone p =>
    simp only [step]
    rw [(gone_total s p).1, (gone_total s p).2]
  | read => exact absurd rfl hx

/-- C16 (change fields, total): for ALL step lists on both sides, `total_count_change` is `total_count` minus the value
    reported by the last status read -/
theorem C16_change_total (side : Side) (ops : List Step) :
    (run side St.init ops).status.dTotal
      = (run side St.init ops).status.total - (lastRead side St.init (0, 0) ops).1 := by
  suffices h : ∀ s b, s.status.total - s.status.dTotal = b.1 →
      (run side s ops).status.total - (run side s ops).status.dTotal = (lastRead side s b ops).1 by
    have := h St.init (0, 0) (by simp [St.init])
    omega
  induction ops with
  | nil => intro s b h; simpa [run, lastRead] using h
  | cons x xs ih =>
    intro s b h
    cases x with
    | read =>
      simp only [run, lastRead]
      apply ih
      simp [step, readStatus]
    | discover a c l =>
      simp only [run, lastRead]
      apply ih
      rw [step_dTotal side s _ (by simp)]; exact h
    | undiscover k =>
      simp only [run, lastRead]
      apply ih
      rw [step_dTotal side s _ (by simp)]; exact h
    | gone p =>
      simp only [run, lastRead]
      apply ih
      rw [step_dTotal side s _ (by simp)]; exact h

theorem undiscover_dCurrent (s : St) (k : Key) (hc : CountOk s) :
    (undiscover s k).status.current - (undiscover s k).status.dCurrent = s.status.current - s.status.dCurrent := by
  unfold CountOk at hc
  unfold undiscover
  split
  · rename_i h
    have := length_eraseKey k s.matched ((any_hasKey_iff _ _).mp h)
    simp only []; omega
  · rfl

theorem gone_dCurrent (s : St) (p : Nat) (hc : CountOk s) :
    (gone s p).status.current - (gone s p).status.dCurrent = s.status.current - s.status.dCurrent := by
  have := foldl_undiscover (fun t => CountOk t ∧ t.status.current - t.status.dCurrent = s.status.current - s.status.dCurrent)
    (fun t k h => ⟨undiscover_count t k h.1, by rw [undiscover_dCurrent t k h.1]; exact h.2⟩) (goneKeys s p) s ⟨hc, rfl⟩
  exact this.2

theorem step_dCurrent (side : Side) (s : St) (x : Step) (hx : x ≠ .read) (hc : CountOk s) :
    (step side s x).status.current - (step side s x).status.dCurrent = s.status.current - s.status.dCurrent := by
  cases x with
  | discover a c l =>
    simp only [step, discover]
    unfold CountOk at hc
    split
    · rfl
    · split
      · split
        · simp only [length_replaceAnn]; omega
        · simp only [List.length_append, List.length_singleton]; omega
      · exact undiscover_dCurrent s a.key hc
  | undiscover k => exact undiscover_dCurrent s k hc
  | gone p => exact gone_dCurrent s p hc
  | read => exact absurd rfl hx

/-- C16 (change fields, current): for ALL step lists on both sides — participant removal included — `current_count_change`
    is `current_count` minus the value reported by the last status read -/
theorem C16_change_current (side : Side) (ops : List Step) :
    (run side St.init ops).status.dCurrent
      = (run side St.init ops).status.current - (lastRead side St.init (0, 0) ops).2 := by
  suffices h : ∀ s b, Good s → s.status.current - s.status.dCurrent = b.2 →
      (run side s ops).status.current - (run side s ops).status.dCurrent = (lastRead side s b ops).2 by
    have := h St.init (0, 0) init_good (by simp [St.init])
    omega
  induction ops with
  | nil => intro s b _ h; simpa [run, lastRead] using h
  | cons x xs ih =>
    intro s b hg h
    have hg' := step_good side s x hg
    cases x with
    | read =>
      simp only [run, lastRead]
      exact ih _ _ hg' (by simp [step, readStatus])
    | discover a c l =>
      simp only [run, lastRead]
      refine ih _ _ hg' ?_
      rw [step_dCurrent side s _ (by simp) hg.1]; exact h
    | undiscover k =>
      simp only [run, lastRead]
      refine ih _ _ hg' ?_
      rw [step_dCurrent side s _ (by simp) hg.1]; exact h
    | gone p =>
      simp only [run, lastRead]
      refine ih _ _ hg' ?_
      rw [step_dCurrent side s _ (by simp) hg.1]; exact h

/-- regression witness for D23, writer side: two readers matched and the status read (current 2); the unrepaired removal of
    the first one's participant counted nothing, then the second reader is deleted: `current_count` 2 → 0, change -1 -/
theorem C16_change_current_old_counterexample :
    let s0 := (readStatus (discover (discover St.init ⟨kA, 0⟩ true 7) ⟨kB, 0⟩ true 7)).1
    let s := undiscover (goneWriterOld s0 1) kB
    s0.status.current = 2 ∧ s.status.current = 0 ∧ s.status.dCurrent = -1 := by decide

example : (run .writer St.init [.discover ⟨kA, 0⟩ true 7, .discover ⟨kB, 0⟩ true 7, .read, .gone 1, .undiscover kB]).status
    = ⟨2, 0, 0, -2⟩ := by decide

/-! ### from the automaton to the world -/

open DustVerif.MatchWorld in
/-- C16 (world): in every world reachable by the operations of Model/MatchWorld.lean (participants and endpoints created,
    QoS changed, endpoints / participants deleted, participants cut and expired, time advanced, statuses read — what the
    `matchset` driver does to predict the simulator's answers) every endpoint's bookkeeping state is a state of the automaton
    above, so all theorems of this file apply to it; here the invariants: `current_count` = size of the matched list, the
    RTPS proxies are exactly the matched endpoints, `total_count` = number of new matches -/
theorem C16_world (ops : List WOp) (e : Ep) (he : e ∈ (runOps World.init ops).eps) :
    CountOk e.st ∧ ProxiesExact e.st ∧ ∃ steps, e.st.status.total = newMatches (sideOf e) St.init steps := by
  obtain ⟨steps, hs⟩ := world_endpoints_reachable ops e he
  exact ⟨hs ▸ (C16_current _ steps).1, hs ▸ (C16_current _ steps).2, steps, hs ▸ C16_total _ steps⟩

end DustVerif.MatchSet
