import DustVerif.Model.MatchSet
import DustVerif.Proofs.MatchWorldReach
/-! Property C16: the matched-status counters of a data writer / data reader track the actual matched set.
    All theorems are about `run side St.init ops` for ALL lists `ops` of bookkeeping steps (discover / re-announce with
    another record / undiscover / participant gone / read status), i.e. about every state the bookkeeping can reach.
    The model is the code with fixes/D3.patch and fixes/D21.patch; what the unrepaired code did is kept as
    `…AsIs` regression witnesses; the two open defects D22 (an endpoint that became incompatible stays matched) and
    D23 (participant removal does not touch the counters / the reader's matched list) have `_counterexample`
    witnesses and `_partial` theorems. -/
namespace DustVerif.MatchSet

/-! ### list lemmas -/

theorem keys_append (l : List Ann) (a : Ann) : keys (l ++ [a]) = keys l ++ [a.key] := by
  simp [keys]

theorem keys_replaceAnn (a : Ann) (l : List Ann) : keys (replaceAnn a l) = keys l := by
  induction l with
  | nil => rfl
  | cons x xs ih =>
    unfold replaceAnn
    by_cases h : x.key = a.key
    · simp [h, keys]
    · simp only [beq_iff_eq, h, if_false]
      simp only [keys, List.map_cons] at ih ⊢
      rw [ih]

theorem length_replaceAnn (a : Ann) (l : List Ann) : (replaceAnn a l).length = l.length := by
  have := congrArg List.length (keys_replaceAnn a l)
  simpa [keys] using this

theorem any_hasKey_iff (k : Key) (l : List Ann) : l.any (hasKey k) = true ↔ k ∈ keys l := by
  simp only [List.any_eq_true, hasKey, beq_iff_eq, keys, List.mem_map]

theorem keys_eraseKey_of_nodup (k : Key) (l : List Ann) (h : (keys l).Nodup) :
    keys (eraseKey k l) = (keys l).filter (keyNe k) := by
  induction l with
  | nil => rfl
  | cons x xs ih =>
    have hx : x.key ∉ keys xs ∧ (keys xs).Nodup := by simpa [keys] using h
    by_cases e : x.key = k
    · subst e
      have hf : (keys xs).filter (keyNe x.key) = keys xs := by
        rw [List.filter_eq_self]
        intro y hy
        have : y ≠ x.key := fun e => hx.1 (e ▸ hy)
        simpa [keyNe] using this
      have h1 : eraseKey x.key (x :: xs) = xs := by simp [eraseKey]
      have h2 : (keys (x :: xs)).filter (keyNe x.key) = (keys xs).filter (keyNe x.key) := by simp [keys, keyNe]
      rw [h1, h2, hf]
    · have h1 : eraseKey k (x :: xs) = x :: eraseKey k xs := by simp [eraseKey, e]
      have h2 : (keys (x :: xs)).filter (keyNe k) = x.key :: (keys xs).filter (keyNe k) := by
        have : keyNe k x.key = true := by simp [keyNe, e]
        simp [keys, this]
      rw [h1, h2, ← ih hx.2]
      rfl

theorem length_eraseKey (k : Key) (l : List Ann) (h : k ∈ keys l) : (eraseKey k l).length + 1 = l.length := by
  induction l with
  | nil => simp [keys] at h
  | cons x xs ih =>
    unfold eraseKey
    by_cases e : x.key = k
    · simp [e]
    · have e' : (x.key == k) = false := by simpa using e
      have : k ∈ keys xs := by
        simp only [keys, List.map_cons, List.mem_cons] at h
        rcases h with h | h
        · exact absurd h.symm e
        · exact h
      simp only [e', List.length_cons]
      have := ih this
      simp only [Bool.false_eq_true, if_false, List.length_cons]
      omega

theorem nodup_filter {α} (p : α → Bool) (l : List α) (h : l.Nodup) : (l.filter p).Nodup :=
  List.Pairwise.filter p h

theorem keys_filter (p : Nat) (l : List Ann) :
    keys (l.filter (annNotPfx p)) = (keys l).filter (fun k => !(k.pfx == p)) := by
  induction l with
  | nil => rfl
  | cons x xs ih =>
    simp only [keys, List.map_cons, List.filter_cons, annNotPfx] at ih ⊢
    by_cases e : x.key.pfx = p
    · simp [e, ih]
    · simp [e, ih]

theorem pkeys_replaceProxy (p : Proxy) (l : List Proxy) : pkeys (replaceProxy p l) = pkeys l := by
  induction l with
  | nil => rfl
  | cons x xs ih =>
    unfold replaceProxy
    by_cases h : x.key = p.key
    · simp [h, pkeys]
    · simp only [beq_iff_eq, h, if_false]
      simp only [pkeys, List.map_cons] at ih ⊢
      rw [ih]

theorem any_proxyHasKey_iff (k : Key) (l : List Proxy) : l.any (proxyHasKey k) = true ↔ k ∈ pkeys l := by
  simp only [List.any_eq_true, proxyHasKey, beq_iff_eq, pkeys, List.mem_map]

theorem upsert_exact (p : Proxy) (l : List Proxy) (h : p.key ∈ pkeys l) : pkeys (upsertProxy p l) = pkeys l := by
  have := (any_proxyHasKey_iff p.key l).mpr h
  simp [upsertProxy, this, pkeys_replaceProxy]

theorem upsert_new (p : Proxy) (l : List Proxy) (h : p.key ∉ pkeys l) : pkeys (upsertProxy p l) = pkeys l ++ [p.key] := by
  have : ¬ (l.any (proxyHasKey p.key) = true) := fun e => h ((any_proxyHasKey_iff p.key l).mp e)
  simp [upsertProxy, this, pkeys]

theorem pkeys_filter (f : Key → Bool) (l : List Proxy) :
    pkeys (l.filter (fun x => f x.key)) = (pkeys l).filter f := by
  induction l with
  | nil => rfl
  | cons x xs ih =>
    simp only [pkeys, List.map_cons, List.filter_cons] at ih ⊢
    cases f x.key <;> simp [ih]

theorem pkeys_filter_notKey (k : Key) (l : List Proxy) :
    pkeys (l.filter (proxyNotKey k)) = (pkeys l).filter (keyNe k) := pkeys_filter (keyNe k) l

theorem pkeys_filter_kept (m : List Ann) (p : Nat) (l : List Proxy) :
    pkeys (l.filter (proxyKept m p)) = (pkeys l).filter (fun k => !(k.pfx == p && (keys m).contains k)) :=
  pkeys_filter (fun k => !(k.pfx == p && (keys m).contains k)) l

/-! ### the invariants -/

/-- the RTPS proxies are exactly the matched endpoints (same order), and no endpoint is matched twice -/
def ProxiesExact (s : St) : Prop := pkeys s.proxies = keys s.matched ∧ (keys s.matched).Nodup
/-- weaker: every proxy belongs to a matched endpoint -/
def ProxiesSub (s : St) : Prop := (∀ k ∈ pkeys s.proxies, k ∈ keys s.matched) ∧ (keys s.matched).Nodup
/-- `current_count` is the size of the matched list -/
def CountOk (s : St) : Prop := s.status.current = s.matched.length

def noGone : List Step → Bool
  | [] => true
  | .gone _ :: _ => false
  | _ :: xs => noGone xs

theorem discover_exact (s : St) (a : Ann) (c : Bool) (l : Nat) (h : ProxiesExact s) : ProxiesExact (discover s a c l) := by
  obtain ⟨hp, hn⟩ := h
  unfold discover
  split
  · exact ⟨hp, hn⟩
  · split
    · split
      · rename_i hk
        have hk' : a.key ∈ keys s.matched := (any_hasKey_iff _ _).mp hk
        refine ⟨?_, ?_⟩
        · simp only [keys_replaceAnn]
          rw [upsert_exact ⟨a.key, l⟩ _ (hp ▸ hk')]; exact hp
        · simpa only [keys_replaceAnn] using hn
      · rename_i hk
        have hk' : a.key ∉ keys s.matched := fun h => hk ((any_hasKey_iff _ _).mpr h)
        refine ⟨?_, ?_⟩
        · simp only [keys_append]
          rw [upsert_new ⟨a.key, l⟩ _ (hp ▸ hk'), hp]
        · simp only [keys_append]
          rw [List.nodup_append]
          refine ⟨hn, by simp, ?_⟩
          intro x hx y hy
          simp only [List.mem_singleton] at hy
          subst hy
          exact fun e => hk' (e ▸ hx)
    · exact ⟨hp, hn⟩

theorem undiscover_exact (s : St) (k : Key) (h : ProxiesExact s) : ProxiesExact (undiscover s k) := by
  obtain ⟨hp, hn⟩ := h
  unfold undiscover
  split
  · refine ⟨?_, ?_⟩
    · simp only [keys_eraseKey_of_nodup k _ hn, pkeys_filter_notKey, hp]
    · simp only [keys_eraseKey_of_nodup k _ hn]
      exact nodup_filter _ _ hn
  · exact ⟨hp, hn⟩

theorem goneWriter_exact (s : St) (p : Nat) (h : ProxiesExact s) : ProxiesExact (goneWriter s p) := by
  obtain ⟨hp, hn⟩ := h
  unfold goneWriter
  refine ⟨?_, ?_⟩
  · simp only [keys_filter, pkeys_filter_kept, hp]
    apply List.filter_congr
    intro k hk
    simp [hk]
  · simp only [keys_filter]
    exact nodup_filter _ _ hn

/-- C16 (writer side, proxies): in every reachable state of a data WRITER — participant removal included — the RTPS
    reader proxies are exactly the matched subscriptions and no subscription is matched twice -/
theorem C16_proxies_writer (ops : List Step) : ProxiesExact (run .writer St.init ops) := by
  suffices h : ∀ s, ProxiesExact s → ProxiesExact (run .writer s ops) from h _ ⟨rfl, by simp [St.init, keys]⟩
  induction ops with
  | nil => intro s h; exact h
  | cons x xs ih =>
    intro s h
    apply ih
    cases x with
    | discover a c l => exact discover_exact s a c l h
    | undiscover k => exact undiscover_exact s k h
    | gone p => exact goneWriter_exact s p h
    | read => exact h

theorem discover_count (s : St) (a : Ann) (c : Bool) (l : Nat) (h : CountOk s) : CountOk (discover s a c l) := by
  unfold discover
  split
  · exact h
  · split
    · split <;> simp [CountOk]
    · exact h

theorem undiscover_count (s : St) (k : Key) (h : CountOk s) : CountOk (undiscover s k) := by
  unfold undiscover
  split
  · simp [CountOk]
  · exact h

/-- C16 (current_count, partial — excludes participant removal, finding D23): along every step list WITHOUT a
    `gone` step, on both sides, `current_count` is the number of matched endpoints and the RTPS proxies are exactly
    the matched endpoints. Participant removal (lease expiry / ignore_participant) is excluded: see the two
    counterexamples below. -/
theorem C16_current_partial (side : Side) (ops : List Step) (hng : noGone ops = true) :
    CountOk (run side St.init ops) ∧ ProxiesExact (run side St.init ops) := by
  suffices h : ∀ s, CountOk s ∧ ProxiesExact s → CountOk (run side s ops) ∧ ProxiesExact (run side s ops) from
    h _ ⟨rfl, rfl, by simp [St.init, keys]⟩
  induction ops with
  | nil => intro s h; exact h
  | cons x xs ih =>
    intro s h
    cases x with
    | discover a c l => exact ih hng _ ⟨discover_count s a c l h.1, discover_exact s a c l h.2⟩
    | undiscover k => exact ih hng _ ⟨undiscover_count s k h.1, undiscover_exact s k h.2⟩
    | gone p => exact absurd hng (by simp [noGone])
    | read => exact ih hng _ h

/-- C16 (current_count on the READER side, all steps): the reader's `current_count` is always the length of its matched
    list — because participant removal does not touch that list at all (which is the defect, see below) -/
theorem C16_current_reader_count (ops : List Step) : CountOk (run .reader St.init ops) := by
  suffices h : ∀ s, CountOk s → CountOk (run .reader s ops) from h _ rfl
  induction ops with
  | nil => intro s h; exact h
  | cons x xs ih =>
    intro s h
    apply ih
    cases x with
    | discover a c l => exact discover_count s a c l h
    | undiscover k => exact undiscover_count s k h
    | gone p => exact h
    | read => exact h

def kA : Key := ⟨1, 7⟩
def kB : Key := ⟨2, 7⟩

/-- D23, writer side: after the participant of the only matched reader is removed, the matched list is empty but
    `current_count` is still 1 -/
theorem C16_current_counterexample :
    let s := run .writer St.init [.discover ⟨kA, 0⟩ true 7, .gone 1]
    s.matched = [] ∧ s.status.current = 1 := by decide

/-- D23, reader side: the writer's participant is removed: the RTPS writer proxy is deleted but the writer stays in the
    matched list and `current_count` stays 1 -/
theorem C16_current_reader_counterexample :
    let s := run .reader St.init [.discover ⟨kA, 0⟩ true 7, .gone 1]
    s.matched = [⟨kA, 0⟩] ∧ s.status.current = 1 ∧ addressees s = [] := by decide

/-- non-vacuity: a run with a match, a re-announcement, a second match, a removal and a status read -/
example : noGone [.discover ⟨kA, 0⟩ true 7, .discover ⟨kA, 1⟩ true 7, .discover ⟨kB, 0⟩ true 7, .undiscover kA, .read] = true ∧
    (run .writer St.init [.discover ⟨kA, 0⟩ true 7, .discover ⟨kA, 1⟩ true 7, .discover ⟨kB, 0⟩ true 7, .undiscover kA, .read]).matched
      = [⟨kB, 0⟩] := by decide

/-! ### no traffic to a removed endpoint -/

theorem run_append (side : Side) (s : St) (a b : List Step) : run side s (a ++ b) = run side (run side s a) b := by
  induction a generalizing s with
  | nil => rfl
  | cons x xs ih => simp [run, ih]

theorem mem_upsert (p : Proxy) (x : Key) (l : List Proxy) : x ∈ pkeys (upsertProxy p l) ↔ x ∈ pkeys l ∨ x = p.key := by
  by_cases h : p.key ∈ pkeys l
  · rw [upsert_exact p l h]
    constructor
    · exact Or.inl
    · rintro (h' | h')
      · exact h'
      · exact h' ▸ h
  · rw [upsert_new p l h]; simp

theorem mem_keys_eraseKey (k x : Key) (l : List Ann) (h : x ∈ keys (eraseKey k l)) : x ∈ keys l := by
  induction l with
  | nil => exact h
  | cons y ys ih =>
    unfold eraseKey at h
    split at h
    · simp only [keys, List.map_cons, List.mem_cons]; exact Or.inr h
    · simp only [keys, List.map_cons, List.mem_cons] at h ⊢
      rcases h with h | h
      · exact Or.inl h
      · exact Or.inr (ih h)

theorem step_sub (side : Side) (s : St) (x : Step) (h : ProxiesSub s) : ProxiesSub (step side s x) := by
  obtain ⟨hp, hn⟩ := h
  cases x with
  | discover a c l =>
    simp only [step, discover]
    split
    · exact ⟨hp, hn⟩
    · split
      · split
        · rename_i hk
          have hk' : a.key ∈ keys s.matched := (any_hasKey_iff _ _).mp hk
          refine ⟨?_, by simpa only [keys_replaceAnn] using hn⟩
          intro x hx
          simp only [keys_replaceAnn]
          rcases (mem_upsert ⟨a.key, l⟩ _ _).mp hx with h | h
          · exact hp x h
          · exact h ▸ hk'
        · rename_i hk
          have hk' : a.key ∉ keys s.matched := fun h => hk ((any_hasKey_iff _ _).mpr h)
          refine ⟨?_, ?_⟩
          · intro x hx
            simp only [keys_append, List.mem_append, List.mem_singleton]
            rcases (mem_upsert ⟨a.key, l⟩ _ _).mp hx with h | h
            · exact Or.inl (hp x h)
            · exact Or.inr h
          · simp only [keys_append]
            rw [List.nodup_append]
            refine ⟨hn, by simp, ?_⟩
            intro x hx y hy
            simp only [List.mem_singleton] at hy
            subst hy
            exact fun e => hk' (e ▸ hx)
      · exact ⟨hp, hn⟩
  | undiscover k =>
    simp only [step, undiscover]
    split
    · refine ⟨?_, ?_⟩
      · intro x hx
        simp only [keys_eraseKey_of_nodup k _ hn]
        simp only [pkeys_filter_notKey, List.mem_filter] at hx ⊢
        exact ⟨hp x hx.1, hx.2⟩
      · simp only [keys_eraseKey_of_nodup k _ hn]
        exact nodup_filter _ _ hn
    · exact ⟨hp, hn⟩
  | gone p =>
    cases side
    · simp only [step, goneWriter]
      refine ⟨?_, ?_⟩
      · intro x hx
        simp only [keys_filter]
        simp only [pkeys_filter_kept, List.mem_filter] at hx ⊢
        refine ⟨hp x hx.1, ?_⟩
        have := hp x hx.1
        simpa [this] using hx.2
      · simp only [keys_filter]
        exact nodup_filter _ _ hn
    · simp only [step, goneReader]
      refine ⟨?_, hn⟩
      intro x hx
      simp only [pkeys_filter_kept, List.mem_filter] at hx
      exact hp x hx.1
  | read => exact ⟨hp, hn⟩

theorem run_sub (side : Side) (ops : List Step) : ∀ s, ProxiesSub s → ProxiesSub (run side s ops) := by
  induction ops with
  | nil => intro s h; exact h
  | cons x xs ih => intro s h; exact ih _ (step_sub side s x h)

theorem init_sub : ProxiesSub St.init := ⟨by simp [St.init, pkeys], by simp [St.init, keys]⟩

/-- C16 (proxies, both sides, all steps): every RTPS proxy belongs to a matched endpoint, and no endpoint is matched twice -/
theorem C16_proxies_matched (side : Side) (ops : List Step) : ProxiesSub (run side St.init ops) :=
  run_sub side ops _ init_sub

/-- no step of the list announces endpoint `k` -/
def noDiscoverOf (k : Key) : List Step → Bool
  | [] => true
  | .discover a _ _ :: xs => !(a.key == k) && noDiscoverOf k xs
  | _ :: xs => noDiscoverOf k xs

theorem step_not_proxy (side : Side) (s : St) (x : Step) (k : Key) (hk : k ∉ pkeys s.proxies)
    (hx : ∀ a c l, x = .discover a c l → a.key ≠ k) : k ∉ pkeys (step side s x).proxies := by
  cases x with
  | discover a c l =>
    simp only [step, discover]
    have hne := hx a c l rfl
    split
    · exact hk
    · split
      · split <;>
        · intro h
          rcases (mem_upsert ⟨a.key, l⟩ _ _).mp h with h | h
          · exact hk h
          · exact hne h.symm
      · exact hk
  | undiscover k' =>
    simp only [step, undiscover]
    split
    · intro h
      simp only [pkeys_filter_notKey] at h
      exact hk (List.mem_filter.mp h).1
    · exact hk
  | gone p =>
    cases side <;>
    · simp only [step, goneWriter, goneReader]
      intro h
      simp only [pkeys_filter_kept] at h
      exact hk (List.mem_filter.mp h).1
  | read => exact hk

theorem run_not_proxy (side : Side) (k : Key) (ops : List Step) (h : noDiscoverOf k ops = true) :
    ∀ s, k ∉ pkeys s.proxies → k ∉ pkeys (run side s ops).proxies := by
  induction ops with
  | nil => intro s hk; exact hk
  | cons x xs ih =>
    intro s hk
    have hx : (∀ a c l, x = .discover a c l → a.key ≠ k) ∧ noDiscoverOf k xs = true := by
      cases x <;> simp_all [noDiscoverOf]
    exact ih hx.2 _ (step_not_proxy side s x k hk hx.1)

/-- C16 (not addressed, endpoint deleted): on both sides, after ANY history `ops1`, once the deletion of the remote endpoint
    `k` has been processed, `k` is not among the endpoints RTPS messages (DATA, HEARTBEAT, GAP / ACKNACK) are addressed
    to — and stays out along every continuation `ops2` in which `k` is not announced again -/
theorem C16_not_addressed (side : Side) (ops1 ops2 : List Step) (k : Key) (h : noDiscoverOf k ops2 = true) :
    k ∉ addressees (run side St.init (ops1 ++ [.undiscover k] ++ ops2)) := by
  rw [run_append, run_append]
  apply run_not_proxy side k ops2 h
  have hs := C16_proxies_matched side ops1
  generalize run side St.init ops1 = s at hs
  simp only [run, step, undiscover]
  split
  · intro hm
    simp only [pkeys_filter_notKey] at hm
    simpa [keyNe] using (List.mem_filter.mp hm).2
  · rename_i hk
    intro hm
    exact hk ((any_hasKey_iff _ _).mpr (hs.1 k hm))

/-- C16 (not addressed, participant removed): the same after the removal of the participant `p` (deleted, lease expired or
    ignored) for every endpoint `k` of that participant -/
theorem C16_not_addressed_gone (side : Side) (ops1 ops2 : List Step) (p : Nat) (k : Key) (hk : k.pfx = p)
    (h : noDiscoverOf k ops2 = true) :
    k ∉ addressees (run side St.init (ops1 ++ [.gone p] ++ ops2)) := by
  rw [run_append, run_append]
  apply run_not_proxy side k ops2 h
  have hs := C16_proxies_matched side ops1
  generalize run side St.init ops1 = s at hs
  cases side <;>
  · simp only [run, step, goneWriter, goneReader]
    intro hm
    simp only [pkeys_filter_kept] at hm
    have hm' := List.mem_filter.mp hm
    have := hs.1 k hm'.1
    simp [hk, this] at hm'

/-- regression witness for the repaired defect D3: the unrepaired code left the RTPS proxy of a deleted endpoint in place,
    so heartbeats and data were still addressed to it -/
theorem C16_not_addressed_asis_counterexample :
    let s := undiscoverAsIs (discover St.init ⟨kA, 0⟩ true 7) kA
    s.matched = [] ∧ s.status.current = 0 ∧ kA ∈ addressees s := by decide

example : noDiscoverOf kA [.discover ⟨kB, 0⟩ true 7, .read, .gone 2] = true ∧
    addressees (run .writer St.init ([.discover ⟨kA, 0⟩ true 7] ++ [.undiscover kA] ++ [.discover ⟨kB, 0⟩ true 7, .read])) = [kB] := by
  decide

/-! ### an endpoint that became incompatible (D22) -/

/-- D22: a matched reader announces a QoS that is no longer compatible: it stays matched, `current_count` stays 1 and it is
    still addressed -/
theorem C16_incompatible_counterexample :
    let s := run .writer St.init [.discover ⟨kA, 0⟩ true 7, .discover ⟨kA, 1⟩ false 7]
    s.matched = [⟨kA, 0⟩] ∧ s.status.current = 1 ∧ kA ∈ addressees s ∧ s.incompat = [kA] := by decide

/-- every announcement of endpoint `k` in the list is incompatible -/
def allIncompat (k : Key) : List Step → Bool
  | [] => true
  | .discover a c _ :: xs => (!(a.key == k) || !c) && allIncompat k xs
  | _ :: xs => allIncompat k xs

theorem step_not_matched (side : Side) (s : St) (x : Step) (k : Key) (hk : k ∉ keys s.matched)
    (hx : ∀ a c l, x = .discover a c l → a.key ≠ k ∨ c = false) : k ∉ keys (step side s x).matched := by
  cases x with
  | discover a c l =>
    simp only [step, discover]
    split
    · exact hk
    · split
      · rename_i hc
        have hne : a.key ≠ k := by
          rcases hx a c l rfl with h | h
          · exact h
          · simp [h] at hc
        split
        · simpa only [keys_replaceAnn] using hk
        · simp only [keys_append, List.mem_append, List.mem_singleton]
          rintro (h | h)
          · exact hk h
          · exact hne h.symm
      · exact hk
  | undiscover k' =>
    simp only [step, undiscover]
    split
    · intro h; exact hk (mem_keys_eraseKey _ _ _ h)
    · exact hk
  | gone p =>
    cases side
    · simp only [step, goneWriter, keys_filter]
      intro h; exact hk (List.mem_filter.mp h).1
    · exact hk
  | read => exact hk

/-- C16 (incompatible endpoints, partial — excludes an endpoint that WAS compatible and then changed, finding D22):
    on both sides, an endpoint all of whose announcements are incompatible is never in the matched list and is never
    addressed -/
theorem C16_incompatible_partial (side : Side) (ops : List Step) (k : Key) (h : allIncompat k ops = true) :
    k ∉ keys (run side St.init ops).matched ∧ k ∉ addressees (run side St.init ops) := by
  have h1 : ∀ s, k ∉ keys s.matched → k ∉ keys (run side s ops).matched := by
    induction ops with
    | nil => intro s hk; exact hk
    | cons x xs ih =>
      intro s hk
      have hx : (∀ a c l, x = .discover a c l → a.key ≠ k ∨ c = false) ∧ allIncompat k xs = true := by
        cases x with
        | discover a c l =>
          simp only [allIncompat, Bool.and_eq_true, Bool.or_eq_true, Bool.not_eq_true', beq_eq_false_iff_ne] at h
          refine ⟨?_, h.2⟩
          intro a' c' l' e
          cases e
          exact h.1
        | _ => simp_all [allIncompat]
      exact ih hx.2 _ (step_not_matched side s x k hk hx.1)
  have hm := h1 St.init (by simp [St.init, keys])
  exact ⟨hm, fun hp => hm ((C16_proxies_matched side ops).1 k hp)⟩

example : allIncompat kA [.discover ⟨kA, 0⟩ false 7, .discover ⟨kB, 0⟩ true 7, .discover ⟨kA, 1⟩ false 7] = true := by decide


/-! ### total_count -/

/-- does this step add an endpoint that is not currently matched? -/
def isNewMatch (s : St) : Step → Bool
  | .discover a c _ => c && !(keys s.matched).contains a.key
  | _ => false

/-- number of steps of `ops` (started in `s`) that add an endpoint not matched at that moment -/
def newMatches (side : Side) (s : St) : List Step → Nat
  | [] => 0
  | x :: xs => (if isNewMatch s x then 1 else 0) + newMatches side (step side s x) xs

theorem mem_imp_key (s : St) (a : Ann) (h : a ∈ s.matched) : a.key ∈ keys s.matched :=
  List.mem_map_of_mem (f := Ann.key) h

theorem step_total (side : Side) (s : St) (x : Step) :
    (step side s x).status.total = s.status.total + (if isNewMatch s x then 1 else 0) := by
  cases x with
  | discover a c l =>
    simp only [step, discover, isNewMatch]
    by_cases h1 : a ∈ s.matched
    · simp [h1, mem_imp_key s a h1]
    · cases c
      · simp [h1]
      · by_cases h2 : s.matched.any (hasKey a.key) = true
        · have := (any_hasKey_iff _ _).mp h2
          simp [h1, h2, this]
        · have : a.key ∉ keys s.matched := fun h => h2 ((any_hasKey_iff _ _).mpr h)
          simp [h1, h2, this]
  | undiscover k =>
    simp only [step, undiscover, isNewMatch]
    split <;> simp
  | gone p => cases side <;> simp [step, goneWriter, goneReader, isNewMatch]
  | read => simp [step, readStatus, isNewMatch]

/-- C16 (total_count): on both sides and for ALL step lists, `total_count` is the number of steps that added an
    endpoint which was not matched at that moment — a QoS re-announcement of a matched endpoint, an incompatible
    announcement, a removal or a status read never move it -/
theorem C16_total (side : Side) (ops : List Step) :
    (run side St.init ops).status.total = newMatches side St.init ops := by
  suffices h : ∀ s, (run side s ops).status.total = s.status.total + newMatches side s ops by
    simpa [St.init] using h St.init
  induction ops with
  | nil => intro s; simp [run, newMatches]
  | cons x xs ih =>
    intro s
    simp only [run, newMatches]
    rw [ih, step_total]
    split <;> simp <;> omega

/-- regression witness for the repaired defect D21: the unrepaired code counted the re-announcement of a matched
    endpoint (same key, changed user_data) as a second match -/
theorem C16_total_asis_counterexample :
    let s := discoverAsIs (discoverAsIs St.init ⟨kA, 0⟩ true 7) ⟨kA, 1⟩ true 7
    s.matched.length = 1 ∧ s.status.total = 2 ∧ s.status.dCurrent = 2 := by decide

example : newMatches .writer St.init [.discover ⟨kA, 0⟩ true 7, .discover ⟨kA, 1⟩ true 7, .undiscover kA, .discover ⟨kA, 1⟩ true 7] = 2 := by
  decide

/-! ### change fields -/

/-- the counter values reported by the most recent status read (before any read: the values the change fields are
    relative to, i.e. counter − change) -/
def lastRead (side : Side) (s : St) (base : Int × Int) : List Step → Int × Int
  | [] => base
  | .read :: xs => lastRead side (step side s .read) (s.status.total, s.status.current) xs
  | x :: xs => lastRead side (step side s x) base xs

theorem step_dTotal (side : Side) (s : St) (x : Step) (hx : x ≠ .read) :
    (step side s x).status.total - (step side s x).status.dTotal = s.status.total - s.status.dTotal := by
  cases x with
  | discover a c l =>
    simp only [step, discover]
    split
    · rfl
    · split
      · split
        · rfl
        · simp only []; omega
      · rfl
  | undiscover k =>
    simp only [step, undiscover]
    split <;> rfl
  | gone p => cases side <;> rfl
  | read => exact absurd rfl hx

/-- C16 (change fields, total): for ALL step lists on both sides, `total_count_change` is `total_count` minus the value
    reported by the last status read -/
theorem C16_change_total (side : Side) (ops : List Step) :
    (run side St.init ops).status.dTotal
      = (run side St.init ops).status.total - (lastRead side St.init (0, 0) ops).1 := by
  suffices h : ∀ s b, s.status.total - s.status.dTotal = b.1 →
      (run side s ops).status.total - (run side s ops).status.dTotal = (lastRead side s b ops).1 by
    have := h St.init (0, 0) (by simp [St.init])
    omega
  induction ops with
  | nil => intro s b h; simpa [run, lastRead] using h
  | cons x xs ih =>
    intro s b h
    cases x with
    | read =>
      simp only [run, lastRead]
      apply ih
      simp [step, readStatus]
    | discover a c l =>
      simp only [run, lastRead]
      apply ih
      rw [step_dTotal side s _ (by simp)]; exact h
    | undiscover k =>
      simp only [run, lastRead]
      apply ih
      rw [step_dTotal side s _ (by simp)]; exact h
    | gone p =>
      simp only [run, lastRead]
      apply ih
      rw [step_dTotal side s _ (by simp)]; exact h

theorem step_dCurrent (side : Side) (s : St) (x : Step) (hx : x ≠ .read) (hc : CountOk s)
    (hg : side = .writer → ∀ p, x ≠ .gone p) :
    (step side s x).status.current - (step side s x).status.dCurrent = s.status.current - s.status.dCurrent := by
  unfold CountOk at hc
  cases x with
  | discover a c l =>
    simp only [step, discover]
    split
    · rfl
    · split
      · split
        · simp only [length_replaceAnn]; omega
        · simp only [List.length_append, List.length_singleton]; omega
      · rfl
  | undiscover k =>
    simp only [step, undiscover]
    split
    · rename_i h
      have := length_eraseKey k s.matched ((any_hasKey_iff _ _).mp h)
      simp only []; omega
    · rfl
  | gone p =>
    cases side
    · exact absurd rfl (hg rfl p)
    · rfl
  | read => exact absurd rfl hx

/-- steps allowed in `C16_change_current_partial`: everything on the reader side, everything but `gone` on the writer side -/
def changeOk (side : Side) (ops : List Step) : Prop := side = .reader ∨ noGone ops = true

theorem changeOk_tail (side : Side) (x : Step) (xs : List Step) (h : changeOk side (x :: xs)) : changeOk side xs := by
  rcases h with h | h
  · exact Or.inl h
  · cases x <;> simp_all [noGone, changeOk]

/-- C16 (change fields, current; partial — excludes participant removal on the writer side, finding D23):
    `current_count_change` is `current_count` minus the value reported by the last status read, for all step lists of a
    reader and for all step lists without `gone` of a writer -/
theorem C16_change_current_partial (side : Side) (ops : List Step) (hok : changeOk side ops) :
    (run side St.init ops).status.dCurrent
      = (run side St.init ops).status.current - (lastRead side St.init (0, 0) ops).2 := by
  suffices h : ∀ s b, CountOk s → s.status.current - s.status.dCurrent = b.2 →
      (run side s ops).status.current - (run side s ops).status.dCurrent = (lastRead side s b ops).2 by
    have := h St.init (0, 0) rfl (by simp [St.init])
    omega
  induction ops with
  | nil => intro s b _ h; simpa [run, lastRead] using h
  | cons x xs ih =>
    intro s b hc h
    have hok' := changeOk_tail side x xs hok
    have hg : side = .writer → ∀ p, x ≠ .gone p := by
      intro hw p e
      rcases hok with h | h
      · simp [hw] at h
      · subst e; simp [noGone] at h
    cases x with
    | read =>
      simp only [run, lastRead]
      exact ih hok' _ _ hc (by simp [step, readStatus])
    | discover a c l =>
      simp only [run, lastRead]
      refine ih hok' _ _ (discover_count s a c l hc) ?_
      rw [step_dCurrent side s _ (by simp) hc hg]; exact h
    | undiscover k =>
      simp only [run, lastRead]
      refine ih hok' _ _ (undiscover_count s k hc) ?_
      rw [step_dCurrent side s _ (by simp) hc hg]; exact h
    | gone p =>
      simp only [run, lastRead]
      refine ih hok' _ _ ?_ ?_
      · cases side
        · exact absurd rfl (hg rfl p)
        · exact hc
      · rw [step_dCurrent side s _ (by simp) hc hg]; exact h

/-- D23, writer side: two readers matched and the status read (current 2); the participant of the first one is removed
    (nothing is counted), then the second reader is deleted: `current_count` drops from 2 to 0 but
    `current_count_change` is -1 -/
theorem C16_change_current_counterexample :
    let ops := [Step.discover ⟨kA, 0⟩ true 7, .discover ⟨kB, 0⟩ true 7, .read, .gone 1, .undiscover kB]
    let s := run .writer St.init ops
    (lastRead .writer St.init (0, 0) ops).2 = 2 ∧ s.status.current = 0 ∧ s.status.dCurrent = -1 := by decide

example : changeOk .writer [.discover ⟨kA, 0⟩ true 7, .read, .undiscover kA] ∧
    (run .writer St.init [.discover ⟨kA, 0⟩ true 7, .read, .undiscover kA]).status = ⟨1, 0, 0, -1⟩ := by
  refine ⟨Or.inr (by decide), by decide⟩

/-! ### from the automaton to the world -/

open DustVerif.MatchWorld in
/-- C16 (world): in every world reachable by the operations of Model/MatchWorld.lean (participants and endpoints created,
    QoS changed, endpoints / participants deleted, participants cut and expired, time advanced, statuses read — what the
    `matchset` driver does to predict the simulator's answers) every endpoint's bookkeeping state is a state of the automaton
    above, so all theorems of this file apply to it; here: the ones that hold without exception -/
theorem C16_world (ops : List WOp) (e : Ep) (he : e ∈ (runOps World.init ops).eps) :
    ProxiesSub e.st ∧ (∃ steps, e.st.status.total = newMatches (sideOf e) St.init steps) ∧
    (e.isWriter = true → ProxiesExact e.st) ∧ (e.isWriter = false → CountOk e.st) := by
  obtain ⟨steps, hs⟩ := world_endpoints_reachable ops e he
  refine ⟨hs ▸ C16_proxies_matched _ steps, ⟨steps, hs ▸ C16_total _ steps⟩, ?_, ?_⟩
  · intro hw
    have : sideOf e = .writer := by simp [sideOf, hw]
    rw [this] at hs
    exact hs ▸ C16_proxies_writer steps
  · intro hr
    have : sideOf e = .reader := by simp [sideOf, hr]
    rw [this] at hs
    exact hs ▸ C16_current_reader_count steps

end DustVerif.MatchSet
