import DustVerif.Proofs.WrtLimits
/-! Property C19, writer half: a writer refuses writes that would exceed max_samples / max_instances /
    max_samples_per_instance with OutOfResources and stores nothing for them; it never holds more than the limits
    allow. Model: Model/WriterEnt.lean (`entWrite` = DataWriterEntity::write_w_timestamp with the repair of D25,
    `entWriteAsIs` = the pinned commit). The reader half is in Props/C19.lean. -/
namespace DustVerif.Wrt

/-- the DDS rule, stated on the counts a writer holds BEFORE the write: the write must be refused iff it is for an
    instance that is not registered (unknown, or unregistered) and max_instances instances are registered, or the instance already holds max_samples_per_instance
    samples (not applicable when KEEP_LAST(depth) with depth <= that limit: the write replaces a sample), or
    max_samples samples are stored -/
def Exceeds (q : Qos) (insts : List Inst) (k : Nat) : Prop :=
  (isReg insts k = false ∧ ∃ m, q.maxInstances = some m ∧ m ≤ regCount insts) ∨
  (∃ m, q.maxSpi = some m ∧ (∀ d, q.depth = some d → m < d) ∧ m ≤ samplesOfKey insts k) ∨
  (∃ m, q.maxSamples = some m ∧ m ≤ totalSamples insts)

/-- C19 (writer, refuses exactly the writes that exceed a limit) -/
theorem C19_writer_rejects_iff (s : St) (k : Nat) (v : Int) (ts now : Int) :
    (entWrite s k v ts now).2.1 = .outOfResources ↔ Exceeds s.qos s.insts k := by
  have hspi : spiHit s.qos s.insts k = true ↔
      ∃ m, s.qos.maxSpi = some m ∧ (∀ d, s.qos.depth = some d → m < d) ∧ m ≤ samplesOfKey s.insts k := by
    unfold spiHit
    cases hm : s.qos.maxSpi with
    | none => simp
    | some m =>
      cases hd : s.qos.depth with
      | none => simp
      | some d =>
        by_cases hdm : d ≤ m
        · simp [hdm]; omega
        · simp [hdm]; omega
  have hsam : samplesHit s.qos s.insts = true ↔ ∃ m, s.qos.maxSamples = some m ∧ m ≤ totalSamples s.insts := by
    unfold samplesHit
    cases hm : s.qos.maxSamples with
    | none => simp
    | some m => simp
  have hinst : (isReg s.insts k = false ∧ ltLen (regCount s.insts) s.qos.maxInstances = false) ↔
      (isReg s.insts k = false ∧ ∃ m, s.qos.maxInstances = some m ∧ m ≤ regCount s.insts) := by
    unfold ltLen
    cases hm : s.qos.maxInstances with
    | none => simp
    | some m => simp
  rcases entWrite_cases s k v ts now with hc | hc
  · constructor
    · intro _
      rcases hc.2.2.2 with h | h | h
      · exact Or.inl (hinst.mp h)
      · exact Or.inr (Or.inl (hspi.mp h))
      · exact Or.inr (Or.inr (hsam.mp h))
    · intro _; exact hc.1
  · constructor
    · intro h; rw [hc.1] at h; cases h
    · intro h
      exfalso
      obtain ⟨_, _, _, _, _, hhit, hreg, _⟩ := hc
      simp only [Bool.or_eq_false_iff] at hhit
      rcases h with h | h | h
      · have := hinst.mpr h
        rcases hreg with hr | hr
        · rw [this.1] at hr; cases hr
        · rw [this.2] at hr; cases hr
      · have := hspi.mpr h; rw [hhit.1] at this; cases this
      · have := hsam.mpr h; rw [hhit.2] at this; cases this

/-- C19 (writer, a refused write stores nothing): DataWriterEntity::write_w_timestamp answering OutOfResources
    leaves the WHOLE writer state as it was - no instance registered, no sample, no sequence number consumed, no
    change in the history - and sends nothing (full statement; holds for the code with fixes/D25.patch) -/
theorem C19_writer_refuses (s : St) (k : Nat) (v : Int) (ts now : Int)
    (h : (entWrite s k v ts now).2.1 = .outOfResources) :
    (entWrite s k v ts now).1 = s ∧ (entWrite s k v ts now).2.2 = [] := by
  rcases entWrite_cases s k v ts now with hc | hc
  · exact ⟨hc.2.2.1, hc.2.1⟩
  · rw [hc.1] at h; cases h

/-- C19 (writer, an accepted write stores exactly one sample): sequence number + 1, one more sample in the deque of
    that instance, the instance registered -/
theorem C19_writer_accepts (s : St) (k : Nat) (v : Int) (ts now : Int) (h : (entWrite s k v ts now).2.1 = .ok) :
    (entWrite s k v ts now).1.lastSn = s.lastSn + 1 ∧
    totalSamples (entWrite s k v ts now).1.insts = totalSamples s.insts + 1 ∧
    samplesOfKey (entWrite s k v ts now).1.insts k = samplesOfKey s.insts k + 1 ∧
    lookup (entWrite s k v ts now).1 k = true := by
  rcases entWrite_cases s k v ts now with hc | hc
  · rw [hc.1] at h; cases h
  · obtain ⟨_, _, hsn, _, hins, _, _, _⟩ := hc
    have hfind : ∃ i, findInst k (regInsts s.insts k) = some i ∧ i.samples.length = samplesOfKey s.insts k
        ∧ i.registered = true := by
      rcases findInst_regInsts s.insts k with ⟨i, h1, _, hi⟩ | ⟨h1, _, hi⟩
      · exact ⟨_, hi, by simp [samplesOfKey, h1], rfl⟩
      · exact ⟨_, hi, by simp [samplesOfKey, h1], rfl⟩
    obtain ⟨i0, hi0, hlen, hregd⟩ := hfind
    have hpush : ∀ (l : List Inst) (i : Inst) (sn : Nat), findInst k l = some i →
        findInst k (pushSample k sn l) = some { i with samples := i.samples ++ [sn] } := by
      intro l
      induction l with
      | nil => intro i sn hf; simp [findInst] at hf
      | cons x xs ih =>
        intro i sn hf
        simp only [findInst] at hf
        simp only [pushSample]
        split
        · rename_i hk
          simp only [hk, if_true, Option.some.injEq] at hf
          subst hf
          simp [findInst, hk]
        · rename_i hk
          simp only [hk, if_false] at hf
          simp [findInst, hk, ih i sn hf]
    refine ⟨hsn, ?_, ?_, ?_⟩
    · rw [hins, totalSamples_pushSample _ hi0, totalSamples_regInsts]
    · rw [hins]; simp [samplesOfKey, hpush _ _ _ hi0, hlen]
    · simp [lookup, isReg, hins, hpush _ _ _ hi0, hregd]

/-- KEEP_LAST replacement + entity write (both call sites): in a state that satisfies the limit invariant, a refusal
    leaves the whole state unchanged - nothing was evicted, nothing sent -/
theorem evictWrite_refuses (s : St) (k : Nat) (v : Int) (ts now : Int) (sn : Nat) (hinv : WInv s)
    (hf : fullFront s k = some sn) (h : (evictWrite s k v ts now sn).2.reply = some .outOfResources) :
    (evictWrite s k v ts now sn).1 = s ∧ (evictWrite s k v ts now sn).2.dgrams = [] ∧
    (evictWrite s k v ts now sn).2.evicted = [] := by
  unfold evictWrite at h ⊢
  by_cases hroom : roomFor s k = true
  · exfalso
    simp only [hroom, Bool.not_true, Bool.false_eq_true, if_false, entOut, Option.some.injEq] at h
    obtain ⟨d, i, hd, hi, hlen, hhead⟩ := fullFront_some hf
    obtain ⟨hq, ⟨hl1, _, _⟩, _⟩ := hinv
    have hne : i.samples ≠ [] := by intro hn; simp [hn] at hhead
    have hex := (C19_writer_rejects_iff (evict s k sn) k v ts now).mp h
    have hfe : findInst k (evict s k sn).insts = some { i with samples := i.samples.tail } := by
      simp [evict, findInst_popFront, hi]
    rcases hex with ⟨h1, m, hm, hle⟩ | ⟨m, hm, hdm, _⟩ | ⟨m, hm, hle⟩
    · -- max_instances: excluded by has_room_for_instance, which was tested before the eviction
      simp only [isReg, hfe] at h1
      simp only [evict, regCount_popFront] at hle
      have hm' : s.qos.maxInstances = some m := hm
      simp only [roomFor, isReg, hi, h1, Bool.false_or, ltLen, hm', decide_eq_true_eq] at hroom
      omega
    · have := hq.2 d m hd hm
      have := hdm d hd
      omega
    · have h1 := hl1 m hm
      have h2 := totalSamples_popFront hi hne
      simp only [evict] at hle
      omega
  · simp [hroom]

/-- C19 (writer, a refused write changes nothing - PARTICIPANT-level call, with fixes/D81.patch): in every state
    that satisfies the limit invariant (all reachable states, C19_writer_limits) `write` / `write_w_timestamp`
    answering OutOfResources leaves the WHOLE writer state as it was: no instance registered, no sample stored OR
    EVICTED, no sequence number consumed, nothing sent -/
theorem C19_writer_method_refuses (s : St) (k : Nat) (v : Int) (ts now : Int) (hinv : WInv s)
    (h : (methodWrite s k v ts now).2.reply = some .outOfResources) :
    (methodWrite s k v ts now).1 = s ∧ (methodWrite s k v ts now).2.dgrams = [] ∧
    (methodWrite s k v ts now).2.evicted = [] := by
  cases hf : fullFront s k with
  | none =>
    simp only [methodWrite, hf, entOut, Option.some.injEq] at h ⊢
    exact ⟨(C19_writer_refuses s k v ts now h).1, (C19_writer_refuses s k v ts now h).2, trivial⟩
  | some sn =>
    simp only [methodWrite, hf] at h ⊢
    by_cases hb : (s.qos.reliable && !(isAcked s sn)) = true
    · rw [if_pos hb] at h
      split at h <;> simp [Out.none] at h
    · rw [if_neg hb] at h ⊢
      exact evictWrite_refuses s k v ts now sn hinv hf h

/-- the same for a parked write that process_pending_write_samples completes with OutOfResources: the write is
    un-parked, nothing else changes -/
theorem C19_writer_pending_refuses (s : St) (now : Int) (hinv : WInv s)
    (h : (processPending s now).2.reply = some .outOfResources) :
    (processPending s now).1 = { s with pending := none } ∧ (processPending s now).2.dgrams = [] ∧
    (processPending s now).2.evicted = [] := by
  cases hp : s.pending with
  | none => simp [processPending, hp, Out.none] at h
  | some p =>
    simp only [processPending, hp] at h ⊢
    by_cases hcw : canWrite s p.key = true
    · rw [if_pos hcw] at h ⊢
      have hinv' : WInv { s with pending := none } := winv_of_frame hinv rfl rfl
      cases hf : fullFront s p.key with
      | some sn =>
        simp only [hf] at h ⊢
        exact evictWrite_refuses { s with pending := none } p.key p.val p.ts now sn hinv' hf h
      | none =>
        simp only [hf, entOut, Option.some.injEq] at h ⊢
        exact ⟨(C19_writer_refuses _ _ _ _ now h).1, (C19_writer_refuses _ _ _ _ now h).2, trivial⟩
    · rw [if_neg hcw] at h
      simp [Out.none] at h

/-- D81, regression witness: BEFORE fixes/D81.patch the KEEP_LAST replacement ran before the limits were checked.
    KEEP_LAST(1), max_instances 1: write instance 2, unregister it (its sample stays), write instance 1 (takes the
    only slot); a further write to instance 2 is refused with OutOfResources - but the old call had already evicted
    the stored sample of instance 2 (one sample fewer), while the repaired call leaves the state untouched -/
def d81Q : Qos :=
  { depth := some 1, reliable := true, maxBlocking := some 0, maxSamples := none, maxInstances := some 1,
    maxSpi := none, lifespan := none }
def d81S : St := run (St.init d81Q) [.write 2 1 0 0, .unregister 2 0 0, .write 1 2 0 0]

theorem C19_writer_refused_write_evicts_counterexample :
    (methodWriteOld d81S 2 3 0 0).2.reply = some .outOfResources ∧ (methodWriteOld d81S 2 3 0 0).2.evicted = [1] ∧
    totalSamples d81S.insts = 2 ∧ totalSamples (methodWriteOld d81S 2 3 0 0).1.insts = 1 ∧
    (methodWrite d81S 2 3 0 0).2.reply = some .outOfResources ∧ (methodWrite d81S 2 3 0 0).2.evicted = [] ∧
    totalSamples (methodWrite d81S 2 3 0 0).1.insts = 2 := by decide

/-- C19 (writer, limits are never exceeded): with a consistent QoS (depth >= 1, depth <= max_samples_per_instance),
    after ANY event list (unregister_instance included) the writer holds at most max_samples samples, max_instances
    REGISTERED instances and max_samples_per_instance samples of each instance -/
theorem C19_writer_limits (q : Qos) (hq : QosOk q) (evs : List Ev) :
    (∀ m, q.maxSamples = some m → totalSamples (run (St.init q) evs).insts ≤ m) ∧
    (∀ m, q.maxInstances = some m → regCount (run (St.init q) evs).insts ≤ m) ∧
    (∀ m, q.maxSpi = some m → ∀ i ∈ (run (St.init q) evs).insts, i.samples.length ≤ m) := by
  have hrun : ∀ (evs : List Ev) (s : St), WInv s → WInv (run s evs) ∧ (run s evs).qos = s.qos := by
    intro evs
    induction evs with
    | nil => intro s hs; exact ⟨hs, rfl⟩
    | cons e es ih =>
      intro s hs
      have h1 := step_winv s e hs
      have hq1 : (step s e).1.qos = s.qos := step_qos s e
      exact ⟨(ih _ h1).1, by simp only [run]; rw [(ih _ h1).2, hq1]⟩
  have h0 : WInv (St.init q) := by
    refine ⟨hq, ⟨?_, ?_, ?_⟩, ?_⟩ <;> intro m _ <;> simp [St.init, totalSamples, LenOk, regCount]
  obtain ⟨⟨_, ⟨h1, h2, h3⟩, _⟩, hqq⟩ := hrun evs _ h0
  rw [hqq] at h1 h2 h3
  exact ⟨h1, h2, fun m hm => h3 m hm⟩

/-- D25, regression witness: BEFORE fixes/D25.patch (pinned commit) a write refused because of max_samples had
    already registered its instance - with limits (1 sample, 2 instances): write A ok, write B -> OutOfResources,
    lookup_instance(B) -> Some (DESIGN 7.1) - so "a refused write stores nothing" was false for the whole state -/
def d25Q : Qos :=
  { depth := none, reliable := true, maxBlocking := some 100000000, maxSamples := some 1, maxInstances := some 2,
    maxSpi := some 1, lifespan := none }
def d25S : St := (entWrite (St.init d25Q) 1 1 0 0).1

theorem C19_writer_refuses_asis_counterexample :
    (entWriteAsIs d25S 2 2 0 0).2.1 = .outOfResources ∧ lookup d25S 2 = false ∧
    lookup (entWriteAsIs d25S 2 2 0 0).1 2 = true := by decide

/-- ... while the repaired function leaves no trace in the same situation -/
example : (entWrite d25S 2 2 0 0).2.1 = .outOfResources ∧ lookup (entWrite d25S 2 2 0 0).1 2 = false := by decide

/-- what held even before the repair: sequence number, history, pending write and every sample deque are
    untouched by a refused write; the only trace is the (empty) instance record -/
theorem C19_writer_refuses_asis_partial (s : St) (k : Nat) (v : Int) (ts now : Int)
    (h : (entWriteAsIs s k v ts now).2.1 = .outOfResources) :
    (entWriteAsIs s k v ts now).2.2 = [] ∧ (entWriteAsIs s k v ts now).1.lastSn = s.lastSn ∧
    (entWriteAsIs s k v ts now).1.changes = s.changes ∧ (entWriteAsIs s k v ts now).1.pending = s.pending ∧
    totalSamples (entWriteAsIs s k v ts now).1.insts = totalSamples s.insts ∧
    (∀ k', samplesOfKey (entWriteAsIs s k v ts now).1.insts k' = samplesOfKey s.insts k') ∧
    ((findInst k s.insts).isSome = true → (entWriteAsIs s k v ts now).1.insts = s.insts) := by
  unfold entWriteAsIs at h ⊢
  split
  · simp
  · split
    · refine ⟨rfl, rfl, rfl, rfl, ?_, ?_, ?_⟩
      · simp only [regInstsAsIs]; split
        · rfl
        · simp [totalSamples_append, totalSamples]
      · intro k'
        simp only [regInstsAsIs]
        split
        · rfl
        · rename_i hn
          have hnone : findInst k s.insts = none := by
            cases hf : findInst k s.insts with
            | none => rfl
            | some i => simp [hf] at hn
          by_cases hk : k' = k
          · subst hk
            simp [samplesOfKey, hnone, findInst_append_none _ hnone, findInst]
          · cases hf : findInst k' s.insts with
            | none => simp [samplesOfKey, hf, findInst_append_none _ hf, findInst, Ne.symm hk]
            | some i => simp [samplesOfKey, hf, findInst_append_some _ hf]
      · intro hs; simp [regInstsAsIs, hs]
    · rename_i h1 h2
      exfalso
      simp only [h1, h2] at h
      by_cases hx : expiredAtWrite s.qos ts now = true <;> simp [hx] at h

/-- non-vacuity: limits (3 samples, 2 instances, 2 per instance), KEEP_ALL: the third sample of instance 1, a third
    instance and a fourth sample are refused for the matching reason; nothing is stored for them -/
def lq : Qos :=
  { depth := none, reliable := true, maxBlocking := some 0, maxSamples := some 3, maxInstances := some 2,
    maxSpi := some 2, lifespan := none }
def ls : St := (entWrite (entWrite (St.init lq) 1 1 0 0).1 1 2 0 0).1

example : (entWrite ls 1 3 0 0).2.1 = .outOfResources ∧ (entWrite ls 2 4 0 0).2.1 = .ok ∧
    (entWrite (entWrite ls 2 4 0 0).1 3 5 0 0).2.1 = .outOfResources ∧
    (entWrite (entWrite ls 2 4 0 0).1 2 6 0 0).2.1 = .outOfResources ∧
    totalSamples (entWrite (entWrite ls 2 4 0 0).1 2 6 0 0).1.insts = 3 ∧ QosOk lq := by
  refine ⟨by decide, by decide, by decide, by decide, by decide, ?_⟩
  exact ⟨by intro d hd; simp [lq] at hd, by intro d m hd; simp [lq] at hd⟩

end DustVerif.Wrt
