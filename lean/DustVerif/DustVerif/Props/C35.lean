import DustVerif.Proofs.TreeSafe
import DustVerif.Proofs.TreeTopics
import DustVerif.Model.TreeOld
/-! Property C35: entity handles (and GUIDs) of simultaneously live entities are pairwise distinct, and creating
    an entity never panics the participant.  Model: `Model/Tree.lean` = the code WITH fixes/D40.patch (every counter
    of participant_entity.rs:60-63 / domain_participant_factory.rs:374 is incremented with `checked_add`; a creation
    that finds its counter exhausted returns OutOfResources before anything is created or changed).

    With the patch the property holds for ALL histories, in both build profiles (`C35_unique`, `C35_no_panic`,
    `C35_no_panic_history`).  The behaviour before the patch (`Model/TreeOld.lean`: the 256th publisher panics the
    worker in a debug build, the 257th gets the handle of the first in a release build — D40) is kept as
    regression witnesses (`…_counterexample`). -/
namespace DustVerif.Tree

/-- C35 (uniqueness): after ANY history of operations on a fresh factory — any number of creations and deletions,
    any profile — all live participants, publishers, subscribers, topics, writers and readers have pairwise
    distinct instance handles (the GUID of a writer/reader is the same 16 bytes). -/
theorem C35_unique (pr : Profile) (ops : List Op) : (allHandles (run (St.init pr) ops)).Nodup :=
  let g := good_run (good_init pr) ops
  handles_nodup g.1 g.2.bounded

/-- C35 (no panic, one step): from ANY state, no operation of the entity tree — creation, deletion, enable,
    get_qos — panics or kills the worker. -/
theorem C35_no_panic (s : St) (op : Op) (ht : isTreeOp op = true) :
    (step s op).2 ≠ .panic ∧ (step s op).1.dead = s.dead :=
  let r := safe_step s op ht
  ⟨r.2, r.1⟩

/-- C35 (no panic, histories): no history of tree operations on a fresh factory, however long, ever panics. -/
theorem C35_no_panic_history (pr : Profile) (ops : List Op) (ht : ∀ op ∈ ops, isTreeOp op = true) :
    (run (St.init pr) ops).dead = false ∧ ∀ r ∈ outs (St.init pr) ops, r ≠ .panic := by
  suffices h : ∀ (l : List Op) (s : St), s.dead = false → (∀ op ∈ l, isTreeOp op = true) →
      (run s l).dead = false ∧ ∀ r ∈ outs s l, r ≠ .panic by
    exact h ops (St.init pr) rfl ht
  intro l
  induction l with
  | nil => intro s hd _; exact ⟨hd, by simp [outs]⟩
  | cons op l ih =>
    intro s hd hto
    have hs := safe_step s op (hto op List.mem_cons_self)
    have hstep : stepD s op = step s op := by unfold stepD; simp [hd]
    have := ih (step s op).1 (by rw [hs.1]; exact hd) (fun o ho => hto o (List.mem_cons_of_mem _ ho))
    refine ⟨by show (run (stepD s op).1 l).dead = false; rw [hstep]; exact this.1, ?_⟩
    intro r hr'
    simp only [outs, List.mem_cons] at hr'
    rcases hr' with h | h
    · rw [h, hstep]; exact hs.2
    · rw [hstep] at h; exact this.2 r h

/-- C35 (no panic at all): NO history of model operations on a fresh factory ever panics or kills the worker —
    writer instance calls included: their `expect("Writer topic must exist")` is unreachable because in every reachable
    state every writer's topic exists (`top_run`; needs the `delete_topic` precondition, i.e. C36) -/
theorem C35_never_panics (pr : Profile) (ops : List Op) :
    (run (St.init pr) ops).dead = false ∧ ∀ r ∈ outs (St.init pr) ops, r ≠ .panic := by
  suffices h : ∀ (l : List Op) (s : St), s.dead = false → TopInv s →
      (run s l).dead = false ∧ ∀ r ∈ outs s l, r ≠ .panic by
    exact h ops (St.init pr) rfl (top_init pr)
  intro l
  induction l with
  | nil => intro s hd _; exact ⟨hd, by simp [outs]⟩
  | cons op l ih =>
    intro s hd ht
    have hs : (step s op).2 ≠ .panic ∧ (step s op).1.dead = s.dead := by
      cases hop : isTreeOp op with
      | true => exact C35_no_panic s op hop
      | false =>
        cases op <;> simp [isTreeOp] at hop
        rename_i w o
        exact instOp_no_panic ht w o
    have hstep : stepD s op = step s op := by unfold stepD; simp [hd]
    have := ih (step s op).1 (by rw [hs.2]; exact hd) (top_step ht op)
    refine ⟨by show (run (stepD s op).1 l).dead = false; rw [hstep]; exact this.1, ?_⟩
    intro r hr'
    simp only [outs, List.mem_cons] at hr'
    rcases hr' with h | h
    · rw [h, hstep]; exact hs.1
    · rw [hstep] at h; exact this.2 r h

/-- C35 (exhausted counter): a creation whose counter holds the last value of its field is refused with
    OutOfResources and changes NOTHING (publisher shown; the other five kinds have the same shape) -/
theorem C35_exhausted_refused (s : St) (ph : Nat) (a : Bool) (p : Part) (hp : findPart s ph = some p)
    (hr : s.pubEver p.uid = 255) : createPub s ph a = (s, .err .outOfResources) := by
  unfold createPub
  rw [hp]
  simp [hr, overflows, U8]

/-! ### regression witnesses: the code before fixes/D40.patch (`Model/TreeOld.lean`) -/

/-- one participant, then `n` publishers -/
def manyPubs (n : Nat) : List Op := .createPart true :: List.replicate n (.createPub 0 true)

/-- before the patch, debug profile: the 256th `create_publisher` of a participant panics the worker (255 succeed) -/
theorem C35_no_panic_counterexample :
    (outsOld (St.init .debug) (manyPubs 256)).getLast? = some .panic ∧
    (runOld (St.init .debug) (manyPubs 256)).dead = true ∧
    (runOld (St.init .debug) (manyPubs 255)).dead = false := by decide +kernel

/-- before the patch, release profile: 257 publishers are created without any error, all 257 are alive, and the
    257th has the handle of the first (entries 1 and 257 of the handle list; entry 0 is the participant) -/
theorem C35_unique_counterexample :
    let s := runOld (St.init .release) (manyPubs 257)
    s.dead = false ∧ s.pubs.length = 257 ∧ (allHandles s)[1]? = (allHandles s)[257]? ∧
    (allHandles s)[1]?.isSome = true := by
  decide +kernel

/-- before the patch, release profile, with deletions in between: one long-lived publisher, 255 create+delete cycles,
    and the next publisher collides with the long-lived one although only two publishers are alive -/
def churn (n : Nat) : List Op :=
  (List.range n).flatMap (fun i => [Op.createPub 0 true, Op.deletePub 0 { ph := 0, b := (i + 1) % 256 }])

theorem C35_unique_churn_counterexample :
    let s := runOld (St.init .release) ([.createPart true, .createPub 0 true] ++ churn 255 ++ [.createPub 0 true])
    s.pubs.length = 2 ∧ ¬ (allHandles s).Nodup := by decide +kernel

/-- the same histories on the PATCHED code: the 256th publisher is refused with OutOfResources, nobody dies, and
    the churn history ends with ONE live publisher (the refused creation created nothing) -/
theorem C35_fixed_regression :
    (outs (St.init .debug) (manyPubs 256)).getLast? = some (.err .outOfResources) ∧
    (run (St.init .debug) (manyPubs 256)).dead = false ∧
    (run (St.init .release) (manyPubs 257)).pubs.length = 255 ∧
    (run (St.init .release) ([.createPart true, .createPub 0 true] ++ churn 255 ++ [.createPub 0 true])).pubs.length = 1 := by
  decide +kernel

/-- the seeded order of `find_topic` (seed_C35_c: counter incremented before the handle is built): a topic obtained through
    `find_topic` and the NEXT created topic are two live Topic entities with one handle; as coded all three handles differ.
    (`C35_unique` covers histories with `findTopic` steps: the step alphabet of `run` contains them.) -/
theorem C35_find_topic_seeded_counterexample :
    let s1 := (createPart (St.init .debug) true).1
    let s2 := (createTopic s1 0 "A" true).1
    let seeded := (createTopic (findTopicOpSeeded s2 0 "T1" true true).1 0 "B" true).1
    let coded := run (St.init .debug) [.createPart true, .createTopic 0 "A" true, .findTopic 0 "T1" true true,
      .createTopic 0 "B" true]
    seeded.topics.length = 3 ∧ ¬ (allHandles seeded).Nodup ∧
    (findTopicOpSeeded s2 0 "T1" true true).2 = (createTopic (findTopicOpSeeded s2 0 "T1" true true).1 0 "B" true).2 ∧
    coded.topics.length = 3 ∧ (allHandles coded).Nodup := by
  decide +kernel

/-- `find_topic` of a name that is neither local nor discovered answers Timeout and changes nothing; of a local topic it
    answers that topic's handle and creates nothing -/
theorem C35_find_topic_no_entity (s : St) (ph : Nat) (n : String) (k : Bool) (p : Part) (hp : findPart s ph = some p) :
    (findTopic s p.uid n = none → findTopicOp s ph n k false = (s, .err .timeout)) ∧
    (∀ t, findTopic s p.uid n = some t → ∀ d, findTopicOp s ph n k d = (s, .handle (topicHandle t))) := by
  refine ⟨?_, ?_⟩
  · intro h; unfold findTopicOp; simp [hp, h]
  · intro t h d; unfold findTopicOp; simp [hp, h]

/-! ### non-vacuity -/

/-- a non-trivial history: two participants, publishers, subscribers, topics, a writer and a reader, deletions in
    between: nine live entities, all handles distinct by `C35_unique` -/
example :
    let ops : List Op := [.createPart true, .createPart true, .createPub 0 true, .createPub 1 true, .createSub 0 true,
      .createTopic 0 "A" true, .createTopic 1 "A" false, .createWriter { ph := 0, b := 0 } "A" none true,
      .createReader { ph := 0, b := 0 } "A" true, .deletePub 1 { ph := 1, b := 0 }, .createPub 1 true]
    (allHandles (run (St.init .debug) ops)).length = 9 ∧ (∀ op ∈ ops, isTreeOp op = true) := by
  refine ⟨by decide +kernel, by decide⟩

/-- the hypothesis of `C35_exhausted_refused` is reachable: after 255 publishers the counter is at its last value -/
example : (run (St.init .debug) (manyPubs 255)).pubEver 0 = 255 ∧
    findPart (run (St.init .debug) (manyPubs 255)) 0 = some { uid := 0, enabled := true, autoenable := true } := by
  decide +kernel

end DustVerif.Tree
