import DustVerif.Proofs.TreeSafe
/-! Property C35: entity handles (and GUIDs) of simultaneously live entities are pairwise distinct, and creating
    an entity never panics the participant.  Model: `Model/Tree.lean` (counters of participant_entity.rs:60-63,
    participant_methods.rs:70,160,272,392, publisher_methods.rs:90, subscriber_methods.rs:122 with their widths).

    As the code is, the property FAILS at the counter rails (D40): in the debug profile the `+= 1` of the 256th
    publisher/subscriber (65 536th topic/writer/reader) of a participant panics the worker; in the release
    profile the counter wraps and the 257th publisher gets the handle of the first.  What IS true is proved
    below; the rest is the counter-example theorems and the known finding `creation-count-reached-counter-width`. -/
namespace DustVerif.Tree

/-- C35 (uniqueness, partial — both profiles): after ANY history of operations on a fresh factory, if no counter has
    wrapped (at most 256 publishers and 256 subscribers, 65 536 topics+content-filtered topics, writers, readers
    ever created per participant, at most 2^32 participants), all live entities — participants, publishers,
    subscribers, topics, writers, readers of all participants — have pairwise distinct instance handles
    (the GUID of a writer/reader is the same 16 bytes).  Excluded: histories that drive a counter past its width. -/
theorem C35_unique_partial (pr : Profile) (ops : List Op) (hb : Bounded (run (St.init pr) ops)) :
    (allHandles (run (St.init pr) ops)).Nodup :=
  handles_nodup (good_run (good_init pr) ops).1 hb

/-- C35 (uniqueness, debug profile — full for the per-participant counters): with overflow checks on, EVERY
    history keeps all live handles distinct (a counter never wraps because the increment that would wrap panics
    instead).  The only hypothesis left is about the factory's `AtomicU32` (`fetch_add` wraps silently). -/
theorem C35_unique_debug (ops : List Op) (hn : (run (St.init .debug) ops).nextPart ≤ U32) :
    (allHandles (run (St.init .debug) ops)).Nodup := by
  have hg := good_run (good_init .debug) ops
  have hp : (run (St.init .debug) ops).profile = .debug := by rw [prof_run]; rfl
  exact handles_nodup hg.1 (hg.2.bounded hp hn)

/-- C35 (no panic, one step, partial): in ANY state (reachable or not) in which every counter of every participant
    is below the last value of its field, no operation of the entity tree — creation, deletion, enable, probe —
    panics or kills the worker.  Excluded: the creation at the rail (counter = 255 / 65 535), which does panic. -/
theorem C35_no_panic_partial (s : St) (op : Op) (ht : isTreeOp op = true) (h : RailFree s 1) :
    (step s op).2 ≠ .panic ∧ (step s op).1.dead = s.dead :=
  let r := safe_step (k := 0) h op ht
  ⟨r.2.2, r.2.1⟩

/-- C35 (no panic, histories, partial): a history of at most 255 tree operations on a fresh factory never panics,
    whatever it creates and deletes (each operation moves each counter by at most one). -/
theorem C35_no_panic_history_partial (pr : Profile) (ops : List Op) (ht : ∀ op ∈ ops, isTreeOp op = true)
    (hl : ops.length ≤ 255) :
    (run (St.init pr) ops).dead = false ∧ ∀ r ∈ outs (St.init pr) ops, r ≠ .panic := by
  suffices h : ∀ (l : List Op) (s : St) (k : Nat), s.dead = false → RailFree s k → l.length ≤ k →
      (∀ op ∈ l, isTreeOp op = true) → (run s l).dead = false ∧ ∀ r ∈ outs s l, r ≠ .panic by
    exact h ops (St.init pr) 255 rfl (by intro u; simp [St.init, zeroMap]) hl ht
  intro l
  induction l with
  | nil => intro s k hd _ _ _; exact ⟨hd, by simp [outs]⟩
  | cons op l ih =>
    intro s k hd hr hlen hto
    cases k with
    | zero => simp at hlen
    | succ k =>
      have hs := safe_step hr op (hto op List.mem_cons_self)
      have hstep : stepD s op = step s op := by unfold stepD; simp [hd]
      have := ih (step s op).1 k (by rw [hs.2.1]; exact hd) hs.1 (by simp at hlen; omega)
        (fun o ho => hto o (List.mem_cons_of_mem _ ho))
      refine ⟨by show (run (stepD s op).1 l).dead = false; rw [hstep]; exact this.1, ?_⟩
      intro r hr'
      simp only [outs, List.mem_cons] at hr'
      rcases hr' with h | h
      · rw [h, hstep]; exact hs.2.2
      · rw [hstep] at h; exact this.2 r h

/-- C35 (release profile): with wrapping arithmetic no creation call panics, in any state (the price is paid in
    uniqueness, see `C35_unique_counterexample`) -/
theorem C35_no_panic_release (s : St) (hp : s.profile = .release) :
    (∀ a, (createPart s a).2 ≠ .panic) ∧ (∀ ph a, (createPub s ph a).2 ≠ .panic) ∧
    (∀ ph a, (createSub s ph a).2 ≠ .panic) ∧ (∀ ph n k, (createTopic s ph n k).2 ≠ .panic) ∧
    (∀ r n, (createCft s r n).2 ≠ .panic) ∧ (∀ r t m c, (createWriter s r t m c).2 ≠ .panic) ∧
    (∀ r t c, (createReader s r t c).2 ≠ .panic) := by
  refine ⟨?_, ?_, ?_, ?_, ?_, ?_, ?_⟩
  · intro a; unfold createPart; simp
  · intro ph a
    unfold createPub
    split
    · simp
    · simp [hp]
  · intro ph a
    unfold createSub
    split
    · simp
    · simp [hp]
  · intro ph n k
    unfold createTopic
    split
    · simp
    · split
      · simp
      · split
        · simp
        · simp [hp]
  · intro r n
    unfold createCft
    split
    · simp
    · split
      · simp
      · simp [hp]
  · intro r t m c
    unfold createWriter
    split
    · simp
    · split
      · simp
      · split
        · simp
        · simp only [hp]
          split
          · rename_i h; simp at h
          · split <;> simp
  · intro r t c
    unfold createReader
    split
    · simp
    · simp only [hp]
      split
      · simp
      · split
        · simp
        · split
          · simp
          · simp

/-! ### as-is counter-examples (D40) -/

/-- one participant, then `n` publishers -/
def manyPubs (n : Nat) : List Op := .createPart true :: List.replicate n (.createPub 0 true)

/-- debug profile: the 256th `create_publisher` of a participant panics the worker (255 succeed) -/
theorem C35_no_panic_counterexample :
    (outs (St.init .debug) (manyPubs 256)).getLast? = some .panic ∧
    (run (St.init .debug) (manyPubs 256)).dead = true ∧
    (run (St.init .debug) (manyPubs 255)).dead = false := by decide +kernel

/-- release profile: 257 publishers are created without any error, all 257 are alive, and the 257th has the
    handle of the first (entries 1 and 257 of the handle list; entry 0 is the participant) -/
theorem C35_unique_counterexample :
    let s := run (St.init .release) (manyPubs 257)
    s.dead = false ∧ s.pubs.length = 257 ∧ (allHandles s)[1]? = (allHandles s)[257]? ∧
    (allHandles s)[1]?.isSome = true := by
  decide +kernel

/-- release profile, with deletions in between: one long-lived publisher, 255 create+delete cycles, and the next
    publisher collides with the long-lived one although only two publishers are alive -/
def churn (n : Nat) : List Op :=
  (List.range n).flatMap (fun i => [Op.createPub 0 true, Op.deletePub 0 { ph := 0, b := (i + 1) % 256 }])

theorem C35_unique_churn_counterexample :
    let s := run (St.init .release) ([.createPart true, .createPub 0 true] ++ churn 255 ++ [.createPub 0 true])
    s.pubs.length = 2 ∧ ¬ (allHandles s).Nodup := by decide +kernel

/-! ### non-vacuity -/

/-- the hypotheses of the partial theorems are met by a non-trivial history: two participants, publishers,
    subscribers, topics, a writer and a reader, deletions in between; every handle is distinct -/
example :
    let ops : List Op := [.createPart true, .createPart true, .createPub 0 true, .createPub 1 true, .createSub 0 true,
      .createTopic 0 "A" true, .createTopic 1 "A" false, .createWriter { ph := 0, b := 0 } "A" none true,
      .createReader { ph := 0, b := 0 } "A" true, .deletePub 1 { ph := 1, b := 0 }, .createPub 1 true]
    let s := run (St.init .debug) ops
    (allHandles s).length = 9 ∧ RailFree s 1 ∧ s.dead = false ∧ (∀ op ∈ ops, isTreeOp op = true) := by
  refine ⟨by decide +kernel, ?_, by decide +kernel, by decide⟩
  intro u
  by_cases h0 : u = 0
  · subst h0; decide +kernel
  · by_cases h1 : u = 1
    · subst h1; decide +kernel
    · simp [run, stepD, step, St.init, createPart, createPub, createSub, createTopic, createWriter, createReader,
        deletePub, findPart, findPub, findSub, findTopic, findCft, isPartH, isPubH, isSubH, isTopicN, overflows, U8, U16, U32, setTo,
        zeroMap, isBuiltinName, builtinTopicNames, writerOfPub, h0, h1]

end DustVerif.Tree
