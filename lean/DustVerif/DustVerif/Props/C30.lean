import DustVerif.Model.Deadline
/-! Property C30: deadline-missed counts increase once per missed period.

    Model/Deadline.lean holds the checks as coded; the reader side is the code with fixes/D35.patch (re-arm by one period,
    as the writer side always did). `tick` is one check of one instance, `ticks` a sequence of checks (worker wake-ups),
    `runOps` checks interleaved with arriving samples. Times are integer nanoseconds. -/
namespace DustVerif.Deadline

/-! ### one instance -/

/-- the checks come at most one period apart, starting from the last sample: `prev <= t`, `t - prev <= p`, chained -/
def Spaced (p : Int) : Int → List Int → Prop
  | _, [] => True
  | prev, t :: r => prev ≤ t ∧ t - prev ≤ p ∧ Spaced p t r

def lastTime : Int → List Int → Int
  | s, [] => s
  | _, t :: r => lastTime t r

/-- invariant of a re-armed instance after a check at `now`: the stamp trails `now` by at most one period, and once a
    miss has been counted the stamp is strictly in the past -/
def Inv (p : Int) (c : Cell) (now : Int) : Prop :=
  now - c.stamp ≤ p ∧ c.stamp ≤ now ∧ (c.count = 0 ∨ c.stamp < now)

theorem tick_inv (p : Int) (c : Cell) (prev now : Int) (hi : Inv p c prev) (h1 : prev ≤ now)
    (h2 : now - prev ≤ p) : Inv p (tick p c now) now := by
  unfold Inv at *
  unfold tick
  split <;> (try dsimp only) <;> omega

theorem ticks_inv (p : Int) (ts : List Int) (c : Cell) (prev : Int) (hi : Inv p c prev)
    (hs : Spaced p prev ts) : Inv p (ticks p c ts) (lastTime prev ts) := by
  induction ts generalizing c prev with
  | nil => simpa [ticks, lastTime] using hi
  | cons t r ih =>
    simp only [Spaced] at hs
    simp only [ticks, List.foldl_cons, lastTime]
    exact ih (tick p c t) t (tick_inv p c prev t hi hs.1 hs.2.1) hs.2.2

/-- the stamp is the last sample time plus one period per counted miss -/
theorem tick_stamp (p s : Int) (c : Cell) (now : Int) (h : c.stamp = s + (c.count : Int) * p) :
    (tick p c now).stamp = s + ((tick p c now).count : Int) * p := by
  unfold tick
  split
  · dsimp only
    have e : (((c.count + 1 : Nat)) : Int) * p = (c.count : Int) * p + p := by
      have : (((c.count + 1 : Nat)) : Int) = (c.count : Int) + 1 := by omega
      rw [this, Int.add_mul, Int.one_mul]
    rw [e]
    omega
  · exact h

theorem ticks_stamp (p s : Int) (ts : List Int) (c : Cell) (h : c.stamp = s + (c.count : Int) * p) :
    (ticks p c ts).stamp = s + ((ticks p c ts).count : Int) * p := by
  induction ts generalizing c with
  | nil => simpa [ticks] using h
  | cons t r ih =>
    simp only [ticks, List.foldl_cons]
    exact ih (tick p c t) (tick_stamp p s c t h)

/-- C30 (count): an instance whose last sample arrived at `s`, checked by ANY sequence of worker wake-ups that are at most
    one period apart, ending at time `T`: the total count `n` is exactly the number of whole periods that have elapsed since
    the last sample, `s + n*p < T <= s + (n+1)*p` (for `n = 0`: `T <= s + p`) -/
theorem C30_count (p s : Int) (hp : 0 < p) (ts : List Int) (hs : Spaced p s ts) :
    let c := ticks p { stamp := s, count := 0 } ts
    let T := lastTime s ts
    T ≤ s + ((c.count : Int) + 1) * p ∧ (c.count = 0 ∨ s + (c.count : Int) * p < T) := by
  intro c T
  have hinv := ticks_inv p ts { stamp := s, count := 0 } s (by unfold Inv; simp; omega) hs
  have hst := ticks_stamp p s ts { stamp := s, count := 0 } (by simp)
  unfold Inv at hinv
  have e : ((c.count : Int) + 1) * p = (c.count : Int) * p + p := by rw [Int.add_mul, Int.one_mul]
  rw [e]
  refine ⟨?_, ?_⟩
  · have := hinv.1
    show lastTime s ts ≤ s + (((ticks p { stamp := s, count := 0 } ts).count : Int) * p + p)
    omega
  · rcases hinv.2.2 with h | h
    · left; exact h
    · right
      show s + (((ticks p { stamp := s, count := 0 } ts).count : Int)) * p < lastTime s ts
      omega

/-- C30 (one increment per missed period, never two at once, never a decrease): a check adds at most one -/
theorem C30_step_at_most_one (p : Int) (c : Cell) (now : Int) :
    (tick p c now).count = c.count ∨ (tick p c now).count = c.count + 1 := by
  unfold tick
  split <;> simp

/-- the samples keep arriving: every check comes at most one period after the latest sample -/
def Fresh (p : Int) : Int → List Op → Prop
  | _, [] => True
  | _, .sample t :: r => Fresh p t r
  | last, .check t :: r => t - last ≤ p ∧ Fresh p last r

/-- C30 (no miss is reported while samples keep arriving within the period), for ALL interleavings of samples and checks -/
theorem C30_no_miss_while_fresh (p : Int) (ops : List Op) (c : Cell) (h : Fresh p c.stamp ops) :
    (runOps p c ops).count = c.count := by
  induction ops generalizing c with
  | nil => simp [runOps]
  | cons o r ih =>
    simp only [runOps, List.foldl_cons]
    cases o with
    | sample t =>
      simp only [Fresh] at h
      have := ih { c with stamp := t } (by simpa using h)
      simpa [runOps, stepOp] using this
    | check t =>
      simp only [Fresh] at h
      have hk : tick p c t = c := by
        unfold tick
        split
        · omega
        · rfl
      have := ih c h.2
      simpa [runOps, stepOp, hk] using this

/-! ### the coded checks are the per-instance automaton -/

theorem rearm_is_tick (now p : Int) (i : RInst) :
    rearm now p i = { i with stamp := (tick p { stamp := i.stamp, count := 0 } now).stamp } := by
  unfold rearm tick expired
  by_cases h : now - i.stamp > p <;> simp [h]

/-- C30 (reader, as coded with D35.patch): every instance of every reader is stepped by `tick`, independently of the others -/
theorem C30_reader_instances_tick (r : Reader) (p now : Int) (hp : r.period = some p) :
    (checkReader r now).1.insts =
      r.insts.map (fun i => { i with stamp := (tick p { stamp := i.stamp, count := 0 } now).stamp }) := by
  unfold checkReader
  simp only [hp]
  apply List.map_congr_left
  intro i _
  exact rearm_is_tick now p i

theorem wRearm_is_tick (now p : Int) (i : WInst) (t : Int) (h : i.lastWrite = some t) :
    wRearm now p i = { i with lastWrite := some (tick p { stamp := t, count := 0 } now).stamp } := by
  unfold wRearm tick
  cases i with
  | mk key lw =>
    simp only at h
    subst h
    by_cases hh : now - t > p <;> simp [hh]

/-- C30 (one notification per increment): the count grows by exactly the number of listener / status notifications the
    check emits, on both sides, for ALL instance lists -/
theorem C30_one_notification_per_increment_reader (r : Reader) (now : Int) :
    (checkReader r now).1.total = r.total + (checkReader r now).2.length := by
  unfold checkReader
  cases r.period <;> simp

theorem C30_one_notification_per_increment_writer (w : Writer) (now : Int) :
    (checkWriter w now).1.total = w.total + (checkWriter w now).2.length := by
  unfold checkWriter
  cases w.period <;> simp

/-- each notified instance is one whose period has elapsed, and every such instance is notified (reader side) -/
theorem C30_notified_iff_expired (r : Reader) (p now : Int) (hp : r.period = some p) (k : Int) :
    k ∈ (checkReader r now).2 ↔ ∃ i ∈ r.insts, i.key = k ∧ now - i.stamp > p := by
  unfold checkReader
  simp only [hp, List.mem_map, List.mem_filter, expired, decide_eq_true_eq]
  constructor
  · rintro ⟨i, ⟨hi, he⟩, hk⟩
    exact ⟨i, hi, hk, he⟩
  · rintro ⟨i, hi, hk, he⟩
    exact ⟨i, ⟨hi, he⟩, hk⟩

/-- D35 (the pinned reader never re-arms): with a 10 ns period and the last sample at 0, checks at 11, 12 and 13 count three
    misses where one period has elapsed; the re-arming check counts one -/
theorem C30_reader_asis_counterexample :
    (ticksAsIs 10 { stamp := 0, count := 0 } [11, 12, 13]).count = 3 ∧
    (ticks 10 { stamp := 0, count := 0 } [11, 12, 13]).count = 1 ∧
    (checkReaderAsIs (checkReaderAsIs { period := some 10, insts := [{ key := 1, stamp := 0 }] } 11).1 12).1.total = 2 := by
  decide

/-! ### non-vacuity -/

/-- wake-ups 8 ns apart with a 10 ns period over 44 ns: four whole periods have elapsed, four misses are counted -/
example : Spaced 10 0 [8, 16, 24, 32, 40, 44] ∧
    (ticks 10 { stamp := 0, count := 0 } [8, 16, 24, 32, 40, 44]).count = 4 :=
  ⟨by simp [Spaced], by decide⟩

example : Fresh 10 0 [.check 9, .sample 9, .check 19, .sample 12, .check 22] ∧
    (runOps 10 { stamp := 0, count := 0 } [.check 9, .sample 9, .check 19, .sample 12, .check 22]).count = 0 :=
  ⟨by simp [Fresh], by decide⟩

/-- a reader with three instances of which two have expired: two notifications, count + 2, both re-armed -/
example :
    let r : Reader := { period := some 10, insts := [⟨1, 0⟩, ⟨2, 5⟩, ⟨3, 1⟩], total := 7 }
    (checkReader r 12).2 = [1, 3] ∧ (checkReader r 12).1.total = 9 ∧
    (checkReader r 12).1.insts = [⟨1, 10⟩, ⟨2, 5⟩, ⟨3, 11⟩] := by
  decide

end DustVerif.Deadline
