import DustVerif.Proofs.HistCollect
/-! Property C23: read/take_next_instance pick the least instance handle greater than the previous one
    that has matching samples. -/
namespace DustVerif.Hist

def After (prev : Option Nat) (h : Nat) : Prop := afterB prev h = true

theorem after_some (p h : Nat) : After (some p) h ↔ p < h := by simp [After, afterB]

/-- invariant of the fold: `best` is the least qualifying handle seen so far -/
theorem niFold_spec (prev : Option Nat) (l : List Inst) (best : Option Nat) (seen : List Nat)
    (hb : match best with
      | some b => b ∈ seen ∧ After prev b ∧ ∀ h ∈ seen, After prev h → b ≤ h
      | none => ∀ h ∈ seen, ¬ After prev h) :
    match l.foldl (niStep prev) best with
    | some b => b ∈ seen ++ l.map (·.h) ∧ After prev b ∧ ∀ h ∈ seen ++ l.map (·.h), After prev h → b ≤ h
    | none => ∀ h ∈ seen ++ l.map (·.h), ¬ After prev h := by
  induction l generalizing best seen with
  | nil => simpa using hb
  | cons i is ih =>
    simp only [List.foldl_cons, List.map_cons]
    have key := ih (niStep prev best i) (seen ++ [i.h]) ?_
    · simpa [List.append_assoc] using key
    · unfold niStep
      by_cases ha : After prev i.h
      · have ha' : afterB prev i.h = true := ha
        simp only [ha', if_true]
        cases best with
        | none =>
          simp only [] at hb ⊢
          refine ⟨by simp, ha, ?_⟩
          intro h hh hah
          rcases List.mem_append.mp hh with h1 | h1
          · exact absurd hah (hb h h1)
          · simp at h1; omega
        | some b =>
          simp only [] at hb ⊢
          obtain ⟨hb1, hb2, hb3⟩ := hb
          by_cases hlt : i.h < b
          · simp only [hlt, if_true]
            refine ⟨by simp, ha, ?_⟩
            intro h hh hah
            rcases List.mem_append.mp hh with h1 | h1
            · have := hb3 h h1 hah; omega
            · simp at h1; omega
          · simp only [hlt, if_false]
            refine ⟨by simp [hb1], hb2, ?_⟩
            intro h hh hah
            rcases List.mem_append.mp hh with h1 | h1
            · exact hb3 h h1 hah
            · simp at h1; omega
      · have ha' : afterB prev i.h = false := by simpa [After] using ha
        simp only [ha', Bool.false_eq_true, if_false]
        cases best with
        | none =>
          simp only [] at hb ⊢
          intro h hh
          rcases List.mem_append.mp hh with h1 | h1
          · exact hb h h1
          · simp at h1; subst h1; exact ha
        | some b =>
          simp only [] at hb ⊢
          obtain ⟨hb1, hb2, hb3⟩ := hb
          refine ⟨by simp [hb1], hb2, ?_⟩
          intro h hh hah
          rcases List.mem_append.mp hh with h1 | h1
          · exact hb3 h h1 hah
          · simp at h1; subst h1; exact absurd hah ha

/-- C23 (next handle): `next_instance` returns the least known handle greater than `prev`, and `none`
    exactly when there is none -/
theorem C23_next_is_least (insts : List Inst) (prev : Option Nat) :
    match nextInst insts prev with
    | some b => b ∈ insts.map (·.h) ∧ After prev b ∧ ∀ h ∈ insts.map (·.h), After prev h → b ≤ h
    | none => ∀ h ∈ insts.map (·.h), ¬ After prev h := by
  unfold nextInst
  have := niFold_spec prev insts none [] (by simp)
  simpa using this

/-- C23 (walk): whatever `read/take_next_instance` returns other than NoData is the result of reading/taking
    some instance `h` greater than `prev`, and every known instance strictly between `prev` and `h`
    has no matching samples (reading it gives NoData) — i.e. no instance with matching samples is skipped -/
theorem C23_loop_sound (s : St) (max : Int) (m : Masks) (take : Bool) (fuel : Nat) (prev : Option Nat)
    (r : St × Except Err (List Info)) (hr : nextInstanceLoop s max m take fuel prev = r)
    (hne : r.2 ≠ .error .noData) :
    ∃ h, After prev h ∧ h ∈ s.insts.map (·.h) ∧ r = readOrTake s max m (some h) take ∧
      ∀ h' ∈ s.insts.map (·.h), After prev h' → h' < h →
        (readOrTake s max m (some h') take).2 = .error .noData := by
  induction fuel generalizing prev with
  | zero => unfold nextInstanceLoop at hr; subst hr; exact absurd rfl hne
  | succ n ih =>
    unfold nextInstanceLoop at hr
    have hspec := C23_next_is_least s.insts prev
    split at hr
    · subst hr; exact absurd rfl hne
    · rename_i h hnext
      rw [hnext] at hspec
      simp only [] at hspec
      obtain ⟨hmem, hafter, hleast⟩ := hspec
      split at hr
      · rename_i hnd
        obtain ⟨h2, ha2, hm2, hr2, hskip⟩ := ih (some h) hr
        have hlt : h < h2 := (after_some h h2).mp ha2
        refine ⟨h2, ?_, hm2, hr2, ?_⟩
        · cases prev with
          | none => rfl
          | some p => have : p < h := (after_some p h).mp hafter; exact (after_some p h2).mpr (by omega)
        · intro h' hm' ha' hlt'
          by_cases hh : h' = h
          · subst hh; rw [hnd]
          · have := hleast h' hm' ha'
            exact hskip h' hm' ((after_some h h').mpr (by omega)) hlt'
      · subst hr
        refine ⟨h, hafter, hmem, rfl, ?_⟩
        intro h' hm' ha' hlt'
        have := hleast h' hm' ha'
        omega

example :
    let q : Qos := { depth := none, maxSamples := none, maxInst := none, maxSpi := none, bySource := false,
                     exclusive := false, minSep := some 0 }
    let s1 := (addChange (St.init q true) 1 "a" .alive 5 (some 10) 100).1
    let s2 := (addChange s1 1 "b" .alive 6 (some 20) 110).1
    let s3 := (addChange s2 1 "c" .alive 7 (some 30) 120).1
    let s4 := (readOrTake s3 (-1) { ss := 3, vs := 3, is := 7 } (some 6) false).1
    (match (readTakeNextInstance s4 (-1) (some 5) { ss := 2, vs := 3, is := 7 } false).2 with
      | .ok l => l.map (·.data) | .error _ => []) = ["c"] := by decide

end DustVerif.Hist
