import DustVerif.Proofs.HistCollect
/-! Property C23: read/take_next_instance pick the least instance handle greater than the previous one
    that has matching samples. -/
namespace DustVerif.Hist

def After (prev : Option Nat) (h : Nat) : Prop := afterB prev h = true

theorem after_some (p h : Nat) : After (some p) h ↔ p < h := by simp [After, afterB]

/-- invariant of the fold: `best` is the least qualifying handle seen so far -/
theorem niFold_spec (prev : Option Nat) (l : List Inst) (best : Option Nat) (seen : List Nat)
    (hb : match best with
      | some b => b ∈ seen ∧ After prev b ∧ ∀ h ∈ seen, After prev h → b ≤ h
      | none => ∀ h ∈ seen, ¬ After prev h) :
    match l.foldl (niStep prev) best with
    | some b => b ∈ seen ++ l.map (·.h) ∧ After prev b ∧ ∀ h ∈ seen ++ l.map (·.h), After prev h → b ≤ h
    | none => ∀ h ∈ seen ++ l.map (·.h), ¬ After prev h := by
  induction l generalizing best seen with
  | nil => simpa using hb
  | cons i is ih =>
    simp only [List.foldl_cons, List.map_cons]
    have key := ih (niStep prev best i) (seen ++ [i.h]) ?_
    · simpa [List.append_assoc] using key
    · unfold niStep
      by_cases ha : After prev i.h
      · have ha' : afterB prev i.h = true := ha
        simp only [ha', if_true]
        cases best with
        | none =>
          simp only [] at hb ⊢
          refine ⟨by simp, ha, ?_⟩
          intro h hh hah
          rcases List.mem_append.mp hh with h1 | h1
          · exact absurd hah (hb h h1)
          · simp at h1; omega
        | some b =>
          simp only [] at hb ⊢
          obtain ⟨hb1, hb2, hb3⟩ := hb
          by_cases hlt : i.h < b
          · simp only [hlt, if_true]
            refine ⟨by simp, ha, ?_⟩
            intro h hh hah
            rcases List.mem_append.mp hh with h1 | h1
            · have := hb3 h h1 hah; omega
            · simp at h1; omega
          · simp only [hlt, if_false]
            refine ⟨by simp [hb1], hb2, ?_⟩
            intro h hh hah
            rcases List.mem_append.mp hh with h1 | h1
            · exact hb3 h h1 hah
            · simp at h1; omega
      · have ha' : afterB prev i.h = false := by simpa [After] using ha
        simp only [ha', Bool.false_eq_true, if_false]
        cases best with
        | none =>
          simp only [] at hb ⊢
          intro h hh
          rcases List.mem_append.mp hh with h1 | h1
          · exact hb h h1
          · simp at h1; subst h1; exact ha
        | some b =>
          simp only [] at hb ⊢
          obtain ⟨hb1, hb2, hb3⟩ := hb
          refine ⟨by simp [hb1], hb2, ?_⟩
          intro h hh hah
          rcases List.mem_append.mp hh with h1 | h1
          · exact hb3 h h1 hah
          · simp at h1; subst h1; exact absurd hah ha

/-- C23 (next handle): `next_instance` returns the least known handle greater than `prev`, and `none`
    exactly when there is none -/
theorem C23_next_is_least (insts : List Inst) (prev : Option Nat) :
    match nextInst insts prev with
    | some b => b ∈ insts.map (·.h) ∧ After prev b ∧ ∀ h ∈ insts.map (·.h), After prev h → b ≤ h
    | none => ∀ h ∈ insts.map (·.h), ¬ After prev h := by
  unfold nextInst
  have := niFold_spec prev insts none [] (by simp)
  simpa using this

/-- C23 (walk): whatever `read/take_next_instance` returns other than NoData is the result of reading/taking
    some instance `h` greater than `prev`, and every known instance strictly between `prev` and `h`
    has no matching samples (reading it gives NoData) — i.e. no instance with matching samples is skipped -/
theorem C23_loop_sound (s : St) (max : Int) (m : Masks) (take : Bool) (fuel : Nat) (prev : Option Nat)
    (r : St × Except Err (List Info)) (hr : nextInstanceLoop s max m take fuel prev = r)
    (hne : r.2 ≠ .error .noData) :
    ∃ h, After prev h ∧ h ∈ s.insts.map (·.h) ∧ r = readOrTake s max m (some h) take ∧
      ∀ h' ∈ s.insts.map (·.h), After prev h' → h' < h →
        (readOrTake s max m (some h') take).2 = .error .noData := by
  induction fuel generalizing prev with
  | zero => unfold nextInstanceLoop at hr; subst hr; exact absurd rfl hne
  | succ n ih =>
    unfold nextInstanceLoop at hr
    have hspec := C23_next_is_least s.insts prev
    split at hr
    · subst hr; exact absurd rfl hne
    · rename_i h hnext
      rw [hnext] at hspec
      simp only [] at hspec
      obtain ⟨hmem, hafter, hleast⟩ := hspec
      split at hr
      · rename_i hnd
        obtain ⟨h2, ha2, hm2, hr2, hskip⟩ := ih (some h) hr
        have hlt : h < h2 := (after_some h h2).mp ha2
        refine ⟨h2, ?_, hm2, hr2, ?_⟩
        · cases prev with
          | none => rfl
          | some p => have : p < h := (after_some p h).mp hafter; exact (after_some p h2).mpr (by omega)
        · intro h' hm' ha' hlt'
          by_cases hh : h' = h
          · subst hh; rw [hnd]
          · have := hleast h' hm' ha'
            exact hskip h' hm' ((after_some h h').mpr (by omega)) hlt'
      · subst hr
        refine ⟨h, hafter, hmem, rfl, ?_⟩
        intro h' hm' ha' hlt'
        have := hleast h' hm' ha'
        omega

/-- number of known instances whose handle is after `prev` (the loop's termination measure) -/
def cntAfter (prev : Option Nat) : List Inst → Nat
  | [] => 0
  | i :: is => (if afterB prev i.h then 1 else 0) + cntAfter prev is

theorem cntAfter_le_length (prev : Option Nat) (l : List Inst) : cntAfter prev l ≤ l.length := by
  induction l with
  | nil => simp [cntAfter]
  | cons i is ih => simp only [cntAfter, List.length_cons]; split <;> omega

theorem cntAfter_mono (prev : Option Nat) (h : Nat) (hp : After prev h) (l : List Inst) :
    cntAfter (some h) l ≤ cntAfter prev l := by
  induction l with
  | nil => simp [cntAfter]
  | cons i is ih =>
    simp only [cntAfter]
    by_cases ha : afterB (some h) i.h = true
    · have : afterB prev i.h = true := by
        cases prev with
        | none => rfl
        | some p =>
          have h1 : p < h := (after_some p h).mp hp
          have h2 : h < i.h := (after_some h i.h).mp ha
          exact (after_some p i.h).mpr (by omega)
      simp [ha, this]; omega
    · have ha' : afterB (some h) i.h = false := by simpa using ha
      simp only [ha', Bool.false_eq_true, if_false]
      split <;> omega

theorem cntAfter_lt (prev : Option Nat) (h : Nat) (hp : After prev h) (l : List Inst) (hm : h ∈ l.map (·.h)) :
    cntAfter (some h) l < cntAfter prev l := by
  induction l with
  | nil => simp at hm
  | cons i is ih =>
    simp only [cntAfter]
    have hmono := cntAfter_mono prev h hp is
    rw [List.map_cons] at hm
    rcases List.mem_cons.mp hm with h1 | h1
    · have hself : afterB (some h) i.h = false := by
        rw [← h1]; simp [afterB]
      have hprev : afterB prev i.h = true := by rw [← h1]; exact hp
      simp [hself, hprev]; omega
    · have := ih h1
      by_cases ha : afterB (some h) i.h = true
      · have : afterB prev i.h = true := by
          cases prev with
          | none => rfl
          | some p =>
            have h1 : p < h := (after_some p h).mp hp
            have h2 : h < i.h := (after_some h i.h).mp ha
            exact (after_some p i.h).mpr (by omega)
        simp [ha, this]; omega
      · have ha' : afterB (some h) i.h = false := by simpa using ha
        simp only [ha', Bool.false_eq_true, if_false]
        split <;> omega

/-- C23 (completeness): NoData is returned only if NO known instance after `prev` has matching samples —
    given enough fuel, which `read/take_next_instance` always provides (`C23_nodata_only_if_none`) -/
theorem C23_loop_complete (s : St) (max : Int) (m : Masks) (take : Bool) (fuel : Nat) (prev : Option Nat)
    (hfuel : cntAfter prev s.insts < fuel)
    (hnd : (nextInstanceLoop s max m take fuel prev).2 = .error .noData) :
    ∀ h ∈ s.insts.map (·.h), After prev h → (readOrTake s max m (some h) take).2 = .error .noData := by
  induction fuel generalizing prev with
  | zero => omega
  | succ n ih =>
    unfold nextInstanceLoop at hnd
    have hspec := C23_next_is_least s.insts prev
    split at hnd
    · rename_i hnone
      rw [hnone] at hspec
      intro h hm ha
      exact absurd ha (hspec h hm)
    · rename_i h0 hnext
      rw [hnext] at hspec
      simp only [] at hspec
      obtain ⟨hmem, hafter, hleast⟩ := hspec
      split at hnd
      · rename_i hnd0
        have hlt := cntAfter_lt prev h0 hafter s.insts hmem
        have hrest := ih (some h0) (by omega) hnd
        intro h hm ha
        by_cases hh : h = h0
        · subst hh; rw [hnd0]
        · have := hleast h hm ha
          exact hrest h hm ((after_some h0 h).mpr (by omega))
      · rename_i r hne
        exfalso
        cases hr : readOrTake s max m (some h0) take with
        | mk s' e =>
          rw [hr] at hnd
          simp only [] at hnd
          exact hne s' (by rw [hr, hnd])

/-- C23: `read_next_instance` / `take_next_instance` on an enabled reader return NoData only when no instance with
    a handle greater than `prev` has samples matching the masks -/
theorem C23_nodata_only_if_none (s : St) (max : Int) (prev : Option Nat) (m : Masks) (take : Bool)
    (hen : s.enabled = true)
    (hnd : (readTakeNextInstance s max prev m take).2 = .error .noData) :
    ∀ h ∈ s.insts.map (·.h), After prev h → (readOrTake s max m (some h) take).2 = .error .noData := by
  unfold readTakeNextInstance at hnd
  simp only [hen, Bool.not_true, Bool.false_eq_true, if_false] at hnd
  exact C23_loop_complete s max m take (s.insts.length + 1) prev
    (by have := cntAfter_le_length prev s.insts; omega) hnd

example :
    let q : Qos := { depth := none, maxSamples := none, maxInst := none, maxSpi := none, bySource := false,
                     exclusive := false, minSep := some 0 }
    let s1 := (addChange (St.init q true) 1 "a" .alive 5 (some 10) 100).1
    let s2 := (addChange s1 1 "b" .alive 6 (some 20) 110).1
    let s3 := (addChange s2 1 "c" .alive 7 (some 30) 120).1
    let s4 := (readOrTake s3 (-1) { ss := 3, vs := 3, is := 7 } (some 6) false).1
    (match (readTakeNextInstance s4 (-1) (some 5) { ss := 2, vs := 3, is := 7 } false).2 with
      | .ok l => l.map (·.data) | .error _ => []) = ["c"] := by decide

end DustVerif.Hist
