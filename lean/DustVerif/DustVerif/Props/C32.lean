import DustVerif.Proofs.CondLemmas
/-! Property C32: a status condition's trigger value is true exactly when an enabled status changed since it was last
    read, and `WaitSet::wait` is woken whenever an attached condition becomes true — including through
    `set_enabled_statuses` — and returns every triggered attached condition, for every interleaving.

    `fx = true` is the code with `fixes/D37.patch` (the delivered model), `fx = false` the code as it was. The theorems
    about wake-ups are for `fx = true`; `C32_set_enabled_lost_wakeup_counterexample` is the as-is witness of D37 (replayed
    on the real code by the cond harness before the patch). `C32_trigger_iff` and the collection theorems hold for both. -/
namespace DustVerif.Cond

/-! ## trigger value ⇔ an enabled status changed since it was last read -/

/-- specification, from the history only: has status `k` of condition `c` changed since it was last read?
    (`add` = the middleware raises the status, `remove` = the application reads it) -/
def changedAfter (c : Nat) (k : Kind) (b : Bool) : List Op → Bool
  | [] => b
  | op :: ops => changedAfter c k (match op with
      | .add c' k' => if c' = c ∧ k' = k then true else b
      | .remove c' k' => if c' = c ∧ k' = k then false else b
      | _ => b) ops

/-- specification: the mask of the last `set_enabled_statuses` on condition `c` -/
def maskAfter (c : Nat) (m : Nat) : List Op → Nat
  | [] => m
  | op :: ops => maskAfter c (enabledStep c m op) ops

theorem mem_changesStep (c : Nat) (k : Kind) (l : List Kind) (b : Bool) (op : Op) (h : k ∈ l ↔ b = true) :
    k ∈ changesStep c l op ↔ (match op with
      | .add c' k' => if c' = c ∧ k' = k then true else b
      | .remove c' k' => if c' = c ∧ k' = k then false else b
      | _ => b) = true := by
  cases op with
  | add c' k' =>
    simp only [changesStep]
    by_cases hc : c' = c
    · by_cases hk : k' = k
      · simp [hc, hk]
      · have hk' : ¬ k = k' := fun e => hk e.symm
        simp [hc, hk, hk', h]
    · simp [hc, h]
  | remove c' k' =>
    simp only [changesStep]
    by_cases hc : c' = c
    · by_cases hk : k' = k
      · simp [hc, hk, mem_removeAll]
      · have hk' : ¬ k = k' := fun e => hk e.symm
        simp [hc, hk, hk', mem_removeAll, h]
    · simp [hc, h]
  | enable c' m => simpa [changesStep] using h
  | start w cs => simpa [changesStep] using h
  | wstep w => simpa [changesStep] using h

theorem run_fields (fx : Bool) (ops : List Op) (s : Sys) (c : Nat) (k : Kind) (b : Bool)
    (h : k ∈ (s.conds c).changes ↔ b = true) :
    (k ∈ ((s.run fx ops).conds c).changes ↔ changedAfter c k b ops = true) ∧
    ((s.run fx ops).conds c).enabled = maskAfter c (s.conds c).enabled ops := by
  induction ops generalizing s b with
  | nil => exact ⟨h, rfl⟩
  | cons op ops ih =>
    obtain ⟨f1, f2⟩ := step_fields fx s op c
    simp only [Sys.run, changedAfter, maskAfter]
    have := ih (s.step fx op).1 _ (by rw [f1]; exact mem_changesStep c k _ b op h)
    rw [f2] at this
    exact this

/-- C32, trigger value: after ANY step list (status changes, reads, mask changes, concurrent waits; as-is and fixed
    code alike) `get_trigger_value` of condition `c` is true exactly when some status that is enabled by the latest mask
    has changed since it was last read. -/
theorem C32_trigger_iff (fx : Bool) (ops : List Op) (c : Nat) :
    ((Sys.init.run fx ops).conds c).trigger = true ↔
      ∃ k, (maskAfter c DEFAULT_MASK ops).testBit k = true ∧ changedAfter c k false ops = true := by
  unfold Cond.trigger
  rw [anyEnabled_iff]
  constructor
  · rintro ⟨k, hk, hb⟩
    obtain ⟨g1, g2⟩ := run_fields fx ops Sys.init c k false (by simp [Sys.init, Cond.init])
    exact ⟨k, by rw [← show _ = maskAfter c DEFAULT_MASK ops from g2]; exact hb, g1.mp hk⟩
  · rintro ⟨k, hb, hk⟩
    obtain ⟨g1, g2⟩ := run_fields fx ops Sys.init c k false (by simp [Sys.init, Cond.init])
    exact ⟨k, g1.mpr hk, by rw [show _ = maskAfter c DEFAULT_MASK ops from g2]; exact hb⟩

example : changedAfter 0 8 false [.add 0 8, .remove 0 8, .add 0 8] = true := by decide
example : changedAfter 0 8 false [.add 0 8, .remove 0 8] = false := by decide
example : ((Sys.init.run true [.enable 0 0, .add 0 8]).conds 0).trigger = false := by decide
example : ((Sys.init.run true [.enable 0 0, .add 0 8, .enable 0 256]).conds 0).trigger = true := by decide

/-! ## no lost wake-up (code with fixes/D37.patch) -/

theorem no_lost_wakeup_of_inv (s : Sys) (h : Inv s) (w c : Nat)
    (hp : (s.waiters w).phase = .await) (hn : (s.waiters w).notified = false) (hc : c ∈ (s.waiters w).conds) :
    (s.conds c).trigger = false ∧ w ∈ (s.conds c).waiters ∧ (s.waiters w).wakerSet = true := by
  obtain ⟨j, hj, hnth⟩ := mem_nth _ _ hc
  have hreg := h.still_registered w hn j (by simp only [regCount, hp]; exact hj)
  rw [hnth] at hreg
  exact ⟨h.reg_untriggered c w hreg, hreg, h.waker_set w hp hn⟩

/-- C32, no lost wake-up: after ANY step list of the fixed code, a `wait` call that is blocked on its notification and
    has not been notified is still registered (with its waker in the channel) with every attached condition, and none
    of them is triggered. So a blocked call never coexists with a true attached trigger. -/
theorem C32_no_lost_wakeup (ops : List Op) (w c : Nat) :
    let s := Sys.init.run true ops
    (s.waiters w).phase = .await → (s.waiters w).notified = false → c ∈ (s.waiters w).conds →
      (s.conds c).trigger = false ∧ w ∈ (s.conds c).waiters ∧ (s.waiters w).wakerSet = true := by
  intro s hp hn hc
  exact no_lost_wakeup_of_inv s (Inv.run _ Inv.init ops) w c hp hn hc

theorem notified_at_trigger_step_of_inv (s : Sys) (h : Inv s) (op : Op) (w c : Nat)
    (hp : (s.waiters w).phase = .await) (hn : (s.waiters w).notified = false) (hc : c ∈ (s.waiters w).conds)
    (ht : ((s.step true op).1.conds c).trigger = true) :
      ((s.step true op).1.waiters w).notified = true ∧ w ∈ (s.step true op).2.woke ∧
      ((∃ k, op = .add c k) ∨ (∃ m, op = .enable c m)) := by
  obtain ⟨ht0, hreg, hwk⟩ := no_lost_wakeup_of_inv s h w c hp hn hc
  have hop := step_trigger_rise true s op c ht0 ht
  have hne : (s.conds c).waiters ≠ [] := by intro e; rw [e] at hreg; cases hreg
  -- in both cases the old waiters of `c` are exactly the notified ones
  have key : ∀ ids, ids = (s.conds c).waiters →
      ((notifyAll s.waiters ids).1 w).notified = true ∧ w ∈ (notifyAll s.waiters ids).2 := by
    intro ids hids
    have hm : w ∈ ids := by rw [hids]; exact hreg
    exact ⟨by rw [notifyAll_mem _ _ _ hm], notifyAll_wakes _ _ _ hm hwk⟩
  rcases hop with ⟨k, rfl⟩ | ⟨m, rfl⟩
  · obtain ⟨e1, e2⟩ := step_add_waiters true s c k
    have hids : ((s.conds c).add k).2 = (s.conds c).waiters := by
      rcases Cond.add_cases (s.conds c) k with ⟨_, a⟩ | ⟨_, _, a⟩
      · exact a
      · exfalso
        have hf := a hne
        have : ((s.step true (.add c k)).1.conds c).trigger = ((s.conds c).add k).1.trigger := by
          simp [Sys.step]
        rw [this, hf] at ht; cases ht
    rw [e1, e2]
    exact ⟨(key _ hids).1, (key _ hids).2, Or.inl ⟨k, rfl⟩⟩
  · obtain ⟨e1, e2⟩ := step_enable_waiters true s c m
    have hids : ((s.conds c).setEnabled true m).2 = (s.conds c).waiters := by
      simp only [Cond.setEnabled, if_true]
      rcases Cond.setEnabledFixed_cases (s.conds c) m with ⟨_, a⟩ | ⟨_, _, a⟩
      · exact a
      · exfalso
        have hf := a hne
        have : ((s.step true (.enable c m)).1.conds c).trigger = ((s.conds c).setEnabledFixed m).1.trigger := by
          simp [Sys.step, Cond.setEnabled]
        rw [this, hf] at ht; cases ht
    rw [e1, e2]
    exact ⟨(key _ hids).1, (key _ hids).2, Or.inr ⟨m, rfl⟩⟩

/-- C32, the step that makes an attached trigger true notifies: in any reachable state of the fixed code, if call `w`
    is blocked un-notified and a step makes the trigger of an attached condition `c` true, that very step sets the
    notification of `w` and calls `wake()` on its waker. The step is `add_communication_state` or
    `set_enabled_statuses` on `c` (nothing else can raise a trigger). -/
theorem C32_notified_at_trigger_step (ops : List Op) (op : Op) (w c : Nat) :
    let s := Sys.init.run true ops
    (s.waiters w).phase = .await → (s.waiters w).notified = false → c ∈ (s.waiters w).conds →
    ((s.step true op).1.conds c).trigger = true →
      ((s.step true op).1.waiters w).notified = true ∧ w ∈ (s.step true op).2.woke ∧
      ((∃ k, op = .add c k) ∨ (∃ m, op = .enable c m)) := by
  intro s hp hn hc ht
  exact notified_at_trigger_step_of_inv s (Inv.run _ Inv.init ops) op w c hp hn hc ht

/-- D37 witness, code as it was (`fx = false`): all statuses disabled, DataAvailable (bit 8) changes, a `wait` on the
    condition blocks, then `set_enabled_statuses([DataAvailable])`: the trigger value is true, yet the call is still
    blocked and un-notified — it sleeps until its timeout. -/
theorem C32_set_enabled_lost_wakeup_counterexample :
    let s := Sys.init.run false [.enable 0 0, .add 0 8, .start 0 [0], .wstep 0, .wstep 0, .enable 0 256]
    (s.waiters 0).phase = .await ∧ (s.waiters 0).notified = false ∧ (s.conds 0).trigger = true := by decide

-- the same steps on the fixed code notify the call, which then returns the condition
example :
    let s := Sys.init.run true [.enable 0 0, .add 0 8, .start 0 [0], .wstep 0, .wstep 0, .enable 0 256]
    (s.waiters 0).phase = .await ∧ (s.waiters 0).notified = true := by decide
example :
    ((Sys.init.run true [.enable 0 0, .add 0 8, .start 0 [0], .wstep 0, .wstep 0, .enable 0 256, .wstep 0, .wstep 0]).waiters 0).phase
      = .done [0] := by decide
-- non-vacuity of C32_no_lost_wakeup: a blocked, un-notified call with two attached conditions is reachable
example :
    let s := Sys.init.run true [.start 3 [0, 1], .wstep 3, .wstep 3, .wstep 3, .wstep 3]
    (s.waiters 3).phase = .await ∧ (s.waiters 3).notified = false ∧ (s.waiters 3).conds = [0, 1] := by decide
example :
    ((Sys.init.run true [.start 3 [0, 1], .wstep 3, .wstep 3, .wstep 3, .wstep 3]).step true (.add 1 8)).2.woke = [3] := by
  decide

/-! ## wait returns every triggered attached condition -/

def isTrig (s : Sys) (c : Nat) : Bool := (s.conds c).trigger

/-- the wait steps of the two loops do not touch the conditions -/
theorem collect_step (fx : Bool) (s : Sys) (w i : Nat) (acc : List Nat) (hp : (s.waiters w).phase = .collect i acc) :
    (s.step fx (.wstep w)).1.conds = s.conds ∧
    (s.step fx (.wstep w)).1.waiters w = afterCollect (s.waiters w) i
      (if isTrig s (nth (s.waiters w).conds i) then acc ++ [nth (s.waiters w).conds i] else acc) := by
  constructor
  · simp [Sys.step, hp]
  · simp only [Sys.step, hp, upd_same]; rfl

theorem check_step (fx : Bool) (s : Sys) (w i : Nat) (acc : List Nat) (hp : (s.waiters w).phase = .check i acc) :
    (s.step fx (.wstep w)).1.conds = s.conds ∧
    (s.step fx (.wstep w)).1.waiters w = afterCheck (s.waiters w) i
      (if isTrig s (nth (s.waiters w).conds i) then acc ++ [nth (s.waiters w).conds i] else acc) := by
  constructor
  · simp [Sys.step, hp]
  · simp only [Sys.step, hp, upd_same]; rfl

theorem isTrig_congr (s s' : Sys) (h : s'.conds = s.conds) : isTrig s' = isTrig s := by
  funext c; simp [isTrig, h]

/-- the second loop, run without interference from position `i` with accumulator `acc`, ends in
    `done (acc ++ the triggered ones among the remaining attached conditions)` -/
theorem collect_run (fx : Bool) (n : Nat) : ∀ (s : Sys) (w i : Nat) (acc : List Nat),
    (s.waiters w).phase = .collect i acc → i + n + 1 = (s.waiters w).conds.length →
    ((s.run fx (List.replicate (n + 1) (.wstep w))).waiters w).phase =
      .done (acc ++ ((s.waiters w).conds.drop i).filter (isTrig s)) := by
  induction n with
  | zero =>
    intro s w i acc hp hlen
    obtain ⟨_, e2⟩ := collect_step fx s w i acc hp
    simp only [List.replicate, Sys.run]
    rw [e2]
    have hi : i < (s.waiters w).conds.length := by omega
    rw [drop_nth _ _ hi]
    have hd : (s.waiters w).conds.drop (i + 1) = [] := List.drop_eq_nil_of_le (by omega)
    have hlast : ¬ (i + 1 < (s.waiters w).conds.length) := by omega
    simp only [afterCollect, hlast, if_false, hd, List.filter_cons, List.filter_nil]
    by_cases ht : isTrig s (nth (s.waiters w).conds i) = true <;> simp [ht]
  | succ n ih =>
    intro s w i acc hp hlen
    obtain ⟨e1, e2⟩ := collect_step fx s w i acc hp
    have hi : i < (s.waiters w).conds.length := by omega
    have hnext : i + 1 < (s.waiters w).conds.length := by omega
    rw [List.replicate_succ, Sys.run]
    have hp' : ((s.step fx (.wstep w)).1.waiters w).phase = .collect (i + 1)
        (if isTrig s (nth (s.waiters w).conds i) then acc ++ [nth (s.waiters w).conds i] else acc) := by
      rw [e2]; simp [afterCollect, hnext]
    have hc' : ((s.step fx (.wstep w)).1.waiters w).conds = (s.waiters w).conds := by
      rw [e2]; simp [afterCollect, hnext]
    rw [ih _ w (i + 1) _ hp' (by rw [hc']; omega), hc', isTrig_congr _ _ e1, drop_nth _ _ hi]
    simp only [List.filter_cons]
    by_cases ht : isTrig s (nth (s.waiters w).conds i) = true <;> simp [ht]

/-- C32, returns all triggered (after a notification): when a blocked call has been notified and then runs its
    collection without interference (1 poll + one query per attached condition), it returns exactly the attached
    conditions whose trigger value is true, in attachment order. (With interference each condition is reported with its
    trigger value at the moment it is queried — `collect_step`.) -/
theorem C32_returns_all_triggered (fx : Bool) (s : Sys) (w : Nat)
    (hp : (s.waiters w).phase = .await) (hn : (s.waiters w).notified = true) (hl : 0 < (s.waiters w).conds.length) :
    ((s.run fx (List.replicate ((s.waiters w).conds.length + 1) (.wstep w))).waiters w).phase =
      .done ((s.waiters w).conds.filter (isTrig s)) := by
  rw [List.replicate_succ, Sys.run]
  have e : (s.step fx (.wstep w)).1 = { s with waiters := upd s.waiters w (awaitPoll (s.waiters w)) } := by
    simp [Sys.step, hp]
  have hx : (s.step fx (.wstep w)).1.waiters w =
      { s.waiters w with notified := false, phase := .collect 0 [] } := by
    rw [e]; simp [awaitPoll, hn]
  have hc : (s.step fx (.wstep w)).1.conds = s.conds := by rw [e]
  obtain ⟨n, hn1⟩ : ∃ n, (s.waiters w).conds.length = n + 1 := ⟨(s.waiters w).conds.length - 1, by omega⟩
  rw [hn1]
  have := collect_run fx n (s.step fx (.wstep w)).1 w 0 [] (by rw [hx]) (by rw [hx]; simp; omega)
  rw [this, hx, isTrig_congr _ _ hc]
  simp

/-- the first loop, run without interference -/
theorem check_run (fx : Bool) (n : Nat) : ∀ (s : Sys) (w i : Nat) (acc : List Nat),
    (s.waiters w).phase = .check i acc → i + n + 1 = (s.waiters w).conds.length →
    ((s.run fx (List.replicate (n + 1) (.wstep w))).waiters w).phase =
      (let res := acc ++ ((s.waiters w).conds.drop i).filter (isTrig s)
       if res.isEmpty then .register 0 else .done res) := by
  induction n with
  | zero =>
    intro s w i acc hp hlen
    obtain ⟨_, e2⟩ := check_step fx s w i acc hp
    simp only [List.replicate, Sys.run]
    rw [e2]
    have hi : i < (s.waiters w).conds.length := by omega
    rw [drop_nth _ _ hi]
    have hd : (s.waiters w).conds.drop (i + 1) = [] := List.drop_eq_nil_of_le (by omega)
    have hlast : ¬ (i + 1 < (s.waiters w).conds.length) := by omega
    simp only [afterCheck, hlast, if_false, hd, List.filter_cons, List.filter_nil]
    by_cases ht : isTrig s (nth (s.waiters w).conds i) = true
    · simp [ht]
    · simp only [ht, Bool.false_eq_true, if_false, List.append_nil]
      cases acc <;> simp
  | succ n ih =>
    intro s w i acc hp hlen
    obtain ⟨e1, e2⟩ := check_step fx s w i acc hp
    have hi : i < (s.waiters w).conds.length := by omega
    have hnext : i + 1 < (s.waiters w).conds.length := by omega
    rw [List.replicate_succ, Sys.run]
    have hp' : ((s.step fx (.wstep w)).1.waiters w).phase = .check (i + 1)
        (if isTrig s (nth (s.waiters w).conds i) then acc ++ [nth (s.waiters w).conds i] else acc) := by
      rw [e2]; simp [afterCheck, hnext]
    have hc' : ((s.step fx (.wstep w)).1.waiters w).conds = (s.waiters w).conds := by
      rw [e2]; simp [afterCheck, hnext]
    rw [ih _ w (i + 1) _ hp' (by rw [hc']; omega), hc', isTrig_congr _ _ e1, drop_nth _ _ hi]
    simp only [List.filter_cons]
    by_cases ht : isTrig s (nth (s.waiters w).conds i) = true <;> simp [ht]

/-- C32, returns at once when a condition is already true: a `wait` on attached conditions `cs` (non-empty) that runs
    its first loop without interference returns exactly the triggered ones if there is any, and otherwise goes on to
    register (never returns an empty list from the first loop). -/
theorem C32_returns_triggered_immediately (fx : Bool) (s : Sys) (w : Nat) (cs : List Nat)
    (hidle : (s.waiters w).phase = .idle) (hcs : cs ≠ []) :
    ((s.run fx (.start w cs :: List.replicate cs.length (.wstep w))).waiters w).phase =
      (if (cs.filter (isTrig s)).isEmpty then .register 0 else .done (cs.filter (isTrig s))) := by
  rw [Sys.run]
  have e : (s.step fx (.start w cs)).1 =
      { s with waiters := upd s.waiters w { Waiter.init with conds := cs, phase := .check 0 [] } } := by
    cases cs with
    | nil => exact absurd rfl hcs
    | cons a as => simp [Sys.step, hidle]
  have hx : (s.step fx (.start w cs)).1.waiters w = { Waiter.init with conds := cs, phase := .check 0 [] } := by
    rw [e]; simp
  have hc : (s.step fx (.start w cs)).1.conds = s.conds := by rw [e]
  obtain ⟨n, hn1⟩ : ∃ n, cs.length = n + 1 := by
    cases cs with
    | nil => exact absurd rfl hcs
    | cons a as => exact ⟨as.length, rfl⟩
  rw [hn1]
  have := check_run fx n (s.step fx (.start w cs)).1 w 0 [] (by rw [hx]) (by rw [hx]; simp; omega)
  rw [this, hx, isTrig_congr _ _ hc]
  simp

example : ((Sys.init.run true [.add 1 8, .start 0 [0, 1, 2], .wstep 0, .wstep 0, .wstep 0]).waiters 0).phase = .done [1] := by
  decide
example : ((Sys.init.run true [.start 0 []]).waiters 0).phase = .failed := by decide

end DustVerif.Cond
