import DustVerif.Proofs.XcdrMain
import DustVerif.Proofs.XcdrValEq
/-! Property C09: XCDR serialization round-trips every value of every supported type, for XCDR1 and XCDR2 in both
    byte orders, and the encapsulation padding is recorded.

`serTop cfg ver e t v` models `serialize_cdr{1,2}_{le,be}`, `deTop cfg t bytes` models
`deserialize_top_level_type`; `ser` / `de` are the nested forms with an explicit alignment position.
`cfg : Cfg` selects the repairs; `Cfg.asIs` is the unchanged tree, `Cfg.fixed` the tree with `fixes/*.patch`.
`wfVal cfg ver t v` (Model/XcdrWF.lean) is decidable and carries the real limits. -/
namespace DustVerif.Xcdr

theorem repId_toNat (ver : Ver) (e : Endian) (x : Ext) : (UInt8.ofNat (repId ver e x)).toNat = repId ver e x := by
  cases ver <;> cases e <;> cases x <;> decide

/-- the decoder selects the version and byte order the serializer used -/
theorem deTop_serTop (cfg : Cfg) (ver : Ver) (e : Endian) (t : Ty) (v : Val) :
    deTop cfg t (serTop cfg ver e t v) =
      deTopGo cfg t ver e ⟨(ser cfg ver e t v 0).1 ++ zeros (padCount (4 + (ser cfg ver e t v 0).1.length)), 0⟩ := by
  simp only [serTop, deTop, List.cons_append, List.nil_append, repId_toNat]
  cases ver <;> cases e <;> cases hx : t.ext <;> simp [repId]

/-- **C09 round trip, nested form** - for ALL types and values accepted by the decidable predicate `wfVal cfg ver`
    (Model/XcdrWF.lean), every configuration `cfg`, XCDR1 and XCDR2, both byte orders: decoding `ser v` followed by
    arbitrary bytes, at the alignment position it was written at, yields `v`, leaves exactly those bytes, and ends at
    the serializer's final position.

    `wfVal` admits: all primitives, strings (valid UTF-8), wide strings (UTF-16 code units without unpaired surrogates,
    characters outside the BMP included), enumerations of any declared extensibility (value among the literals), FINAL and APPENDABLE unions
    (discriminator of one of the six integer kinds the decoder accepts; several labels per branch; the default branch at any
    position; the branch the writer set is the one the discriminator selects, or no branch at all when the discriminator
    selects none; unions nested in unions, collections of unions), sequences and
    arrays of primitive / string / enum / structure elements, final, appendable and mutable structures nested
    arbitrarily, optional and must-understand members, absent optional members, member ids in any order.
    It excludes exactly (suffix `_partial`; each exclusion is an open finding with a kernel-checked witness below and
    an exemplar replayed on the real code by the corpus):
    * per configuration: XCDR1 optional members need D46 + D61, XCDR1 mutable structures D45 + D61, XCDR2 mutable
      structures D47 (all repaired in `Cfg.fixed`; the unchanged tree fails, witnesses `C09_xcdr1_mutable_u64_…`,
      `C09_xcdr1_optional_…`, `C09_xcdr2_nested_mutable_…`, `C09_xcdr1_origin_not_popped_…`);
    * member ids of a mutable structure equal modulo 2^16 (D15) (CHAR8 128..255 is inside since the repair of D63);
    * XCDR1 parameter headers: id (mod 2^16) >= 2^14 or u16 overflow with the must-understand flag (D68, D64),
      id 1 in a mutable structure (D67, `PID_SENTINEL`), a member value of 0 or more than 65535 bytes (D69, D68),
      a mutable structure without members;
    * XCDR2 mutable structures: an absent member (D65: the search is not bounded by the DHEADER; harmless at top
      level, where the run-time check passes, but not proved), a sequence of primitive elements wider than one byte
      (D62: LC = 5);
    * sequences whose elements can be empty on the wire (D70) or with more than `ALLOC_LIMIT / 48` elements, samples
      of 2^32 bytes or more. -/
theorem C09_roundtrip_nested_partial (cfg : Cfg) (ver : Ver) (e : Endian) (t : Ty) (v : Val)
    (hwf : wfVal cfg ver t v = true) (hsz : maxSize t v < 2 ^ 32) (pos : Nat) (rest : Bytes) :
    de cfg ver e t ⟨(ser cfg ver e t v pos).1 ++ rest, pos⟩ = .ok v ⟨rest, (ser cfg ver e t v pos).2⟩ :=
  rt cfg ver e t v hwf hsz pos rest

/-- **C09 round trip, top level** (same subset): `deserialize_top_level_type(serialize_cdr<ver>_<e>(v)) = Ok(v)`;
    what is left over is the encapsulation padding. -/
theorem C09_roundtrip_partial (cfg : Cfg) (ver : Ver) (e : Endian) (x : Ext) (ms : Ms) (v : Val)
    (hwf : wfVal cfg ver (.struct x ms) v = true) (hsz : maxSize (.struct x ms) v < 2 ^ 32) :
    deTop cfg (.struct x ms) (serTop cfg ver e (.struct x ms) v) =
      .ok v ⟨zeros (padCount (4 + (ser cfg ver e (.struct x ms) v 0).1.length)), (ser cfg ver e (.struct x ms) v 0).2⟩ := by
  rw [deTop_serTop]
  exact rt cfg ver e _ v hwf hsz 0 _

/-- wide strings are inside the theorem: `"a😀b"` (a surrogate pair), the empty string, a sequence of wide strings -/
def tyWDemo : Ty := .struct .appendable (.cons 0 false false .wstr (.cons 1 true false .wstr
  (.cons 2 false false (.seq .wstr) (.cons 3 false false (.enum .i16 [1, 2] .appendable) .nil))))
def valWDemo : Val := .struct [.list [.num 97, .num 0xD83D, .num 0xDE00, .num 98], .list [],
  .list [.list [.num 0x20AC], .list [], .list [.num 0xDBFF, .num 0xDFFF]], .num 2]
example : wfVal Cfg.fixed .v1 tyWDemo valWDemo = true ∧ wfVal Cfg.fixed .v2 tyWDemo valWDemo = true ∧
    wfVal Cfg.asIs .v2 tyWDemo valWDemo = true := by decide +kernel
/-- an unpaired surrogate is not a value of `String` (the harness cannot even build it); `wfVal` rejects it -/
example : wfVal Cfg.fixed .v1 (.struct .final (.cons 0 false false .wstr .nil)) (.struct [.list [.num 0xD83D]]) = false := by
  decide +kernel

/-- final unions are inside the theorem: the default branch declared FIRST and a discriminator that selects the explicit case
    declared after it (`<5,1:…>`), the default branch itself (`<9,2:…>`), a signed discriminator, a union in a sequence -/
def tyUDemo : Ty := .struct .final (.cons 0 false false
    (.union false .i32 (.cons 2 [] true (.prim .i16) (.cons 1 [5, 7] false (.prim .i64) .nil)))
  (.cons 1 false false (.prim .u32)
  (.cons 2 false false (.seq (.union false .i8 (.cons 1 [-1] false (.prim .u8) (.cons 3 [] true .wstr .nil)))) .nil)))
def valUDemo1 : Val := .struct [.struct [.num 5, .num 1, .num 0x010203040506], .num 0xdeadbeef,
  .list [.struct [.num 255, .num 1, .num 7], .struct [.num 4, .num 3, .list [.num 97]]]]
def valUDemo2 : Val := .struct [.struct [.num 9, .num 2, .num 65534], .num 0xdeadbeef, .list []]
example : wfVal Cfg.fixed .v1 tyUDemo valUDemo1 = true ∧ wfVal Cfg.fixed .v2 tyUDemo valUDemo1 = true ∧
    wfVal Cfg.fixed .v1 tyUDemo valUDemo2 = true ∧ wfVal Cfg.asIs .v2 tyUDemo valUDemo2 = true := by decide +kernel
/-- what `deserialize_funion_type` must not do: with the discriminator 5 the branch is the explicit case (member 1),
    not the default branch (member 2) that is declared before it -/
example : (tyUDemo, Bs.selIdx 5 (.cons 2 [] true (.prim .i16) (.cons 1 [5, 7] false (.prim .i64) .nil))).2 = some 1 := by
  decide

/-- **D80** (repaired by fixes/D80-xcdr.patch): a union without default branch whose discriminator selects no case is
    serialized as the discriminator alone; the decoder used to answer `InvalidData`, now it yields the value with no
    active member and the value is inside `wfVal`. Replay `rt 2 le SF{0:UFu8{1[5]:i64}} {<6>}`. -/
theorem C09_union_no_branch_roundtrip :
    wfVal Cfg.fixed .v2 (.struct .final (.cons 0 false false (.union false .u8 (.cons 1 [5] false (.prim .i64) .nil)) .nil))
      (.struct [.struct [.num 6]]) = true ∧
    (deTop Cfg.fixed (.struct .final (.cons 0 false false (.union false .u8 (.cons 1 [5] false (.prim .i64) .nil)) .nil))
      (serTop Cfg.fixed .v2 .le (.struct .final (.cons 0 false false (.union false .u8 (.cons 1 [5] false (.prim .i64) .nil)) .nil))
        (.struct [.struct [.num 6]]))).val? = some (.struct [.struct [.num 6]]) := by
  decide +kernel

/-- appendable unions (D77 / D78 repaired) are inside the theorem: as member under XCDR1 and XCDR2, in a sequence, nested -/
def tyUADemo : Ty := .struct .appendable (.cons 0 false false
    (.union true .i32 (.cons 1 [5] false (.prim .u8) (.cons 2 [] true (.prim .u16) .nil)))
  (.cons 1 false false (.prim .u32)
  (.cons 2 false false (.seq (.union true .u16 (.cons 1 [2] false .wstr (.cons 3 [] true (.prim .u8) .nil)))) .nil)))
def valUADemo : Val := .struct [.struct [.num 5, .num 1, .num 7], .num 9,
  .list [.struct [.num 2, .num 1, .list [.num 97]], .struct [.num 0, .num 3, .num 1]]]
example : wfVal Cfg.fixed .v1 tyUADemo valUADemo = true ∧ wfVal Cfg.fixed .v2 tyUADemo valUADemo = true := by decide +kernel
/-- regression witness for D77: under XCDR1 an appendable union is written WITHOUT a DHEADER (the old decoder read one),
    under XCDR2 with one: `SF{0:UAi32{1[5]:u8,2d:u16},1:u32} {<5,1:7>,9}` -/
theorem C09_appendable_union_bytes :
    serTop Cfg.fixed .v1 .le (.struct .final (.cons 0 false false
        (.union true .i32 (.cons 1 [5] false (.prim .u8) (.cons 2 [] true (.prim .u16) .nil))) (.cons 1 false false (.prim .u32) .nil)))
      (.struct [.struct [.num 5, .num 1, .num 7], .num 9]) = [0, 1, 0, 0, 5, 0, 0, 0, 7, 0, 0, 0, 9, 0, 0, 0] ∧
    serTop Cfg.fixed .v2 .le (.struct .final (.cons 0 false false
        (.union true .i32 (.cons 1 [5] false (.prim .u8) (.cons 2 [] true (.prim .u16) .nil))) (.cons 1 false false (.prim .u32) .nil)))
      (.struct [.struct [.num 5, .num 1, .num 7], .num 9]) =
        [0, 7, 0, 0, 5, 0, 0, 0, 5, 0, 0, 0, 7, 0, 0, 0, 9, 0, 0, 0] := by
  decide +kernel

theorem padCount_lt (n : Nat) : padCount n < 4 := by unfold padCount; omega
theorem padCount_mod (n : Nat) : (n + padCount n) % 4 = 0 := by unfold padCount; omega

/-- **C09 padding**: for EVERY type and value (no hypothesis) the serialized sample is
    `[0, representation id, 0, pad] ++ body ++ pad zero bytes` with `pad < 4` and a total length that is a
    multiple of 4: the options byte records exactly the number of padding bytes. -/
theorem C09_padding_recorded (cfg : Cfg) (ver : Ver) (e : Endian) (t : Ty) (v : Val) :
    ∃ pad, pad < 4 ∧ (serTop cfg ver e t v).length % 4 = 0 ∧
      (serTop cfg ver e t v)[3]? = some (UInt8.ofNat pad) ∧
      (serTop cfg ver e t v).length = 4 + (ser cfg ver e t v 0).1.length + pad ∧
      (serTop cfg ver e t v).drop (4 + (ser cfg ver e t v 0).1.length) = zeros pad ∧
      ((serTop cfg ver e t v).drop 4).take (ser cfg ver e t v 0).1.length = (ser cfg ver e t v 0).1 := by
  generalize hb : (ser cfg ver e t v 0).1 = body
  have hst : serTop cfg ver e t v =
      [0, UInt8.ofNat (repId ver e t.ext), 0, UInt8.ofNat (padCount (4 + body.length))] ++ body ++
        zeros (padCount (4 + body.length)) := by
    simp only [serTop, hb]
  refine ⟨padCount (4 + body.length), padCount_lt _, ?_, ?_, ?_, ?_, ?_⟩
  · have := padCount_mod (4 + body.length)
    simp only [hst, List.length_append, List.length_cons, List.length_nil, zeros_length]
    omega
  · simp [hst]
  · simp only [hst, List.length_append, List.length_cons, List.length_nil, zeros_length]
  · have h := List.drop_left' (l₁ := [0, UInt8.ofNat (repId ver e t.ext), 0,
        UInt8.ofNat (padCount (4 + body.length))] ++ body) (l₂ := zeros (padCount (4 + body.length)))
        (i := 4 + body.length) (by simp; omega)
    rw [hst]; exact h
  · simp [hst]

/-! ### non-vacuity -/
def tyDemo : Ty := .struct .appendable (.cons 0 false false (.prim .u8) (.cons 1 true false (.prim .u64)
  (.cons 2 false false (.seq (.struct .final (.cons 0 false false .str (.cons 1 false false (.arr (.prim .i16) 2) .nil))))
  (.cons 3 false false (.enum .i8 [-1, 3] .final) .nil))))
def valDemo : Val := .struct [.num 7, .num 0x1122334455667788,
  .list [.struct [.str [0x61, 0x62], .list [.num 1, .num 65535]]], .num 255]

example : wfVal Cfg.fixed .v1 tyDemo valDemo = true ∧ wfVal Cfg.fixed .v2 tyDemo valDemo = true ∧
    wfVal Cfg.asIs .v2 tyDemo valDemo = true ∧ maxSize tyDemo valDemo < 2 ^ 32 := by decide
example : (deTop Cfg.fixed tyDemo (serTop Cfg.fixed .v1 .be tyDemo valDemo)).val? = some valDemo := by
  have h := C09_roundtrip_partial Cfg.fixed .v1 .be .appendable _ valDemo (by decide : wfVal Cfg.fixed .v1 tyDemo valDemo = true)
    (by decide)
  unfold tyDemo
  rw [h]; rfl

/-- non-vacuity for mutable structures: nested, members out of id order, an absent member (XCDR1), must-understand -/
def tyMutDemo : Ty := .struct .mutable (.cons 7 false true (.prim .u64) (.cons 2 true false .str
  (.cons 3 false false (.struct .mutable (.cons 0 false false (.prim .u8) (.cons 5 false false (.seq (.prim .u8)) .nil)))
  (.cons 0 false false (.struct .appendable (.cons 0 false false (.prim .i16) .nil)) .nil))))
def valMutDemo1 : Val := .struct [.num 5, .absent, .struct [.num 1, .list [.num 1, .num 2]], .struct [.num 9]]
def valMutDemo2 : Val := .struct [.num 5, .str [0x61], .struct [.num 1, .list [.num 1, .num 2]], .struct [.num 9]]
example : wfVal Cfg.fixed .v1 tyMutDemo valMutDemo1 = true ∧ wfVal Cfg.fixed .v2 tyMutDemo valMutDemo2 = true ∧
    maxSize tyMutDemo valMutDemo1 < 2 ^ 32 ∧ maxSize tyMutDemo valMutDemo2 < 2 ^ 32 := by decide

/-! ### the unchanged tree: witnesses (each one is an exemplar of `known_findings.json`, replayed on the real code) -/
def tyD45 : Ty := .struct .mutable (.cons 0 false false (.prim .u64) .nil)
/-- D45 (as is): XCDR1 `#[mutable] struct { a: u64 }` = 0x1122334455667788 decodes as 4582421316: the serializer
    resets the alignment origin at the member value, the deserializer aligns absolutely. -/
theorem C09_xcdr1_mutable_u64_counterexample :
    (deTop Cfg.asIs tyD45 (serTop Cfg.asIs .v1 .le tyD45 (.struct [.num 0x1122334455667788]))).val?
      = some (.struct [.num 4582421316]) := by decide +kernel

def tyD46 : Ty := .struct .final (.cons 0 false false (.prim .u8) (.cons 1 true false (.prim .u64)
  (.cons 2 false false (.prim .u16) .nil)))
/-- D46 (as is): XCDR1 final `{a: u8, #[optional] o: u64, b: u16}` = (1, 5, 7) decodes as (1, 5, 1): the optional
    member is looked up with the mutable-member routine, which restores the position. -/
theorem C09_xcdr1_optional_counterexample :
    (deTop Cfg.asIs tyD46 (serTop Cfg.asIs .v1 .le tyD46 (.struct [.num 1, .num 5, .num 7]))).val?
      = some (.struct [.num 1, .num 5, .num 1]) := by decide +kernel

def tyD47 : Ty := .struct .final (.cons 0 false false (.prim .u8)
  (.cons 1 false false (.struct .mutable (.cons 0 false false (.prim .u8) (.cons 1 false false (.prim .u8) .nil)))
  (.cons 2 false false (.prim .u32) .nil)))
/-- D47 (as is): XCDR2 `{a: u8, m: <mutable {x, y}>, z: u32}` = (1, (2, 3), 9) decodes z = 0: the DHEADER of the nested
    mutable structure is ignored and the position stays at its first EMHEADER. -/
theorem C09_xcdr2_nested_mutable_counterexample :
    (deTop Cfg.asIs tyD47 (serTop Cfg.asIs .v2 .le tyD47 (.struct [.num 1, .struct [.num 2, .num 3], .num 9]))).val?
      = some (.struct [.num 1, .struct [.num 2, .num 3], .num 0]) := by decide +kernel

def tyD61 : Ty := .struct .final (.cons 0 false false (.prim .u64) (.cons 1 true false (.prim .u8)
  (.cons 2 false false (.prim .u64) .nil)))
def cfgNoD61 : Cfg := ⟨true, true, true, true, true, false, true⟩
/-- D61 (decoder repaired by D46, serializer as is): XCDR1 `{a: u64, #[optional] o: u8, b: u64}`: the serializer never
    pops the origin it pushed for the optional member, so `b` is aligned relative to the member value (7 padding
    bytes after `o`, `b` at offset 20) instead of absolutely (3 padding bytes, `b` at offset 16); the repaired decoder,
    which aligns absolutely, reads `b` from the wrong place. -/
theorem C09_xcdr1_origin_not_popped_counterexample :
    (serTop cfgNoD61 .v1 .le tyD61 (.struct [.num 1, .num 2, .num 3])).length
      ≠ (serTop Cfg.fixed .v1 .le tyD61 (.struct [.num 1, .num 2, .num 3])).length ∧
    (deTop cfgNoD61 tyD61 (serTop cfgNoD61 .v1 .le tyD61 (.struct [.num 1, .num 2, .num 3]))).val?
      ≠ some (.struct [.num 1, .num 2, .num 3]) ∧
    (deTop Cfg.fixed tyD61 (serTop Cfg.fixed .v1 .le tyD61 (.struct [.num 1, .num 2, .num 3]))).val?
      = some (.struct [.num 1, .num 2, .num 3]) := by decide +kernel

/-! ### open findings: witnesses on the repaired configuration (what `wfVal` excludes is really broken) -/
def tyD15 : Ty := .struct .mutable (.cons 5 false false (.prim .u32) (.cons 65541 false false (.prim .u32) .nil))
/-- D15: member ids 5 and 65541 agree modulo 2^16: (1, 2) decodes as (1, 1) in XCDR2 and XCDR1 -/
theorem C09_ids_mod_2_16_counterexample :
    (deTop Cfg.fixed tyD15 (serTop Cfg.fixed .v2 .le tyD15 (.struct [.num 1, .num 2]))).val? = some (.struct [.num 1, .num 1]) ∧
    (deTop Cfg.fixed tyD15 (serTop Cfg.fixed .v1 .le tyD15 (.struct [.num 1, .num 2]))).val? = some (.struct [.num 1, .num 1]) := by
  decide +kernel

def tyD62 : Ty := .struct .mutable (.cons 0 false false (.seq (.prim .u16)) (.cons 1 false false (.prim .u32) .nil))
/-- D62: XCDR2 `#[mutable] {a: sequence<u16>, b: u32}` = ([1,2,3], 7): `b` is not found behind the LC = 5 member -/
theorem C09_xcdr2_lc5_primitive_sequence_counterexample :
    (deTop Cfg.fixed tyD62 (serTop Cfg.fixed .v2 .le tyD62 (.struct [.list [.num 1, .num 2, .num 3], .num 7]))).val?
      = some (.struct [.list [.num 1, .num 2, .num 3], .absent]) := by decide +kernel

def tyD63 : Ty := .struct .final (.cons 0 false false (.prim .c8) .nil)
/-- D63 (repaired by fixes/D63-xcdr.patch): CHAR8 200 was written as the two UTF-8 bytes c3 88 (`c8BytesOld`) and read
    back as 195; the repaired serializer writes the one byte c8 and the value round-trips (it is inside `wfVal` now:
    `primOk .c8` admits 0..255). Regression witness. -/
theorem C09_char8_old_counterexample :
    c8BytesOld 200 = [0xc3, 0x88] ∧ c8Bytes 200 = [0xc8] ∧
    wfVal Cfg.fixed .v1 tyD63 (.struct [.num 200]) = true ∧
    (deTop Cfg.fixed tyD63 (serTop Cfg.fixed .v1 .le tyD63 (.struct [.num 200]))).val? = some (.struct [.num 200]) := by
  decide +kernel

def tyD65 : Ty := .struct .final
  (.cons 0 false false (.struct .mutable (.cons 0 false false (.prim .u8) (.cons 1 false false (.prim .u32) .nil)))
  (.cons 1 false false (.prim .u32) (.cons 2 false false (.prim .u32) .nil)))
/-- D65: XCDR2 nested mutable `{x: 1, y: absent}` followed by 0x20000001 and 77: the search for `y` runs past the end
    of the nested structure, takes 0x20000001 for the EMHEADER of member 1 and decodes `y = 77` -/
theorem C09_xcdr2_nested_mutable_absent_counterexample :
    (deTop Cfg.fixed tyD65 (serTop Cfg.fixed .v2 .le tyD65
      (.struct [.struct [.num 1, .absent], .num 536870913, .num 77]))).val?
      = some (.struct [.struct [.num 1, .num 77], .num 536870913, .num 77]) := by decide +kernel

def tyD67 : Ty := .struct .final
  (.cons 0 false false (.struct .mutable (.cons 0 false false (.prim .u8) (.cons 1 false false (.prim .u8) .nil)))
  (.cons 1 false false (.prim .u32) .nil))
/-- D67: XCDR1 nested mutable struct with a member id 1 (= PID_SENTINEL): the closing sentinel search stops at that
    member, and the `u32` that follows the struct is read from the member's bytes (7 decodes as 2) -/
theorem C09_xcdr1_member_id_1_counterexample :
    (deTop Cfg.fixed tyD67 (serTop Cfg.fixed .v1 .le tyD67 (.struct [.struct [.num 1, .num 2], .num 7]))).val?
      = some (.struct [.struct [.num 1, .num 2], .num 2]) := by decide +kernel

def tyD68 : Ty := .struct .mutable (.cons 16384 false false (.prim .u8) .nil)
def tyD69 : Ty := .struct .mutable (.cons 0 false false (.struct .final .nil) (.cons 2 false false (.prim .u8) .nil))
/-- D68: XCDR1 member id 2^14 is never found again; D69: an empty-struct member value has length 0 and decodes as absent -/
theorem C09_xcdr1_short_header_counterexample :
    (deTop Cfg.fixed tyD68 (serTop Cfg.fixed .v1 .le tyD68 (.struct [.num 5]))).val? = some (.struct [.absent]) ∧
    (deTop Cfg.fixed tyD69 (serTop Cfg.fixed .v1 .le tyD69 (.struct [.struct [], .num 5]))).val?
      = some (.struct [.absent, .num 5]) := by decide +kernel

def tyD72 : Ty := .struct .final (.cons 0 false false (.prim .u8) (.cons 1 false false (.struct .mutable .nil) .nil))
/-- D72: XCDR1 a mutable struct without members behind a `u8`: the serializer aligns the sentinel to 4, the deserializer
    reads it with the alignment of a `u16` (no member look-up has aligned the reader) -/
theorem C09_xcdr1_empty_mutable_counterexample :
    (deTop Cfg.fixed tyD72 (serTop Cfg.fixed .v1 .le tyD72 (.struct [.num 1, .struct []]))).val? = none := by
  decide +kernel

end DustVerif.Xcdr
