import DustVerif.Proofs.KeyLemmas
import DustVerif.Proofs.XcdrValEq
import DustVerif.Props.C11
/-! Property C12: the key hash is the big-endian XCDR serialization of the key members, zero-padded to 16 bytes when the
    key's MAXIMUM serialized size is at most 16 bytes, and its MD5 digest otherwise (DDS-XTypes 7.6.8, RTPS 9.6.3.8).

The code decides by the ACTUAL size of the serialized key (key_and_instance_handle.rs:116, D16).  `keyMaxSize t` is the
maximum serialized size of the key of `t` when it is finite in the modelled universe (strings and sequences carry no
bound there, so they are unbounded) — and then every key of the type has exactly that size. -/
namespace DustVerif.Xcdr

theorem entriesMs_eq (kvs : List (KEntry × Val)) : entriesMs kvs = entriesMsT (kvs.map Prod.fst) := by
  induction kvs with
  | nil => rfl
  | cons x xs ih => cases x; simp [entriesMs, entriesMsT, ih]

/-- **C12 for key types of fixed size** (every key type built from primitives, enumerations, arrays and final /
    appendable structures of those — no strings, sequences, optional members or mutable structures in the key): the
    handle is the big-endian XCDR1 serialization of the key members (`keyBytes`, which by C10 is the specification's
    encoding), `keyMaxSize` bytes long, zero-padded to 16 bytes if `keyMaxSize ≤ 16` and its MD5 digest otherwise.
    `_partial`: for key types of unbounded size the rule is violated (D16, witness below). -/
theorem C12_rule_partial (cfg : Cfg) (x : Ext) (ms : KMs) (fs : List Val) (n : Nat)
    (hw : wfKey cfg (.struct x ms) (.struct fs) = true) (hn : keyMaxSize (.struct x ms) = some n) :
    ∃ b, keyBytes cfg (.struct x ms) (.struct fs) = .ok b ∧ b.length = n ∧
      handle cfg (.struct x ms) (.struct fs) = .ok (if n ≤ 16 then pad16 b else md5 b) := by
  obtain ⟨kvs, hf, _, hk, hwf, _⟩ := wfKey_struct cfg x ms fs hw
  have hfix : fixedSizeMs (entriesMs kvs) 0 = some n := by
    rw [entriesMs_eq, flatV_fst ms fs kvs hf]
    simpa [keyMaxSize, flatTy] using hn
  have hpos := fixed_serF cfg .be (entriesMs kvs) (entriesVals kvs) hwf 0 n hfix
  have hfacts := (serFFacts cfg .v1 .be (entriesMs kvs) (entriesVals kvs) hwf 0).2.2
  have hlen : (serF cfg .v1 .be (entriesMs kvs) (entriesVals kvs) 0).1.length = n := by omega
  refine ⟨_, by simp only [keyBytes, hk], hlen, ?_⟩
  simp only [handle, keyBytes, hk, handleOfBytes, hlen]

/-- the padded form: `keyMaxSize ≤ 16` ⇒ the handle starts with the key bytes and ends with zeros -/
theorem C12_small_keys_are_padded (cfg : Cfg) (x : Ext) (ms : KMs) (fs : List Val) (n : Nat)
    (hw : wfKey cfg (.struct x ms) (.struct fs) = true) (hn : keyMaxSize (.struct x ms) = some n) (h16 : n ≤ 16) :
    ∃ b, keyBytes cfg (.struct x ms) (.struct fs) = .ok b ∧
      handle cfg (.struct x ms) (.struct fs) = .ok (b ++ zeros (16 - n)) := by
  obtain ⟨b, hb, hl, hh⟩ := C12_rule_partial cfg x ms fs n hw hn
  exact ⟨b, hb, by simp [hh, h16, pad16, hl]⟩

/-! ### non-vacuity: a 16-byte key is padded (not hashed), a 17-byte key is hashed -/
def tyKey16 : KTy := .struct .final (.cons 0 false false true (.prim .u64) (.cons 1 false false true (.prim .u64)
  (.cons 2 false false false .str .nil)))
def tyKey17 : KTy := .struct .final (.cons 0 false false true (.prim .u64) (.cons 1 false false true (.prim .u64)
  (.cons 2 false false true (.prim .u8) .nil)))
example : keyMaxSize tyKey16 = some 16 ∧ keyMaxSize tyKey17 = some 17 ∧
    wfKey Cfg.fixed tyKey16 (.struct [.num 1, .num 2, .str [0x61]]) = true ∧
    wfKey Cfg.fixed tyKey17 (.struct [.num 1, .num 2, .num 3]) = true := by decide
example : (handle Cfg.fixed tyKey16 (.struct [.num 1, .num 2, .str [0x61]])).toOption =
    some [0, 0, 0, 0, 0, 0, 0, 1, 0, 0, 0, 0, 0, 0, 0, 2] := by decide +kernel
/-- `kh SF{0k:u64,1k:u64,2k:u8} {1,2,3}` → `0c47490dee23e28e0a20e5b16d5edd3b` on the real code (MD5 of the 17 key bytes) -/
example : (handle Cfg.fixed tyKey17 (.struct [.num 1, .num 2, .num 3])).toOption =
    some [0x0c, 0x47, 0x49, 0x0d, 0xee, 0x23, 0xe2, 0x8e, 0x0a, 0x20, 0xe5, 0xb1, 0x6d, 0x5e, 0xdd, 0x3b] := by
  decide +kernel

/-! ### D16: the actual size decides -/
/-! ### optional nested structures are not in the key (follow-up 3) -/
/-- **C12, the key members of an OPTIONAL nested structure are not part of the key**: for EVERY keyed structure type,
    every value, every optional non-key member `i` (in particular one of structure type with `@key` members of its own)
    and every replacement value `w` (`.absent` = the member removed): the key holder, the big-endian key serialization,
    the key hash / instance handle and the outcome of the real function are unchanged. Together with
    `C11_optional_struct_not_in_key_holder_type` (the key-holder TYPE does not list those members) this is the coded
    rule "optional nested structures contribute nothing to the key" (key_and_instance_handle.rs:27-29, 89-91). -/
theorem C12_optional_nested_struct_not_in_key (cfg : Cfg) (x : Ext) (ms : KMs) (fs : List Val) (i : Nat) (w : Val)
    (h : ms.optNonKeyAt i = true) :
    keyHolder (.struct x ms) (.struct (fs.set i w)) = keyHolder (.struct x ms) (.struct fs) ∧
    keyBytes cfg (.struct x ms) (.struct (fs.set i w)) = keyBytes cfg (.struct x ms) (.struct fs) ∧
    handle cfg (.struct x ms) (.struct (fs.set i w)) = handle cfg (.struct x ms) (.struct fs) ∧
    handleOutcome cfg (.struct x ms) (.struct (fs.set i w)) = handleOutcome cfg (.struct x ms) (.struct fs) := by
  obtain ⟨hp, hh, ho⟩ := C11_optional_member_irrelevant cfg x ms fs i w h
  refine ⟨?_, ?_, hh, ho⟩
  · simp only [keyHolder, hp]
  · simp only [keyBytes, keyHolder, hp]

/-- the rule of `C12_rule_partial` is about the key WITHOUT the optional structure: `T { @key a: u64; @key b: u64;
    @optional In n }` with `In { @key k: u64 }` has the maximum key size 16 (padded), not 24 (MD5), and the handle
    does not contain the optional member's key `k = 9`. -/
def tyOptKey16 : KTy := .struct .final (.cons 0 false false true (.prim .u64) (.cons 1 false false true (.prim .u64)
  (.cons 5 true false false (.struct .final (.cons 6 false false true (.prim .u64) .nil)) .nil)))
example : keyMaxSize tyOptKey16 = some 16 ∧
    (handle Cfg.fixed tyOptKey16 (.struct [.num 1, .num 2, .struct [.num 9]])).toOption =
      some [0, 0, 0, 0, 0, 0, 0, 1, 0, 0, 0, 0, 0, 0, 0, 2] ∧
    (handle Cfg.fixed tyOptKey16 (.struct [.num 1, .num 2, .absent])).toOption =
      some [0, 0, 0, 0, 0, 0, 0, 1, 0, 0, 0, 0, 0, 0, 0, 2] := by decide +kernel

/-- **C12, the key serialization of a structure-typed key member is that of its whole value**: the key flags inside the
    type of a KEY member do not enter the key holder, the key serialization, the key hash or the outcome of the real
    function - for every keyed structure type and value (`normKeys` clears them). -/
theorem C12_key_struct_member_not_flattened (cfg : Cfg) (x : Ext) (ms : KMs) (v : Val) :
    keyHolder (.struct x (normKeys ms)) v = keyHolder (.struct x ms) v ∧
    keyBytes cfg (.struct x (normKeys ms)) v = keyBytes cfg (.struct x ms) v ∧
    handle cfg (.struct x (normKeys ms)) v = handle cfg (.struct x ms) v ∧
    handleOutcome cfg (.struct x (normKeys ms)) v = handleOutcome cfg (.struct x ms) v := by
  obtain ⟨_, hp, hh, ho⟩ := C11_key_struct_member_not_flattened cfg x ms v
  refine ⟨?_, ?_, hh, ho⟩
  · simp only [keyHolder, hp]
  · simp only [keyBytes, keyHolder, hp]

/-- the key of `Sensor` (see `tySensor`) has the fixed size 9 (u32, u32, u8): padded, never hashed -/
example : keyMaxSize tySensor = some 9 := by decide +kernel

def tyKeyStr : KTy := .struct .final (.cons 0 false false true .str (.cons 1 false false false (.prim .u32) .nil))
/-- D16: an (unbounded) string key: the maximum serialized size of the key is not bounded by 16, so the key hash has to
    be the MD5 digest for every value; the code zero-pads the key `"ab"` (7 bytes: `00 00 00 03 61 62 00`) because its
    actual size is below 17, and hashes a 13-character value of the same type (replayed:
    `kh SF{0k:s,1:u32} {x6162,7}` → `00000003616200000000000000000000`). -/
theorem C12_asis_counterexample :
    keyMaxSize tyKeyStr = none ∧
    (handle Cfg.fixed tyKeyStr (.struct [.str [0x61, 0x62], .num 7])).toOption =
      some ([0, 0, 0, 3, 0x61, 0x62, 0] ++ zeros 9) ∧
    (keyBytes Cfg.fixed tyKeyStr (.struct [.str [0x61, 0x62], .num 7])).toOption.map md5 ≠
      (handle Cfg.fixed tyKeyStr (.struct [.str [0x61, 0x62], .num 7])).toOption := by
  decide +kernel

end DustVerif.Xcdr
