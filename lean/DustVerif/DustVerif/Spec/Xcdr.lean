import DustVerif.Model.Xcdr
/-!
# Independent specification of the XCDR encodings (DDS-XTypes 1.3, clause 7.4.3.5)

Written from the numbered rules of the "serialization virtual machine" of the standard, not from the Rust code.
It shares with `Model/Xcdr.lean` only the *types* (`Ty`, `Val`, `Bytes`, `Endian`, `Ver`) and the integer byte
helpers; every encoding function below is its own definition.

Stream state (7.4.3.5.2): `XCDR.offset`, `XCDR.origin`, `MAXALIGN`, `CENDIAN`, `EVERSION`.  Alignment is always
relative to the current origin, so the functions take the *relative* offset `rel = offset - origin`;
`PUSH(ORIGIN = 0)` serializes the nested object at `rel = 0`, and when the rule is finished the previous origin is
in force again (the state is a stack), i.e. the enclosing object continues at `rel + <bytes written>`.

Where the standard leaves a choice to the implementation, or where the reading of the standard is disputed, the
choice is a field of `Dialect`; `Dialect.std` is the reading of the standard, `Dialect.dust` what dust-dds does.
`Props/C10.lean` relates `Model.ser` to `Spec.ser Dialect.dust` and lists the differences of the two dialects.
-/
namespace DustVerif.Xcdr.Spec
open DustVerif.Xcdr

/-- Table 39: MAXALIGN(1) = 8, MAXALIGN(2) = 4 -/
def maxAlign : Ver → Nat
  | .v1 => 8
  | .v2 => 4

/-- `ALIGN(N)`: bytes to add so that `offset - origin` is a multiple of `min(N, MAXALIGN)` -/
def alignPad (ver : Ver) (n rel : Nat) : Nat :=
  let a := min n (maxAlign ver)
  (a - rel % a) % a

/-- `ESWAP(AsBytes(O))`: the `k` bytes of `x` in the stream's byte order -/
def eswap (e : Endian) (k x : Nat) : Bytes :=
  match e with
  | .le => (List.range k).map fun i => UInt8.ofNat (x / 256 ^ i % 256)
  | .be => ((List.range k).map fun i => UInt8.ofNat (x / 256 ^ i % 256)).reverse

def pad (n : Nat) : Bytes := List.replicate n 0

/-- serialized size of a primitive (Table 40, `O.ssize`) -/
def ssize : Prim → Nat
  | .bool | .byte | .u8 | .i8 | .c8 => 1
  | .i16 | .u16 => 2
  | .i32 | .u32 | .f32 => 4
  | .i64 | .u64 | .f64 => 8

/-- rule (2): `ALIGN(O.ssize)`, `ESWAP(AsBytes(O))` -/
def primitive (ver : Ver) (e : Endian) (p : Prim) (x rel : Nat) : Bytes :=
  pad (alignPad ver (ssize p) rel) ++ eswap e (ssize p) x

def uint32 (ver : Ver) (e : Endian) (x rel : Nat) : Bytes := primitive ver e .u32 x rel
def uint16 (ver : Ver) (e : Endian) (x rel : Nat) : Bytes := primitive ver e .u16 x rel

/-- rule (3): `{ O.ssize : UInt32 }` (includes the NUL) `{ O[i] : Byte }*` -/
def string (ver : Ver) (e : Endian) (bs : Bytes) (rel : Nat) : Bytes :=
  uint32 ver e (bs.length + 1) rel ++ bs ++ [0]

/-- `{ O[i] : O.element_type }*` -/
def elements (f : Val → Nat → Bytes) : List Val → Nat → Bytes
  | [], _ => []
  | v :: vs, rel => let b := f v rel; b ++ elements f vs (rel + b.length)

/-- wide string in the form dust-dds and its peers in the interoperability suite exchange: a UInt32 with the number of
    UTF-16 code units INCLUDING a terminating zero unit, the units as UInt16, the zero unit. (The text of rule (4) of
    the standard is not available offline; this definition is independent of the model only in its form.) -/
def wstring (ver : Ver) (e : Endian) (us : List Val) (rel : Nat) : Bytes :=
  let n := uint32 ver e (us.length + 1) rel
  let b := elements (fun v r => uint16 ver e v.unit r) us (rel + n.length)
  n ++ b ++ uint16 ver e 0 (rel + n.length + b.length)

/-- rule (26) `{ O.disc : NOPT_FMEMBER } { O.selected_member : FMEMBER }?`; `g id v` = the member `id` with value `v` -/
def funion (ver : Ver) (e : Endian) (disc : Prim) (g : Nat → Val → Nat → Bytes) (fs : List Val) (rel : Nat) : Bytes :=
  match fs with
  | [.num x, .num id, v] =>
    let b := primitive ver e disc x rel
    b ++ g id v (rel + b.length)
  | [.num x] => primitive ver e disc x rel
  | _ => []

/-- `{ DHEADER(O) : UInt32 }` followed by the delimited object: DHEADER = size of what follows it -/
def delimited (ver : Ver) (e : Endian) (body : Nat → Bytes) (rel : Nat) : Bytes :=
  let p := alignPad ver 4 rel
  let b := body (rel + p + 4)
  pad p ++ eswap e 4 b.length ++ b

def isPrimitive : Ty → Bool
  | .prim _ => true
  | _ => false

/-- does the serialized member start with a UInt32 that is the number of bytes that follow it (a DHEADER)? -/
def startsWithDheader (ver : Ver) : Ty → Bool
  | .struct .appendable _ => ver == .v2
  | .union true _ _ => ver == .v2
  | .struct .mutable _ => ver == .v2
  | .seq el => ver == .v2 && !isPrimitive el
  | .arr el _ => ver == .v2 && !isPrimitive el
  | _ => false

/-- choices the standard leaves open or that are read differently -/
structure Dialect where
  /-- the parameter id that ends an XCDR1 parameter list, rules (23) (28) -/
  sentinel : Nat
  /-- alignment in front of that id (it is a UInt16: `ALIGN(2)`) -/
  sentinelAlign : Nat
  /-- members of a mutable structure in ascending member id (true) or in declaration order (false) -/
  byId : Bool
  /-- length code of EMHEADER1 for a member of type `t` whose value takes `size` bytes (7.4.3.4.5) -/
  lc : Ty → Nat → Nat

/-- LC by the book: 0..3 for 1/2/4/8-byte members, 5 when the member starts with a DHEADER (the DHEADER doubles as
    NEXTINT), else 4 -/
def lcStd (ver : Ver) (t : Ty) (size : Nat) : Nat :=
  if size = 1 then 0 else if size = 2 then 1 else if size = 4 then 2 else if size = 8 then 3
  else if startsWithDheader ver t then 5 else 4

/-- dust-dds (serializer.rs:590-608): LC = 5 for appendable / mutable aggregated types and for *every* sequence,
    else 0..3 by size, else 4 -/
def lcDust (t : Ty) (size : Nat) : Nat :=
  match t with
  | .struct .appendable _ => 5
  | .union true _ _ => 5
  | .struct .mutable _ => 5
  | .seq _ => 5
  | _ => if size = 1 then 0 else if size = 2 then 1 else if size = 4 then 2 else if size = 8 then 3 else 4

/-- PID_LIST_END of Table "reserved parameter ids" (0x3F02); no alignment beyond that of a UInt16 -/
def Dialect.std (ver : Ver) : Dialect := ⟨0x3F02, 2, false, lcStd ver⟩
/-- dust-dds: PID_SENTINEL = 1 (the RTPS ParameterList sentinel), `ALIGN(4)` in front of it, members by id -/
def Dialect.dust : Dialect := ⟨1, 4, true, lcDust⟩

/-- is `lc` a correct length code for a value of `size` bytes whose first UInt32 (if LC >= 5) is `first`? -/
def lcValid (lc size first : Nat) : Bool :=
  match lc with
  | 0 => size == 1
  | 1 => size == 2
  | 2 => size == 4
  | 3 => size == 8
  | 4 => true
  | 5 => size == 4 + first
  | 6 => size == 4 + 4 * first
  | 7 => size == 4 + 8 * first
  | _ => false

/-- a present member of a mutable aggregated type: id, must-understand, type, value serializer -/
structure Member where
  id : Nat
  mu : Bool
  ty : Ty
  enc : Nat → Bytes

/-- rule (24) short form / rule (25) long form of an XCDR1 `MMEMBER`:
    `ALIGN(4)`, `{ FLAG_I + FLAG_M + M.id : UInt16 } { M.value.ssize : UInt16 }` or, if the id is above 0x3F00 or the
    value longer than 65535 bytes, `{ FLAG_I + FLAG_M + PID_EXTENDED : UInt16 } { 8 : UInt16 }
    { M.id : UInt32 } { M.value.ssize : UInt32 }`; then `PUSH(ORIGIN = 0)` and the value. `FLAG_M` = 0x4000. -/
def mmember1 (e : Endian) (id : Nat) (mu : Bool) (value : Option (Nat → Bytes)) (rel : Nat) : Bytes :=
  let p := alignPad .v1 4 rel
  let b := match value with
    | some f => f 0
    | none => []
  let flagM := if mu then 0x4000 else 0
  if id ≤ 0x3F00 ∧ b.length ≤ 0xFFFF then
    pad p ++ eswap e 2 (flagM + id) ++ eswap e 2 b.length ++ b
  else
    pad p ++ eswap e 2 (flagM + 0x3F01) ++ eswap e 2 8 ++ eswap e 4 id ++ eswap e 4 b.length ++ b

/-- rule (22): `{ EMHEADER1(M) : UInt32 }`, `IF (LC >= 4) { NEXTINT(M) : UInt32 }`,
    `IF (LC >= 5) XCDR.offset = XCDR.offset - 4`, the value.
    EMHEADER1 = `M_FLAG << 31 + LC << 28 + M.id` (7.4.3.4.5) -/
def mmember2 (d : Dialect) (e : Endian) (m : Member) (rel : Nat) : Bytes :=
  let p := alignPad .v2 4 rel
  let v0 := m.enc (rel + p + 4)          -- the value if it directly follows the EMHEADER (LC 0..3, 5..7)
  let lc := d.lc m.ty v0.length
  let em := (if m.mu then 2 ^ 31 else 0) + lc * 2 ^ 28 + m.id % 2 ^ 28
  if lc = 4 then
    let v4 := m.enc (rel + p + 8)         -- the value behind an explicit NEXTINT
    pad p ++ eswap e 4 em ++ eswap e 4 v4.length ++ v4
  else pad p ++ eswap e 4 em ++ v0

def insertById (m : Member) : List Member → List Member
  | [] => [m]
  | x :: xs => if m.id ≤ x.id then m :: x :: xs else x :: insertById m xs

def sortById : List Member → List Member
  | [] => []
  | m :: ms => insertById m (sortById ms)

def order (d : Dialect) (ms : List Member) : List Member := if d.byId then sortById ms else ms

/-- rule (23): `{ O.member[i] : MMEMBER }*`, `{ PID_SENTINEL : UInt16 } { length = 0 : UInt16 }` -/
def plist1 (d : Dialect) (e : Endian) : List Member → Nat → Bytes
  | [], rel =>
    let p := alignPad .v1 d.sentinelAlign rel
    pad p ++ eswap e 2 d.sentinel ++ eswap e 2 0
  | m :: ms, rel =>
    let b := mmember1 e m.id m.mu (some m.enc) rel
    b ++ plist1 d e ms (rel + b.length)

/-- `{ O.member[i] : MMEMBER }*` of rule (21) -/
def plist2 (d : Dialect) (e : Endian) : List Member → Nat → Bytes
  | [], _ => []
  | m :: ms, rel =>
    let b := mmember2 d e m rel
    b ++ plist2 d e ms (rel + b.length)

/-- the serializer of a member's value, if the member has one -/
def optValue (f : Val) (g : Val → Nat → Bytes) : Option (Nat → Bytes) :=
  match f with
  | .absent => none
  | f => some (g f)

/-- rule (20) XCDR2 OPT_FMEMBER: `{ <is_present> : BOOLEAN }`, `IF (<is_present>) { M.value : M.value.type }` -/
def optMember2 (ver : Ver) (e : Endian) (value : Option (Nat → Bytes)) (rel : Nat) : Bytes :=
  match value with
  | none => primitive ver e .bool 0 rel
  | some g =>
    let flag := primitive ver e .bool 1 rel
    flag ++ g (rel + flag.length)

/-- `{ M : FMEMBER }`: (18) NOPT_FMEMBER = the value, (19) XCDR1 OPT_FMEMBER = MMEMBER, (20) XCDR2 OPT_FMEMBER -/
def fmember (ver : Ver) (e : Endian) (id : Nat) (opt mu : Bool) (f : Val) (g : Val → Nat → Bytes) (rel : Nat) : Bytes :=
  if opt then
    match ver with
    | .v1 => mmember1 e id mu (optValue f g) rel
    | .v2 => optMember2 ver e (optValue f g) rel
  else g f rel

mutual
  /-- `{ O : O.type }` for a member / element / nested object at relative offset `rel` -/
  def ser (d : Dialect) (ver : Ver) (e : Endian) : Ty → Val → Nat → Bytes
    -- (2)
    | .prim p, .num x, rel => primitive ver e p x rel
    -- (3)
    | .str, .str bs, rel => string ver e bs rel
    -- (5) `{ O.value : O.holder_type }`
    | .enum h _ _, .num x, rel => primitive ver e h x rel
    -- wide string, as dust-dds writes it (see `wstring`)
    | .wstr, .list us, rel => wstring ver e us rel
    -- (11) PSEQUENCE, (12) XCDR2 SEQUENCE with DHEADER, (13) XCDR1 SEQUENCE
    | .seq el, .list vs, rel =>
      let body : Nat → Bytes := fun r =>
        let n := uint32 ver e vs.length r
        n ++ elements (ser d ver e el) vs (r + n.length)
      if ver == .v2 && !isPrimitive el then delimited ver e body rel else body rel
    -- (8) PARRAY, (9) XCDR2 ARRAY with DHEADER, (10) XCDR1 ARRAY
    | .arr el _, .list vs, rel =>
      if ver == .v2 && !isPrimitive el then delimited ver e (elements (ser d ver e el) vs) rel
      else elements (ser d ver e el) vs rel
    -- (17) FSTRUCT
    | .struct .final ms, .struct fs, rel => fmembers d ver e ms fs rel
    -- (29) XCDR1 APPENDABLE = AsFinal, (30) XCDR2 APPENDABLE = DHEADER + AsFinal
    | .struct .appendable ms, .struct fs, rel =>
      match ver with
      | .v1 => fmembers d ver e ms fs rel
      | .v2 => delimited ver e (fmembers d ver e ms fs) rel
    -- (23) XCDR1 MSTRUCT, (21) XCDR2 MSTRUCT = DHEADER + MMEMBER*
    | .struct .mutable ms, .struct fs, rel =>
      match ver with
      | .v1 => plist1 d e (order d (present d ver e ms fs)) rel
      | .v2 => delimited ver e (plist2 d e (order d (present d ver e ms fs))) rel
    -- (26) FUNION = `{ O.disc : NOPT_FMEMBER } { O.selected_member : FMEMBER }?`
    --      (29) / (30) over it for an appendable union
    | .union app disc bs, .struct fs, rel =>
      if app && ver == .v2 then delimited ver e (funion ver e disc (branch d ver e bs) fs) rel
      else funion ver e disc (branch d ver e bs) fs rel
    | _, _, _ => []
  /-- the selected member of a union: the branch with the member id the value names -/
  def branch (d : Dialect) (ver : Ver) (e : Endian) : Bs → Nat → Val → Nat → Bytes
    | .cons id' _ _ t r, id, v, rel => if id' == id then ser d ver e t v rel else branch d ver e r id v rel
    | .nil, _, _, _ => []
  /-- (17) `{ O.member[i] : FMEMBER }*` -/
  def fmembers (d : Dialect) (ver : Ver) (e : Endian) : Ms → List Val → Nat → Bytes
    | .cons id opt mu t rest, f :: fs, rel =>
      let b := fmember ver e id opt mu f (ser d ver e t) rel
      b ++ fmembers d ver e rest fs (rel + b.length)
    | _, _, _ => []
  /-- the members of a mutable structure that have a value (an absent member is simply not serialized) -/
  def present (d : Dialect) (ver : Ver) (e : Endian) : Ms → List Val → List Member
    | .cons id _ mu t rest, f :: fs =>
      match f with
      | .absent => present d ver e rest fs
      | f => ⟨id, mu, t, ser d ver e t f⟩ :: present d ver e rest fs
    | _, _ => []
end

/-- 7.6.3.1.2 / Table 60: representation identifiers of the encapsulation header -/
def encHeader (ver : Ver) (e : Endian) (x : Ext) : Nat :=
  match ver, x, e with
  | .v1, .final, .be | .v1, .appendable, .be => 0x0000      -- CDR_BE
  | .v1, .final, .le | .v1, .appendable, .le => 0x0001      -- CDR_LE
  | .v1, .mutable, .be => 0x0002                            -- PL_CDR_BE
  | .v1, .mutable, .le => 0x0003                            -- PL_CDR_LE
  | .v2, .final, .be => 0x0006                              -- CDR2_BE
  | .v2, .final, .le => 0x0007                              -- CDR2_LE
  | .v2, .appendable, .be => 0x0008                         -- D_CDR2_BE
  | .v2, .appendable, .le => 0x0009                         -- D_CDR2_LE
  | .v2, .mutable, .be => 0x000a                            -- PL_CDR2_BE
  | .v2, .mutable, .le => 0x000b                            -- PL_CDR2_LE

def extOf : Ty → Ext
  | .struct x _ => x
  | _ => .final

/-- rule (1) + 7.6.3.1.2: encapsulation identifier (2 bytes, big-endian), options (2 bytes), the object serialized
    from offset 0 with origin 0, padding to a multiple of 4; the two least significant bits of the options hold the
    number of padding bytes -/
def serTopD (d : Dialect) (ver : Ver) (e : Endian) (t : Ty) (v : Val) : Bytes :=
  let id := encHeader ver e (extOf t)
  let body := ser d ver e t v 0
  let npad := (4 - (4 + body.length) % 4) % 4
  [UInt8.ofNat (id / 256), UInt8.ofNat (id % 256), 0, UInt8.ofNat npad] ++ body ++ pad npad

/-- what the driver prints for `specser`: the dust-dds dialect (same order / LC / sentinel choices) -/
def serTop (ver : Ver) (e : Endian) (t : Ty) (v : Val) : Bytes := serTopD Dialect.dust ver e t v
/-- the standard dialect (`specstd`) -/
def serTopStd (ver : Ver) (e : Endian) (t : Ty) (v : Val) : Bytes := serTopD (Dialect.std ver) ver e t v

end DustVerif.Xcdr.Spec
