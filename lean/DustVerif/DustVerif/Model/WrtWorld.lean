import DustVerif.Model.WriterEnt
/-
The environment the `wrt` driver puts around the writer model (Model/WriterEnt.lean) to predict the answers of
dsim scenarios: the virtual clock, the single factory worker (domain_participant_factory.rs:286-358: one mail per
iteration, timer re-armed in every iteration with min(50 ms, time_until_stale_writer_sample,
time_until_pending_writer_sample_timeout, time_until_participant_announcement)), the reliable/best-effort reader
endpoint (stateful_reader.rs on_data_submessage, writer_proxy.rs, communication_methods.rs handle_heartbeat /
handle_gap), the in-memory network of dsim with its FIFO delivery, the ACKNACK / DATA fault rules and the datagram
trace. One writer `w` in participant P1, at most one reader `r` in participant P2. None of the property theorems
depends on this file: they quantify over ALL event lists of Model/WriterEnt.lean; this file only picks the event
list a scenario produces. Import-free (core Lean + WriterEnt).
-/
namespace DustVerif.Wrt

/-- the matched-writer proxy of the reader (writer_proxy.rs) plus the DDS reader cache (KEEP_ALL, no limits) -/
structure Rd where
  reliable : Bool
  transientLocal : Bool
  highestRecv : Nat
  firstAvail : Nat
  lastAvail : Nat
  lastHbCount : Nat
  ackCount : Nat
  cache : List Change
  seen : List Nat        -- instances the DDS reader knows (an ALIVE sample was stored); never forgotten
deriving Repr

def Rd.init (reliable tl : Bool) : Rd :=
  { reliable := reliable, transientLocal := tl, highestRecv := 0, firstAvail := 1, lastAvail := 0, lastHbCount := 0,
    ackCount := 0, cache := [], seen := [] }

structure Ack where
  base : Nat
  set : List Nat
  count : Nat
deriving Repr

inductive Msg
  | toReader (d : Dgram)
  | toWriter (a : Ack)
deriving Repr

inductive Pat | acknack | data
deriving Repr, DecidableEq

/-- a dsim fault rule: `hold <pat> user`, `drop-if <pat> user [times=n]`, `drop-next n <pat> user` -/
structure Rule where
  drop : Bool
  pat : Pat
  remaining : Option Nat
deriving Repr

structure TraceE where
  t : Int
  msg : Msg
  fate : String
deriving Repr

/-- what the worker finds in its mail box -/
inductive Mail
  | write (k : Nat) (v : Int) (ts : Int)
  | dgram (m : Msg)
  | matchR (reliable tl : Bool)
  | unregister (k : Nat) (ts : Int)
  | api                       -- any other call (take, lookup, entity creation): no effect on the writer
deriving Repr

structure World where
  now : Int
  lastWake : Int
  annInterval : Int
  lastAnn : Int
  wr : Option St
  wr0 : Option St        -- an idle second writer `w0` created BEFORE `w` in the same publisher (never matched, never written)
  lastUnreg : Bool       -- answer of the last unregister_instance call
  rd : Option Rd
  rules : List Rule
  inflight : List Msg
  held : List Msg
  trace : Option (List TraceE)
  reply : Option Reply
  purgeFirst : Bool      -- obsolete (the purge before every mail is in /repo main); kept for the `# assume-fix D34` line
deriving Repr

def World.init : World :=
  { now := 0, lastWake := 0, annInterval := 5000000000, lastAnn := 0, wr := none, wr0 := none, lastUnreg := false, rd := none, rules := [],
    inflight := [], held := [], trace := none, reply := none, purgeFirst := false }

def POKE : Int := 50000000

-- ------------------------------------------------------------------------------------------- reader endpoint

def Rd.availMax (r : Rd) : Nat := max (r.firstAvail - 1) r.highestRecv

def rangeIncl (lo hi : Nat) : List Nat := (List.range (hi + 1 - lo)).map (· + lo)

/-- RtpsWriterProxy::missing_changes, first 256 (no fragments buffered) -/
def Rd.missing (r : Rd) : List Nat :=
  (rangeIncl (max r.firstAvail (r.highestRecv + 1)) (max r.lastAvail r.highestRecv)).take 256

/-- DataReaderEntity::add_reader_change: an ALIVE change creates the instance if need be; a NOT_ALIVE change of an
    instance the reader does not know is an error and is not stored (data_reader_entity.rs:344-359) -/
def Rd.store (r : Rd) (c : Change) : Rd :=
  if c.alive then { r with cache := r.cache ++ [c], seen := if r.seen.contains c.key then r.seen else r.seen ++ [c.key] }
  else if r.seen.contains c.key then { r with cache := r.cache ++ [c] } else r

def rdSub (r : Rd) : Sub → Rd × List Ack
  | .data c =>
    let expected := r.availMax + 1
    if r.reliable then
      if c.sn = expected then ({ r with highestRecv := max r.highestRecv c.sn }.store c, [])
      else (r, [])
    else
      if c.sn ≥ expected then
        let r1 := { r with highestRecv := max r.highestRecv c.sn }.store c
        (if c.sn > expected then { r1 with firstAvail := c.sn } else r1, [])
      else (r, [])
  | .gap start base =>
    -- irrelevant_change_range_set (writer_proxy.rs, repair dda8913 / D2): only a range contiguous with what was received
    if start < base && decide (start ≤ r.availMax + 1) && decide (base - 1 > r.highestRecv) then
      ({ r with highestRecv := base - 1 }, [])
    else (r, [])
  | .hb first last count =>
    if r.lastHbCount < count then
      let r1 := { r with lastHbCount := count, lastAvail := last, firstAvail := first, ackCount := r.ackCount + 1 }
      (r1, [{ base := r1.availMax + 1, set := r1.missing, count := r1.ackCount }])
    else (r, [])

def rdSubs (r : Rd) : List Sub → Rd × List Ack
  | [] => (r, [])
  | s :: ss =>
    let (r1, a1) := rdSub r s
    let (r2, a2) := rdSubs r1 ss
    (r2, a1 ++ a2)

-- ------------------------------------------------------------------------------------------- network

def subIsData : Sub → Bool
  | .data _ => true
  | _ => false

def Pat.matches (p : Pat) : Msg → Bool
  | .toWriter _ => p == .acknack
  | .toReader d => p == .data && d.subs.any subIsData

/-- first matching rule with a remaining count other than 0 wins (dsim.rs World::send) -/
def applyRules (m : Msg) : List Rule → Option Bool × List Rule
  | [] => (none, [])
  | r :: rs =>
    if r.remaining != some 0 && r.pat.matches m then
      (some r.drop, { r with remaining := r.remaining.map (· - 1) } :: rs)
    else
      let (a, rs') := applyRules m rs
      (a, r :: rs')

def World.traceAdd (w : World) (m : Msg) (fate : String) : World :=
  match w.trace with
  | none => w
  | some l => { w with trace := some (l ++ [{ t := w.now, msg := m, fate := fate }]) }

def World.send (w : World) (m : Msg) : World :=
  let (a, rules) := applyRules m w.rules
  let w := { w with rules := rules }
  match a with
  | none => { (w.traceAdd m "sent") with inflight := w.inflight ++ [m] }
  | some true => w.traceAdd m "DROPPED"
  | some false => { (w.traceAdd m "HELD") with held := w.held ++ [m] }

def World.sendAll (w : World) : List Msg → World
  | [] => w
  | m :: ms => (w.send m).sendAll ms

-- ------------------------------------------------------------------------------------------- the worker

/-- the writer-related output of a step goes to the network, a reply to the waiting `write` call -/
def World.absorb (w : World) (s : St) (o : Out) : World :=
  let w1 := { w with wr := some s, reply := pickReply w.reply o.reply }
  w1.sendAll (o.dgrams.map Msg.toReader)

/-- one iteration of the worker loop at the current time: the mail, then the per-participant part -/
def World.iterate (w : World) (mail : Option Mail) : World :=
  let w := { w with lastWake := w.now }
  -- remove_stale_writer_samples before every mail (repair 5f97ba4 / D34)
  let w := if mail.isSome then
      -- the participant's writers in creation order: w0 (if any), then w
      (match w.wr0, w.wr with
       | some a, some b => (match purgeWriters [a, b] w.now with
         | [a', b'] => { w with wr0 := some a', wr := some b' }
         | _ => w)
       | _, _ => { w with wr := w.wr.map (fun s => removeStale s w.now), wr0 := w.wr0.map (fun s => removeStale s w.now) })
    else w
  let w := match mail with
    | some (.write k v ts) =>
      (match w.wr with
       | some s => let (s', o) := methodWrite s k v ts w.now; w.absorb s' o
       | none => w)
    | some (.dgram (.toWriter a)) =>
      (match w.wr with
       | some s => let (s', o) := onAcknack s 0 a.base a.set a.count w.now; w.absorb s' o
       | none => w)
    | some (.dgram (.toReader d)) =>
      (match w.rd with
       | some r => let (r', acks) := rdSubs r d.subs; ({ w with rd := some r' }).sendAll (acks.map Msg.toWriter)
       | none => w)
    | some (.unregister k ts) =>
      (match w.wr with
       | some s =>
         let r := unregisterW s k ts w.now
         ({ w with lastUnreg := r.2.1 }).absorb r.1 { dgrams := r.2.2, reply := none, evicted := [] }
       | none => w)
    | some (.matchR rel tl) =>
      (match w.wr with
       | some s => { w with wr := some (matchReader s 0 rel tl) }
       | none => w)
    | some .api => w
    | none => w
  let w := if w.now - w.lastAnn ≥ w.annInterval then { w with lastAnn := w.now } else w
  match w.wr with
  | some s => let (s', o) := tick s w.now; w.absorb s' o
  | none => w

/-- deliver queued datagrams (FIFO), one worker iteration per datagram, until the network is quiet -/
def World.settle : Nat → World → World
  | 0, w => w
  | fuel + 1, w =>
    match w.inflight with
    | [] => w
    | m :: ms => World.settle fuel (({ w with inflight := ms }).iterate (some (.dgram m)))

def SETTLE_FUEL : Nat := 20000

def minOpt (a : Int) : Option Int → Int
  | none => a
  | some b => if b < a then b else a

def staleIn (l now : Int) : List Change → Option Int
  | [] => none
  | c :: cs => some (minOpt (c.ts + l - now) (staleIn l now cs))

/-- the delay the worker asks its timer for at the top of the loop (computed at `lastWake`) -/
def World.delay (w : World) : Int :=
  let t := w.lastWake
  let d0 := POKE
  let d1 := match w.wr with
    | some s => (match s.qos.lifespan with
                 | some l => minOpt d0 (staleIn l t s.changes)
                 | none => d0)
    | none => d0
  let d2 := match w.wr with
    | some s => (match s.pending with
                 | some p => (match p.expiration with
                              | some e => minOpt d1 (some (if e > t then e - t else 0))
                              | none => d1)
                 | none => d1)
    | none => d1
  let el := t - w.lastAnn
  let d3 := minOpt d2 (some (if el ≥ w.annInterval then 0 else w.annInterval - el))
  if d3 < 1 then 1 else d3      -- SimTimer::delay: a zero delay completes 1 ns later

def World.deadline (w : World) : Int := w.lastWake + w.delay

/-- `advance`: time moves to the earliest timer while it is not after the target -/
def World.advanceTo (target : Int) : Nat → World → World
  | 0, w => w
  | fuel + 1, w =>
    let w := w.settle SETTLE_FUEL
    if w.deadline ≤ target then
      World.advanceTo target fuel (({ w with now := w.deadline }).iterate none)
    else ({ w with now := target }).settle SETTLE_FUEL

/-- a blocking call: time passes until the reply is there -/
def World.blockUntilReply : Nat → World → Option World
  | 0, _ => none
  | fuel + 1, w =>
    let w := w.settle SETTLE_FUEL
    match w.reply with
    | some _ => some w
    | none => World.blockUntilReply fuel (({ w with now := w.deadline }).iterate none)

/-- `jump`: the clock jumps, then the due timer (if any) fires once -/
def World.jump (w : World) (ns : Int) : World :=
  let w := w.settle SETTLE_FUEL
  let w := { w with now := w.now + ns }
  if w.deadline ≤ w.now then (w.iterate none).settle SETTLE_FUEL else w

/-- `late-release` (dsim ext w2c): the clock jumps, the held datagrams are delivered before the overdue timer -/
def World.lateRelease (w : World) (ns : Int) : World × Nat :=
  let w := w.settle SETTLE_FUEL
  let n := w.held.length
  let w := { w with now := w.now + ns, inflight := w.inflight ++ w.held, held := [] }
  (w.jump 0, n)

def World.release (w : World) : World × Nat :=
  let n := w.held.length
  (({ w with inflight := w.inflight ++ w.held, held := [] }).settle SETTLE_FUEL, n)

/-- an API call that reaches the worker as a mail -/
def World.call (w : World) (m : Mail) : World := (w.iterate (some m)).settle SETTLE_FUEL

end DustVerif.Wrt
