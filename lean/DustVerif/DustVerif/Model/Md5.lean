/-! MD5 (RFC 1321) over byte lists, import-free. Only used for `#[dust_dds(hashid)]`
    (dds_derive/src/derive/type_support.rs:67-75: `md5::compute(member_name.as_bytes())`, first four
    digest bytes read little-endian). -/
namespace DustVerif.Md5

def M32 : Nat := 4294967296

def shifts : List Nat :=
  [7, 12, 17, 22, 7, 12, 17, 22, 7, 12, 17, 22, 7, 12, 17, 22,
   5, 9, 14, 20, 5, 9, 14, 20, 5, 9, 14, 20, 5, 9, 14, 20,
   4, 11, 16, 23, 4, 11, 16, 23, 4, 11, 16, 23, 4, 11, 16, 23,
   6, 10, 15, 21, 6, 10, 15, 21, 6, 10, 15, 21, 6, 10, 15, 21]

def consts : List Nat :=
  [0xd76aa478, 0xe8c7b756, 0x242070db, 0xc1bdceee, 0xf57c0faf, 0x4787c62a, 0xa8304613, 0xfd469501,
   0x698098d8, 0x8b44f7af, 0xffff5bb1, 0x895cd7be, 0x6b901122, 0xfd987193, 0xa679438e, 0x49b40821,
   0xf61e2562, 0xc040b340, 0x265e5a51, 0xe9b6c7aa, 0xd62f105d, 0x02441453, 0xd8a1e681, 0xe7d3fbc8,
   0x21e1cde6, 0xc33707d6, 0xf4d50d87, 0x455a14ed, 0xa9e3e905, 0xfcefa3f8, 0x676f02d9, 0x8d2a4c8a,
   0xfffa3942, 0x8771f681, 0x6d9d6122, 0xfde5380c, 0xa4beea44, 0x4bdecfa9, 0xf6bb4b60, 0xbebfbc70,
   0x289b7ec6, 0xeaa127fa, 0xd4ef3085, 0x04881d05, 0xd9d4d039, 0xe6db99e5, 0x1fa27cf8, 0xc4ac5665,
   0xf4292244, 0x432aff97, 0xab9423a7, 0xfc93a039, 0x655b59c3, 0x8f0ccc92, 0xffeff47d, 0x85845dd1,
   0x6fa87e4f, 0xfe2ce6e0, 0xa3014314, 0x4e0811a1, 0xf7537e82, 0xbd3af235, 0x2ad7d2bb, 0xeb86d391]

def not32 (x : Nat) : Nat := (M32 - 1) - (x % M32)

def rotl (x c : Nat) : Nat :=
  let x := x % M32
  ((x <<< c) % M32) ||| (x >>> (32 - c))

/-- message padding: 0x80, zeros up to 56 mod 64, bit length as 8 little-endian bytes -/
def padZeros (len : Nat) : Nat := (119 - (len % 64)) % 64

def leBytes (n : Nat) : Nat → List Nat
  | 0 => []
  | k + 1 => (n % 256) :: leBytes (n / 256) k

def pad (bs : List Nat) : List Nat :=
  bs ++ [128] ++ List.replicate (padZeros bs.length) 0 ++ leBytes (8 * bs.length) 8

def word (bs : List Nat) : Nat :=
  bs.getD 0 0 + 256 * bs.getD 1 0 + 65536 * bs.getD 2 0 + 16777216 * bs.getD 3 0

def words : Nat → List Nat → List Nat
  | 0, _ => []
  | k + 1, bs => word bs :: words k (bs.drop 4)

structure St where
  a : Nat
  b : Nat
  c : Nat
  d : Nat

def round (m : List Nat) (s : St) (i : Nat) : St :=
  let f :=
    if i < 16 then (s.b &&& s.c) ||| (not32 s.b &&& s.d)
    else if i < 32 then (s.d &&& s.b) ||| (not32 s.d &&& s.c)
    else if i < 48 then s.b ^^^ s.c ^^^ s.d
    else s.c ^^^ (s.b ||| not32 s.d)
  let g :=
    if i < 16 then i
    else if i < 32 then (5 * i + 1) % 16
    else if i < 48 then (3 * i + 5) % 16
    else (7 * i) % 16
  let f' := (f + s.a + consts.getD i 0 + m.getD g 0) % M32
  { a := s.d, d := s.c, c := s.b, b := (s.b + rotl f' (shifts.getD i 0)) % M32 }

def block (s : St) (m : List Nat) : St :=
  let r := (List.range 64).foldl (round m) s
  { a := (s.a + r.a) % M32, b := (s.b + r.b) % M32, c := (s.c + r.c) % M32, d := (s.d + r.d) % M32 }

def blocks : Nat → List Nat → St → St
  | 0, _, s => s
  | k + 1, bs, s => blocks k (bs.drop 64) (block s (words 16 bs))

def digestState (bs : List Nat) : St :=
  let p := pad bs
  blocks (p.length / 64) p { a := 0x67452301, b := 0xefcdab89, c := 0x98badcfe, d := 0x10325476 }

/-- `u32::from_le_bytes(digest[0..4])`: the digest starts with the little-endian bytes of state word A -/
def first32 (bs : List Nat) : Nat := (digestState bs).a

def utf8Bytes (s : String) : List Nat := s.toUTF8.toList.map (·.toNat)

def hashId (name : String) : Nat := first32 (utf8Bytes name)

end DustVerif.Md5
