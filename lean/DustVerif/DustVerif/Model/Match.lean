/-
Model of the request/offered (RxO) QoS compatibility decision of dust-dds:
  dds/src/dcps/dcps_domain_participant/discovery_methods.rs
    get_discovered_reader_incompatible_qos_policy_list  (writer side, :3237)
    get_discovered_writer_incompatible_qos_policy_list  (reader side, :3292)
  with the orderings of dds/src/dcps/infrastructure/qos_policy.rs and time.rs
  (hand-written PartialOrd impls on the kinds, derived lexicographic PartialOrd on Duration),
and of the QoS consistency / immutability rules of dds/src/dcps/infrastructure/qos.rs.
Import-free.
-/
namespace DustVerif.Match

/-- Duration { sec: i32, nanosec: u32 } with the derived (lexicographic) order -/
structure Dur where
  sec : Int
  ns : Nat
deriving DecidableEq, Repr

def Dur.lt (a b : Dur) : Bool := decide (a.sec < b.sec) || (a.sec == b.sec && decide (a.ns < b.ns))

/-- DurationKind: `none` = Infinite (greater than every finite value) -/
abbrev DurK := Option Dur

def durLt : DurK → DurK → Bool
  | some a, some b => a.lt b
  | some _, none => true
  | none, _ => false

def durGt (a b : DurK) : Bool := durLt b a

/-- kinds are numbered in the order their PartialOrd impls give them -/
inductive Durability | volatile | transientLocal | transient | persistent
deriving DecidableEq, Repr
def Durability.rank : Durability → Nat
  | .volatile => 0 | .transientLocal => 1 | .transient => 2 | .persistent => 3

inductive Scope | instance | topic
deriving DecidableEq, Repr
def Scope.rank : Scope → Nat
  | .instance => 0 | .topic => 1

inductive LivKind | automatic | manualByParticipant | manualByTopic
deriving DecidableEq, Repr
def LivKind.rank : LivKind → Nat
  | .automatic => 0 | .manualByParticipant => 1 | .manualByTopic => 2

inductive Rel | bestEffort | reliable
deriving DecidableEq, Repr
def Rel.rank : Rel → Nat
  | .bestEffort => 0 | .reliable => 1

inductive DestOrd | byReception | bySource
deriving DecidableEq, Repr
def DestOrd.rank : DestOrd → Nat
  | .byReception => 0 | .bySource => 1

inductive Own | shared | exclusive
deriving DecidableEq, Repr

structure Presentation where
  scope : Scope
  coherent : Bool
  ordered : Bool
deriving DecidableEq, Repr

structure Liveliness where
  kind : LivKind
  lease : DurK
deriving DecidableEq, Repr

/-- the RxO-relevant part of DataWriterQos + PublisherQos, or of DataReaderQos + SubscriberQos -/
structure EndQos where
  durability : Durability
  presentation : Presentation
  deadline : DurK
  latency : DurK
  liveliness : Liveliness
  reliability : Rel
  destOrder : DestOrd
  ownership : Own
  representation : List Int
deriving DecidableEq, Repr

inductive Policy
  | durability | presentation | deadline | latencyBudget | ownership | liveliness | reliability
  | destinationOrder | dataRepresentation
deriving DecidableEq, Repr

/-- QosPolicyId values (qos_policy.rs:147-195) -/
def Policy.id : Policy → Nat
  | .durability => 2 | .presentation => 3 | .deadline => 4 | .latencyBudget => 5 | .ownership => 6
  | .liveliness => 8 | .reliability => 11 | .destinationOrder => 12 | .dataRepresentation => 23

def XCDR1 : Int := 0

/-- `writer_qos.liveliness < reader.liveliness` / `>`: kind and lease are compared separately
    (offered kind ≥ requested kind and offered lease ≤ requested lease) -/
def livelinessIncompat (offered requested : Liveliness) : Bool :=
  decide (offered.kind.rank < requested.kind.rank) || durGt offered.lease requested.lease

/-- PRESENTATION: offered scope ≥ requested scope; coherent/ordered access requested ⇒ offered -/
def presentationIncompat (offered requested : Presentation) : Bool :=
  decide (offered.scope.rank < requested.scope.rank)
  || (requested.coherent && !offered.coherent)
  || (requested.ordered && !offered.ordered)

/-- the comparison before the repair (derived lexicographic PartialOrd on (kind, lease_duration)):
    `offered < requested`; kept as the regression witness for finding D19 -/
def livelinessIncompatLex (offered requested : Liveliness) : Bool :=
  decide (offered.kind.rank < requested.kind.rank)
  || (offered.kind == requested.kind && durLt offered.lease requested.lease)

/-- the comparison before the repair (`!=` on the two access flags); regression witness for D53 -/
def presentationIncompatNe (offered requested : Presentation) : Bool :=
  decide (offered.scope.rank < requested.scope.rank)
  || (requested.coherent != offered.coherent)
  || (requested.ordered != offered.ordered)

/-- the writer offers only its FIRST representation (default XCDR1); an empty reader list means [XCDR1] -/
def offeredRepr (w : EndQos) : Int :=
  match w.representation with
  | [] => XCDR1
  | x :: _ => x

def reprIncompat (w r : EndQos) : Bool :=
  !(r.representation.contains (offeredRepr w) || (offeredRepr w == XCDR1 && r.representation.isEmpty))

def pushIf (c : Bool) (p : Policy) (l : List Policy) : List Policy := if c then l ++ [p] else l

/-- get_discovered_reader_incompatible_qos_policy_list: evaluated by the WRITER for a discovered reader -/
def writerSideIncompat (w r : EndQos) : List Policy :=
  let l := pushIf (decide (w.durability.rank < r.durability.rank)) .durability []
  let l := pushIf (presentationIncompat w.presentation r.presentation) .presentation l
  let l := pushIf (durGt w.deadline r.deadline) .deadline l
  let l := pushIf (durGt w.latency r.latency) .latencyBudget l
  let l := pushIf (livelinessIncompat w.liveliness r.liveliness) .liveliness l
  let l := pushIf (decide (w.reliability.rank < r.reliability.rank)) .reliability l
  let l := pushIf (decide (w.destOrder.rank < r.destOrder.rank)) .destinationOrder l
  let l := pushIf (w.ownership != r.ownership) .ownership l
  pushIf (reprIncompat w r) .dataRepresentation l

/-- get_discovered_writer_incompatible_qos_policy_list: evaluated by the READER for a discovered writer -/
def readerSideIncompat (w r : EndQos) : List Policy :=
  let l := pushIf (presentationIncompat w.presentation r.presentation) .presentation []
  let l := pushIf (decide (r.durability.rank > w.durability.rank)) .durability l
  let l := pushIf (durLt r.deadline w.deadline) .deadline l
  let l := pushIf (durLt r.latency w.latency) .latencyBudget l
  let l := pushIf (livelinessIncompat w.liveliness r.liveliness) .liveliness l
  let l := pushIf (decide (r.reliability.rank > w.reliability.rank)) .reliability l
  let l := pushIf (decide (r.destOrder.rank > w.destOrder.rank)) .destinationOrder l
  let l := pushIf (r.ownership != w.ownership) .ownership l
  pushIf (reprIncompat w r) .dataRepresentation l

/-! ### QoS consistency and immutability (qos.rs) -/

/-- Length: none = Unlimited -/
abbrev Len := Option Nat

/-- `Length < Length` (qos_policy.rs:49) -/
def lenLt : Len → Len → Bool
  | some a, some b => decide (a < b)
  | some _, none => true
  | none, _ => false

/-- `depth as usize > Length` (PartialOrd<Length> for usize, qos_policy.rs:91) -/
def natGtLen (d : Nat) : Len → Bool
  | none => false
  | some l => decide (d > l)

structure Limits where
  maxSamples : Len
  maxInstances : Len
  maxSpi : Len
deriving DecidableEq, Repr

/-- the immutable / consistency-relevant part of DataWriterQos and DataReaderQos -/
structure EntQos where
  durability : Durability
  liveliness : Liveliness
  reliability : Rel
  maxBlocking : DurK
  destOrder : DestOrd
  depth : Option Nat          -- none = KEEP_ALL
  limits : Limits
  ownership : Own
  deadline : DurK
  minSep : DurK
  representation : List Int
  userData : List Nat         -- a mutable policy
deriving DecidableEq, Repr

inductive QErr | inconsistent | immutable
deriving DecidableEq, Repr

def historyInconsistent (q : EntQos) : Bool :=
  match q.depth with
  | some d => natGtLen d q.limits.maxSpi
  | none => false

/-- DataWriterQos::is_consistent (qos.rs:146) -/
def writerConsistent (q : EntQos) : Bool :=
  !(decide (q.representation.length > 1)) && !(lenLt q.limits.maxSamples q.limits.maxSpi) && !(historyInconsistent q)

/-- DataReaderQos::is_consistent (qos.rs:294) -/
def readerConsistent (q : EntQos) : Bool :=
  !(lenLt q.limits.maxSamples q.limits.maxSpi) && !(historyInconsistent q) && !(durLt q.deadline q.minSep)

/-- TopicQos::is_consistent (qos.rs:402) -/
def topicConsistent (q : EntQos) : Bool :=
  !(lenLt q.limits.maxSamples q.limits.maxSpi) && !(historyInconsistent q)

/-- check_immutability (qos.rs:172, :321): true = no immutable policy differs.
    reliability compares kind AND max_blocking_time; history compares kind+depth -/
def immutableSame (a b : EntQos) : Bool :=
  a.durability == b.durability && a.liveliness == b.liveliness && a.reliability == b.reliability
  && a.maxBlocking == b.maxBlocking && a.destOrder == b.destOrder && a.depth == b.depth
  && a.limits == b.limits && a.ownership == b.ownership

/-- the sequence of set_data_writer_qos / set_data_reader_qos (writer_methods.rs:548-552):
    returns the stored QoS afterwards and the result -/
def setQos (consistent : EntQos → Bool) (enabled : Bool) (cur new : EntQos) : EntQos × Option QErr :=
  if !consistent new then (cur, some .inconsistent)
  else if enabled && !immutableSame cur new then (cur, some .immutable)
  else (new, none)

end DustVerif.Match
