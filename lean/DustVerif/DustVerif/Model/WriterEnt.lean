/-
Model of the user-defined DataWriter of dust-dds, as coded in
  dds/src/dcps/dcps_domain_participant/data_writer_entity.rs   (DataWriterEntity::write_w_timestamp :70-169,
                                                                 RegisteredInstanceInfo)
  dds/src/dcps/dcps_domain_participant/writer_methods.rs        (write_w_timestamp :299-423, lookup_instance :249,
                                                                 process_pending_write_samples :599-693,
                                                                 check_pending_writer_sample_timeout :695-708)
  dds/src/dcps/dcps_domain_participant/discovery_methods.rs     (remove_stale_writer_samples :465-479)
  dds/src/dcps/dcps_domain_participant/communication_methods.rs (ACKNACK arm :453-497, poke :687-705)
  dds/src/rtps/stateful_writer.rs                               (add_change, remove_change, is_change_acknowledged,
                                                                 add_matched_reader, on_acknack_submessage_received,
                                                                 write_message_best_effort :302, write_message_reliable :410)
  dds/src/rtps/reader_proxy.rs                                  (RtpsReaderProxy, HeartbeatMachine)
and of the order in which the factory worker calls them (dds/src/dds_async/domain_participant_factory.rs:308-357:
one mail, then for every participant  ... remove_stale_writer_samples, check_pending_writer_sample_timeout,
process_pending_write_samples, ..., poke).

Abstractions: instance handles are the Nat key of the sample; a sample's payload is (key, value); times are total
nanoseconds (Int, relative to the start of the scenario; `Time` arithmetic is exact in the range used and the
ns <-> RTPS-fraction round trip is exact since the repair of D18); samples are never fragmented (payload below the
fragment size); the writer is enabled; dispose/unregister/register are not modelled (they do not touch the sample
deques). `Vec`/`VecDeque` are `List`s (front = head). The pending write keeps (key, value) instead of the DynamicData.
Import-free.
-/
namespace DustVerif.Wrt

/-- HISTORY / RELIABILITY / RESOURCE_LIMITS / LIFESPAN part of DataWriterQos -/
structure Qos where
  depth : Option Nat          -- none = KEEP_ALL, some d = KEEP_LAST(d)
  reliable : Bool
  maxBlocking : Option Int    -- reliability.max_blocking_time in ns, none = infinite
  maxSamples : Option Nat     -- none = Length::Unlimited
  maxInstances : Option Nat
  maxSpi : Option Nat
  lifespan : Option Int       -- ns, none = infinite
deriving Repr, DecidableEq

/-- RegisteredInstanceInfo (data_writer_entity.rs:30): handle + deque of the sequence numbers of its samples -/
structure Inst where
  key : Nat
  samples : List Nat
  registered : Bool := true   -- cleared by unregister_instance; the entry (with its samples) stays
deriving Repr, DecidableEq

/-- an ALIVE CacheChange in the RTPS writer history -/
structure Change where
  sn : Nat
  key : Nat
  val : Int
  ts : Int
  alive : Bool := true        -- false: the NOT_ALIVE_(DISPOSED_)UNREGISTERED change of unregister_instance (key only)
deriving Repr, DecidableEq

/-- RtpsReaderProxy (reader_proxy.rs:84) with its HeartbeatMachine -/
structure Proxy where
  id : Nat
  reliable : Bool
  highestSent : Nat
  highestAcked : Nat
  requested : List Nat
  firstRelevant : Nat
  lastHb : Int
  hbCount : Nat
  lastAckCount : Nat
deriving Repr, DecidableEq

/-- PendingWriteSample (user_defined_data_writer.rs:25) -/
structure Pending where
  key : Nat
  val : Int
  ts : Int
  expiration : Option Int
deriving Repr, DecidableEq

structure St where
  qos : Qos
  insts : List Inst
  lastSn : Nat
  changes : List Change
  proxies : List Proxy
  pending : Option Pending
deriving Repr

def St.init (q : Qos) : St :=
  { qos := q, insts := [], lastSn := 0, changes := [], proxies := [], pending := none }

/-- answer sent through the reply channel of a `write` call -/
inductive Reply | ok | outOfResources | timeout | error
deriving Repr, DecidableEq

/-- RTPS submessages the writer emits (INFO_DST / INFO_TS carry no state) -/
inductive Sub
  | data (c : Change)
  | gap (start base : Nat)
  | hb (first last count : Nat)
deriving Repr, DecidableEq

/-- one RTPS message (= one datagram) to one matched reader -/
structure Dgram where
  reader : Nat
  subs : List Sub
deriving Repr, DecidableEq

/-- what one step of the writer produces; `evicted` is a ghost record of the `remove_change` calls made on the
    KEEP_LAST path (writer_methods.rs:400-404 and :667-671) -/
structure Out where
  dgrams : List Dgram
  reply : Option Reply
  evicted : List Nat
deriving Repr

def Out.none : Out := { dgrams := [], reply := Option.none, evicted := [] }

/-- the RTPS heartbeat period of a stateful writer (stateful_writer.rs:38): `Duration::from_millis(200)` of
    rtps/behavior_types.rs truncates to the fraction 858993459, which time.rs:118 converts back to 199 999 999 ns -/
def HB_PERIOD : Int := 199999999
/-- HeartbeatMachine::new: last_heartbeat_time = Time::new(0, 0); scenario time 0 is 1000 s after it -/
def HB_TIME0 : Int := -1000000000000

-- ------------------------------------------------------------------------------------------- instances

def findInst (k : Nat) : List Inst → Option Inst
  | [] => none
  | i :: is => if i.key = k then some i else findInst k is

def totalSamples : List Inst → Nat
  | [] => 0
  | i :: is => i.samples.length + totalSamples is

/-- `instance_info.samples.push_back(sn)` on the first instance with that handle -/
def pushSample (k sn : Nat) : List Inst → List Inst
  | [] => []
  | i :: is => if i.key = k then { i with samples := i.samples ++ [sn] } :: is else i :: pushSample k sn is

/-- `samples.pop_front()` on the first instance with that handle -/
def popFront (k : Nat) : List Inst → List Inst
  | [] => []
  | i :: is => if i.key = k then { i with samples := i.samples.tail } :: is else i :: popFront k is

/-- usize < Length (Unlimited is greater than everything) -/
def ltLen (n : Nat) : Option Nat → Bool
  | none => true
  | some m => decide (n < m)

-- ------------------------------------------------------------------------------------------- RTPS history

def snMin : List Change → Option Nat
  | [] => none
  | c :: cs => match snMin cs with
    | none => some c.sn
    | some m => some (if c.sn < m then c.sn else m)

def snMax : List Change → Option Nat
  | [] => none
  | c :: cs => match snMax cs with
    | none => some c.sn
    | some m => some (if m < c.sn then c.sn else m)

def hbFirst (cs : List Change) : Nat := (snMin cs).getD 1
def hbLast (cs : List Change) : Nat := (snMax cs).getD 0

def findChange (sn : Nat) : List Change → Option Change
  | [] => none
  | c :: cs => if c.sn = sn then some c else findChange sn cs

def snNe (sn : Nat) (c : Change) : Bool := decide (c.sn ≠ sn)
/-- RtpsStatefulWriter::remove_change -/
def removeChange (sn : Nat) (cs : List Change) : List Change := cs.filter (snNe sn)

/-- RtpsReaderProxy::next_unsent_change: smallest sequence number above highest_sent -/
def nextUnsent (hs : Nat) : List Change → Option Nat
  | [] => none
  | c :: cs =>
    match nextUnsent hs cs with
    | none => if c.sn > hs then some c.sn else none
    | some m => if c.sn > hs ∧ c.sn < m then some c.sn else some m

/-- reader_proxy.unacked_changes(Some sn) for a reliable proxy -/
def unackedBy (sn : Nat) (p : Proxy) : Bool := p.reliable && decide (sn > p.highestAcked)

/-- RtpsStatefulWriter::is_change_acknowledged (stateful_writer.rs:66) -/
def isAckedBy (ps : List Proxy) (sn : Nat) : Bool := !(ps.any (unackedBy sn))
def isAcked (s : St) (sn : Nat) : Bool := isAckedBy s.proxies sn

def mkHb (p : Proxy) (cs : List Change) (now : Int) : Proxy × Sub :=
  ({ p with hbCount := p.hbCount + 1, lastHb := now }, .hb (hbFirst cs) (hbLast cs) (p.hbCount + 1))

def raiseSent (p : Proxy) (n : Nat) : Proxy :=
  if n > p.highestSent then { p with highestSent := n } else p

/-- the `while let Some(next) = next_unsent_change` loop of write_message_reliable. After the GAP branch
    highest_sent moves to the END of the gap (`continue`), so the change `next` is sent by the next round of the loop
    (repair 671be7c / D42; before it highest_sent moved to `next` and DATA(next) was left to a NACK). -/
def sendUnsentRel (cs : List Change) (now : Int) : Nat → Proxy → List Dgram → Proxy × List Dgram
  | 0, p, acc => (p, acc)
  | fuel + 1, p, acc =>
    match nextUnsent p.highestSent cs with
    | none => (p, acc)
    | some next =>
      if next > p.highestSent + 1 then
        let (p1, h) := mkHb p cs now
        sendUnsentRel cs now fuel (raiseSent p1 (next - 1))
          (acc ++ [{ reader := p.id, subs := [.gap (p.highestSent + 1) next, h] }])
      else
        match findChange next cs with
        | some c =>
          if next > p.firstRelevant then
            let (p1, h) := mkHb p cs now
            sendUnsentRel cs now fuel (raiseSent p1 next) (acc ++ [{ reader := p.id, subs := [.data c, h] }])
          else
            sendUnsentRel cs now fuel (raiseSent p next) (acc ++ [{ reader := p.id, subs := [.gap next (next + 1)] }])
        | none =>
          sendUnsentRel cs now fuel (raiseSent p next) (acc ++ [{ reader := p.id, subs := [.gap next (next + 1)] }])

def listMin : List Nat → Option Nat
  | [] => none
  | x :: xs => match listMin xs with
    | none => some x
    | some m => some (if x < m then x else m)

def natNe (a b : Nat) : Bool := decide (b ≠ a)

/-- the `while let Some(r) = next_requested_change()` loop (:574-670): repairs -/
def sendRequested (cs : List Change) (now : Int) : Nat → Proxy → List Dgram → Proxy × List Dgram
  | 0, p, acc => (p, acc)
  | fuel + 1, p, acc =>
    match listMin p.requested with
    | none => (p, acc)
    | some r =>
      let p0 := { p with requested := p.requested.filter (natNe r) }
      match findChange r cs with
      | some c =>
        if r > p.firstRelevant then
          let (p1, h) := mkHb p0 cs now
          sendRequested cs now fuel p1 (acc ++ [{ reader := p.id, subs := [.data c, h] }])
        else
          sendRequested cs now fuel p0 (acc ++ [{ reader := p.id, subs := [.gap r (r + 1)] }])
      | none => sendRequested cs now fuel p0 (acc ++ [{ reader := p.id, subs := [.gap r (r + 1)] }])

/-- `self.unacked_changes(seq_num_max)`: the newest stored change is above highest_acked -/
def unackedMax (cs : List Change) (p : Proxy) : Bool :=
  match snMax cs with
  | some m => decide (m > p.highestAcked)
  | none => false

/-- top part of write_message_reliable (stateful_writer.rs:424-571): unsent changes, else a heartbeat when something is
    unacknowledged and the period has elapsed -/
def wmrTop (cs : List Change) (now : Int) (p : Proxy) : Proxy × List Dgram :=
  if (nextUnsent p.highestSent cs).isSome then sendUnsentRel cs now (2 * cs.length + 1) p []
  else if !(unackedMax cs p) then (p, [])
  else if now - p.lastHb ≥ HB_PERIOD then ((mkHb p cs now).1, [{ reader := p.id, subs := [(mkHb p cs now).2] }])
  else (p, [])

/-- write_message_reliable (stateful_writer.rs:410-671): top part, then the repairs of requested changes -/
def writeMessageReliable (cs : List Change) (now : Int) (p : Proxy) : Proxy × List Dgram :=
  if (wmrTop cs now p).1.requested.isEmpty then wmrTop cs now p
  else sendRequested cs now ((wmrTop cs now p).1.requested.length + 1) (wmrTop cs now p).1 (wmrTop cs now p).2

/-- write_message_best_effort: no heartbeats; a gap is announced and the change after it is sent by the next round;
    changes up to first_relevant_sample_seq_num are answered with a GAP (repair 671be7c / D4, D42) -/
def sendUnsentBe (cs : List Change) : Nat → Proxy → List Dgram → Proxy × List Dgram
  | 0, p, acc => (p, acc)
  | fuel + 1, p, acc =>
    match nextUnsent p.highestSent cs with
    | none => (p, acc)
    | some next =>
      if next > p.highestSent + 1 then
        sendUnsentBe cs fuel (raiseSent p (next - 1)) (acc ++ [{ reader := p.id, subs := [.gap (p.highestSent + 1) next] }])
      else
        match findChange next cs with
        | some c =>
          if next > p.firstRelevant then
            sendUnsentBe cs fuel (raiseSent p next) (acc ++ [{ reader := p.id, subs := [.data c] }])
          else
            sendUnsentBe cs fuel (raiseSent p next) (acc ++ [{ reader := p.id, subs := [.gap next (next + 1)] }])
        | none => sendUnsentBe cs fuel (raiseSent p next) (acc ++ [{ reader := p.id, subs := [.gap next (next + 1)] }])

def writeMessageProxy (cs : List Change) (now : Int) (p : Proxy) : Proxy × List Dgram :=
  if p.reliable then writeMessageReliable cs now p else sendUnsentBe cs (2 * cs.length + 1) p []

/-- RtpsStatefulWriter::write_message: every matched reader in turn -/
def writeMessageAll (cs : List Change) (now : Int) : List Proxy → List Proxy × List Dgram
  | [] => ([], [])
  | p :: ps =>
    let (p', d) := writeMessageProxy cs now p
    let (ps', ds) := writeMessageAll cs now ps
    (p' :: ps', d ++ ds)

/-- add_change (:51): push + write_message -/
def addChange (s : St) (c : Change) (now : Int) : St × List Dgram :=
  ({ s with changes := s.changes ++ [c], proxies := (writeMessageAll (s.changes ++ [c]) now s.proxies).1 },
   (writeMessageAll (s.changes ++ [c]) now s.proxies).2)

-- ------------------------------------------------------------------------------------------- DataWriterEntity

/-- number of samples the instance holds; an instance that is not registered holds none -/
def samplesOfKey (insts : List Inst) (k : Nat) : Nat :=
  match findInst k insts with
  | some i => i.samples.length
  | none => 0

/-- max_samples_per_instance check (data_writer_entity.rs, after the repair of D25: `.map(len).unwrap_or(0)`);
    skipped when KEEP_LAST(depth) with depth <= limit -/
def spiHit (q : Qos) (insts : List Inst) (k : Nat) : Bool :=
  match q.maxSpi with
  | none => false
  | some m =>
    match q.depth with
    | some d => if d ≤ m then false else decide (samplesOfKey insts k ≥ m)
    | none => decide (samplesOfKey insts k ≥ m)

/-- max_samples check -/
def samplesHit (q : Qos) (insts : List Inst) : Bool :=
  match q.maxSamples with
  | none => false
  | some m => decide (totalSamples insts ≥ m)

/-- lifespan check at write (:158-163 before the repair): `sample_timestamp - now + lifespan <= 0` -/
def expiredAtWrite (q : Qos) (ts now : Int) : Bool :=
  match q.lifespan with
  | none => false
  | some l => decide (ts - now + l ≤ 0)

/-- DataWriterEntity::is_registered: an entry with that handle exists and its flag is set -/
def isReg (insts : List Inst) (k : Nat) : Bool :=
  match findInst k insts with
  | some i => i.registered
  | none => false

def instRegistered (i : Inst) : Bool := i.registered
/-- number of registered instances (has_room_for_new_instance counts only these) -/
def regCount (insts : List Inst) : Nat := (insts.filter instRegistered).length

/-- set the flag of the first entry with that handle -/
def setReg (k : Nat) : List Inst → List Inst
  | [] => []
  | i :: is => if i.key = k then { i with registered := true } :: is else i :: setReg k is

/-- DataWriterEntity::mark_registered: the entry of the handle (kept with its samples by an earlier unregister) is
    re-used, otherwise a new empty one is appended; the flag is set -/
def regInsts (insts : List Inst) (k : Nat) : List Inst :=
  if (findInst k insts).isSome then setReg k insts else insts ++ [{ key := k, samples := [], registered := true }]

/-- the registration step of the pinned commit (no `registered` flag yet): regression witness of D25 only -/
def regInstsAsIs (insts : List Inst) (k : Nat) : List Inst :=
  if (findInst k insts).isSome then insts else insts ++ [{ key := k, samples := [], registered := true }]

/-- DataWriterEntity::write_w_timestamp (data_writer_entity.rs) with the repair of D25 (fixes/D25.patch): the three
    resource limits are checked first, the instance is registered only when the write is accepted -/
def entWrite (s : St) (k : Nat) (v : Int) (ts now : Int) : St × Reply × List Dgram :=
  if !(isReg s.insts k) && !(ltLen (regCount s.insts) s.qos.maxInstances) then (s, .outOfResources, [])
  else if spiHit s.qos s.insts k || samplesHit s.qos s.insts then (s, .outOfResources, [])
  else if expiredAtWrite s.qos ts now then
    ({ s with lastSn := s.lastSn + 1, insts := pushSample k (s.lastSn + 1) (regInsts s.insts k) }, .ok, [])
  else
    ((addChange { s with lastSn := s.lastSn + 1, insts := pushSample k (s.lastSn + 1) (regInsts s.insts k) }
        { sn := s.lastSn + 1, key := k, val := v, ts := ts } now).1, .ok,
     (addChange { s with lastSn := s.lastSn + 1, insts := pushSample k (s.lastSn + 1) (regInsts s.insts k) }
        { sn := s.lastSn + 1, key := k, val := v, ts := ts } now).2)

/-- the same function BEFORE the repair of D25 (pinned commit, data_writer_entity.rs:79-127): the instance is
    registered first, then the sample limits are checked on the list that already contains it. Kept as the
    regression witness of D25 (Props/C19Writer.lean); not used by the driver. -/
def entWriteAsIs (s : St) (k : Nat) (v : Int) (ts now : Int) : St × Reply × List Dgram :=
  if !(findInst k s.insts).isSome && !(ltLen s.insts.length s.qos.maxInstances) then (s, .outOfResources, [])
  else if spiHit s.qos (regInstsAsIs s.insts k) k || samplesHit s.qos (regInstsAsIs s.insts k) then
    ({ s with insts := regInstsAsIs s.insts k }, .outOfResources, [])
  else if expiredAtWrite s.qos ts now then
    ({ s with lastSn := s.lastSn + 1, insts := pushSample k (s.lastSn + 1) (regInstsAsIs s.insts k) }, .ok, [])
  else
    ((addChange { s with lastSn := s.lastSn + 1, insts := pushSample k (s.lastSn + 1) (regInstsAsIs s.insts k) }
        { sn := s.lastSn + 1, key := k, val := v, ts := ts } now).1, .ok,
     (addChange { s with lastSn := s.lastSn + 1, insts := pushSample k (s.lastSn + 1) (regInstsAsIs s.insts k) }
        { sn := s.lastSn + 1, key := k, val := v, ts := ts } now).2)

/-- the oldest sample of the instance when the instance holds exactly `depth` samples (writer_methods.rs:358-368) -/
def fullFront (s : St) (k : Nat) : Option Nat :=
  match s.qos.depth with
  | none => none
  | some d =>
    match findInst k s.insts with
    | none => none
    | some i => if i.samples.length = d then i.samples.head? else none

/-- pop the oldest sample of the instance and remove it from the RTPS history (:395-405 / :661-673) -/
def evict (s : St) (k sn : Nat) : St :=
  { s with insts := popFront k s.insts, changes := removeChange sn s.changes }

/-- the result of DataWriterEntity::write_w_timestamp goes to the reply channel -/
def entOut (r : St × Reply × List Dgram) (ev : List Nat) : St × Out :=
  (r.1, { dgrams := r.2.2, reply := some r.2.1, evicted := ev })

/-- `expiration_time` of a write that has to wait (:382-385) -/
def expirationOf (q : Qos) (now : Int) : Option Int :=
  match q.maxBlocking with
  | some t => some (now + t)
  | none => none

/-- DataWriterEntity::has_room_for_instance (repair D81): the instance is registered or can be (re-)registered -/
def roomFor (s : St) (k : Nat) : Bool := isReg s.insts k || ltLen (regCount s.insts) s.qos.maxInstances

/-- KEEP_LAST replacement + entity write, as both call sites do it since the repair of D81 (fixes/D81.patch): a
    write that DataWriterEntity would refuse for max_instances is refused BEFORE the oldest sample is evicted -/
def evictWrite (s : St) (k : Nat) (v : Int) (ts now : Int) (sn : Nat) : St × Out :=
  if !(roomFor s k) then (s, { dgrams := [], reply := some .outOfResources, evicted := [] })
  else entOut (entWrite (evict s k sn) k v ts now) [sn]

/-- DcpsDomainParticipant::write_w_timestamp (writer_methods.rs) for an enabled writer -/
def methodWrite (s : St) (k : Nat) (v : Int) (ts now : Int) : St × Out :=
  match fullFront s k with
  | some sn =>
    if s.qos.reliable && !(isAcked s sn) then
      if s.pending.isSome then (s, { dgrams := [], reply := some .error, evicted := [] })
      else ({ s with pending := some { key := k, val := v, ts := ts, expiration := expirationOf s.qos now } }, Out.none)
    else evictWrite s k v ts now sn
  | none => entOut (entWrite s k v ts now) []

/-- the same call BEFORE the repair of D81: the oldest sample is evicted first, the limits are checked afterwards
    (regression witness C19_writer_refused_write_evicts_counterexample; not used by the driver) -/
def methodWriteOld (s : St) (k : Nat) (v : Int) (ts now : Int) : St × Out :=
  match fullFront s k with
  | some sn =>
    if s.qos.reliable && !(isAcked s sn) then
      if s.pending.isSome then (s, { dgrams := [], reply := some .error, evicted := [] })
      else ({ s with pending := some { key := k, val := v, ts := ts, expiration := expirationOf s.qos now } }, Out.none)
    else entOut (entWrite (evict s k sn) k v ts now) [sn]
  | none => entOut (entWrite s k v ts now) []

/-- `can_write` of process_pending_write_samples (:619-645) -/
def canWrite (s : St) (k : Nat) : Bool :=
  match fullFront s k with
  | some sn => !s.qos.reliable || isAcked s sn
  | none => true

/-- process_pending_write_samples (writer_methods.rs) for this writer. (The code tests has_room_for_instance before it
    looks whether the instance is full; when it is not full the entity write refuses with the same effect.) -/
def processPending (s : St) (now : Int) : St × Out :=
  match s.pending with
  | none => (s, Out.none)
  | some p =>
    if canWrite s p.key then
      match fullFront s p.key with
      | some sn => evictWrite { s with pending := none } p.key p.val p.ts now sn
      | none => entOut (entWrite { s with pending := none } p.key p.val p.ts now) []
    else (s, Out.none)

/-- check_pending_writer_sample_timeout (writer_methods.rs:695-708) -/
def checkTimeout (s : St) (now : Int) : St × Option Reply :=
  match s.pending with
  | none => (s, none)
  | some p =>
    match p.expiration with
    | none => (s, none)
    | some e => if now ≥ e then ({ s with pending := none }, some .timeout) else (s, none)

def freshAt (l now : Int) (c : Change) : Bool := decide (c.ts + l > now)

/-- remove_stale_writer_samples (discovery_methods.rs:465-479) -/
def removeStale (s : St) (now : Int) : St :=
  match s.qos.lifespan with
  | none => s
  | some l => { s with changes := s.changes.filter (freshAt l now) }

/-- poke (communication_methods.rs:687): write_message of the writer -/
def poke (s : St) (now : Int) : St × List Dgram :=
  ({ s with proxies := (writeMessageAll s.changes now s.proxies).1 }, (writeMessageAll s.changes now s.proxies).2)

def pickReply (a b : Option Reply) : Option Reply :=
  match a with
  | some r => some r
  | none => b

/-- check_pending_writer_sample_timeout; process_pending_write_samples; poke -/
def tickRest (s : St) (now : Int) : St × Out :=
  ((poke (processPending (checkTimeout s now).1 now).1 now).1,
   { dgrams := (processPending (checkTimeout s now).1 now).2.dgrams ++ (poke (processPending (checkTimeout s now).1 now).1 now).2,
     reply := pickReply (checkTimeout s now).2 (processPending (checkTimeout s now).1 now).2.reply,
     evicted := (processPending (checkTimeout s now).1 now).2.evicted })

/-- what one worker iteration does to this writer AFTER the mail (domain_participant_factory.rs:347-356):
    remove_stale_writer_samples; check_pending_writer_sample_timeout; process_pending_write_samples; poke -/
def tick (s : St) (now : Int) : St × Out := tickRest (removeStale s now) now

def addRequested (req : List Nat) : List Nat → List Nat
  | [] => req
  | x :: xs => addRequested (if req.contains x then req else req ++ [x]) xs

/-- on_acknack_submessage_received for one proxy (stateful_writer.rs:143-168) -/
def ackProxy (cs : List Change) (now : Int) (base : Nat) (set : List Nat) (count : Nat) (p : Proxy) : Proxy × List Dgram :=
  if p.reliable && decide (count > p.lastAckCount) then
    let acked := base - 1
    let p1 := { p with highestAcked := (if acked > p.highestAcked then acked else p.highestAcked),
                       requested := addRequested p.requested set, lastAckCount := count }
    writeMessageReliable cs now p1
  else (p, [])

/-- `.find(|x| x.remote_reader_guid() == reader_guid)`: the first proxy with that id -/
def ackProxies (cs : List Change) (now : Int) (rid base : Nat) (set : List Nat) (count : Nat) :
    List Proxy → List Proxy × List Dgram
  | [] => ([], [])
  | p :: ps =>
    if p.id = rid then
      let (p', d) := ackProxy cs now base set count p
      (p' :: ps, d)
    else
      let (ps', d) := ackProxies cs now rid base set count ps
      (p :: ps', d)

/-- the ACKNACK arm of the message handler (communication_methods.rs:453-497): the RTPS writer handles the
    submessage, then process_pending_write_samples runs -/
def onAcknack (s : St) (rid base : Nat) (set : List Nat) (count : Nat) (now : Int) : St × Out :=
  ((processPending { s with proxies := (ackProxies s.changes now rid base set count s.proxies).1 } now).1,
   { dgrams := (ackProxies s.changes now rid base set count s.proxies).2
               ++ (processPending { s with proxies := (ackProxies s.changes now rid base set count s.proxies).1 } now).2.dgrams,
     reply := (processPending { s with proxies := (ackProxies s.changes now rid base set count s.proxies).1 } now).2.reply,
     evicted := (processPending { s with proxies := (ackProxies s.changes now rid base set count s.proxies).1 } now).2.evicted })

def proxyIdNe (rid : Nat) (p : Proxy) : Bool := decide (p.id ≠ rid)
def proxyIdEq (rid : Nat) (p : Proxy) : Bool := decide (p.id = rid)

def replaceProxy (np : Proxy) : List Proxy → List Proxy
  | [] => []
  | p :: ps => if p.id = np.id then np :: ps else p :: replaceProxy np ps

/-- RtpsReaderProxy::new as called by add_matched_reader -/
def newProxy (rid : Nat) (reliable : Bool) (firstRelevant : Nat) : Proxy :=
  { id := rid, reliable := reliable, highestSent := 0, highestAcked := 0, requested := [],
    firstRelevant := firstRelevant, lastHb := HB_TIME0, hbCount := 0, lastAckCount := 0 }

/-- add_matched_reader (stateful_writer.rs:74-106): a VOLATILE reader starts after the newest stored change;
    a reader that is already matched keeps its protocol state (repair eab7967 / D43) -/
def matchReader (s : St) (rid : Nat) (reliable transientLocal : Bool) : St :=
  { s with proxies :=
      if s.proxies.any (proxyIdEq rid) then s.proxies
      else s.proxies ++ [newProxy rid reliable (if transientLocal then 0 else hbLast s.changes)] }

/-- lookup_instance (writer_methods.rs): `is_registered` -/
def lookup (s : St) (k : Nat) : Bool := isReg s.insts k

/-- clear the flag of the first entry with that handle -/
def clearReg (k : Nat) : List Inst → List Inst
  | [] => []
  | i :: is => if i.key = k then { i with registered := false } :: is else i :: clearReg k is

/-- unregister_instance (data_writer_entity.rs unregister_w_timestamp) for a keyed topic and an enabled writer:
    an unknown / already unregistered instance answers BadParameter (`false`); otherwise the flag is cleared - the
    entry and its sample deque stay - and a key-only NOT_ALIVE change with the next sequence number is added to the
    RTPS history and sent -/
def unregisterW (s : St) (k : Nat) (ts now : Int) : St × Bool × List Dgram :=
  if isReg s.insts k then
    ((addChange { s with insts := clearReg k s.insts, lastSn := s.lastSn + 1 }
        { sn := s.lastSn + 1, key := k, val := 0, ts := ts, alive := false } now).1, true,
     (addChange { s with insts := clearReg k s.insts, lastSn := s.lastSn + 1 }
        { sn := s.lastSn + 1, key := k, val := 0, ts := ts, alive := false } now).2)
  else (s, false, [])

/-- remove_stale_writer_samples of the PARTICIPANT (discovery_methods.rs:465): every user writer of every publisher,
    whatever the lifespan of the writers before it -/
def purgeWriters (ws : List St) (now : Int) : List St := ws.map (fun w => removeStale w now)

-- ------------------------------------------------------------------------------------------- event interface

/-- what can happen to the writer; every event carries the clock value the code reads while handling it -/
inductive Ev
  | write (k : Nat) (v : Int) (ts now : Int)                        -- a `write_w_timestamp` mail
  | acknack (rid base : Nat) (set : List Nat) (count : Nat) (now : Int)  -- a datagram with an ACKNACK
  | tick (now : Int)                                                -- the per-iteration part of the worker loop
  | matchReader (rid : Nat) (reliable transientLocal : Bool)        -- discovery matched a reader
  | unregister (k : Nat) (ts now : Int)                             -- an `unregister_instance_w_timestamp` mail
deriving Repr

def Ev.now : Ev → Option Int
  | .write _ _ _ n => some n
  | .acknack _ _ _ _ n => some n
  | .tick n => some n
  | .matchReader _ _ _ => none
  | .unregister _ _ n => some n

/-- one event, as the worker of /repo main handles it: remove_stale_writer_samples runs BEFORE a mail is handled
    (domain_participant_factory.rs, repair 5f97ba4 / D34), then the handler; a worker iteration is `tick` -/
def step (s : St) : Ev → St × Out
  | .write k v ts now => methodWrite (removeStale s now) k v ts now
  | .acknack rid base set count now => onAcknack (removeStale s now) rid base set count now
  | .tick now => tick s now
  | .matchReader rid rel tl => (matchReader s rid rel tl, Out.none)
  | .unregister k ts now =>
    ((unregisterW (removeStale s now) k ts now).1,
     { dgrams := (unregisterW (removeStale s now) k ts now).2.2, reply := none, evicted := [] })

/-- the same event handled by the worker BEFORE the repair of D34 (pinned commit): the mail is handled on the
    history as it is, the purge only comes with the per-iteration part. Regression witness only. -/
def stepAsIs (s : St) : Ev → St × Out
  | .write k v ts now => methodWrite s k v ts now
  | .acknack rid base set count now => onAcknack s rid base set count now
  | .tick now => tick s now
  | .matchReader rid rel tl => (matchReader s rid rel tl, Out.none)
  | .unregister k ts now =>
    ((unregisterW s k ts now).1, { dgrams := (unregisterW s k ts now).2.2, reply := none, evicted := [] })

def run (s : St) : List Ev → St
  | [] => s
  | e :: es => run (step s e).1 es

/-- the outputs of a run, one per event -/
def outs (s : St) : List Ev → List Out
  | [] => []
  | e :: es => (step s e).2 :: outs (step s e).1 es

def subData : Sub → Option Change
  | .data c => some c
  | _ => none

/-- the DATA submessages of a list of datagrams -/
def dataOf : List Dgram → List Change
  | [] => []
  | d :: ds => d.subs.filterMap subData ++ dataOf ds

end DustVerif.Wrt
