import DustVerif.Model.MatchSet
import DustVerif.Model.Partition
/-
World around the per-endpoint bookkeeping of Model/MatchSet.lean: which `Step`s the endpoints of 2-3 participants of one
domain see when user entities are created, changed and deleted, when a participant is deleted, and when a participant falls
silent and its lease expires. It is what the `matchset` driver uses to predict the answers of the `dsim` scenario ops.
The endpoint states are changed ONLY through `MatchSet.step`, so every endpoint state of every reachable world is
`MatchSet.run side St.init ops` for some step list `ops` — the object the C16 theorems quantify over.

Transcribed behaviour (repo paths under dds/src/):
  * dds_async/domain_participant_factory.rs:320-341 — every worker iteration runs, per participant,
    process_builtin_*_detector_cache_change (announcements in), process_discovered_readers / _writers over the WHOLE
    discovered_reader_list / discovered_writer_list (`iterate`), then remove_stale_participants (`expire`);
  * dcps/dcps_domain_participant/participant_entity.rs:428-449 add_discovered_reader/_writer replace in place or push;
  * discovery_methods.rs:1968-1987, :2092-2109 an endpoint deletion removes the entry from the discovered list and calls
    remove_discovered_writer/_reader for every local reader/writer;
  * discovery_methods.rs:817-831 the locators of a new proxy come from the discovered participant entry — an endpoint whose
    participant is not (any more) in discovered_participant_list gets an EMPTY locator list;
  * discovery_methods.rs remove_discovered_participant (repaired, fixes/D23.patch) takes the participant's endpoints out of
    discovered_reader_list / discovered_writer_list and un-matches them like deleted endpoints;
  * a participant receives its own SPDP/SEDP traffic through the network (loopback), so it is a member of its own
    discovered-participant list and loses ITSELF when its outgoing traffic is cut.
Network abstraction: announcements of S reach X iff S's outgoing traffic is not cut and S and X know each other.
Lease: 100 s (discovery_methods.rs:138), SPDP period 5 s (dds_async/configuration.rs:29): a participant cut at time t is
removed by everybody not before t + 94 s and not after t + 101 s; inside that window the model refuses to answer.
Import-free (core + Model/MatchSet).
-/
namespace DustVerif.MatchWorld
open DustVerif.MatchSet

/-- the part of DataWriterQos / DataReaderQos the scenarios vary -/
structure EpQos where
  reliable : Bool
  /-- none = infinite -/
  deadline : Option Nat
  userData : Nat
deriving DecidableEq, Repr

/-- offered ≤ requested, infinite on top -/
def dlLe : Option Nat → Option Nat → Bool
  | _, none => true
  | none, some _ => false
  | some a, some b => decide (a ≤ b)

/-- RxO compatibility restricted to the varied policies (C15: reliability kind, deadline period) -/
def rxo (w r : EpQos) : Bool := (w.reliable || !r.reliable) && dlLe w.deadline r.deadline

/-- injective code of the announced record (everything else in it is constant for a given endpoint) -/
def revOf (q : EpQos) : Nat :=
  (match q.deadline with
    | none => 0
    | some d => d + 1) + 2 ^ 70 * (2 * q.userData + (if q.reliable then 1 else 0))

/-- entry of discovered_reader_list / discovered_writer_list -/
structure Disc where
  key : Key
  topic : String
  qos : EpQos
  /-- PartitionQosPolicy of the publisher / subscriber the endpoint belongs to (constant in the scenarios) -/
  partition : List Partition.Name
deriving DecidableEq, Repr

structure LogEntry where
  owner : String
  isWriter : Bool
  t : Nat
  src : Key
  status : Status
deriving Repr

structure Ep where
  name : String
  isWriter : Bool
  part : Nat
  key : Key
  topic : String
  qos : EpQos
  partition : List Partition.Name
  listener : Bool
  alive : Bool
  st : St
deriving Repr

structure Part where
  alive : Bool
  /-- virtual time at which all outgoing traffic of the participant started to be dropped -/
  cutAt : Option Nat
  /-- discovered_participant_list (indices; contains the participant itself) -/
  known : List Nat
  dReaders : List Disc
  dWriters : List Disc
  pubCount : Nat
  subCount : Nat
  topicCount : Nat
  wCount : Nat
  rCount : Nat
deriving Repr

structure World where
  now : Nat
  parts : List Part
  eps : List Ep
  log : List LogEntry
  /-- destinations (participant, writer entity id, port) of the user DATA sent since `trace on` / the last `trace show` -/
  sent : List (Nat × Nat × Nat)
deriving Repr

def World.init : World :=
  { now := 0
    parts := []
    eps := []
    log := []
    sent := [] }

def sideOf (e : Ep) : Side := if e.isWriter then .writer else .reader

def getPart (w : World) (i : Nat) : Option Part := w.parts[i]?

def setPart (w : World) (i : Nat) (p : Part) : World := { w with parts := w.parts.set i p }

/-- default unicast user-traffic port of participant `i` in domain 0 (harness/src/dsim.rs: 7400 + 11 + 2 i) -/
def portOf (i : Nat) : Nat := 7411 + 2 * i

def locFor (x : Part) (k : Key) : Nat := if x.known.contains k.pfx then portOf k.pfx else 0

/-- do announcements of participant `s` reach participant `x`? -/
def delivers (w : World) (s x : Nat) : Bool :=
  match getPart w s, getPart w x with
  | some ps, some px => ps.alive && px.alive && ps.cutAt.isNone && px.known.contains s && ps.known.contains x
  | _, _ => false

def discHasKey (k : Key) (d : Disc) : Bool := d.key == k
def discNotKey (k : Key) (d : Disc) : Bool := !(d.key == k)
def discNotPfx (p : Nat) (d : Disc) : Bool := !(d.key.pfx == p)

def replaceDisc (d : Disc) : List Disc → List Disc
  | [] => []
  | x :: xs => if x.key == d.key then d :: xs else x :: replaceDisc d xs

def upsertDisc (d : Disc) (l : List Disc) : List Disc :=
  if l.any (discHasKey d.key) then replaceDisc d l else l ++ [d]

/-- one discovered endpoint `d` seen by the local endpoint `e` of participant `x` in one worker iteration -/
def discoverEp (now : Nat) (x : Part) (e : Ep) (d : Disc) : Ep × List LogEntry :=
  if d.topic != e.topic then (e, [])
  else if !(if e.isWriter then Partition.writerSideMatch e.partition d.partition
            else Partition.readerSideMatch d.partition e.partition) then (e, [])   -- `if is_partition_matched`, each side its own copy
  else
    let a : Ann := ⟨d.key, revOf d.qos⟩
    let compat := if e.isWriter then rxo e.qos d.qos else rxo d.qos e.qos
    let st1 := step (sideOf e) e.st (.discover a compat (locFor x d.key))
    if discoverNotifies e.st a compat && e.listener then
      ({ e with st := step (sideOf e) st1 .read }, [⟨e.name, e.isWriter, now, e.key, (readStatus st1).2⟩])
    else ({ e with st := st1 }, [])

def discoverAll (now : Nat) (x : Part) : Ep → List Disc → Ep × List LogEntry
  | e, [] => (e, [])
  | e, d :: ds =>
    let (e1, l1) := discoverEp now x e d
    let (e2, l2) := discoverAll now x e1 ds
    (e2, l1 ++ l2)

def iterateEps (w : World) : List Ep → List Ep × List LogEntry
  | [] => ([], [])
  | e :: es =>
    let (es', ls) := iterateEps w es
    match (if e.alive then getPart w e.part else none) with
    | some x =>
      if x.alive then
        let (e', l) := discoverAll w.now x e (if e.isWriter then x.dReaders else x.dWriters)
        (e' :: es', l ++ ls)
      else (e :: es', ls)
    | none => (e :: es', ls)

/-- one worker iteration of every participant: process_discovered_readers + process_discovered_writers -/
def iterate (w : World) : World :=
  let (es, ls) := iterateEps w w.eps
  { w with eps := es, log := w.log ++ ls }

/-- participant `s` announces (or re-announces) its endpoint -/
def announceTo (isWriter : Bool) (d : Disc) (p : Part) : Part :=
  if isWriter then { p with dWriters := upsertDisc d p.dWriters } else { p with dReaders := upsertDisc d p.dReaders }

def announceParts (w : World) (s : Nat) (isWriter : Bool) (d : Disc) : List Part → Nat → List Part
  | [], _ => []
  | p :: ps, i => (if delivers w s i then announceTo isWriter d p else p) :: announceParts w s isWriter d ps (i + 1)

def announce (w : World) (s : Nat) (isWriter : Bool) (d : Disc) : World :=
  { w with parts := announceParts w s isWriter d w.parts 0 }

def retractFrom (isWriter : Bool) (k : Key) (p : Part) : Part :=
  if isWriter then { p with dWriters := p.dWriters.filter (discNotKey k) }
  else { p with dReaders := p.dReaders.filter (discNotKey k) }

def retractParts (w : World) (s : Nat) (isWriter : Bool) (k : Key) : List Part → Nat → List Part
  | [], _ => []
  | p :: ps, i => (if delivers w s i then retractFrom isWriter k p else p) :: retractParts w s isWriter k ps (i + 1)

/-- the deletion of endpoint `k` (a writer iff `isWriter`) of participant `s` reaches the participants it is delivered
    to: the entry leaves their discovered list and every local endpoint of the opposite kind runs remove_discovered_* -/
def undiscoverEp (w : World) (s : Nat) (isWriter : Bool) (k : Key) (e : Ep) : Ep :=
  if e.alive && (e.isWriter != isWriter) && delivers w s e.part then { e with st := step (sideOf e) e.st (.undiscover k) } else e

def retract (w : World) (s : Nat) (isWriter : Bool) (k : Key) : World :=
  { w with parts := retractParts w s isWriter k w.parts 0
           eps := w.eps.map (undiscoverEp w s isWriter k) }

/-- entity id of a user endpoint: [group byte, counter lo, counter hi, kind] (publisher_methods.rs:63, subscriber_methods.rs:97) -/
def entId (groupByte counter kind : Nat) : Nat :=
  groupByte % 256 * 2 ^ 24 + counter % 256 * 2 ^ 16 + counter / 256 % 256 * 2 ^ 8 + kind

def findEp (w : World) (name : String) : Option Ep := w.eps.find? (fun e => e.name == name)

def setEp (w : World) (e : Ep) : World :=
  { w with eps := w.eps.map (fun x => if x.name == e.name then e else x) }

/-- create_datawriter / create_datareader (+ enable, announce) followed by the worker iteration -/
def createEp (w : World) (name : String) (isWriter : Bool) (part groupByte : Nat) (topic : String) (qos : EpQos)
    (partition : List Partition.Name) (listener : Bool) : Option (World × Key) :=
  match getPart w part with
  | none => none
  | some p =>
    if !p.alive then none
    else
      let key : Key := if isWriter then ⟨part, entId groupByte p.wCount 2⟩ else ⟨part, entId groupByte p.rCount 7⟩
      let p' := if isWriter then { p with wCount := p.wCount + 1 } else { p with rCount := p.rCount + 1 }
      let e : Ep := { name := name, isWriter := isWriter, part := part, key := key, topic := topic, qos := qos,
                      partition := partition, listener := listener, alive := true, st := St.init }
      let w1 := { setPart w part p' with eps := w.eps ++ [e] }
      let w2 := announce w1 part isWriter ⟨key, topic, qos, partition⟩
      some (iterate w2, key)

/-- set_qos of a writer / reader: the endpoint is announced again -/
def setQos (w : World) (e : Ep) (qos : EpQos) : World :=
  let w1 := setEp w { e with qos := qos }
  iterate (announce w1 e.part e.isWriter ⟨e.key, e.topic, qos, e.partition⟩)

/-- delete_datawriter / delete_datareader -/
def deleteEp (w : World) (e : Ep) : World :=
  let w1 := setEp w { e with alive := false }
  iterate (retract w1 e.part e.isWriter e.key)

def deleteEps (w : World) : List Ep → World
  | [] => w
  | e :: es => deleteEps (if e.alive then deleteEp w e else w) es

/-- delete_contained_entities: writers first, then readers (participant_methods.rs:512-532) -/
def deleteContained (w : World) (part : Nat) : World :=
  let mine := w.eps.filter (fun e => e.part == part && e.alive)
  deleteEps w (mine.filter (fun e => e.isWriter) ++ mine.filter (fun e => !e.isWriter))

/-- participant `x` removes participant `y` from its discovered-participant list: remove_discovered_participant
    (the endpoints of `y` leave the discovered lists of `x`, every local endpoint makes the `gone` step) -/
def goneEp (x y : Nat) (e : Ep) : Ep :=
  if e.alive && e.part == x then { e with st := step (sideOf e) e.st (.gone y) } else e

def forget (w : World) (x y : Nat) : World :=
  match getPart w x with
  | none => w
  | some px =>
    if px.alive && px.known.contains y then
      { setPart w x { px with known := px.known.filter (fun i => !(i == y))
                              dReaders := px.dReaders.filter (discNotPfx y)
                              dWriters := px.dWriters.filter (discNotPfx y) } with eps := (w.eps.map (goneEp x y)) }
    else w

def forgetAll (w : World) (y : Nat) : List Nat → World
  | [] => w
  | x :: xs => forgetAll (forget w x y) y xs

def allIdx (w : World) : List Nat := List.range w.parts.length

/-- create_participant + enable: SPDP is multicast, so every live participant (the new one included) hears the new one;
    the new one hears the answers of those whose traffic is not cut; then those send it their SEDP data -/
def sedpOf (w : World) (y : Nat) : List (Bool × Disc) :=
  (w.eps.filter (fun e => e.alive && e.part == y)).map (fun e => (e.isWriter, ⟨e.key, e.topic, e.qos, e.partition⟩))

def addKnown (n : Nat) (p : Part) : Part := if p.alive && !p.known.contains n then { p with known := p.known ++ [n] } else p

def createPart (w : World) : World × Nat :=
  let n := w.parts.length
  let heard := (allIdx w).filter (fun y => match getPart w y with
    | some p => p.alive && p.cutAt.isNone
    | none => false)
  let fresh : Part := { alive := true, cutAt := none, known := heard ++ [n], dReaders := [], dWriters := [], pubCount := 0,
                        subCount := 0, topicCount := 0, wCount := 0, rCount := 0 }
  let w1 := { w with parts := w.parts.map (addKnown n) ++ [fresh] }
  let anns := heard.flatMap (fun y => if delivers w1 y n then sedpOf w1 y else [])
  let fresh' := anns.foldl (fun p a => announceTo a.1 a.2 p) fresh
  (setPart w1 n fresh', n)

/-- delete_participant (after delete_contained_entities): the SPDP dispose is multicast -/
def deletePart (w : World) (y : Nat) : World :=
  match getPart w y with
  | none => w
  | some py =>
    let w1 := setPart w y { py with alive := false }
    if py.cutAt.isNone then iterate (forgetAll w1 y (allIdx w1)) else w1

def hasAliveEps (w : World) (y : Nat) : Bool := w.eps.any (fun e => e.alive && e.part == y)

/-- `drop-if from=<participant>`: everything the participant sends from now on is lost -/
def cut (w : World) (y : Nat) : World :=
  match getPart w y with
  | none => w
  | some py => if py.cutAt.isSome then w else setPart w y { py with cutAt := some w.now }

def leaseLo : Nat := 94000000000
def leaseHi : Nat := 101000000000

/-- silent participants whose removal time is not determined at `now` -/
def ambiguous (w : World) : Bool :=
  w.parts.any (fun p => match p.cutAt with
    | some t => decide (leaseLo < w.now - t) && decide (w.now - t < leaseHi)
    | none => false)

def expiredIdx (w : World) : List Nat :=
  (allIdx w).filter (fun y => match getPart w y with
    | some p => (match p.cutAt with
      | some t => decide (leaseHi ≤ w.now - t)
      | none => false)
    | none => false)

def expireList (w : World) : List Nat → World
  | [] => w
  | y :: ys => expireList (forgetAll w y (allIdx w)) ys

/-- `advance d`: remove_stale_participants for every silent participant whose lease is over, then the next iteration -/
def advance (w : World) (d : Nat) : World :=
  let w1 := { w with now := w.now + d }
  iterate (expireList w1 (expiredIdx w1))

def proxyDest (part ent : Nat) (p : Proxy) : Nat × Nat × Nat := (part, ent, p.loc)

/-- `write`: RtpsStatefulWriter::write_message sends the new change to every reader proxy -/
def write (w : World) (e : Ep) : World :=
  { w with sent := w.sent ++ e.st.proxies.map (proxyDest e.part e.key.ent) }

/-- the status getter of an endpoint -/
def readEp (w : World) (e : Ep) : World × Status :=
  (setEp w { e with st := step (sideOf e) e.st .read }, (readStatus e.st).2)

/-- everything the `matchset` driver does to a world -/
inductive WOp
  | createPart
  | createEp (name : String) (isWriter : Bool) (part groupByte : Nat) (topic : String) (qos : EpQos)
      (partition : List Partition.Name) (listener : Bool)
  | setQos (name : String) (qos : EpQos)
  | deleteEp (name : String)
  | deleteContained (part : Nat)
  | deletePart (part : Nat)
  | cut (part : Nat)
  | advance (d : Nat)
  | write (name : String)
  | read (name : String)

def applyOp (w : World) : WOp → World
  | .createPart => (createPart w).1
  | .createEp n iw p g t q pa l =>
    match createEp w n iw p g t q pa l with
    | some r => r.1
    | none => w
  | .setQos n q =>
    match findEp w n with
    | some e => setQos w e q
    | none => w
  | .deleteEp n =>
    match findEp w n with
    | some e => deleteEp w e
    | none => w
  | .deleteContained p => deleteContained w p
  | .deletePart p => deletePart w p
  | .cut p => cut w p
  | .advance d => advance w d
  | .write n =>
    match findEp w n with
    | some e => write w e
    | none => w
  | .read n =>
    match findEp w n with
    | some e => (readEp w e).1
    | none => w

def runOps (w : World) : List WOp → World
  | [] => w
  | x :: xs => runOps (applyOp w x) xs

end DustVerif.MatchWorld
