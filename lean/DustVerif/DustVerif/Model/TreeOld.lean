import DustVerif.Model.Tree
/-! The operations as they were BEFORE fixes/D40.patch, fixes/D-tree-1.patch, fixes/D-tree-2.patch, fixes/D33.patch, fixes/D33b.patch
    (regression witnesses only: the `…_counterexample` theorems of C35 / C36 and the as-is replays run on these).
    * D40: every counter is incremented unchecked — the debug profile panics at the rail, the release profile wraps;
    * D-tree-1: `delete_contentfilteredtopic` does nothing, `delete_contained_entities` keeps the content-filtered topics;
    * D-tree-2: `delete_topic` does not see content-filtered topics;
    * D33 / D33b: `wopOld` (unregister never forgets, keyless lookup not refused). -/
namespace DustVerif.Tree

/-- dcps_participant_factory.rs:40 + domain_participant_factory.rs:374 (`fetch_add` wraps, never panics) -/
def createPartOld (s : St) (auto : Bool) : St × Res :=
  let uid := s.nextPart
  ({ s with nextPart := s.nextPart + 1
            parts := s.parts ++ [{ uid := uid, enabled := s.autoenable, autoenable := auto }] },
   .handle (partHandle uid))

/-- participant_methods.rs:40 -/
def createPubOld (s : St) (ph : Nat) (auto : Bool) : St × Res :=
  match findPart s ph with
  | none => (s, .err .alreadyDeleted)                         -- dcps_mail_handler.rs:73
  | some p =>
    let n := s.pubEver p.uid
    if s.profile == .debug && overflows n U8 then die s        -- participant_methods.rs:70 `publisher_counter += 1`
    else
      let x : Pub := { part := p.uid, uid := n, enabled := p.enabled && p.autoenable, autoenable := auto }
      ({ s with pubEver := setTo s.pubEver p.uid (n + 1), pubs := s.pubs ++ [x] }, .handle (pubHandle x))

/-- participant_methods.rs:131 -/
def createSubOld (s : St) (ph : Nat) (auto : Bool) : St × Res :=
  match findPart s ph with
  | none => (s, .err .alreadyDeleted)
  | some p =>
    let n := s.subEver p.uid
    if s.profile == .debug && overflows n U8 then die s        -- :160 `subscriber_counter += 1`
    else
      let x : Sub := { part := p.uid, uid := n, enabled := p.enabled && p.autoenable, autoenable := auto }
      ({ s with subEver := setTo s.subEver p.uid (n + 1), subs := s.subs ++ [x] }, .handle (subHandle x))

/-- participant_methods.rs:222 -/
def createTopicOld (s : St) (ph : Nat) (name : String) (keyed : Bool) : St × Res :=
  match findPart s ph with
  | none => (s, .err .alreadyDeleted)
  | some p =>
    if isBuiltinName name then (s, .err .badParameter)          -- :232
    else if s.topics.any (isTopicN p.uid name) then (s, .err .preconditionNotMet)  -- :236
    else
      let n := s.topicEver p.uid
      if s.profile == .debug && overflows n U16 then die s      -- :272 `topic_counter += 1`
      else
        let x : Topic := { part := p.uid, uid := n, name := name, keyed := keyed,
                           enabled := p.enabled && p.autoenable }   -- :289 enable_topic
        ({ s with topicEver := setTo s.topicEver p.uid (n + 1), topics := s.topics ++ [x] }, .handle (topicHandle x))

/-- domain_participant.rs:205 (the two handles of the mail), participant_methods.rs:303 -/
def deleteTopicOld (s : St) (via : Nat) (r : TopicRef) : St × Res :=
  match findPart s r.ph with                                    -- mail goes to the TOPIC's participant
  | none => (s, .err .alreadyDeleted)
  | some p =>
    if via != p.uid % U32 then (s, .err .preconditionNotMet)   -- :308
    else if isBuiltinName r.name then (s, .ok)                 -- :314
    else match findTopic s p.uid r.name with
      | none => (s, .err .alreadyDeleted)                      -- :324
      | some _ =>
        if s.writers.any (writerUsesTopic p.uid r.name) then (s, .err .preconditionNotMet)       -- :327
        else if s.readers.any (readerUsesTopic p.uid r.name) then (s, .err .preconditionNotMet)  -- :337
        else ({ s with topics := s.topics.filter (notTopicN p.uid r.name) }, .ok)                -- :347 retain

/-- participant_methods.rs:355; the mail goes to the related topic's participant (domain_participant.rs:236) -/
def createCftOld (s : St) (r : TopicRef) (name : String) : St × Res :=
  match findPart s r.ph with
  | none => (s, .err .alreadyDeleted)
  | some p =>
    if !(s.topics.any (isTopicN p.uid r.name)) then (s, .err .preconditionNotMet)   -- :363
    else
      let n := s.topicEver p.uid
      if s.profile == .debug && overflows n U16 then die s      -- :392
      else ({ s with topicEver := setTo s.topicEver p.uid (n + 1)
                     cfts := s.cfts ++ [{ part := p.uid, name := name, related := r.name }] }, .ok)

/-- participant_methods.rs:408: does nothing -/
def deleteCftOld (s : St) (ph : Nat) (_name : String) : St × Res :=
  match findPart s ph with
  | none => (s, .err .alreadyDeleted)
  | some _ => (s, .ok)

/-- publisher_methods.rs:29 -/
def createWriterOld (s : St) (r : GroupRef) (topic : String) (maxInst : Option Nat) (consistent : Bool) : St × Res :=
  match findPart s r.ph with
  | none => (s, .err .alreadyDeleted)
  | some p =>
    match findTopic s p.uid topic with
    | none => (s, .err .alreadyDeleted)                        -- :44
    | some t =>
      match findPub s p.uid r.b with
      | none => (s, .err .alreadyDeleted)                      -- :55
      | some x =>
        let n := s.wEver p.uid
        if s.profile == .debug && overflows n U16 then die s    -- :90 `writer_counter += 1`
        else
          let s1 := { s with wEver := setTo s.wEver p.uid (n + 1) }
          if !consistent then (s1, .err .inconsistentPolicy)   -- :98 AFTER the counter moved
          else
            let w : Writer := { part := p.uid, pub := x.uid, uid := n, keyed := t.keyed, topic := topic,
                                enabled := x.enabled && x.autoenable,         -- :120
                                maxInst := maxInst, registered := [] }
            ({ s1 with writers := s1.writers ++ [w] }, .handle (writerHandle w))

/-- subscriber_methods.rs:34 -/
def createReaderOld (s : St) (r : GroupRef) (topic : String) (consistent : Bool) : St × Res :=
  match findPart s r.ph with
  | none => (s, .err .alreadyDeleted)
  | some p =>
    -- :43 a content-filtered topic of that name is looked up first and resolved to its related topic
    let tname := match findCft s p.uid topic with
      | some c => c.related
      | none => topic
    match findTopic s p.uid tname with
    | none => (s, .err .alreadyDeleted)                        -- :55 / :65
    | some t =>
      match findSub s p.uid r.b with
      | none => (s, .err .alreadyDeleted)                      -- :78
      | some x =>
        if !consistent then (s, .err .inconsistentPolicy)      -- :87 BEFORE the counter moves
        else
          let n := s.rEver p.uid
          if s.profile == .debug && overflows n U16 then die s  -- :122 `reader_counter += 1`
          else
            let rd : Reader := { part := p.uid, sub := x.uid, uid := n, keyed := t.keyed, topic := topic,
                                 enabled := x.enabled && x.autoenable }        -- :146
            ({ s with rEver := setTo s.rEver p.uid (n + 1), readers := s.readers ++ [rd] }, .handle (readerHandle rd))

/-- participant_methods.rs:508: publishers+writers, subscribers+readers, user topics go; the
    content-filtered topics STAY (nothing ever removes one) -/
def deleteContainedOld (s : St) (ph : Nat) : St × Res :=
  match findPart s ph with
  | none => (s, .err .alreadyDeleted)
  | some p =>
    ({ s with pubs := s.pubs.filter (notPubOfPart p.uid)
              writers := s.writers.filter (notWriterOfPart p.uid)
              subs := s.subs.filter (notSubOfPart p.uid)
              readers := s.readers.filter (notReaderOfPart p.uid)
              topics := s.topics.filter (notTopicOfPart p.uid) }, .ok)

/-- one instance operation on a writer that was found, as the code was BEFORE fixes/D33.patch and fixes/D33b.patch:
    `unregister_instance` never forgets the instance, `lookup_instance` has no keyless check.
    Assumptions (stated in the property module): history/resource limits other than max_instances never
    refuse a write, no matched reliable reader withholds an acknowledgement. -/
def wopOld (w : Writer) (o : WOp) : Writer × Res :=
  match o with
  | .register k =>
    if !w.enabled then (w, .err .notEnabled)                    -- data_writer_entity.rs:226
    else if !w.keyed then (w, .err .illegalOperation)          -- :233
    else if w.registered.contains k then (w, .inst (some k))   -- :239 (only the time stamp changes)
    else if hasRoom w then ({ w with registered := w.registered ++ [k] }, .inst (some k))  -- :245
    else (w, .err .outOfResources)                             -- :252
  | .unregister k =>
    if !w.enabled then (w, .err .notEnabled)                    -- :266
    else if !w.keyed then (w, .err .illegalOperation)          -- :273
    else if w.registered.contains k then (w, .ok)              -- :278 the entry STAYS in the list (D33)
    else (w, .err .badParameter)                               -- :283
  | .dispose k =>
    if !w.enabled then (w, .err .notEnabled)                    -- :179
    else if !w.keyed then (w, .err .illegalOperation)          -- :186
    else if w.registered.contains k then (w, .ok)              -- :192
    else (w, .err .badParameter)                               -- :197
  | .lookup k =>
    if !w.enabled then (w, .err .notEnabled)                    -- writer_methods.rs:271
    -- no keyless check (D33); writer_methods.rs:290
    else if w.registered.contains (keyOfSample w k) then (w, .inst (some (keyOfSample w k)))
    else (w, .inst none)
  | .write k =>
    if !w.enabled then (w, .err .notEnabled)                    -- writer_methods.rs:327
    else if w.registered.contains (keyOfSample w k) then (w, .ok)     -- data_writer_entity.rs:79
    else if hasRoom w then ({ w with registered := w.registered ++ [keyOfSample w k] }, .ok)  -- :84
    else (w, .err .outOfResources)                             -- :91

/-- `instOp` with the pre-patch entity-level operation -/
def instOpOld (s : St) (w : EndRef) (o : WOp) : St × Res :=
  match resolveWriter s w with
  | none => (s, .err .alreadyDeleted)
  | some (p, x, wr) =>
    if needsTopic o && (findTopic s p.uid wr.topic).isNone then die s
    else
      ({ s with writers := updFirst (isWriterE p.uid x.uid w.ent) (constW (wopOld wr o).1) s.writers }, (wopOld wr o).2)

/-- the tree as patched, the writer instance calls as before fixes/D33, D33b (= `main` when D33 was open) -/
def stepInstOld (s : St) (op : Op) : St × Res :=
  match op with
  | .inst w o => instOpOld s w o
  | op => step s op

def stepOld (s : St) (op : Op) : St × Res :=
  match op with
  | .factoryQos a => ({ s with autoenable := a }, .ok)
  | .createPart a => createPartOld s a
  | .deletePart ph => deletePart s ph
  | .createPub ph a => createPubOld s ph a
  | .deletePub via r => deletePub s via r
  | .createSub ph a => createSubOld s ph a
  | .deleteSub via r => deleteSub s via r
  | .createTopic ph n k => createTopicOld s ph n k
  | .findTopic ph n k d => findTopicOp s ph n k d
  | .deleteTopic via r => deleteTopicOld s via r
  | .createCft r n _ => createCftOld s r n
  | .deleteCft ph n => deleteCftOld s ph n
  | .createWriter r t m c => createWriterOld s r t m c
  | .deleteWriter via w => deleteWriter s via w
  | .createReader r t c => createReaderOld s r t c
  | .deleteReader via w => deleteReader s via w
  | .deleteContained ph => deleteContainedOld s ph
  | .enablePart ph => enablePart s ph
  | .enableTopic r => enableTopic s r
  | .enableWriter w => enableWriter s w
  | .enableReader w => enableReader s w
  | .probePart ph => probe (findPart s ph).isSome s
  | .probePub r => probe (match findPart s r.ph with
      | some p => (findPub s p.uid r.b).isSome
      | none => false) s
  | .probeSub r => probe (match findPart s r.ph with
      | some p => (findSub s p.uid r.b).isSome
      | none => false) s
  | .probeTopic r => probe (match findPart s r.ph with
      | some p => (findTopic s p.uid r.name).isSome
      | none => false) s
  | .probeWriter w => probe (resolveWriter s w).isSome s
  | .probeReader w => probe (resolveReader s w).isSome s
  | .inst w o => instOpOld s w o

def stepDOld (s : St) (op : Op) : St × Res := if s.dead then (s, .panic) else stepOld s op

def runOld (s : St) : List Op → St
  | [] => s
  | op :: ops => runOld (stepDOld s op).1 ops

def outsOld (s : St) : List Op → List Res
  | [] => []
  | op :: ops => (stepDOld s op).2 :: outsOld (stepDOld s op).1 ops

end DustVerif.Tree
