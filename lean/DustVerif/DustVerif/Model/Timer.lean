/-! Model of the LOGIC of the std runtime timer (dds/src/std_runtime/timer.rs) and of `block_timeout`
(dds/src/std_runtime/executor.rs:18-54). Time is a natural number (one unit = whatever the clock resolves); the OS
clock, thread scheduling and `recv_timeout` latency are NOT modelled: the model says what the code decides when it
runs at virtual time `now`, not when the OS lets it run.

* `TimerHeap` (timer.rs:117-162): `BinaryHeap<TimerWake>` with the reversed `Ord` of timer.rs:35-41 = a priority
  queue whose top is an entry of minimal deadline. Modelled as a list sorted by deadline (ties in insertion order; the
  order among equal deadlines is unspecified in `BinaryHeap`, the driver therefore reports woken ids sorted).
* timer thread (timer.rs:213-246): `service` = the `while is_next_timer_elapsed { notify_next_timer }` loop,
  `recv` = one received `TimerMessage` applied to the heap, `nextDelay` = `duration_until_next_timer`.
* `Sleep` (timer.rs:49-115): `poll` and `Drop`.
Import-free. -/
namespace DustVerif.Timer

/-- `TimerWake` timer.rs:15-19 (the waker is identified by the sleep id) -/
structure Entry where
  id : Nat
  deadline : Nat
  deriving DecidableEq, Repr

/-- `TimerMessage` timer.rs:43-46 -/
inductive Msg where
  | wake (e : Entry)
  | cancel (id : Nat)
  deriving DecidableEq, Repr

/-! ## TimerHeap -/

/-- `TimerHeap::push` timer.rs:129-131 -/
def insertSorted (e : Entry) : List Entry → List Entry
  | [] => [e]
  | x :: xs => if e.deadline < x.deadline then e :: x :: xs else x :: insertSorted e xs

/-- `TimerHeap::remove` timer.rs:158-161: keep `t.id != id` -/
def removeId (id : Nat) : List Entry → List Entry
  | [] => []
  | x :: xs => if x.id = id then removeId id xs else x :: removeId id xs

/-- `is_next_timer_elapsed` timer.rs:144-146: `t.deadline < Instant::now()` (strict) -/
def isNextElapsed (h : List Entry) (now : Nat) : Bool :=
  match h with
  | [] => false
  | e :: _ => decide (e.deadline < now)

/-- the wake loop timer.rs:217-220: pops and wakes the top while it is elapsed; returns (woken in pop order, rest) -/
def serviceLoop (now : Nat) : List Entry → List Entry × List Entry
  | [] => ([], [])
  | e :: es =>
    if e.deadline < now then ((e :: (serviceLoop now es).1), (serviceLoop now es).2)
    else ([], e :: es)

/-- `duration_until_next_timer` timer.rs:134-141 (`duration_since` saturates at zero) -/
def nextDelay (h : List Entry) (now : Nat) : Option Nat :=
  match h with
  | [] => none
  | e :: _ => some (e.deadline - now)

/-- what the timer thread does with a received message, timer.rs:239-242 -/
def applyMsg (h : List Entry) : Msg → List Entry
  | .wake e => insertSorted e h
  | .cancel id => removeId id h

/-! ## heap-level operations (the `TimerHeap` alone, driven through the verification hook) -/

structure HeapSt where
  now : Nat
  heap : List Entry
  deriving DecidableEq, Repr

inductive HeapOp where
  | push (e : Entry)
  | remove (id : Nat)
  /-- time passes -/
  | advance (k : Nat)
  | service
  deriving DecidableEq, Repr

/-- one operation; second component = entries woken (in pop order) -/
def HeapSt.step (s : HeapSt) : HeapOp → HeapSt × List Entry
  | .push e => ({ s with heap := insertSorted e s.heap }, [])
  | .remove id => ({ s with heap := removeId id s.heap }, [])
  | .advance k => ({ s with now := s.now + k }, [])
  | .service => ({ s with heap := (serviceLoop s.now s.heap).2 }, (serviceLoop s.now s.heap).1)

def HeapSt.run (s : HeapSt) : List HeapOp → HeapSt
  | [] => s
  | op :: ops => HeapSt.run (s.step op).1 ops

/-- every wake of a run, with the time at which it happened -/
def HeapSt.wakeLog (s : HeapSt) : List HeapOp → List (Entry × Nat)
  | [] => []
  | op :: ops => ((s.step op).2.map (fun e => (e, s.now))) ++ HeapSt.wakeLog (s.step op).1 ops

/-! ## Sleep + message queue + timer thread -/

/-- `Sleep` timer.rs:49-54 -/
structure SleepSt where
  dur : Nat
  deadline : Option Nat
  deriving DecidableEq, Repr

inductive PollRes where
  | ready
  | pending
  deriving DecidableEq, Repr

/-- `Sleep::poll` timer.rs:92-114 at time `now`: `is_elapsed` (`now > deadline`, strict, timer.rs:66-72), else set the
    deadline on the first poll (`reset`, timer.rs:75-86, overflow fallback not modelled) and send a `Wake` message -/
def SleepSt.poll (x : SleepSt) (id now : Nat) : SleepSt × PollRes × Option Msg :=
  match x.deadline with
  | some d =>
    if now > d then (x, .ready, none)
    else (x, .pending, some (.wake { id := id, deadline := d }))
  | none =>
    let d := now + x.dur
    ({ x with deadline := some d }, .pending, some (.wake { id := id, deadline := d }))

structure Sys where
  now : Nat
  heap : List Entry
  /-- the `std::sync::mpsc` channel to the timer thread, oldest first -/
  queue : List Msg
  /-- live `Sleep` values -/
  sleeps : Nat → Option SleepSt
  /-- typestate: ids whose `Sleep` was dropped (ids come from a counter and are never reused, timer.rs:178-179) -/
  dropped : Nat → Bool
  /-- ghost: time of the first poll -/
  started : Nat → Option Nat
  /-- ghost: the last poll returned Pending and no wake for the id has happened since -/
  armed : Nat → Bool

def Sys.init : Sys :=
  { now := 0
    heap := []
    queue := []
    sleeps := fun _ => none
    dropped := fun _ => false
    started := fun _ => none
    armed := fun _ => false }

def upd {α : Type} (f : Nat → α) (i : Nat) (v : α) : Nat → α :=
  fun j => if j = i then v else f j

inductive Op where
  /-- `TimerHandle::sleep(duration)` with the next id -/
  | sleep (id : Nat) (dur : Nat)
  | poll (id : Nat)
  /-- `Drop for Sleep` timer.rs:56-62 -/
  | drop (id : Nat)
  /-- the timer thread receives one message -/
  | recv
  /-- the timer thread runs its wake loop -/
  | service
  | advance (k : Nat)
  deriving DecidableEq, Repr

inductive Out where
  | ok
  | polled (r : PollRes)
  | received (m : Option Msg)
  | woke (l : List Entry)
  | illegal
  deriving DecidableEq, Repr

def hasId (l : List Entry) (id : Nat) : Bool :=
  match l with
  | [] => false
  | x :: xs => if x.id = id then true else hasId xs id

/-- clear `armed` for every woken id -/
def disarm (a : Nat → Bool) (woken : List Entry) : Nat → Bool :=
  fun j => if hasId woken j then false else a j

def Sys.step (s : Sys) : Op → Sys × Out
  | .sleep id dur =>
    if (s.sleeps id).isSome || s.dropped id then (s, .illegal)
    else ({ s with sleeps := upd s.sleeps id (some { dur := dur, deadline := none }) }, .ok)
  | .poll id =>
    match s.sleeps id with
    | none => (s, .illegal)
    | some x =>
      let r := x.poll id s.now
      ({ s with sleeps := upd s.sleeps id (some r.1)
                queue := match r.2.2 with
                  | some m => s.queue ++ [m]
                  | none => s.queue
                started := match s.started id with
                  | some _ => s.started
                  | none => upd s.started id (some s.now)
                armed := upd s.armed id (decide (r.2.1 = .pending)) }, .polled r.2.1)
  | .drop id =>
    match s.sleeps id with
    | none => (s, .illegal)
    | some _ =>
      ({ s with sleeps := upd s.sleeps id none, dropped := upd s.dropped id true,
                queue := s.queue ++ [.cancel id], armed := upd s.armed id false }, .ok)
  | .recv =>
    match s.queue with
    | [] => (s, .received none)
    | m :: q => ({ s with heap := applyMsg s.heap m, queue := q }, .received (some m))
  | .service =>
    let r := serviceLoop s.now s.heap
    ({ s with heap := r.2, armed := disarm s.armed r.1 }, .woke r.1)
  | .advance k => ({ s with now := s.now + k }, .ok)

def Sys.run (s : Sys) : List Op → Sys
  | [] => s
  | op :: ops => Sys.run (s.step op).1 ops

/-! ## block_timeout (executor.rs:18-54) -/

inductive BtRes where
  | ok
  | timeout
  /-- no poll was made (empty wake-up sequence) -/
  | running
  deriving DecidableEq, Repr

/-- One element per iteration of the loop executor.rs:37-53: `(now, ready)` = the time since `start_instant` at which
    the iteration runs (the first one right after the start, every later one when the waker has fired) and what the
    poll returns. The decision logic, as coded: `Poll::Ready` → `Ok`. Otherwise the remaining time is computed FROM THE
    START: `duration.checked_sub(now)`; `None` (`now > duration`) → `Timeout` at once; `Some(t)` →
    `recv_timeout(t)`, i.e. wait for the next wake-up until the fixed deadline `start + duration`: if the next wake-up
    comes at `next ≤ duration` the loop iterates at `next`, otherwise (later, or never) `Timeout` at the deadline.
    Returns the result and the time at which it is returned. -/
def blockTimeout (duration : Nat) : List (Nat × Bool) → BtRes × Nat
  | [] => (.running, 0)
  | (now, ready) :: rest =>
    if ready then (.ok, now)
    else if duration < now then (.timeout, now)
    else match rest with
      | [] => (.timeout, duration)
      | (next, r) :: rest' =>
        if next ≤ duration then blockTimeout duration ((next, r) :: rest') else (.timeout, duration)

/-- NOT the code: the same loop with a mutable remaining budget from which the time since the START is subtracted
    again in every iteration (a plausible refactoring). Kept only to show that the property below is not trivially
    true of any such loop: it returns `Timeout` long before the duration is over. -/
def blockTimeoutBudget (budget : Nat) : List (Nat × Bool) → BtRes × Nat
  | [] => (.running, 0)
  | (now, ready) :: rest =>
    if ready then (.ok, now)
    else if budget < now then (.timeout, now)
    else match rest with
      | [] => (.timeout, now + (budget - now))
      | (next, r) :: rest' =>
        if next - now ≤ budget - now then blockTimeoutBudget (budget - now) ((next, r) :: rest')
        else (.timeout, now + (budget - now))

end DustVerif.Timer
