import DustVerif.Model.ReaderHist
/-! Operation alphabet of the reader-history model: an execution is a list of `Op`. -/
namespace DustVerif.Hist

inductive Op
  | add (w : Nat) (data : String) (k : Kind) (h : Nat) (sts : Option Nat) (rts : Nat)
  | readTake (max : Int) (m : Masks) (only : Option Nat) (take : Bool)
  | nextInstance (max : Int) (prev : Option Nat) (m : Masks) (take : Bool)
  | pub (w : Nat) (strength : Int)
  | unpub (w : Nat)
  | rejStatus

def applyOp (s : St) : Op → St
  | .add w data k h sts rts => (addChange s w data k h sts rts).1
  | .readTake max m only take => (readOrTake s max m only take).1
  | .nextInstance max prev m take => (readTakeNextInstance s max prev m take).1
  | .pub w st => addPub s w st
  | .unpub w => removePub s w
  | .rejStatus => (getRejStatus s).1

def run (s : St) (ops : List Op) : St := ops.foldl applyOp s

end DustVerif.Hist
