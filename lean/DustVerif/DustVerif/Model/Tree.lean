/-! Model of the DCPS entity tree of dust-dds (engine `tree`, properties C35, C36, C28): the factory's participant
    list, and per participant the publishers / subscribers / topics / content-filtered topics / writers / readers
    with the handle counters exactly as `dds/src/dcps/dcps_domain_participant/{participant_entity.rs,
    participant_methods.rs, publisher_methods.rs, subscriber_methods.rs, writer_methods.rs, data_writer_entity.rs}`
    and `dds/src/dcps/{dcps_participant_factory.rs, dcps_mail_handler.rs}` keep them — AS PATCHED by fixes/D40.patch,
    fixes/D-tree-1.patch and fixes/D-tree-2.patch (the code before the patches is `Model/TreeOld.lean`).

    Representation choices (all behaviour-preserving, see notes/tree.md):
    * the nested `Vec`s are FLAT lists; membership of a child in its parent's `Vec` is the pair (`part`, `pub`/`sub`)
      of ghost serial numbers; relative order inside one parent = order in the flat list (push = append);
    * every counter of the code is a ghost *ever* counter in `Nat` (number of creations so far); the value the
      code holds in its `u8`/`u16`/`u32` field is `ever % 2^width` (exact in the wrapping release profile; in the
      debug profile the `+= 1` that would leave the range panics — an explicit outcome, `Res.panic`);
    * the per-participant counters live in maps from the participant's ghost serial to `Nat` (a participant's serial
      is never reused, so a stale entry of a deleted participant is unobservable);
    * look-ups go by HANDLE BYTES (`ever % width`), first match, as `iter().find(..)` does. -/
namespace DustVerif.Tree

inductive Err where
  | alreadyDeleted | preconditionNotMet | badParameter | notEnabled | illegalOperation | outOfResources
  | inconsistentPolicy | timeout
  deriving DecidableEq, Repr

/-- build profile of the Rust code: `debug` = overflow checks on (`+= 1` past the rail panics), `release` = wraps -/
inductive Profile where
  | debug | release
  deriving DecidableEq, Repr

def U8 : Nat := 256
def U16 : Nat := 65536
def U32 : Nat := 4294967296

/-- entity kinds (`transport/types.rs:15-30`) -/
def KIND_WRITER_WITH_KEY : Nat := 0x02
def KIND_WRITER_NO_KEY : Nat := 0x03
def KIND_READER_NO_KEY : Nat := 0x04
def KIND_READER_WITH_KEY : Nat := 0x07
def KIND_WRITER_GROUP : Nat := 0x08
def KIND_READER_GROUP : Nat := 0x09
def KIND_TOPIC : Nat := 0x0a
def KIND_PARTICIPANT : Nat := 0xc1

/-- last four bytes of an instance handle (= RTPS entity id for writers and readers) -/
structure EntId where
  b0 : Nat
  b1 : Nat
  b2 : Nat
  kind : Nat
  deriving DecidableEq, Repr

/-- instance handle of an entity: participant instance id (bytes 8..12 of the GUID prefix, a `u32`) + entity id;
    bytes 0..8 (host id, app id) are constants of the factory -/
structure Handle where
  pfx : Nat
  ent : EntId
  deriving DecidableEq, Repr

inductive Res where
  | ok
  | handle (h : Handle)
  /-- result of register_instance / lookup_instance: the key whose hash is the returned handle (`keyOf`) -/
  | inst (k : Option Int)
  | err (e : Err)
  | panic
  deriving DecidableEq, Repr

structure Part where
  /-- value of the factory's `entity_counter` when the participant was created (ghost, unbounded) -/
  uid : Nat
  enabled : Bool
  autoenable : Bool
  deriving DecidableEq, Repr

structure Pub where
  part : Nat
  /-- value of `publisher_counter` at creation (ghost, unbounded); handle byte 12 = `uid % 256` -/
  uid : Nat
  enabled : Bool
  autoenable : Bool
  deriving DecidableEq, Repr

structure Sub where
  part : Nat
  uid : Nat
  enabled : Bool
  autoenable : Bool
  deriving DecidableEq, Repr

structure Topic where
  part : Nat
  /-- value of `topic_counter` at creation; handle bytes 13,14 = little-endian `uid % 65536` -/
  uid : Nat
  name : String
  keyed : Bool
  enabled : Bool
  deriving DecidableEq, Repr

structure Cft where
  part : Nat
  name : String
  related : String
  deriving DecidableEq, Repr

structure Writer where
  part : Nat
  /-- ghost serial of the publisher whose `data_writer_list` holds this writer -/
  pub : Nat
  /-- value of `writer_counter` at creation -/
  uid : Nat
  keyed : Bool
  topic : String
  enabled : Bool
  /-- `qos.resource_limits.max_instances` (`none` = unlimited) -/
  maxInst : Option Nat
  /-- the keys of the entries of `registered_instance_info` whose `registered` flag is set (fixes/D33.patch) -/
  registered : List Int
  deriving DecidableEq, Repr

structure Reader where
  part : Nat
  sub : Nat
  uid : Nat
  keyed : Bool
  topic : String
  enabled : Bool
  deriving DecidableEq, Repr

structure St where
  profile : Profile
  /-- factory QoS `entity_factory.autoenable_created_entities` -/
  autoenable : Bool
  /-- `entity_counter` of `DomainParticipantFactoryAsync` (AtomicU32, `fetch_add` wraps silently) -/
  nextPart : Nat
  parts : List Part
  pubs : List Pub
  subs : List Sub
  topics : List Topic
  cfts : List Cft
  writers : List Writer
  readers : List Reader
  pubEver : Nat → Nat
  subEver : Nat → Nat
  topicEver : Nat → Nat
  wEver : Nat → Nat
  rEver : Nat → Nat
  /-- the worker task panicked: nothing answers any more -/
  dead : Bool

def zeroMap : Nat → Nat := fun _ => 0

def St.init (pr : Profile) : St :=
  { profile := pr
    autoenable := true
    nextPart := 0
    parts := []
    pubs := []
    subs := []
    topics := []
    cfts := []
    writers := []
    readers := []
    pubEver := zeroMap
    subEver := zeroMap
    topicEver := zeroMap
    wEver := zeroMap
    rEver := zeroMap
    dead := false }

/-- `m` with the entry of `u` set to `x` (`x` is a strict argument: computed once, not at every look-up) -/
def setTo (m : Nat → Nat) (u x : Nat) : Nat → Nat := fun v => if v = u then x else m v

/-- `m` with the entry of `u` incremented -/
@[reducible] def bump (m : Nat → Nat) (u : Nat) : Nat → Nat := setTo m u (m u + 1)

/-! ### handles -/

def partHandle (uid : Nat) : Handle :=
  { pfx := uid % U32, ent := { b0 := 0, b1 := 0, b2 := 1, kind := KIND_PARTICIPANT } }
def pubHandle (x : Pub) : Handle :=
  { pfx := x.part % U32, ent := { b0 := x.uid % U8, b1 := 0, b2 := 0, kind := KIND_WRITER_GROUP } }
def subHandle (x : Sub) : Handle :=
  { pfx := x.part % U32, ent := { b0 := x.uid % U8, b1 := 0, b2 := 0, kind := KIND_READER_GROUP } }
def topicHandle (x : Topic) : Handle :=
  { pfx := x.part % U32, ent := { b0 := 0, b1 := (x.uid % U16) % 256, b2 := (x.uid % U16) / 256, kind := KIND_TOPIC } }
def writerEnt (pubUid uid : Nat) (keyed : Bool) : EntId :=
  { b0 := pubUid % U8, b1 := (uid % U16) % 256, b2 := (uid % U16) / 256,
    kind := if keyed then KIND_WRITER_WITH_KEY else KIND_WRITER_NO_KEY }
def readerEnt (subUid uid : Nat) (keyed : Bool) : EntId :=
  { b0 := subUid % U8, b1 := (uid % U16) % 256, b2 := (uid % U16) / 256,
    kind := if keyed then KIND_READER_WITH_KEY else KIND_READER_NO_KEY }
def writerHandle (w : Writer) : Handle := { pfx := w.part % U32, ent := writerEnt w.pub w.uid w.keyed }
def readerHandle (r : Reader) : Handle := { pfx := r.part % U32, ent := readerEnt r.sub r.uid r.keyed }

def partHandleOf (p : Part) : Handle := partHandle p.uid

/-- handles of every live entity -/
def allHandles (s : St) : List Handle :=
  s.parts.map partHandleOf ++ s.pubs.map pubHandle ++ s.subs.map subHandle ++
  s.topics.map topicHandle ++ s.writers.map writerHandle ++ s.readers.map readerHandle

/-! ### what the API objects hold -/

/-- `PublisherAsync` / `SubscriberAsync`: own handle byte + the participant handle -/
structure GroupRef where
  ph : Nat
  b : Nat
  deriving DecidableEq, Repr
/-- `TopicAsync`: a topic is addressed by NAME in every mail -/
structure TopicRef where
  ph : Nat
  name : String
  deriving DecidableEq, Repr
/-- `DataWriterAsync` / `DataReaderAsync` -/
structure EndRef where
  ph : Nat
  b : Nat
  ent : EntId
  deriving DecidableEq, Repr

/-! ### look-ups (first match, by handle bytes) -/

def isPartH (h : Nat) (p : Part) : Bool := p.uid % U32 == h
def findPart (s : St) (h : Nat) : Option Part := s.parts.find? (isPartH h)
def isPubH (pu b : Nat) (x : Pub) : Bool := x.part == pu && x.uid % U8 == b
def findPub (s : St) (pu b : Nat) : Option Pub := s.pubs.find? (isPubH pu b)
def isSubH (pu b : Nat) (x : Sub) : Bool := x.part == pu && x.uid % U8 == b
def findSub (s : St) (pu b : Nat) : Option Sub := s.subs.find? (isSubH pu b)
def isTopicN (pu : Nat) (n : String) (t : Topic) : Bool := t.part == pu && t.name == n
def findTopic (s : St) (pu : Nat) (n : String) : Option Topic := s.topics.find? (isTopicN pu n)
def isCftN (pu : Nat) (n : String) (t : Cft) : Bool := t.part == pu && t.name == n
def findCft (s : St) (pu : Nat) (n : String) : Option Cft := s.cfts.find? (isCftN pu n)
def isWriterE (pu pb : Nat) (e : EntId) (w : Writer) : Bool :=
  w.part == pu && w.pub == pb && writerEnt w.pub w.uid w.keyed == e
def findWriter (s : St) (pu pb : Nat) (e : EntId) : Option Writer := s.writers.find? (isWriterE pu pb e)
def isReaderE (pu sb : Nat) (e : EntId) (r : Reader) : Bool :=
  r.part == pu && r.sub == sb && readerEnt r.sub r.uid r.keyed == e
def findReader (s : St) (pu sb : Nat) (e : EntId) : Option Reader := s.readers.find? (isReaderE pu sb e)

def isPartU (u : Nat) (p : Part) : Bool := p.uid == u
def pubOfPart (u : Nat) (x : Pub) : Bool := x.part == u
def subOfPart (u : Nat) (x : Sub) : Bool := x.part == u
def topicOfPart (u : Nat) (x : Topic) : Bool := x.part == u
def cftOfPart (u : Nat) (x : Cft) : Bool := x.part == u
def writerOfPart (u : Nat) (x : Writer) : Bool := x.part == u
def readerOfPart (u : Nat) (x : Reader) : Bool := x.part == u
def writerOfPub (u pb : Nat) (x : Writer) : Bool := x.part == u && x.pub == pb
def readerOfSub (u sb : Nat) (x : Reader) : Bool := x.part == u && x.sub == sb
def writerUsesTopic (u : Nat) (n : String) (x : Writer) : Bool := x.part == u && x.topic == n
def readerUsesTopic (u : Nat) (n : String) (x : Reader) : Bool := x.part == u && x.topic == n
def notPubOfPart (u : Nat) (x : Pub) : Bool := !(x.part == u)
def notSubOfPart (u : Nat) (x : Sub) : Bool := !(x.part == u)
def notTopicOfPart (u : Nat) (x : Topic) : Bool := !(x.part == u)
def notWriterOfPart (u : Nat) (x : Writer) : Bool := !(x.part == u)
def notReaderOfPart (u : Nat) (x : Reader) : Bool := !(x.part == u)
def notTopicN (u : Nat) (n : String) (t : Topic) : Bool := !(t.part == u && t.name == n)
def notCftN (u : Nat) (n : String) (t : Cft) : Bool := !(t.part == u && t.name == n)
def notCftOfPart (u : Nat) (x : Cft) : Bool := !(x.part == u)
def cftRefersTo (u : Nat) (n : String) (x : Cft) : Bool := x.part == u && x.related == n

/-- `BUILT_IN_TOPIC_NAME_LIST` (participant_entity.rs:213) -/
def builtinTopicNames : List String :=
  ["DCPSParticipant", "DCPSTopic", "DCPSPublication", "DCPSSubscription", "TypeLookupRequest", "TypeLookupReply"]
def isBuiltinName (n : String) : Bool := builtinTopicNames.contains n

/-- `DomainParticipantEntity::is_empty` (participant_entity.rs:497): the built-in topics are not in the model -/
def partEmpty (s : St) (u : Nat) : Bool :=
  !(s.pubs.any (pubOfPart u)) && !(s.subs.any (subOfPart u)) && !(s.cfts.any (cftOfPart u)) &&
  !(s.topics.any (topicOfPart u))

/-- would `counter += 1` leave the range of a `width`-valued field?  (`ever % width` is the field's value) -/
def overflows (ever width : Nat) : Bool := ever % width == width - 1

/-! ### writer instance bookkeeping (data_writer_entity.rs:171-312, writer_methods.rs:249-295) -/

inductive WOp where
  | register (k : Int)
  | unregister (k : Int)
  | dispose (k : Int)
  | lookup (k : Int)
  | write (k : Int)
  deriving DecidableEq, Repr

def hasRoom (w : Writer) : Bool :=
  match w.maxInst with
  | none => true
  | some m => w.registered.length < m

/-- the key a sample of this writer's type hashes to: keyless types have the one all-zero handle (key 0) -/
def keyOfSample (w : Writer) (k : Int) : Int := if w.keyed then k else 0

def notKey (k : Int) (x : Int) : Bool := !(x == k)

/-- one instance operation on a writer that was found (enabled / keyless / known-instance checks in code order),
    WITH fixes/D33.patch (an instance is known from register_instance / its first write until unregister_instance:
    the entry of `registered_instance_info` stays for the sample bookkeeping, its `registered` flag is cleared —
    the model's list holds exactly the keys whose flag is set) and fixes/D33b.patch (keyless check in lookup_instance).
    Assumptions (stated in the property module): history/resource limits other than max_instances never
    refuse a write, no matched reliable reader withholds an acknowledgement. -/
def wop (w : Writer) (o : WOp) : Writer × Res :=
  match o with
  | .register k =>
    if !w.enabled then (w, .err .notEnabled)                    -- data_writer_entity.rs register_w_timestamp
    else if !w.keyed then (w, .err .illegalOperation)
    else if w.registered.contains k then (w, .inst (some k))   -- is_registered: only the time stamp changes
    else if hasRoom w then ({ w with registered := w.registered ++ [k] }, .inst (some k))  -- mark_registered
    else (w, .err .outOfResources)                             -- has_room_for_new_instance
  | .unregister k =>
    if !w.enabled then (w, .err .notEnabled)
    else if !w.keyed then (w, .err .illegalOperation)
    else if w.registered.contains k then ({ w with registered := w.registered.filter (notKey k) }, .ok)  -- flag cleared
    else (w, .err .badParameter)
  | .dispose k =>
    if !w.enabled then (w, .err .notEnabled)
    else if !w.keyed then (w, .err .illegalOperation)
    else if w.registered.contains k then (w, .ok)
    else (w, .err .badParameter)
  | .lookup k =>
    if !w.enabled then (w, .err .notEnabled)                    -- writer_methods.rs lookup_instance
    else if !w.keyed then (w, .err .illegalOperation)          -- fixes/D33b
    else if w.registered.contains k then (w, .inst (some k))
    else (w, .inst none)
  | .write k =>
    if !w.enabled then (w, .err .notEnabled)
    else if w.registered.contains (keyOfSample w k) then (w, .ok)
    else if hasRoom w then ({ w with registered := w.registered ++ [keyOfSample w k] }, .ok)
    else (w, .err .outOfResources)

/-! ### operations -/

inductive Op where
  | factoryQos (auto : Bool)
  | createPart (auto : Bool)
  | deletePart (ph : Nat)
  | createPub (ph : Nat) (auto : Bool)
  /-- `via` = handle of the participant object `delete_publisher` is called on; `r.ph` = the publisher's parent -/
  | deletePub (via : Nat) (r : GroupRef)
  | createSub (ph : Nat) (auto : Bool)
  | deleteSub (via : Nat) (r : GroupRef)
  | createTopic (ph : Nat) (name : String) (keyed : Bool)
  /-- `find_topic`; `discovered` = a topic of that name is in the participant's `discovered_topic_list` (a parameter:
      discovery is not part of this model) -/
  | findTopic (ph : Nat) (name : String) (keyed : Bool) (discovered : Bool)
  | deleteTopic (via : Nat) (r : TopicRef)
  /-- `valid` = the filter expression and its parameters pass the check of `create_content_filtered_topic`
      (`<member> <= …` or `<member> = …` on an INT32 / string member of the related type, first parameter an integer) -/
  | createCft (r : TopicRef) (name : String) (valid : Bool)
  | deleteCft (ph : Nat) (name : String)
  /-- `consistent` = `DataWriterQos::is_consistent` of the requested QoS -/
  | createWriter (r : GroupRef) (topic : String) (maxInst : Option Nat) (consistent : Bool)
  | deleteWriter (via : GroupRef) (w : EndRef)
  | createReader (r : GroupRef) (topic : String) (consistent : Bool)
  | deleteReader (via : GroupRef) (w : EndRef)
  | deleteContained (ph : Nat)
  | enablePart (ph : Nat)
  | enableTopic (r : TopicRef)
  | enableWriter (w : EndRef)
  | enableReader (w : EndRef)
  /-- `get_qos` of an entity: `ok` or `AlreadyDeleted` -/
  | probePart (ph : Nat)
  | probePub (r : GroupRef)
  | probeSub (r : GroupRef)
  | probeTopic (r : TopicRef)
  | probeWriter (w : EndRef)
  | probeReader (w : EndRef)
  | inst (w : EndRef) (o : WOp)
  deriving DecidableEq, Repr

/-- the worker panicked while handling the mail -/
def die (s : St) : St × Res := ({ s with dead := true }, .panic)

/-- dcps_participant_factory.rs:40 + domain_participant_factory.rs:374 (fixes/D40: `fetch_update(checked_add)`,
    the creation is refused before the transport or the worker see it) -/
def createPart (s : St) (auto : Bool) : St × Res :=
  let uid := s.nextPart
  if overflows uid U32 then (s, .err .outOfResources)
  else
    ({ s with nextPart := s.nextPart + 1
              parts := s.parts ++ [{ uid := uid, enabled := s.autoenable, autoenable := auto }] },
     .handle (partHandle uid))

/-- dcps_participant_factory.rs:80 -/
def deletePart (s : St) (ph : Nat) : St × Res :=
  match findPart s ph with
  | none => (s, .err .alreadyDeleted)
  | some p =>
    if !(partEmpty s p.uid) then (s, .err .preconditionNotMet)
    else ({ s with parts := s.parts.eraseP (isPartH ph) }, .ok)

/-- participant_methods.rs:40 -/
def createPub (s : St) (ph : Nat) (auto : Bool) : St × Res :=
  match findPart s ph with
  | none => (s, .err .alreadyDeleted)                         -- dcps_mail_handler.rs:73
  | some p =>
    let n := s.pubEver p.uid
    if overflows n U8 then (s, .err .outOfResources)           -- participant_methods.rs:70 `checked_add` (fixes/D40)
    else
      let x : Pub := { part := p.uid, uid := n, enabled := p.enabled && p.autoenable, autoenable := auto }
      ({ s with pubEver := setTo s.pubEver p.uid (n + 1), pubs := s.pubs ++ [x] }, .handle (pubHandle x))

/-- participant_methods.rs:99 -/
def deletePub (s : St) (via : Nat) (r : GroupRef) : St × Res :=
  match findPart s via with
  | none => (s, .err .alreadyDeleted)
  | some p =>
    if r.ph != p.uid % U32 then (s, .err .preconditionNotMet)  -- :104 parent check
    else match findPub s p.uid r.b with
      | none => (s, .err .alreadyDeleted)                      -- :115
      | some x =>
        if s.writers.any (writerOfPub p.uid x.uid) then (s, .err .preconditionNotMet)   -- :118
        else ({ s with pubs := s.pubs.eraseP (isPubH p.uid r.b) }, .ok)

/-- participant_methods.rs:131 -/
def createSub (s : St) (ph : Nat) (auto : Bool) : St × Res :=
  match findPart s ph with
  | none => (s, .err .alreadyDeleted)
  | some p =>
    let n := s.subEver p.uid
    if overflows n U8 then (s, .err .outOfResources)           -- :160 `checked_add` (fixes/D40)
    else
      let x : Sub := { part := p.uid, uid := n, enabled := p.enabled && p.autoenable, autoenable := auto }
      ({ s with subEver := setTo s.subEver p.uid (n + 1), subs := s.subs ++ [x] }, .handle (subHandle x))

/-- participant_methods.rs:188 -/
def deleteSub (s : St) (via : Nat) (r : GroupRef) : St × Res :=
  match findPart s via with
  | none => (s, .err .alreadyDeleted)
  | some p =>
    if r.ph != p.uid % U32 then (s, .err .preconditionNotMet)
    else match findSub s p.uid r.b with
      | none => (s, .err .alreadyDeleted)
      | some x =>
        if s.readers.any (readerOfSub p.uid x.uid) then (s, .err .preconditionNotMet)   -- :208
        else ({ s with subs := s.subs.eraseP (isSubH p.uid r.b) }, .ok)

/-- participant_methods.rs:222 -/
def createTopic (s : St) (ph : Nat) (name : String) (keyed : Bool) : St × Res :=
  match findPart s ph with
  | none => (s, .err .alreadyDeleted)
  | some p =>
    if isBuiltinName name then (s, .err .badParameter)          -- :232
    else if s.topics.any (isTopicN p.uid name) then (s, .err .preconditionNotMet)  -- :236
    else
      let n := s.topicEver p.uid
      if overflows n U16 then (s, .err .outOfResources)         -- :272 `checked_add` (fixes/D40)
      else
        let x : Topic := { part := p.uid, uid := n, name := name, keyed := keyed,
                           enabled := p.enabled && p.autoenable }   -- :289 enable_topic
        ({ s with topicEver := setTo s.topicEver p.uid (n + 1), topics := s.topics ++ [x] }, .handle (topicHandle x))

/-- participant_methods.rs `find_topic` + participant_entity.rs `DomainParticipantEntity::find_topic`: a local topic of that
    name → its handle (nothing is created); else a discovered topic → a NEW local Topic entity whose handle is built from
    `topic_counter` BEFORE the checked increment (exhausted counter = "not found"), enabled at once, never announced; else
    (or when the counter is exhausted) the caller waits and gets Timeout -/
def findTopicOp (s : St) (ph : Nat) (name : String) (keyed : Bool) (discovered : Bool) : St × Res :=
  match findPart s ph with
  | none => (s, .err .alreadyDeleted)
  | some p =>
    match findTopic s p.uid name with
    | some t => (s, .handle (topicHandle t))
    | none =>
      if !discovered then (s, .err .timeout)
      else
        let n := s.topicEver p.uid
        if overflows n U16 then (s, .err .timeout)
        else
          let x : Topic := { part := p.uid, uid := n, name := name, keyed := keyed, enabled := true }
          ({ s with topicEver := setTo s.topicEver p.uid (n + 1), topics := s.topics ++ [x] }, .handle (topicHandle x))

/-- the seeded order (seed_C35_c): the counter is incremented FIRST and the handle built from the new value, so the next
    `create_topic` (which uses the value before its own increment) hands out the same handle again -/
def findTopicOpSeeded (s : St) (ph : Nat) (name : String) (keyed : Bool) (discovered : Bool) : St × Res :=
  match findPart s ph with
  | none => (s, .err .alreadyDeleted)
  | some p =>
    match findTopic s p.uid name with
    | some t => (s, .handle (topicHandle t))
    | none =>
      if !discovered then (s, .err .timeout)
      else
        let n := s.topicEver p.uid
        if overflows n U16 then (s, .err .timeout)
        else
          let x : Topic := { part := p.uid, uid := n + 1, name := name, keyed := keyed, enabled := true }
          ({ s with topicEver := setTo s.topicEver p.uid (n + 1), topics := s.topics ++ [x] }, .handle (topicHandle x))

/-- domain_participant.rs:205 (the two handles of the mail), participant_methods.rs:303 -/
def deleteTopic (s : St) (via : Nat) (r : TopicRef) : St × Res :=
  match findPart s r.ph with                                    -- mail goes to the TOPIC's participant
  | none => (s, .err .alreadyDeleted)
  | some p =>
    if via != p.uid % U32 then (s, .err .preconditionNotMet)   -- :308
    else if isBuiltinName r.name then (s, .ok)                 -- :314
    else match findTopic s p.uid r.name with
      | none => (s, .err .alreadyDeleted)                      -- :324
      | some _ =>
        if s.writers.any (writerUsesTopic p.uid r.name) then (s, .err .preconditionNotMet)       -- :327
        else if s.readers.any (readerUsesTopic p.uid r.name) then (s, .err .preconditionNotMet)  -- :337
        -- fixes/D-tree-2: a content-filtered topic (and with it every reader created on it) refers to the topic
        else if s.cfts.any (cftRefersTo p.uid r.name) then (s, .err .preconditionNotMet)
        else ({ s with topics := s.topics.filter (notTopicN p.uid r.name) }, .ok)                -- :347 retain

/-- participant_methods.rs:355; the mail goes to the related topic's participant (domain_participant.rs:236) -/
def createCft (s : St) (r : TopicRef) (name : String) (valid : Bool) : St × Res :=
  match findPart s r.ph with
  | none => (s, .err .alreadyDeleted)
  | some p =>
    if !(s.topics.any (isTopicN p.uid r.name)) then (s, .err .preconditionNotMet)   -- related topic must exist
    else if !valid then (s, .err .badParameter)                -- unsupported filter expression / parameters
    else
      let n := s.topicEver p.uid
      if overflows n U16 then (s, .err .outOfResources)         -- :392 `checked_add` (fixes/D40)
      else ({ s with topicEver := setTo s.topicEver p.uid (n + 1)
                     cfts := s.cfts ++ [{ part := p.uid, name := name, related := r.name }] }, .ok)

/-- participant_methods.rs:408 (fixes/D-tree-1): unknown name → AlreadyDeleted; still used by a reader →
    PreconditionNotMet; otherwise every content-filtered topic of that name goes (`retain`) -/
def deleteCft (s : St) (ph : Nat) (name : String) : St × Res :=
  match findPart s ph with
  | none => (s, .err .alreadyDeleted)
  | some p =>
    if !(s.cfts.any (isCftN p.uid name)) then (s, .err .alreadyDeleted)
    else if s.readers.any (readerUsesTopic p.uid name) then (s, .err .preconditionNotMet)
    else ({ s with cfts := s.cfts.filter (notCftN p.uid name) }, .ok)

/-- publisher_methods.rs:29 -/
def createWriter (s : St) (r : GroupRef) (topic : String) (maxInst : Option Nat) (consistent : Bool) : St × Res :=
  match findPart s r.ph with
  | none => (s, .err .alreadyDeleted)
  | some p =>
    match findTopic s p.uid topic with
    | none => (s, .err .alreadyDeleted)                        -- :44
    | some t =>
      match findPub s p.uid r.b with
      | none => (s, .err .alreadyDeleted)                      -- :55
      | some x =>
        let n := s.wEver p.uid
        if overflows n U16 then (s, .err .outOfResources)       -- :90 `checked_add` (fixes/D40)
        else
          let s1 := { s with wEver := setTo s.wEver p.uid (n + 1) }
          if !consistent then (s1, .err .inconsistentPolicy)   -- :98 AFTER the counter moved
          else
            let w : Writer := { part := p.uid, pub := x.uid, uid := n, keyed := t.keyed, topic := topic,
                                enabled := x.enabled && x.autoenable,         -- :120
                                maxInst := maxInst, registered := [] }
            ({ s1 with writers := s1.writers ++ [w] }, .handle (writerHandle w))

/-- publisher_methods.rs:128 -/
def deleteWriter (s : St) (via : GroupRef) (w : EndRef) : St × Res :=
  match findPart s via.ph with
  | none => (s, .err .alreadyDeleted)
  | some p =>
    match findPub s p.uid via.b with
    | none => (s, .err .alreadyDeleted)
    | some x =>
      match findWriter s p.uid x.uid w.ent with
      | none => (s, .err .alreadyDeleted)                      -- :152
      | some _ => ({ s with writers := s.writers.eraseP (isWriterE p.uid x.uid w.ent) }, .ok)

/-- subscriber_methods.rs:34 -/
def createReader (s : St) (r : GroupRef) (topic : String) (consistent : Bool) : St × Res :=
  match findPart s r.ph with
  | none => (s, .err .alreadyDeleted)
  | some p =>
    -- :43 a content-filtered topic of that name is looked up first and resolved to its related topic
    let tname := match findCft s p.uid topic with
      | some c => c.related
      | none => topic
    match findTopic s p.uid tname with
    | none => (s, .err .alreadyDeleted)                        -- :55 / :65
    | some t =>
      match findSub s p.uid r.b with
      | none => (s, .err .alreadyDeleted)                      -- :78
      | some x =>
        if !consistent then (s, .err .inconsistentPolicy)      -- :87 BEFORE the counter moves
        else
          let n := s.rEver p.uid
          if overflows n U16 then (s, .err .outOfResources)     -- :122 `checked_add` (fixes/D40)
          else
            let rd : Reader := { part := p.uid, sub := x.uid, uid := n, keyed := t.keyed, topic := topic,
                                 enabled := x.enabled && x.autoenable }        -- :146
            ({ s with rEver := setTo s.rEver p.uid (n + 1), readers := s.readers ++ [rd] }, .handle (readerHandle rd))

/-- subscriber_methods.rs:153 -/
def deleteReader (s : St) (via : GroupRef) (w : EndRef) : St × Res :=
  match findPart s via.ph with
  | none => (s, .err .alreadyDeleted)
  | some p =>
    match findSub s p.uid via.b with
    | none => (s, .err .alreadyDeleted)
    | some x =>
      match findReader s p.uid x.uid w.ent with
      | none => (s, .err .alreadyDeleted)
      | some _ => ({ s with readers := s.readers.eraseP (isReaderE p.uid x.uid w.ent) }, .ok)

/-- participant_methods.rs:508: publishers+writers, subscribers+readers, user topics and (fixes/D-tree-1) the
    content-filtered topics go -/
def deleteContained (s : St) (ph : Nat) : St × Res :=
  match findPart s ph with
  | none => (s, .err .alreadyDeleted)
  | some p =>
    ({ s with pubs := s.pubs.filter (notPubOfPart p.uid)
              writers := s.writers.filter (notWriterOfPart p.uid)
              subs := s.subs.filter (notSubOfPart p.uid)
              readers := s.readers.filter (notReaderOfPart p.uid)
              topics := s.topics.filter (notTopicOfPart p.uid)
              cfts := s.cfts.filter (notCftOfPart p.uid) }, .ok)

def enableTopicsOf (u : Nat) (t : Topic) : Topic := if t.part == u then { t with enabled := true } else t
def setPartEnabled (p : Part) : Part := { p with enabled := true }
def setTopicEnabled (t : Topic) : Topic := { t with enabled := true }

/-- replace the FIRST element satisfying `p` by `f` of it (what `iter_mut().find(..)` + mutation does) -/
def updFirst {α : Type} (p : α → Bool) (f : α → α) : List α → List α
  | [] => []
  | x :: xs => if p x then f x :: xs else x :: updFirst p f xs

/-- participant_methods.rs:688: every topic in the participant's list, the built-in endpoints, the flag -/
def enablePart (s : St) (ph : Nat) : St × Res :=
  match findPart s ph with
  | none => (s, .err .alreadyDeleted)
  | some p =>
    ({ s with parts := updFirst (isPartH ph) setPartEnabled s.parts
              topics := s.topics.map (enableTopicsOf p.uid) }, .ok)

/-- topic_methods.rs:89 -/
def enableTopic (s : St) (r : TopicRef) : St × Res :=
  match findPart s r.ph with
  | none => (s, .err .alreadyDeleted)
  | some p =>
    match findTopic s p.uid r.name with
    | none => (s, .err .alreadyDeleted)
    | some _ => ({ s with topics := updFirst (isTopicN p.uid r.name) setTopicEnabled s.topics }, .ok)

def setWriterEnabled (w : Writer) : Writer := { w with enabled := true }
def setReaderEnabled (r : Reader) : Reader := { r with enabled := true }

/-- resolve a `DataWriterAsync`: participant, publisher, writer (each miss = AlreadyDeleted) -/
def resolveWriter (s : St) (w : EndRef) : Option (Part × Pub × Writer) :=
  match findPart s w.ph with
  | none => none
  | some p => match findPub s p.uid w.b with
    | none => none
    | some x => match findWriter s p.uid x.uid w.ent with
      | none => none
      | some wr => some (p, x, wr)

def resolveReader (s : St) (w : EndRef) : Option (Part × Sub × Reader) :=
  match findPart s w.ph with
  | none => none
  | some p => match findSub s p.uid w.b with
    | none => none
    | some x => match findReader s p.uid x.uid w.ent with
      | none => none
      | some rd => some (p, x, rd)

/-- writer_methods.rs:491 -/
def enableWriter (s : St) (w : EndRef) : St × Res :=
  match resolveWriter s w with
  | none => (s, .err .alreadyDeleted)
  | some (p, x, _) => ({ s with writers := updFirst (isWriterE p.uid x.uid w.ent) setWriterEnabled s.writers }, .ok)

/-- reader_methods.rs:567 -/
def enableReader (s : St) (w : EndRef) : St × Res :=
  match resolveReader s w with
  | none => (s, .err .alreadyDeleted)
  | some (p, x, _) => ({ s with readers := updFirst (isReaderE p.uid x.uid w.ent) setReaderEnabled s.readers }, .ok)

def constW (w' : Writer) (_ : Writer) : Writer := w'

/-- register / unregister / dispose look the writer's topic up with `expect("Writer topic must exist")` -/
def needsTopic : WOp → Bool
  | .register _ => true
  | .unregister _ => true
  | .dispose _ => true
  | .lookup _ => false
  | .write _ => false

/-- writer_methods.rs:176-295,426: resolve, then (register/unregister/dispose) the topic look-up
    (a panic if it is missing), then the entity-level operation on the writer found -/
def instOp (s : St) (w : EndRef) (o : WOp) : St × Res :=
  match resolveWriter s w with
  | none => (s, .err .alreadyDeleted)
  | some (p, x, wr) =>
    if needsTopic o && (findTopic s p.uid wr.topic).isNone then die s
    else
      ({ s with writers := updFirst (isWriterE p.uid x.uid w.ent) (constW (wop wr o).1) s.writers }, (wop wr o).2)

def probe (found : Bool) (s : St) : St × Res := if found then (s, .ok) else (s, .err .alreadyDeleted)

def step (s : St) (op : Op) : St × Res :=
  match op with
  | .factoryQos a => ({ s with autoenable := a }, .ok)
  | .createPart a => createPart s a
  | .deletePart ph => deletePart s ph
  | .createPub ph a => createPub s ph a
  | .deletePub via r => deletePub s via r
  | .createSub ph a => createSub s ph a
  | .deleteSub via r => deleteSub s via r
  | .createTopic ph n k => createTopic s ph n k
  | .findTopic ph n k d => findTopicOp s ph n k d
  | .deleteTopic via r => deleteTopic s via r
  | .createCft r n v => createCft s r n v
  | .deleteCft ph n => deleteCft s ph n
  | .createWriter r t m c => createWriter s r t m c
  | .deleteWriter via w => deleteWriter s via w
  | .createReader r t c => createReader s r t c
  | .deleteReader via w => deleteReader s via w
  | .deleteContained ph => deleteContained s ph
  | .enablePart ph => enablePart s ph
  | .enableTopic r => enableTopic s r
  | .enableWriter w => enableWriter s w
  | .enableReader w => enableReader s w
  | .probePart ph => probe (findPart s ph).isSome s
  | .probePub r => probe (match findPart s r.ph with
      | some p => (findPub s p.uid r.b).isSome
      | none => false) s
  | .probeSub r => probe (match findPart s r.ph with
      | some p => (findSub s p.uid r.b).isSome
      | none => false) s
  | .probeTopic r => probe (match findPart s r.ph with
      | some p => (findTopic s p.uid r.name).isSome
      | none => false) s
  | .probeWriter w => probe (resolveWriter s w).isSome s
  | .probeReader w => probe (resolveReader s w).isSome s
  | .inst w o => instOp s w o

/-- a dead worker answers nothing: the state is frozen (the harness prints POISONED for every later op) -/
def stepD (s : St) (op : Op) : St × Res := if s.dead then (s, .panic) else step s op

def run (s : St) : List Op → St
  | [] => s
  | op :: ops => run (stepD s op).1 ops

/-- results of every op of a history -/
def outs (s : St) : List Op → List Res
  | [] => []
  | op :: ops => (stepD s op).2 :: outs (stepD s op).1 ops

end DustVerif.Tree
