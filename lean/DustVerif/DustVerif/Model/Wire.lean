/-
Model of the RTPS message codec: dds/src/rtps_messages/{overall_structure.rs, submessage_elements.rs,
types.rs, submessages/*.rs}.  Import-free (linked into `dustmodel`).

Bytes are `Nat` (a real octet is `< 256`; nothing below relies on that, so the totality theorems hold
for every `List Nat`).  Fixed-width integers are `Nat`/`Int` with the casts written out.
Every Rust operation that can panic in the harness profile (debug: overflow checks on) is an explicit
`Outcome.panic`: slice/array indexing, `+`/`-` on fixed-width integers.  The code is transcribed as it is;
behaviours changed by the repairs in /verif/fixes are selected by `Cfg`.
-/
namespace DustVerif.Wire

/-- `RtpsMessageError` (error.rs:6) -/
inductive Err where
  | io
  | invalidData
  | notEnoughData
  | unknownMessage
deriving DecidableEq, Repr

inductive Outcome (α : Type) where
  | ok (a : α)
  | err (e : Err)
  | panic
deriving DecidableEq, Repr

namespace Outcome
@[inline] def bind {α β : Type} (o : Outcome α) (f : α → Outcome β) : Outcome β :=
  match o with
  | ok a => f a
  | err e => err e
  | .panic => .panic
instance : Monad Outcome where
  pure := Outcome.ok
  bind := Outcome.bind
def isPanic {α : Type} : Outcome α → Bool
  | .panic => true
  | _ => false
end Outcome
open Outcome

/-! ### which repairs are in the code

The model is the transcription of the repository at `main` with the patches of /verif/fixes applied
(`Cfg.fixed`).  The earlier behaviours are kept selectable, for the regression witnesses and so that the
differential run can follow the tree it is given (vlib/wire_common.py probes the implementation). -/
structure Cfg where
  /-- commit bdfece3 (fixes/D5.patch): FragmentNumberSet decoding rejects numBits > 256 and fragment-number overflow -/
  d5 : Bool
  /-- fixes/D-wire-3.patch: every submessage parser only sees the octets of its own submessage -/
  ext : Bool
  /-- fixes/D-wire-4.patch: SequenceNumberSet decoding rejects `base + numBits - 1 > i64::MAX` -/
  snchk : Bool
  /-- fixes/D-wire-2.patch: INFO_REPLY writes its MulticastFlag -/
  mflag : Bool
deriving DecidableEq, Repr

/-- the tree of the first delivery (cd23860) -/
def Cfg.orig : Cfg := { d5 := false, ext := false, snchk := false, mflag := false }
/-- repository main at bdfece3 (D5 fix committed) -/
def Cfg.main : Cfg := { d5 := true, ext := false, snchk := false, mflag := false }
/-- main + fixes/D-wire-2.patch + fixes/D-wire-3.patch + fixes/D-wire-4.patch -/
def Cfg.fixed : Cfg := { d5 := true, ext := true, snchk := true, mflag := true }

/-! ### constants -/
def P8 : Nat := 256
def P16 : Nat := 65536
def P24 : Nat := 16777216
def P31 : Nat := 2147483648
def P32 : Nat := 4294967296
def P63 : Nat := 9223372036854775808
/-- overall_structure.rs:345 `const MAX_SUBMESSAGES: usize = 2_usize.pow(16)` -/
def MAX_SUBMESSAGES : Nat := 65536
/-- submessage_elements.rs:285 `const MAX_PARAMETERS: usize = 2_usize.pow(16)` -/
def MAX_PARAMETERS : Nat := 65536
/-- submessage_elements.rs:14 `PID_SENTINEL` -/
def PID_SENTINEL : Int := 1

/-! ### abstract message -/

/-- `Parameter { parameter_id: i16, value: Arc<[u8]> }` -/
structure Param where
  pid : Int
  value : List Nat
deriving DecidableEq, Repr

/-- `SequenceNumberSet { base: i64, num_bits: u32, bitmap: [i32; 8] }`; the words are kept as their
    unsigned 32-bit patterns -/
structure SNSet where
  base : Int
  numBits : Nat
  bitmap : List Nat
deriving DecidableEq, Repr

/-- `FragmentNumberSet { base: u32, num_bits: u32, bitmap: [i32; 8] }` -/
structure FNSet where
  base : Nat
  numBits : Nat
  bitmap : List Nat
deriving DecidableEq, Repr

/-- `Locator { kind: i32, port: u32, address: [u8; 16] }` -/
structure Locator where
  kind : Int
  port : Nat
  address : List Nat
deriving DecidableEq, Repr

/-- `RtpsMessageHeader { version, vendor_id, guid_prefix }` as 2 + 2 + 12 octets -/
structure Header where
  version : List Nat
  vendorId : List Nat
  guidPrefix : List Nat
deriving DecidableEq, Repr

/-- `RtpsSubmessageReadKind` / the `Submessage` implementors; entity ids are 4 octets
    (key[3] ++ kind), GUID prefixes 12 octets.  `payload` of DATA_FRAG is the slice
    `SerializedDataFragment::as_ref()` (the Rust struct also carries the backing buffer and range). -/
inductive Sub where
  | data (q d k n : Bool) (reader writer : List Nat) (sn : Int) (qos : List Param) (payload : List Nat)
  | dataFrag (q k n : Bool) (reader writer : List Nat) (sn : Int) (fragStart fragsInSub fragSize dataSize : Nat)
      (qos : List Param) (payload : List Nat)
  | gap (reader writer : List Nat) (gapStart : Int) (gapList : SNSet)
  | heartbeat (f l : Bool) (reader writer : List Nat) (first last : Int) (count : Int)
  | ackNack (f : Bool) (reader writer : List Nat) (state : SNSet) (count : Int)
  | nackFrag (reader writer : List Nat) (sn : Int) (state : FNSet) (count : Int)
  | heartbeatFrag (reader writer : List Nat) (sn : Int) (lastFrag : Nat) (count : Int)
  | infoDst (guidPrefix : List Nat)
  | infoSrc (version vendorId guidPrefix : List Nat)
  | infoReply (m : Bool) (unicast multicast : List Locator)
  | infoTs (inv : Bool) (sec frac : Nat)
  | pad
deriving DecidableEq, Repr

structure Msg where
  header : Header
  subs : List Sub
deriving DecidableEq, Repr

/-- the `matches!(submessage, Data(_) | DataFrag(_))` test of overall_structure.rs:399 -/
def Sub.isDataLike : Sub → Bool
  | .data .. => true
  | .dataFrag .. => true
  | _ => false

def Sub.isReply : Sub → Bool
  | .infoReply .. => true
  | _ => false

/-! ### primitive readers (types.rs:17-63, overall_structure.rs:40-61) -/

/-- `Read::read_exact` into an `n`-octet buffer -/
def readBytes (n : Nat) (d : List Nat) : Outcome (List Nat × List Nat) :=
  if n > d.length then err .io else ok (d.take n, d.drop n)

def u16of (le : Bool) (b0 b1 : Nat) : Nat :=
  if le then b0 + 256 * b1 else 256 * b0 + b1
def u32of (le : Bool) (b0 b1 b2 b3 : Nat) : Nat :=
  if le then b0 + 256 * b1 + 65536 * b2 + 16777216 * b3
  else 16777216 * b0 + 65536 * b1 + 256 * b2 + b3
/-- reinterpretation of a 32-bit pattern as `i32` -/
def toI32 (x : Nat) : Int := if x < P31 then (x : Int) else (x : Int) - 4294967296
/-- reinterpretation of a 16-bit pattern as `i16` -/
def toI16 (x : Nat) : Int := if x < 32768 then (x : Int) else (x : Int) - 65536

def readU16 (le : Bool) : List Nat → Outcome (Nat × List Nat)
  | b0 :: b1 :: r => ok (u16of le b0 b1, r)
  | _ => err .io
def readU32 (le : Bool) : List Nat → Outcome (Nat × List Nat)
  | b0 :: b1 :: b2 :: b3 :: r => ok (u32of le b0 b1 b2 b3, r)
  | _ => err .io
def readI32 (le : Bool) (d : List Nat) : Outcome (Int × List Nat) :=
  match readU32 le d with
  | ok (x, r) => ok (toI32 x, r)
  | err e => err e
  | .panic => .panic
def readI16 (le : Bool) (d : List Nat) : Outcome (Int × List Nat) :=
  match readU16 le d with
  | ok (x, r) => ok (toI16 x, r)
  | err e => err e
  | .panic => .panic

/-- overall_structure.rs:200 `((high as i64) << 32) + low as i64`: `high·2^32` fits `i64` and adding
    `low < 2^32` cannot overflow, so there is no panic outcome here -/
def readSN (le : Bool) (d : List Nat) : Outcome (Int × List Nat) :=
  match readI32 le d with
  | ok (high, r) =>
    match readU32 le r with
    | ok (low, r2) => ok (high * 4294967296 + (low : Int), r2)
    | err e => err e
    | .panic => .panic
  | err e => err e
  | .panic => .panic

/-! ### bitmaps (submessage_elements.rs:16-196) -/

/-- bit `delta` of the 8-word bitmap in RTPS order (`1 << (31 - delta % 32)` of word `delta / 32`);
    callers guarantee `delta / 32 < 8` or model the index panic themselves -/
def getBit (bm : List Nat) (delta : Nat) : Bool :=
  (bm.getD (delta / 32) 0).testBit (31 - delta % 32)
/-- `bitmap[delta / 32] |= 1 << (31 - delta % 32)` -/
def setBit (bm : List Nat) (delta : Nat) : List Nat :=
  bm.set (delta / 32) (bm.getD (delta / 32) 0 ||| 2 ^ (31 - delta % 32))
def zeroBitmap : List Nat := [0, 0, 0, 0, 0, 0, 0, 0]
/-- `num_bits.div_ceil(32)` -/
def divCeil32 (n : Nat) : Nat := (n + 31) / 32

/-- `SequenceNumberSet::new` (submessage_elements.rs:24).  Panics: `sequence_number - base` overflowing
    `i64`; `bitmap[bitmap_num]` with `bitmap_num ≥ 8`.  `(…) as u32` truncates silently. -/
def snsetNewLoop (base : Int) : List Int → Nat → List Nat → Outcome (Nat × List Nat)
  | [], nb, bm => ok (nb, bm)
  | sn :: rest, nb, bm =>
    let diff := sn - base
    if diff < -9223372036854775808 ∨ diff ≥ 9223372036854775808 then .panic
    else
      let delta := (diff % 4294967296).toNat
      if delta / 32 ≥ 8 then .panic
      else snsetNewLoop base rest (if delta + 1 > nb then delta + 1 else nb) (setBit bm delta)
def snsetNew (base : Int) (set : List Int) : Outcome SNSet :=
  match snsetNewLoop base set 0 zeroBitmap with
  | ok (nb, bm) => ok { base := base, numBits := nb, bitmap := bm }
  | err e => err e
  | .panic => .panic

/-- `FragmentNumberSet::new` (submessage_elements.rs:117).  Panics: `fragment_number - base` below zero
    (`u32`), `bitmap[bitmap_num]` with `bitmap_num ≥ 8`. -/
def fnsetNewLoop (base : Nat) : List Nat → Nat → List Nat → Outcome (Nat × List Nat)
  | [], nb, bm => ok (nb, bm)
  | fn :: rest, nb, bm =>
    if fn < base then .panic
    else
      let delta := fn - base
      if delta / 32 ≥ 8 then .panic
      else fnsetNewLoop base rest (if delta + 1 > nb then delta + 1 else nb) (setBit bm delta)
def fnsetNew (base : Nat) (set : List Nat) : Outcome FNSet :=
  match fnsetNewLoop base set 0 zeroBitmap with
  | ok (nb, bm) => ok { base := base, numBits := nb, bitmap := bm }
  | err e => err e
  | .panic => .panic

/-- members as the accessor `SequenceNumberSet::set()` yields them (submessage_elements.rs:47):
    `base + delta as i64` panics when it leaves `i64`; `bitmap[delta / 32]` cannot be out of range for a
    decoded set (`num_bits ≤ 256`) -/
def snsetMembersTo (s : SNSet) : Nat → Outcome (List Int)
  | 0 => ok []
  | k + 1 =>
    match snsetMembersTo s k with
    | ok l =>
      if k / 32 ≥ 8 then .panic
      else if getBit s.bitmap k then
        (if s.base + (k : Int) ≥ 9223372036854775808 then .panic else ok (l ++ [s.base + (k : Int)]))
      else ok l
    | err e => err e
    | .panic => .panic
def snsetMembers (s : SNSet) : Outcome (List Int) := snsetMembersTo s s.numBits

def fnsetMembersTo (s : FNSet) : Nat → Outcome (List Nat)
  | 0 => ok []
  | k + 1 =>
    match fnsetMembersTo s k with
    | ok l =>
      if k / 32 ≥ 8 then .panic
      else if getBit s.bitmap k then
        (if s.base + k ≥ P32 then .panic else ok (l ++ [s.base + k]))
      else ok l
    | err e => err e
    | .panic => .panic
def fnsetMembers (s : FNSet) : Outcome (List Nat) := fnsetMembersTo s s.numBits

/-- reads `k` 32-bit words (kept as unsigned patterns) -/
def readWords (le : Bool) : Nat → List Nat → Outcome (List Nat × List Nat)
  | 0, d => ok ([], d)
  | k + 1, d =>
    match readU32 le d with
    | ok (w, r) =>
      match readWords le k r with
      | ok (ws, r2) => ok (w :: ws, r2)
      | err e => err e
      | .panic => .panic
    | err e => err e
    | .panic => .panic

/-- `[0; 8]` with the first words overwritten (`bitmap.iter_mut().take(M)`) -/
def padWords (ws : List Nat) : List Nat := ws ++ List.replicate (8 - ws.length) 0

/-- `SequenceNumberSet::try_read_from_bytes` (submessage_elements.rs:80).  `chk = true` is the code with
    fixes/D-wire-4.patch: a set that could denote a sequence number above `i64::MAX`
    (`base.checked_add(num_bits as i64 - 1)` fails) is rejected, so that the accessor `set()` cannot overflow -/
def snsetRead (chk : Bool) (le : Bool) (d : List Nat) : Outcome (SNSet × List Nat) :=
  match readSN le d with
  | ok (base, d1) =>
    match readU32 le d1 with
    | ok (nb, d2) =>
      if nb > 256 then err .invalidData
      else if chk ∧ nb > 0 ∧ base + ((nb : Int) - 1) ≥ 9223372036854775808 then err .invalidData
      else
        match readWords le (min (divCeil32 nb) 8) d2 with
        | ok (ws, d3) => ok ({ base := base, numBits := nb, bitmap := padWords ws }, d3)
        | err e => err e
        | .panic => .panic
    | err e => err e
    | .panic => .panic
  | err e => err e
  | .panic => .panic

/-- the loop `for delta_n in 0..num_bits` of `FragmentNumberSet::try_read_from_bytes`
    (submessage_elements.rs:148-153) for `delta_n < k ≤ 256`: `base + delta_n as u32` panics on `u32`
    overflow (finding D-wire-1).  `guarded = true` is the code with fixes/D5.patch (`checked_add`, else
    `InvalidData`). -/
def fnExpandTo (guarded : Bool) (base : Nat) (bm : List Nat) : Nat → Outcome (List Nat)
  | 0 => ok []
  | k + 1 =>
    match fnExpandTo guarded base bm k with
    | ok l =>
      if getBit bm k then
        (if base + k ≥ P32 then (if guarded then err .invalidData else .panic) else ok (l ++ [base + k]))
      else ok l
    | err e => err e
    | .panic => .panic

/-- whole loop: there is no `num_bits > 256` check, so `bitmap[delta_n / 32]` is out of bounds at
    `delta_n = 256` (D5) unless an earlier iteration already panicked.  With fixes/D5.patch
    `num_bits > 256` has been rejected before (see `fnsetRead`). -/
def fnExpand (guarded : Bool) (base : Nat) (bm : List Nat) (nb : Nat) : Outcome (List Nat) :=
  match fnExpandTo guarded base bm (min nb 256) with
  | ok l => if nb > 256 then .panic else ok l
  | err e => err e
  | .panic => .panic

/-- `FragmentNumberSet::try_read_from_bytes` (submessage_elements.rs:135): the decoded set is rebuilt
    with `Self::new(base, set)`, i.e. `num_bits` is normalised to (largest member − base + 1). -/
def fnsetRead (guarded : Bool) (le : Bool) (d : List Nat) : Outcome (FNSet × List Nat) :=
  match readU32 le d with
  | ok (base, d1) =>
    match readU32 le d1 with
    | ok (nb, d2) =>
      if guarded ∧ nb > 256 then err .invalidData
      else
        match readWords le (min (divCeil32 nb) 8) d2 with
        | ok (ws, d3) =>
          match fnExpand guarded base (padWords ws) nb with
          | ok members =>
            match fnsetNew base members with
            | ok s => ok (s, d3)
            | err e => err e
            | .panic => .panic
          | err e => err e
          | .panic => .panic
        | err e => err e
        | .panic => .panic
    | err e => err e
    | .panic => .panic
  | err e => err e
  | .panic => .panic

/-! ### parameter list (submessage_elements.rs:236-302) -/

/-- `Parameter::try_read_from_bytes`; `none` value = the sentinel -/
def paramRead (le : Bool) (d : List Nat) : Outcome (Param × List Nat) :=
  match d with
  | b0 :: b1 :: b2 :: b3 :: r =>
    let pid := toI16 (u16of le b0 b1)
    let length := u16of le b2 b3
    if pid ≠ PID_SENTINEL ∧ length % 4 ≠ 0 then err .invalidData
    else if pid = PID_SENTINEL then ok ({ pid := pid, value := [] }, r)
    else if r.length < length then err .notEnoughData
    else ok ({ pid := pid, value := r.take length }, r.drop length)
  | _ => err .notEnoughData

/-- `ParameterList::try_read_from_bytes`: at most `MAX_PARAMETERS` iterations, stops at the sentinel -/
def paramListRead (le : Bool) : Nat → List Nat → Outcome (List Param × List Nat)
  | 0, d => ok ([], d)
  | fuel + 1, d =>
    match paramRead le d with
    | ok (p, r) =>
      if p.pid = PID_SENTINEL then ok ([], r)
      else
        match paramListRead le fuel r with
        | ok (ps, r2) => ok (p :: ps, r2)
        | err e => err e
        | .panic => .panic
    | err e => err e
    | .panic => .panic

/-! ### locator list (submessage_elements.rs:214, overall_structure.rs:225) -/

def locatorRead (le : Bool) (d : List Nat) : Outcome (Locator × List Nat) :=
  match readI32 le d with
  | ok (kind, d1) =>
    match readU32 le d1 with
    | ok (port, d2) =>
      match readBytes 16 d2 with
      | ok (addr, d3) => ok ({ kind := kind, port := port, address := addr }, d3)
      | err e => err e
      | .panic => .panic
    | err e => err e
    | .panic => .panic
  | err e => err e
  | .panic => .panic

def locatorsRead (le : Bool) : Nat → List Nat → Outcome (List Locator × List Nat)
  | 0, d => ok ([], d)
  | n + 1, d =>
    match locatorRead le d with
    | ok (l, r) =>
      match locatorsRead le n r with
      | ok (ls, r2) => ok (l :: ls, r2)
      | err e => err e
      | .panic => .panic
    | err e => err e
    | .panic => .panic

/-- `LocatorList::try_read_from_bytes`: `for _ in 0..num_locators` stops at the first failed read (`?`), so
    the loop runs at most `d.length / 24 + 1` times whatever `num_locators` says -/
def locatorListRead (le : Bool) (d : List Nat) : Outcome (List Locator × List Nat) :=
  match readU32 le d with
  | ok (n, r) => locatorsRead le n r
  | err e => err e
  | .panic => .panic

/-! ### submessage parsers (submessages/*.rs `try_from_bytes`) -/

def flagBit (flags i : Nat) : Bool := (flags / 2 ^ i) % 2 = 1

/-- common tail of DATA / DATA_FRAG: `&data[octets_to_inline_qos..end_position]`, inline QoS, payload -/
def qosAndPayload (le q : Bool) (len oti : Nat) (data : List Nat) : Outcome (List Param × List Nat) :=
  let endp := if len = 0 then data.length else len
  if oti > endp then err .invalidData
  else
    let sl := (data.take endp).drop oti
    if q then paramListRead le MAX_PARAMETERS sl else ok ([], sl)

/-- data.rs:27 -/
def dataRead (le : Bool) (flags len : Nat) (data : List Nat) : Outcome Sub :=
  if len > data.length then err .invalidData
  else
    match readU16 le data with
    | ok (_, s1) =>
      match readU16 le s1 with
      | ok (oti0, s2) =>
        match readBytes 4 s2 with
        | ok (reader, s3) =>
          match readBytes 4 s3 with
          | ok (writer, s4) =>
            match readSN le s4 with
            | ok (sn, _) =>
              match qosAndPayload le (flagBit flags 1) len (oti0 + 4) data with
              | ok (qos, rest) =>
                ok (.data (flagBit flags 1) (flagBit flags 2) (flagBit flags 3) (flagBit flags 4) reader writer sn qos
                      (if flagBit flags 2 || flagBit flags 3 then rest else []))
              | err e => err e
              | .panic => .panic
            | err e => err e
            | .panic => .panic
          | err e => err e
          | .panic => .panic
        | err e => err e
        | .panic => .panic
      | err e => err e
      | .panic => .panic
    | err e => err e
    | .panic => .panic

/-- data_frag.rs:30 -/
def dataFragRead (le : Bool) (flags len : Nat) (data : List Nat) : Outcome Sub :=
  if len > data.length then err .invalidData
  else if data.length < 32 then err .notEnoughData
  else
    match readU16 le data with
    | ok (_, s1) =>
      match readU16 le s1 with
      | ok (oti0, s2) =>
        match readBytes 4 s2 with
        | ok (reader, s3) =>
          match readBytes 4 s3 with
          | ok (writer, s4) =>
            match readSN le s4 with
            | ok (sn, s5) =>
              match readU32 le s5 with
              | ok (fragStart, s6) =>
                match readU16 le s6 with
                | ok (fragsInSub, s7) =>
                  match readU16 le s7 with
                  | ok (fragSize, s8) =>
                    match readU32 le s8 with
                    | ok (dataSize, _) =>
                      match qosAndPayload le (flagBit flags 1) len (oti0 + 4) data with
                      | ok (qos, rest) =>
                        ok (.dataFrag (flagBit flags 1) (flagBit flags 2) (flagBit flags 3) reader writer sn
                              fragStart fragsInSub fragSize dataSize qos rest)
                      | err e => err e
                      | .panic => .panic
                    | err e => err e
                    | .panic => .panic
                  | err e => err e
                  | .panic => .panic
                | err e => err e
                | .panic => .panic
              | err e => err e
              | .panic => .panic
            | err e => err e
            | .panic => .panic
          | err e => err e
          | .panic => .panic
        | err e => err e
        | .panic => .panic
      | err e => err e
      | .panic => .panic
    | err e => err e
    | .panic => .panic

/-- gap.rs:22 -/
def gapRead (chk le : Bool) (data : List Nat) : Outcome Sub :=
  match readBytes 4 data with
  | ok (reader, s1) =>
    match readBytes 4 s1 with
    | ok (writer, s2) =>
      match readSN le s2 with
      | ok (start, s3) =>
        match snsetRead chk le s3 with
        | ok (set, _) => ok (.gap reader writer start set)
        | err e => err e
        | .panic => .panic
      | err e => err e
      | .panic => .panic
    | err e => err e
    | .panic => .panic
  | err e => err e
  | .panic => .panic

/-- heartbeat.rs:24 -/
def heartbeatRead (le : Bool) (flags : Nat) (data : List Nat) : Outcome Sub :=
  match readBytes 4 data with
  | ok (reader, s1) =>
    match readBytes 4 s1 with
    | ok (writer, s2) =>
      match readSN le s2 with
      | ok (first, s3) =>
        match readSN le s3 with
        | ok (last, s4) =>
          match readI32 le s4 with
          | ok (count, _) => ok (.heartbeat (flagBit flags 1) (flagBit flags 2) reader writer first last count)
          | err e => err e
          | .panic => .panic
        | err e => err e
        | .panic => .panic
      | err e => err e
      | .panic => .panic
    | err e => err e
    | .panic => .panic
  | err e => err e
  | .panic => .panic

/-- ack_nack.rs:22 -/
def ackNackRead (chk le : Bool) (flags : Nat) (data : List Nat) : Outcome Sub :=
  match readBytes 4 data with
  | ok (reader, s1) =>
    match readBytes 4 s1 with
    | ok (writer, s2) =>
      match snsetRead chk le s2 with
      | ok (set, s3) =>
        match readI32 le s3 with
        | ok (count, _) => ok (.ackNack (flagBit flags 1) reader writer set count)
        | err e => err e
        | .panic => .panic
      | err e => err e
      | .panic => .panic
    | err e => err e
    | .panic => .panic
  | err e => err e
  | .panic => .panic

/-- nack_frag.rs:22 -/
def nackFragRead (guarded le : Bool) (data : List Nat) : Outcome Sub :=
  match readBytes 4 data with
  | ok (reader, s1) =>
    match readBytes 4 s1 with
    | ok (writer, s2) =>
      match readSN le s2 with
      | ok (sn, s3) =>
        match fnsetRead guarded le s3 with
        | ok (set, s4) =>
          match readI32 le s4 with
          | ok (count, _) => ok (.nackFrag reader writer sn set count)
          | err e => err e
          | .panic => .panic
        | err e => err e
        | .panic => .panic
      | err e => err e
      | .panic => .panic
    | err e => err e
    | .panic => .panic
  | err e => err e
  | .panic => .panic

/-- heartbeat_frag.rs:22 -/
def heartbeatFragRead (le : Bool) (data : List Nat) : Outcome Sub :=
  match readBytes 4 data with
  | ok (reader, s1) =>
    match readBytes 4 s1 with
    | ok (writer, s2) =>
      match readSN le s2 with
      | ok (sn, s3) =>
        match readU32 le s3 with
        | ok (lastFrag, s4) =>
          match readI32 le s4 with
          | ok (count, _) => ok (.heartbeatFrag reader writer sn lastFrag count)
          | err e => err e
          | .panic => .panic
        | err e => err e
        | .panic => .panic
      | err e => err e
      | .panic => .panic
    | err e => err e
    | .panic => .panic
  | err e => err e
  | .panic => .panic

/-- info_destination.rs:17 -/
def infoDstRead (data : List Nat) : Outcome Sub :=
  match readBytes 12 data with
  | ok (p, _) => ok (.infoDst p)
  | err e => err e
  | .panic => .panic

/-- info_source.rs:19 -/
def infoSrcRead (le : Bool) (data : List Nat) : Outcome Sub :=
  match readI32 le data with
  | ok (_, s1) =>
    match readBytes 2 s1 with
    | ok (version, s2) =>
      match readBytes 2 s2 with
      | ok (vendor, s3) =>
        match readBytes 12 s3 with
        | ok (p, _) => ok (.infoSrc version vendor p)
        | err e => err e
        | .panic => .panic
      | err e => err e
      | .panic => .panic
    | err e => err e
    | .panic => .panic
  | err e => err e
  | .panic => .panic

/-- info_reply.rs:20 -/
def infoReplyRead (le : Bool) (flags : Nat) (data : List Nat) : Outcome Sub :=
  match locatorListRead le data with
  | ok (uni, s1) =>
    if flagBit flags 1 then
      match locatorListRead le s1 with
      | ok (multi, _) => ok (.infoReply true uni multi)
      | err e => err e
      | .panic => .panic
    else ok (.infoReply false uni [])
  | err e => err e
  | .panic => .panic

/-- info_timestamp.rs:17; `TIME_INVALID = (0xffffffff, 0xffffffff)` -/
def infoTsRead (le : Bool) (flags : Nat) (data : List Nat) : Outcome Sub :=
  if flagBit flags 1 then ok (.infoTs true 4294967295 4294967295)
  else
    match readU32 le data with
    | ok (sec, s1) =>
      match readU32 le s1 with
      | ok (frac, _) => ok (.infoTs false sec frac)
      | err e => err e
      | .panic => .panic
    | err e => err e
    | .panic => .panic

/-- the `match submessage_header.submessage_id()` of overall_structure.rs:356-393 -/
def decodeSub (c : Cfg) (id flags len : Nat) (le : Bool) (v : List Nat) : Outcome Sub :=
  if id = 0x06 then ackNackRead c.snchk le flags v
  else if id = 0x15 then dataRead le flags len v
  else if id = 0x16 then dataFragRead le flags len v
  else if id = 0x08 then gapRead c.snchk le v
  else if id = 0x07 then heartbeatRead le flags v
  else if id = 0x13 then heartbeatFragRead le v
  else if id = 0x0e then infoDstRead v
  else if id = 0x0f then infoReplyRead le flags v
  else if id = 0x0c then infoSrcRead le v
  else if id = 0x09 then infoTsRead le flags v
  else if id = 0x12 then nackFragRead c.d5 le v
  else if id = 0x01 then ok .pad
  else err .unknownMessage

/-- fixes/D-wire-3.patch: the octets handed to the parser and skipped afterwards.  DDSI-RTPS 2.5 9.4.5.1.3:
    octetsToNextHeader = 0 is an empty submessage for PAD (0x01) and INFO_TS (0x09); for every other kind the
    submessage extends to the end of the message -/
def extentOf (id len restLen : Nat) : Nat :=
  if len = 0 ∧ id ≠ 0x01 ∧ id ≠ 0x09 then restLen else len

/-- the submessage loop of `RtpsMessageRead::try_from` (overall_structure.rs:347-407): `fuel` iterations;
    a submessage whose parser fails is skipped.
    `c.ext = false` (before fixes/D-wire-3.patch): every parser is handed the whole rest of the datagram;
    DATA/DATA_FRAG with length 0 that parse extend to the end.
    `c.ext = true`: the parser sees `rest[..extent]` only and `extent` octets are skipped whatever it returns. -/
def decodeLoop (c : Cfg) : Nat → List Nat → Outcome (List Sub)
  | 0, _ => ok []
  | fuel + 1, v =>
    match v with
    | id :: fl :: l0 :: l1 :: rest =>
      let le := fl % 2 = 1
      let len := u16of le l0 l1
      if rest.length < len then ok []
      else if c.ext then
        match decodeSub c id fl len le (rest.take (extentOf id len rest.length)) with
        | ok s =>
          match decodeLoop c fuel (rest.drop (extentOf id len rest.length)) with
          | ok ss => ok (s :: ss)
          | err e => err e
          | .panic => .panic
        | err _ => decodeLoop c fuel (rest.drop (extentOf id len rest.length))
        | .panic => .panic
      else
        match decodeSub c id fl len le rest with
        | ok s =>
          let adv := if len = 0 ∧ s.isDataLike then rest.length else len
          match decodeLoop c fuel (rest.drop adv) with
          | ok ss => ok (s :: ss)
          | err e => err e
          | .panic => .panic
        | err _ => decodeLoop c fuel (rest.drop len)
        | .panic => .panic
    | _ => ok []

/-- `b"RTPS"` -/
def MAGIC : List Nat := [82, 84, 80, 83]

/-- `impl TryFrom<&[u8]> for RtpsMessageRead` (overall_structure.rs:326) -/
def decodeG (c : Cfg) (v : List Nat) : Outcome Msg :=
  if v.length < 20 then err .notEnoughData
  else if v.take 4 ≠ MAGIC then err .invalidData
  else
    match decodeLoop c MAX_SUBMESSAGES (v.drop 20) with
    | ok ss =>
      ok { header := { version := (v.drop 4).take 2, vendorId := (v.drop 6).take 2, guidPrefix := (v.drop 8).take 12 },
           subs := ss }
    | err e => err e
    | .panic => .panic

/-- the decoder of main + fixes/D-wire-3.patch + fixes/D-wire-4.patch (the delivered model of the code) -/
def decode (v : List Nat) : Outcome Msg := decodeG Cfg.fixed v
/-- the decoder of repository main at bdfece3 (regression witnesses of D-wire-3 / D-wire-4) -/
def decodeMain (v : List Nat) : Outcome Msg := decodeG Cfg.main v
/-- the decoder of the first delivery's tree, before the D5 fix (regression witnesses of D5 / D-wire-1) -/
def decodeOrig (v : List Nat) : Outcome Msg := decodeG Cfg.orig v

/-! ### encoder (`WriteIntoBytes`, `Submessage::write_*`, `RtpsMessageWrite::new`)

The repository writes little-endian only (`to_le_bytes`); `le = false` gives the big-endian encoding a
peer may send (spec encoder) and is used for the decode side of C08. -/

def u16E (le : Bool) (x : Nat) : List Nat :=
  if le then [x % 256, x / 256 % 256] else [x / 256 % 256, x % 256]
def u32E (le : Bool) (x : Nat) : List Nat :=
  if le then [x % 256, x / 256 % 256, x / 65536 % 256, x / 16777216 % 256]
  else [x / 16777216 % 256, x / 65536 % 256, x / 256 % 256, x % 256]
/-- two's complement pattern of an `i32` / `i16` (also `x as u32` for wider `x`) -/
def i32E (le : Bool) (x : Int) : List Nat := u32E le (x % 4294967296).toNat
def i16E (le : Bool) (x : Int) : List Nat := u16E le (x % 65536).toNat
/-- overall_structure.rs:209: `high = (sn >> 32) as i32`, `low = sn as u32` -/
def snE (le : Bool) (sn : Int) : List Nat :=
  i32E le (sn / 4294967296) ++ u32E le (sn % 4294967296).toNat

def wordsE (le : Bool) : List Nat → List Nat
  | [] => []
  | w :: ws => u32E le w ++ wordsE le ws

/-- `&self.bitmap[..number_of_bitmap_elements]` panics if `M > 8` (never for sets made by `new`/decoded) -/
def snsetE (le : Bool) (s : SNSet) : List Nat :=
  snE le s.base ++ u32E le s.numBits ++ wordsE le (s.bitmap.take (divCeil32 s.numBits))
def fnsetE (le : Bool) (s : FNSet) : List Nat :=
  u32E le s.base ++ u32E le s.numBits ++ wordsE le (s.bitmap.take (divCeil32 s.numBits))

/-- submessage_elements.rs:305: value, zero padding to a multiple of 4, `(length as i16)` -/
def padLen (n : Nat) : Nat := (4 - n % 4) % 4
def paramE (le : Bool) (p : Param) : List Nat :=
  i16E le p.pid ++ u16E le ((p.value.length + padLen p.value.length) % 65536) ++ p.value
    ++ List.replicate (padLen p.value.length) 0
def paramsE (le : Bool) : List Param → List Nat
  | [] => []
  | p :: ps => paramE le p ++ paramsE le ps
/-- submessage_elements.rs:322: parameters, then `PID_SENTINEL` and two zero octets -/
def paramListE (le : Bool) (ps : List Param) : List Nat := paramsE le ps ++ i16E le PID_SENTINEL ++ [0, 0]

def locatorE (le : Bool) (l : Locator) : List Nat := i32E le l.kind ++ u32E le l.port ++ l.address
def locatorsE (le : Bool) : List Locator → List Nat
  | [] => []
  | l :: ls => locatorE le l ++ locatorsE le ls
def locatorListE (le : Bool) (ls : List Locator) : List Nat := u32E le (ls.length % P32) ++ locatorsE le ls

def b2n (b : Bool) : Nat := if b then 1 else 0

/-- submessage id octet (types.rs:102) -/
def Sub.id : Sub → Nat
  | .data .. => 0x15
  | .dataFrag .. => 0x16
  | .gap .. => 0x08
  | .heartbeat .. => 0x07
  | .ackNack .. => 0x06
  | .nackFrag .. => 0x12
  | .heartbeatFrag .. => 0x13
  | .infoDst .. => 0x0e
  | .infoSrc .. => 0x0c
  | .infoReply .. => 0x0f
  | .infoTs .. => 0x09
  | .pad => 0x01

/-- flag octet without the endianness bit (`SubmessageHeaderWrite::new`, overall_structure.rs:546), with
    fixes/D-wire-2.patch: INFO_REPLY passes `&[self.multicast_flag]` -/
def Sub.flags : Sub → Nat
  | .data q d k n .. => 2 * b2n q + 4 * b2n d + 8 * b2n k + 16 * b2n n
  | .dataFrag q k n .. => 2 * b2n q + 4 * b2n k + 8 * b2n n
  | .heartbeat f l .. => 2 * b2n f + 4 * b2n l
  | .ackNack f .. => 2 * b2n f
  | .infoTs inv .. => 2 * b2n inv
  | .infoReply m .. => 2 * b2n m
  | _ => 0

/-- before fixes/D-wire-2.patch INFO_REPLY passed `&[]`: its multicast flag was never written (D-wire-2) -/
def Sub.flagsOld : Sub → Nat
  | .infoReply .. => 0
  | s => s.flags

/-- `write_submessage_elements_into_bytes` -/
def Sub.body (le : Bool) : Sub → List Nat
  | .data q d k _ reader writer sn qos payload =>
    u16E le 0 ++ u16E le 16 ++ reader ++ writer ++ snE le sn
      ++ (if q then paramListE le qos else []) ++ (if d || k then payload else [])
  | .dataFrag q _ _ reader writer sn fragStart fragsInSub fragSize dataSize qos payload =>
    u16E le 0 ++ u16E le 28 ++ reader ++ writer ++ snE le sn ++ u32E le fragStart ++ u16E le fragsInSub
      ++ u16E le fragSize ++ u32E le dataSize ++ (if q then paramListE le qos else []) ++ payload
  | .gap reader writer start set => reader ++ writer ++ snE le start ++ snsetE le set
  | .heartbeat _ _ reader writer first last count => reader ++ writer ++ snE le first ++ snE le last ++ i32E le count
  | .ackNack _ reader writer set count => reader ++ writer ++ snsetE le set ++ i32E le count
  | .nackFrag reader writer sn set count => reader ++ writer ++ snE le sn ++ fnsetE le set ++ i32E le count
  | .heartbeatFrag reader writer sn lastFrag count => reader ++ writer ++ snE le sn ++ u32E le lastFrag ++ i32E le count
  | .infoDst p => p
  | .infoSrc version vendor p => u32E le 0 ++ version ++ vendor ++ p
  | .infoReply m uni multi => locatorListE le uni ++ (if m then locatorListE le multi else [])
  | .infoTs inv sec frac => if inv then [] else u32E le sec ++ u32E le frac
  | .pad => []

/-- `write_submessage_into_bytes` (overall_structure.rs:257): header with `len as u16`, then the elements -/
def subE (le : Bool) (s : Sub) : List Nat :=
  [s.id, s.flags + b2n le] ++ u16E le ((s.body le).length % 65536) ++ s.body le

def subsE (le : Bool) : List Sub → List Nat
  | [] => []
  | s :: ss => subE le s ++ subsE le ss

/-- `RtpsMessageHeader::write_into_bytes` (overall_structure.rs:530) -/
def headerE (h : Header) : List Nat := MAGIC ++ h.version ++ h.vendorId ++ h.guidPrefix

/-- `RtpsMessageWrite::new` for either byte order -/
def encodeE (le : Bool) (m : Msg) : List Nat := headerE m.header ++ subsE le m.subs
/-- what the repository writes: little-endian -/
def encode (m : Msg) : List Nat := encodeE true m

/-- the writer before fixes/D-wire-2.patch (regression witness, and the differential run on an unpatched tree) -/
def subEOld (le : Bool) (s : Sub) : List Nat :=
  [s.id, s.flagsOld + b2n le] ++ u16E le ((s.body le).length % 65536) ++ s.body le
def subsEOld (le : Bool) : List Sub → List Nat
  | [] => []
  | s :: ss => subEOld le s ++ subsEOld le ss
def encodeOld (m : Msg) : List Nat := headerE m.header ++ subsEOld true m.subs
/-- the writer of a given tree -/
def encodeC (c : Cfg) (m : Msg) : List Nat := if c.mflag then encode m else encodeOld m

/-! ### size of the decoded value (octets held in heap containers), for the allocation bound -/
def paramsSize : List Param → Nat
  | [] => 0
  | p :: ps => p.value.length + paramsSize ps
def Sub.size : Sub → Nat
  | .data _ _ _ _ _ _ _ qos payload => paramsSize qos + payload.length
  | .dataFrag _ _ _ _ _ _ _ _ _ _ qos payload => paramsSize qos + payload.length
  | .infoReply _ uni multi => 24 * uni.length + 24 * multi.length
  | _ => 0
def subsSize : List Sub → Nat
  | [] => 0
  | s :: ss => s.size + subsSize ss

end DustVerif.Wire
