import DustVerif.Model.Derive
/-! Model of the IDL compiler `dust_dds_gen::compile_idl` (property C41), Rust back end.

    Transcribes, AS THEY ARE,
      * dds_gen/src/generator/rust.rs                  (what is written for each grammar rule),
      * dds_gen/src/parser/idl_v4_grammar.pest         (only as far as it decides accept / reject for the AST below),
    and, for the composition with C40 (`elaborate`): how the generated items are read by `#[derive(DdsType)]`
    (dds_derive/src/derive/attributes.rs: ONLY THE FIRST `#[dust_dds(..)]` attribute of an item / field is parsed)
    and how rustc resolves the paths the generator writes.

    IDL AST = the subset the generator handles: modules (nested), structs with member annotations @key / @id(n) /
    @optional / others and type annotations @final / @appendable / @mutable / others, enums with @value / @bit_bound,
    unions with integer discriminator, integer case labels and default, typedefs, constants, sequences and strings
    (bounded / unbounded), arrays (any number of dimensions), all base type spellings, scoped names.
    Outside (the driver answers `bad-op`): inheritance, interfaces, bitsets, bitmasks, maps, fixed, any, long double. -/
namespace DustVerif.Idl
open DustVerif.Derive

/-! ## IDL AST -/

/-- base_type_spec spellings (grammar rules (24)-(37), (208)-(215)) -/
inductive Base
  | short | int16 | long | int32 | longlong | int64 | ushort | uint16 | ulong | uint32 | ulonglong | uint64
  | int8 | uint8 | float | double | char | wchar | boolean | octet
  deriving DecidableEq, Repr, Inhabited

inductive TypeSpec
  | base (b : Base)
  | str (bound : Option Nat)
  | wstr (bound : Option Nat)
  | seq (t : TypeSpec) (bound : Option Nat)
  | name (abs : Bool) (path : List String)        -- scoped_name: `::A::B` (abs) or `A::B`
  deriving Repr, Inhabited

/-- member annotation in source order -/
inductive MAnn
  | key
  | id (n : Nat)
  | optional
  | other (name : String)
  deriving DecidableEq, Repr, Inhabited

/-- declarator: `x` (dims = []) or `x[2][3]` -/
structure Declr where
  name : String
  dims : List Nat
  deriving Repr, Inhabited

structure Member where
  anns : List MAnn
  ty : TypeSpec
  decls : List Declr
  deriving Repr, Inhabited

/-- type annotation of a struct in source order; `ext` are the shortcuts @final / @appendable / @mutable,
    everything else (@nested, @extensibility(X), @topic, …) is `other` -/
inductive SAnn
  | ext (e : Ext)
  | other (name : String)
  deriving DecidableEq, Repr, Inhabited

structure StructDef where
  name : String
  anns : List SAnn
  members : List Member
  deriving Repr, Inhabited

structure EnumDef where
  name : String
  bitBound : Option Nat
  enumerators : List (String × Option Nat)
  deriving Repr, Inhabited

inductive Label
  | int (n : Nat)
  | dflt
  deriving DecidableEq, Repr, Inhabited

structure Case where
  labels : List Label
  ty : TypeSpec
  decl : Declr
  deriving Repr, Inhabited

structure UnionDef where
  name : String
  anns : List String            -- the grammar has no annotation_appl in union_def (rule (50)): any annotation is a syntax error
  disc : Base
  cases : List Case
  deriving Repr, Inhabited

structure ConstDef where
  name : String
  ty : TypeSpec
  text : String                 -- the const_expr, copied verbatim (rust.rs:1098-1100)
  deriving Repr, Inhabited

mutual
inductive Def
  | module (name : String) (defs : Defs)
  | struct (s : StructDef)
  | enum (e : EnumDef)
  | union (u : UnionDef)
  | typedef (ty : TypeSpec) (decls : List Declr)
  | const (c : ConstDef)
inductive Defs
  | nil
  | cons (d : Def) (rest : Defs)
end

instance : Inhabited Def := ⟨.const default⟩

/-! ## generated Rust, as a structure -/

inductive RustTy
  | prim (p : Prim)
  | vec (t : RustTy)
  | arr (t : RustTy) (n : Nat)
  | opt (t : RustTy)
  /-- a written path: `supers` leading `super::` segments, or (`rootAbs`) a leading `::`, then `segs` -/
  | path (supers : Nat) (rootAbs : Bool) (segs : List String)
  deriving DecidableEq, Repr, Inhabited

/-- one `#[dust_dds(..)]` attribute on a field; the generator writes ONE ATTRIBUTE PER ANNOTATION (rust.rs:669-687) -/
inductive FAttr
  | key
  | id (n : Nat)
  | optional
  deriving DecidableEq, Repr, Inhabited

structure RustField where
  name : String
  attrs : List FAttr
  ty : RustTy
  deriving Repr, Inhabited

/-- one `#[dust_dds(..)]` attribute on a struct (rust.rs:341-361) -/
inductive SAttr
  | ext (e : Ext)
  | name (n : String)
  deriving DecidableEq, Repr, Inhabited

structure RustStruct where
  name : String
  attrs : List SAttr
  fields : List RustField
  deriving Repr, Inhabited

/-- enum attributes (rust.rs:401-439): `#[dust_dds(name = "..")]` first, then `#[dust_dds(bit_bound( N))]` — a spelling the
    derive macro rejects (it expects `bit_bound = "N"`) -/
structure RustEnum where
  name : String
  nameAttr : Option String
  bitBoundAttr : Option Nat
  variants : List (String × Option Nat)
  deriving Repr, Inhabited

/-- union variant (rust.rs:551-638): `#[dust_dds(case = a, case = b, default, )] Case<a> { field: T }` -/
structure RustVariant where
  name : String
  cases : List Nat
  isDefault : Bool
  field : String
  ty : RustTy
  deriving Repr, Inhabited

structure RustUnion where
  name : String
  disc : Prim
  nameAttr : Option String
  variants : List RustVariant
  deriving Repr, Inhabited

mutual
inductive RustItem
  | module (name : String) (items : RustItems)
  | struct (s : RustStruct)
  | enum (e : RustEnum)
  | union (u : RustUnion)
  | alias (name : String) (ty : RustTy)
  | const (name : String) (ty : RustTy) (text : String)
inductive RustItems
  | nil
  | cons (i : RustItem) (rest : RustItems)
end

/-! ## the generator (rust.rs) -/

/-- rust.rs:966-1168 -/
def mapBase : Base → Prim
  | .short => .i16 | .int16 => .i16 | .long => .i32 | .int32 => .i32 | .longlong => .i64 | .int64 => .i64
  | .ushort => .u16 | .uint16 => .u16 | .ulong => .u32 | .uint32 => .u32 | .ulonglong => .u64 | .uint64 => .u64
  | .int8 => .i8 | .uint8 => .u8 | .float => .f32 | .double => .f64 | .char => .char | .wchar => .char
  | .boolean => .bool | .octet => .u8

/-- `type_spec` (rust.rs:940-1115); `depth` = `self.modules.len()`.
    AS IS: the bound of `string<N>` / `wstring<N>` / `sequence<T, N>` is dropped (rust.rs:1056-1077);
    `::A::B` is written as `super::`×depth followed by `::A::B`, which at depth 0 is the literal `::A::B` (rust.rs:1102-1115). -/
def mapType (depth : Nat) : TypeSpec → RustTy
  | .base b => .prim (mapBase b)
  | .str _ => .prim .string
  | .wstr _ => .prim .string
  | .seq t _ => .vec (mapType depth t)
  | .name false p => .path 0 false p
  | .name true p => if depth = 0 then .path 0 true p else .path depth false p

/-- AS IS: only the FIRST `fixed_array_size` of an array declarator is used (rust.rs:703-707 "TODO: Only single array supported") -/
def wrapArray (t : RustTy) : List Nat → RustTy
  | [] => t
  | n :: _ => .arr t n

def mannAttr : MAnn → Option FAttr
  | .key => some .key
  | .id n => some (.id n)
  | .optional => some .optional
  | .other _ => none

/-- `is_optional` of rust.rs:652-687: set as soon as one annotation is @optional -/
def hasOptional : List MAnn → Bool
  | [] => false
  | .optional :: _ => true
  | _ :: r => hasOptional r

def hasKey : List MAnn → Bool
  | [] => false
  | .key :: _ => true
  | _ :: r => hasKey r

/-- rust.rs:640-737 with fixes/D-gen-15.patch: the attributes of the member are written before EVERY declarator; every
    declarator gets the `Option<..>` wrapper when @optional is present -/
def mapDecls (depth : Nat) (ty : TypeSpec) (isOpt : Bool) (attrs : List FAttr) : List Declr → List RustField
  | [] => []
  | d :: r =>
    let t := wrapArray (mapType depth ty) d.dims
    { name := d.name, attrs := attrs, ty := if isOpt then .opt t else t } :: mapDecls depth ty isOpt attrs r

/-- AS IT WAS before fix D-gen-15: the attributes were written ONCE, before the first declarator -/
def mapDeclsOld (depth : Nat) (ty : TypeSpec) (isOpt : Bool) : List FAttr → List Declr → List RustField
  | _, [] => []
  | attrs, d :: r =>
    let t := wrapArray (mapType depth ty) d.dims
    { name := d.name, attrs := attrs, ty := if isOpt then .opt t else t } :: mapDeclsOld depth ty isOpt [] r

def mapMember (depth : Nat) (m : Member) : List RustField :=
  mapDecls depth m.ty (hasOptional m.anns) (m.anns.filterMap mannAttr) m.decls

def mapMembers (depth : Nat) : List Member → List RustField
  | [] => []
  | m :: r => mapMember depth m ++ mapMembers depth r

/-- rust.rs:341-352 with fixes/D-gen-16.patch: the shortcuts and the long spelling `@extensibility(FINAL|APPENDABLE|MUTABLE)`
    (the argument is compared case-insensitively; the test generator writes it in upper case) -/
def sannExt : SAnn → Option SAttr
  | .ext e => some (.ext e)
  | .other "extensibility:FINAL" => some (.ext .final)
  | .other "extensibility:APPENDABLE" => some (.ext .appendable)
  | .other "extensibility:MUTABLE" => some (.ext .mutable)
  | .other _ => none

/-- AS IT WAS before fix D-gen-16: only the shortcut annotations were recognised -/
def sannExtOld : SAnn → Option SAttr
  | .ext e => some (.ext e)
  | .other _ => none

def qualified (mods : List String) (name : String) : String := String.intercalate "::" (mods ++ [name])

/-- rust.rs:316-391 (without inheritance): one extensibility attribute per shortcut annotation, then the `name` attribute
    when inside a module -/
def mapStruct (mods : List String) (s : StructDef) : RustStruct :=
  { name := s.name,
    attrs := s.anns.filterMap sannExt ++ (if mods.isEmpty then [] else [.name (qualified mods s.name)]),
    fields := mapMembers mods.length s.members }

/-- rust.rs:393-453, 497-535 -/
def mapEnum (mods : List String) (e : EnumDef) : RustEnum :=
  { name := e.name, nameAttr := if mods.isEmpty then none else some (qualified mods e.name),
    bitBoundAttr := e.bitBound, variants := e.enumerators }

def labelInts : List Label → List Nat
  | [] => []
  | .int n :: r => n :: labelInts r
  | .dflt :: r => labelInts r

/-- rust.rs:551-638: the variant is named after the FIRST label (`Case<n>` / `Default`) -/
def mapCase (depth : Nat) (c : Case) : RustVariant :=
  { name := match c.labels.head? with
      | some (.int n) => "Case" ++ toString n
      | _ => "Default",
    cases := labelInts c.labels, isDefault := c.labels.contains .dflt, field := c.decl.name,
    ty := wrapArray (mapType depth c.ty) c.decl.dims }

/-- rust.rs:455-494 -/
def mapUnion (mods : List String) (u : UnionDef) : RustUnion :=
  { name := u.name, disc := mapBase u.disc, nameAttr := if mods.isEmpty then none else some (qualified mods u.name),
    variants := u.cases.map (mapCase mods.length) }

/-- rust.rs:905-923 for simple declarators (an array declarator reaches `Rule::array_declarator => todo!()`, see `outcome`) -/
def mapTypedef (depth : Nat) (ty : TypeSpec) : List Declr → List (String × RustTy)
  | [] => []
  | d :: r => (d.name, mapType depth ty) :: mapTypedef depth ty r

/-- rust.rs:1143-1153: a string constant is `&str` -/
def constTy (depth : Nat) : TypeSpec → RustTy
  | .str _ => .path 0 false ["&str"]
  | t => mapType depth t

def aliasItems : List (String × RustTy) → RustItems → RustItems
  | [], k => k
  | (n, t) :: r, k => .cons (.alias n t) (aliasItems r k)

mutual
/-- rust.rs:243-278 and the per-definition functions: one item per definition, modules recursively -/
def genDef (mods : List String) : Def → RustItems → RustItems
  | .module n ds, k => .cons (.module n (generate (mods ++ [n]) ds)) k
  | .struct s, k => .cons (.struct (mapStruct mods s)) k
  | .enum e, k => .cons (.enum (mapEnum mods e)) k
  | .union u, k => .cons (.union (mapUnion mods u)) k
  | .typedef ty ds, k => aliasItems (mapTypedef mods.length ty ds) k
  | .const c, k => .cons (.const c.name (constTy mods.length c.ty) c.text) k
def generate (mods : List String) : Defs → RustItems
  | .nil => .nil
  | .cons d r => genDef mods d (generate mods r)
end

/-! ## accept / reject of `compile_idl` for this AST -/

inductive Outcome
  | ok
  /-- `Err(..)`: the pest grammar rejects the text -/
  | err
  /-- the generator panics (`todo!()`, `unimplemented!()`) -/
  | panic
  /-- the output is produced but does not compile against dust_dds -/
  | rustc
  deriving DecidableEq, Repr, Inhabited

def Outcome.worse : Outcome → Outcome → Outcome
  | .err, _ => .err
  | _, .err => .err
  | .panic, _ => .panic
  | _, .panic => .panic
  | .rustc, _ => .rustc
  | _, .rustc => .rustc
  | .ok, .ok => .ok

/-- `sequence<string<8>>` (written without a blank, as the test generator prints it): after the bound `8` the grammar's
    `const_expr` takes `>>` as the shift operator (rules (7), (12), (39)-(41)) and the parse fails -/
def shiftClash : TypeSpec → Bool
  | .seq (.str (some _)) none => true
  | .seq (.wstr (some _)) none => true
  | .seq (.seq t (some _)) none => true || shiftClash t
  | .seq t _ => shiftClash t
  | _ => false

def memberClash (m : Member) : Bool := shiftClash m.ty
def caseClash (c : Case) : Bool := shiftClash c.ty

mutual
/-- what `compile_idl` does before any Rust is compiled: a union with annotations is a syntax error (grammar rule (50));
    a typedef with an array declarator panics (rust.rs:113 `Rule::array_declarator => todo!()` via `any_declarator`).
    The parse happens first, so a syntax error anywhere wins over a panic. -/
def frontDef : Def → Outcome
  | .module _ ds => frontDefs ds
  | .union u => if u.anns.isEmpty && !u.cases.any caseClash then .ok else .err
  | .typedef t ds => if shiftClash t then .err else if ds.all (fun d => d.dims.isEmpty) then .ok else .panic
  | .struct s => if s.members.any memberClash then .err else .ok
  | .const c => if shiftClash c.ty then .err else .ok
  | .enum _ => .ok
def frontDefs : Defs → Outcome
  | .nil => .ok
  | .cons d r => (frontDef d).worse (frontDefs r)
end

/-! ## how the generated items are understood by rustc and `#[derive(DdsType)]` -/

/-- environment: absolute path of every item declared so far and the declaration tree the derive sees for it
    (type aliases carry the tree of their target) -/
structure Entry where
  path : List String
  ty : Ty
  isAlias : Bool

abbrev Env := List Entry

def lookupPath (p : List String) : Env → Option Ty
  | [] => none
  | e :: r => if e.path == p then some e.ty else lookupPath p r

/-- rustc path resolution from module `cur`: `super::`×k goes k modules up; a relative path starts in `cur`;
    a leading `::` names an extern crate — never one of the generated items -/
def resolve (cur : List String) (env : Env) : RustTy → Option Ty
  | .prim p => some (.prim p)
  | .vec t => (resolve cur env t).map Ty.vec
  | .arr t n => (resolve cur env t).map (fun x => Ty.arr x n)
  | .opt t => (resolve cur env t).map Ty.opt
  | .path supers rootAbs segs =>
    if rootAbs || segs == ["&str"] then none
    else if supers > cur.length then none
    else lookupPath (cur.take (cur.length - supers) ++ segs) env

def attrKey : List FAttr → Bool
  | [] => false
  | .key :: _ => true
  | _ :: r => attrKey r

def attrOptional : List FAttr → Bool
  | [] => false
  | .optional :: _ => true
  | _ :: r => attrOptional r

/-- every attribute is parsed in order and assigns `id = Some(..)`: the LAST `id` wins -/
def attrId : List FAttr → Option Nat
  | [] => none
  | .id n :: r => match attrId r with
    | some m => some m
    | none => some n
  | _ :: r => attrId r

/-- attributes.rs:40-44 with fixes/D-gen-14.patch: EVERY `#[dust_dds(..)]` attribute of the field is parsed -/
def fieldAttr (f : RustField) : FieldAttr :=
  { name := f.name, key := attrKey f.attrs, id := attrId f.attrs, optional := attrOptional f.attrs,
    nonSerialized := false, hashid := false }

/-- AS IT WAS before fix D-gen-14: `field.attrs.iter().find(|attr| attr.path().is_ident("dust_dds"))` — the FIRST attribute only -/
def fieldAttrOld (f : RustField) : FieldAttr :=
  { name := f.name,
    key := f.attrs.head? == some .key,
    id := match f.attrs.head? with
      | some (.id n) => some n
      | _ => none,
    optional := f.attrs.head? == some .optional,
    nonSerialized := false, hashid := false }

def lastName : List SAttr → Option String
  | [] => none
  | .name n :: r => match lastName r with
    | some m => some m
    | none => some n
  | _ :: r => lastName r

def lastExt : List SAttr → Option Ext
  | [] => none
  | .ext e :: r => match lastExt r with
    | some x => some x
    | none => some e
  | _ :: r => lastExt r

/-- attributes.rs:122-126 with fixes/D-gen-14.patch: every `#[dust_dds(..)]` of the struct is parsed, later ones overwrite -/
def structHdr (s : RustStruct) : StructHdr :=
  { ident := s.name, rename := lastName s.attrs, ext := (lastExt s.attrs).getD .final, nested := false, tuple := false }

/-- AS IT WAS before fix D-gen-14: only the first `#[dust_dds(..)]` of the struct -/
def structHdrOld (s : RustStruct) : StructHdr :=
  { ident := s.name,
    rename := match s.attrs.head? with
      | some (.name n) => some n
      | _ => none,
    ext := match s.attrs.head? with
      | some (.ext e) => e
      | _ => .final,
    nested := false, tuple := false }

def elabFields (cur : List String) (env : Env) : List RustField → Option Fields
  | [] => some .nil
  | f :: r => match resolve cur env f.ty, elabFields cur env r with
    | some t, some fs => some (.cons (fieldAttr f) t fs)
    | _, _ => none

def elabVariants (cur : List String) (env : Env) : List RustVariant → Option Variants
  | [] => some .nil
  | v :: r => match resolve cur env v.ty, elabVariants cur env r with
    | some t, some vs =>
      some (.data { name := v.name, cases := v.cases.map Int.ofNat, isDefault := v.isDefault, field := some v.field } t vs)
    | _, _ => none

/-- the derives written are `Debug, Clone, DdsType` (rust.rs:323-324): no `PartialEq`, so a member handled through
    `self.x != default` (optional) compiles only when its type has `PartialEq` without the derive: no declared type inside -/
def hasPartialEq : Ty → Bool
  | .prim _ => true
  | .vec t => hasPartialEq t
  | .arr t _ => hasPartialEq t
  | .opt t => hasPartialEq t
  | _ => false

def fieldsCompile : Fields → Bool
  | .nil => true
  | .cons a t r => (!a.optional || hasPartialEq t) && fieldsCompile r

def elabStruct (cur : List String) (env : Env) (s : RustStruct) : Option Ty :=
  match elabFields cur env s.fields with
  | some fs =>
    let t := Ty.struct (structHdr s) fs
    if supported t && fieldsCompile fs then some t else none
  | none => none

/-- enums (rust.rs:401-439): `#[dust_dds(name = "..")]` first, then — for @bit_bound(N) — `#[dust_dds(bit_bound( N))]`, AS IT IS a
    spelling the derive's attribute parser rejects ("expected `=`": attributes.rs:197-215 wants `bit_bound = "N"`), so an enum
    with @bit_bound does not compile (D-gen-24, open: the repair of the compiler output would change what dds_gen/tests/enums.rs asserts) -/
def elabEnum (e : RustEnum) : Option Ty :=
  match e.bitBoundAttr with
  | some _ => none
  | none =>
    let t := Ty.enum { ident := e.name, rename := e.nameAttr, nested := false, bits := 32, variants := e.variants, dflt := 0 }
    if supported t then some t else none

/-- the REPAIRED behaviour (either fixes/D-gen-24.patch: the compiler writes `bit_bound = "N"`, or fixes/D-gen-24b.patch: the derive
    also accepts `bit_bound(N)`): N = 8, 16, 32 select the holder type, anything else is "Invalid bit_bound specified" -/
def elabEnumFixed (e : RustEnum) : Option Ty :=
  let bits := e.bitBoundAttr.getD 32
  if bits == 8 || bits == 16 || bits == 32 then
    let t := Ty.enum { ident := e.name, rename := e.nameAttr, nested := false, bits := bits, variants := e.variants, dflt := 0 }
    if supported t then some t else none
  else none

def elabUnion (cur : List String) (env : Env) (u : RustUnion) : Option Ty :=
  match elabVariants cur env u.variants with
  | some vs =>
    let t := Ty.union { ident := u.name, rename := u.nameAttr, ext := .final, nested := false, disc := u.disc, discKey := false } vs
    if supported t && nodupStr (u.variants.map (·.name)) then some t else none
  | none => none
where
  nodupStr : List String → Bool
    | [] => true
    | x :: r => !r.contains x && nodupStr r

/-- constants (rust.rs:1098-1100, 1117-1141): the const_expr text is copied verbatim; it compiles for numeric and string literals
    of the right type (only those and TRUE / FALSE are generated). AS IT IS, `TRUE` / `FALSE` are copied too and are not Rust
    (D-gen-28, open: the repair would change what dds_gen/tests/const_declarations.rs asserts) -/
def constCompiles (t : RustTy) : Bool :=
  match t with
  | .prim .bool => false
  | .prim _ => true
  | .path 0 false ["&str"] => true
  | _ => false

/-- the REPAIRED behaviour (fixes/D-gen-28.patch: `TRUE` / `FALSE` are written `true` / `false`) -/
def constCompilesFixed (t : RustTy) : Bool :=
  match t with
  | .prim _ => true
  | .path 0 false ["&str"] => true
  | _ => false

mutual
/-- walk the generated items in order; `none` = the crate does not compile -/
def elabItem (cur : List String) (env : Env) : RustItem → Option Env
  | .module n items => elabItems (cur ++ [n]) env items
  | .struct s => (elabStruct cur env s).map (fun t => env ++ [{ path := cur ++ [s.name], ty := t, isAlias := false }])
  | .enum e => (elabEnum e).map (fun t => env ++ [{ path := cur ++ [e.name], ty := t, isAlias := false }])
  | .union u => (elabUnion cur env u).map (fun t => env ++ [{ path := cur ++ [u.name], ty := t, isAlias := false }])
  | .alias n ty => (resolve cur env ty).map (fun t => env ++ [{ path := cur ++ [n], ty := t, isAlias := true }])
  | .const _ ty _ => if constCompiles ty then some env else none
def elabItems (cur : List String) (env : Env) : RustItems → Option Env
  | .nil => some env
  | .cons i r => match elabItem cur env i with
    | some env' => elabItems cur env' r
    | none => none
end

def notAlias (e : Entry) : Bool := !e.isAlias

def entryPair (e : Entry) : List String × Ty := (e.path, e.ty)

/-- the declared (struct / enum / union) types of the crate in declaration order, aliases left out -/
def declared (env : Env) : List (List String × Ty) := (env.filter notAlias).map entryPair

/-- full outcome for a specification -/
def outcome (ds : Defs) : Outcome :=
  match frontDefs ds with
  | .ok => match elabItems [] [] (generate [] ds) with
    | some _ => .ok
    | none => .rustc
  | o => o

def types (ds : Defs) : List (List String × Ty) :=
  match frontDefs ds, elabItems [] [] (generate [] ds) with
  | .ok, some env => declared env
  | _, _ => []


/-! ## specification side (written from IDL 4.2 / XTypes 1.3, not from the code): used in the statements of C41 -/

/-- XTypes 1.3 table 10 / 7.2.2.2: the type kind of each IDL base type (`octet` is Byte, `wchar` is Char16) -/
inductive XKind
  | int8 | uint8 | int16 | uint16 | int32 | uint32 | int64 | uint64 | float32 | float64 | char8 | char16 | boolean | byte
  deriving DecidableEq, Repr

def specKind : Base → XKind
  | .short => .int16 | .int16 => .int16 | .long => .int32 | .int32 => .int32 | .longlong => .int64 | .int64 => .int64
  | .ushort => .uint16 | .uint16 => .uint16 | .ulong => .uint32 | .uint32 => .uint32 | .ulonglong => .uint64 | .uint64 => .uint64
  | .int8 => .int8 | .uint8 => .uint8 | .float => .float32 | .double => .float64 | .char => .char8 | .wchar => .char16
  | .boolean => .boolean | .octet => .byte

/-- the Rust primitive that stands for an XTypes kind in dust_dds (no Rust type is offered for Char16 and Byte) -/
def kindPrim : XKind → Option Prim
  | .int8 => some .i8 | .uint8 => some .u8 | .int16 => some .i16 | .uint16 => some .u16 | .int32 => some .i32
  | .uint32 => some .u32 | .int64 => some .i64 | .uint64 => some .u64 | .float32 => some .f32 | .float64 => some .f64
  | .char8 => some .char | .boolean => some .bool | .char16 => none | .byte => none

/-- IDL 4.2 7.4.14: `T x[2][3]` is an array of 2 arrays of 3 `T` -/
def arrayImage (t : RustTy) : List Nat → RustTy
  | [] => t
  | n :: r => .arr (arrayImage t r) n

/-- the Rust type a declarator of a member must have: the image of the declared type, array dimensions applied,
    wrapped in `Option` for @optional -/
def fieldImage (depth : Nat) (m : Member) (d : Declr) : RustTy :=
  if hasOptional m.anns then .opt (arrayImage (mapType depth m.ty) d.dims) else arrayImage (mapType depth m.ty) d.dims

def declaredOfMember (depth : Nat) (m : Member) : List Declr → List (String × RustTy)
  | [] => []
  | d :: r => (d.name, fieldImage depth m d) :: declaredOfMember depth m r

/-- name and required Rust type of every declarator of every member, in declaration order -/
def declaredFields (depth : Nat) : List Member → List (String × RustTy)
  | [] => []
  | m :: r => declaredOfMember depth m m.decls ++ declaredFields depth r

def firstId : List MAnn → Option Nat
  | [] => none
  | .id n :: _ => some n
  | _ :: r => firstId r

/-- what a declarator's annotations declare (IDL 4.2 8.3.1: an annotation of a member applies to each of its declarators) -/
def declaredAttr (m : Member) (d : Declr) : FieldAttr :=
  { name := d.name, key := hasKey m.anns, id := firstId m.anns, optional := hasOptional m.anns,
    nonSerialized := false, hashid := false }

/-- IDL 4.2 8.3.1 / XTypes 7.3.1.2.1.8: the extensibility a type annotation declares -/
def annDeclaresExt : SAnn → Option Ext
  | .ext e => some e
  | .other "extensibility:FINAL" => some .final
  | .other "extensibility:APPENDABLE" => some .appendable
  | .other "extensibility:MUTABLE" => some .mutable
  | .other _ => none

/-- the declared extensibility: the first such annotation (two of them are an IDL error), dust_dds's default `final` -/
def declaredExt : List SAnn → Ext
  | [] => .final
  | a :: r => match annDeclaresExt a with
    | some e => e
    | none => declaredExt r

def idCount : List MAnn → Nat
  | [] => 0
  | .id _ :: r => idCount r + 1
  | _ :: r => idCount r

def extCount : List SAnn → Nat
  | [] => 0
  | a :: r => (match annDeclaresExt a with | some _ => 1 | none => 0) + extCount r

mutual
/-- (qualified path, definition) of every struct of a specification, modules recursively -/
def structsOf (mods : List String) : Defs → List (List String × StructDef)
  | .nil => []
  | .cons d r => structsOfDef mods d ++ structsOf mods r
def structsOfDef (mods : List String) : Def → List (List String × StructDef)
  | .module n ds => structsOf (mods ++ [n]) ds
  | .struct s => [(mods, s)]
  | _ => []
end

mutual
def rustStructsOf (mods : List String) : RustItems → List (List String × RustStruct)
  | .nil => []
  | .cons i r => rustStructsOfItem mods i ++ rustStructsOf mods r
def rustStructsOfItem (mods : List String) : RustItem → List (List String × RustStruct)
  | .module n items => rustStructsOf (mods ++ [n]) items
  | .struct s => [(mods, s)]
  | _ => []
end

def mapStructAt (e : List String × StructDef) : List String × RustStruct := (e.1, mapStruct e.1 e.2)

end DustVerif.Idl
