import DustVerif.Model.Key
/-!
# Type assignability and type evolution (C39)

* `assignable tr tw` transcribes `CompleteTypeObject::is_assignable_from_w_type_consistency`
  (dds/src/xtypes/type_object.rs:2665) with the default `TypeConsistencyEnforcementQosPolicy`
  (`ignore_sequence_bounds`, `ignore_string_bounds` = true, `ignore_member_names` = false) for the complete type
  objects `CompleteTypeObject::from(DynamicType)` builds (type_object.rs:2009, 2144, 2297). Member types are
  `TypeIdentifier`s (`Tid`): a nested structure or enumeration is `EkComplete { hash }`, and the rule for it
  (type_object.rs:2628) looks at the *kind* of the other identifier only.
  Member names are a function of the member id (harness: `m<id>`), so the name rules never fire.
* `project tr tw v` is what a reader with type `tr` should see of the writer's value `v : tw`: common members keep
  their value, members only the reader has are without value.
* `evolves tr tw` (decidable) is the evolution relation the theorem `C39_project_partial` covers: appendable
  structures that differ by members at the end, mutable structures with members added / removed / reordered.
* decoding with the reader's type is `deTop cfg tr (serTop cfg ver e tw v)`: the decoder of `Model/Xcdr.lean` is
  driven by the type it is given, exactly like `deserialize_top_level_type(reader_type, bytes)`.
-/
namespace DustVerif.Xcdr

/-! ### Boolean equality of types (the mutual inductives have no derived `DecidableEq`) -/
mutual
  def Ty.beq : Ty → Ty → Bool
    | .prim p, .prim q => p == q
    | .str, .str => true
    | .enum h ls x, .enum h' ls' x' => h == h' && ls == ls' && x == x'
    | .wstr, .wstr => true
    | .seq a, .seq b => Ty.beq a b
    | .arr a n, .arr b m => n == m && Ty.beq a b
    | .struct x ms, .struct y ns => x == y && Ms.beq ms ns
    | .union a d bs, .union a' d' bs' => a == a' && d == d' && Bs.beq bs bs'
    | _, _ => false
  def Ms.beq : Ms → Ms → Bool
    | .nil, .nil => true
    | .cons i o m t r, .cons i' o' m' t' r' => i == i' && o == o' && m == m' && Ty.beq t t' && Ms.beq r r'
    | _, _ => false
  def Bs.beq : Bs → Bs → Bool
    | .nil, .nil => true
    | .cons i ls d t r, .cons i' ls' d' t' r' => i == i' && ls == ls' && d == d' && Ty.beq t t' && Bs.beq r r'
    | _, _ => false
end

mutual
  def KTy.beq : KTy → KTy → Bool
    | .prim p, .prim q => p == q
    | .str, .str => true
    | .enum h ls x, .enum h' ls' x' => h == h' && ls == ls' && x == x'
    | .wstr, .wstr => true
    | .seq a, .seq b => KTy.beq a b
    | .arr a n, .arr b m => n == m && KTy.beq a b
    | .struct x ms, .struct y ns => x == y && KMs.beq ms ns
    | .union a d bs, .union a' d' bs' => a == a' && d == d' && Bs.beq bs bs'
    | _, _ => false
  def KMs.beq : KMs → KMs → Bool
    | .nil, .nil => true
    | .cons i o m k t r, .cons i' o' m' k' t' r' =>
      i == i' && o == o' && m == m' && k == k' && KTy.beq t t' && KMs.beq r r'
    | _, _ => false
end

/-! ### `TypeIdentifier` of a member type (type_object.rs:2144) -/
inductive Tid
  | bool | byte | i8 | u8 | i16 | u16 | i32 | u32 | i64 | u64 | f32 | f64 | c8
  /-- `TiString8Large { bound: u32::MAX }` (the harness builds unbounded strings) -/
  | str
  /-- `TiString16Large { bound: u32::MAX }` -/
  | wstr
  /-- `TiPlainSequenceSmall / Large`; the bound is ignored by the default policy -/
  | seq (el : Tid)
  /-- `TiPlainArraySmall / Large { array_bound_seq: [n] }` (small iff n <= 255, so equal bounds are in the same variant) -/
  | arr (n : Nat) (el : Tid)
  /-- `EkComplete { equivalence_hash }`: a structure or an enumeration -/
  | complete
  deriving DecidableEq, Repr

def primTid : Prim → Tid
  | .bool => .bool | .byte => .byte | .u8 => .u8 | .i8 => .i8 | .c8 => .c8 | .i16 => .i16 | .u16 => .u16
  | .i32 => .i32 | .u32 => .u32 | .f32 => .f32 | .i64 => .i64 | .u64 => .u64 | .f64 => .f64

def tidOf : KTy → Tid
  | .prim p => primTid p
  | .str => .str
  | .enum _ _ _ => .complete
  | .wstr => .wstr
  | .struct _ _ => .complete
  | .union _ _ _ => .complete
  | .seq el => .seq (tidOf el)
  | .arr el n => .arr n (tidOf el)

/-- the integer identifiers the `EkComplete` rule accepts (type_object.rs:2630-2640, meant for bitmasks) -/
def Tid.intLike : Tid → Bool
  | .byte | .i8 | .u8 | .i16 | .u16 | .i32 | .u32 | .i64 | .u64 => true
  | _ => false

/-- `TypeIdentifier::is_assignable_from_w_type_consistency` (type_object.rs:2435), default policy -/
def tidAssignable : Tid → Tid → Bool
  | .seq a, .seq b => tidAssignable a b
  | .arr n a, .arr m b => n == m && tidAssignable a b
  | .complete, t => t == .complete || t.intLike
  | a, b => if a.intLike then b == a || b == .complete else a == b

/-- `CommonStructMember` -/
structure MInfo where
  id : Nat
  opt : Bool
  mu : Bool
  key : Bool
  tid : Tid
  deriving DecidableEq, Repr

def KMs.infos : KMs → List MInfo
  | .nil => []
  | .cons id opt mu key t r => ⟨id, opt, mu, key, tidOf t⟩ :: r.infos

/-- the `TkStructure` arm of `CompleteTypeObject::is_assignable_from_w_type_consistency` (type_object.rs:2675-2843)
    for two type objects that are not equal -/
def structAssignable (x1 : Ext) (m1 : List MInfo) (x2 : Ext) (m2 : List MInfo) : Bool :=
  let fin1 := x1 == .final
  let fin2 := x2 == .final
  let mut1 := x1 == .mutable
  let mut2 := x2 == .mutable
  -- extensibility rules
  if (fin1 || fin2) && !(fin1 && fin2 && m1.length == m2.length) then false
  else if !(fin1 || fin2) && (x1 != x2) then false
  else
    let zipOk := (m1.zip m2).all fun ab => ab.1.id == ab.2.id && tidAssignable ab.1.tid ab.2.tid
    if !mut1 && !mut2 && !zipOk then false
    else if !mut1 && !mut2 && fin1 && fin2 then true
    else
      let has (l : List MInfo) (id : Nat) : Bool := l.any fun a => a.id == id
      -- at least one common member id
      if !(m2.any fun b => has m1 b.id) then false
      else
        let membersOk := m2.all fun b =>
          match m1.find? (fun a => a.id == b.id) with
          | some a => tidAssignable a.tid b.tid
          | none => true
        -- non-optional must-understand members and key members appear in both
        let mu1 := m1.all fun a => !(!a.opt && a.mu) || has m2 a.id
        let mu2 := m2.all fun b => !(!b.opt && b.mu) || has m1 b.id
        let k1 := m1.all fun a => !a.key || has m2 a.id
        let k2 := m2.all fun b => !b.key || has m1 b.id
        mu1 && mu2 && k1 && k2 && membersOk

/-- `tr.is_assignable_from(tw)` for two top-level structure types -/
def assignable (tr tw : KTy) : Bool :=
  if KTy.beq tr tw then true        -- `if self == t2 { return true; }`
  else match tr, tw with
    | .struct x1 ms1, .struct x2 ms2 => structAssignable x1 ms1.infos x2 ms2.infos
    | _, _ => false

/-! ### what the reader should see -/
/-- the value of the writer's member with this id (`absent` if there is none) -/
def lookupM (id : Nat) : Ms → List Val → Val
  | .cons id' _ _ _ r, f :: fs => if id' == id then f else lookupM id r fs
  | _, _ => .absent

/-- mutable structures: members are matched by id -/
def projById : Ms → Ms → List Val → List Val
  | .nil, _, _ => []
  | .cons id _ _ _ r, msw, fsw => lookupM id msw fsw :: projById r msw fsw

/-- final / appendable structures: members are matched by position -/
def projPos (n : Nat) (fs : List Val) : List Val := fs.take n ++ absents (n - fs.length)

def project (tr tw : Ty) (v : Val) : Val :=
  match tr, tw, v with
  | .struct .mutable msr, .struct .mutable msw, .struct fs => .struct (projById msr msw fs)
  | .struct _ msr, .struct _ _, .struct fs => .struct (projPos msr.length fs)
  | _, _, v => v

/-! ### the typed view -/
/-- `TypeSupport::create_sample` of a derived structure (dds_derive: every non-optional member is taken out of the
    `DynamicData` with `?`): a member without value makes the whole sample `None` (`Sample::new`, sample_info.rs:21) -/
def typedOk : Ms → List Val → Bool
  | .cons _ opt _ _ r, f :: fs => (opt || !(match f with | .absent => true | _ => false)) && typedOk r fs
  | .nil, [] => true
  | _, _ => false

def typedView (t : Ty) (v : Val) : Option Val :=
  match t, v with
  | .struct _ ms, .struct fs => if typedOk ms fs then some v else none
  | _, _ => none

/-! ### the evolution relation of the theorem -/
def Ms.ids : Ms → List Nat
  | .nil => []
  | .cons id _ _ _ r => id :: r.ids

/-- no member is both non-optional and must-understand -/
def Ms.noMustUnderstand : Ms → Bool
  | .nil => true
  | .cons _ opt mu _ r => (opt || !mu) && r.noMustUnderstand

/-- the writer has the reader's members and possibly more at the end -/
def Ms.isPrefix : Ms → Ms → Bool
  | .nil, w => w.noMustUnderstand
  | .cons i o m t r, .cons i' o' m' t' w => i == i' && o == o' && m == m' && Ty.beq t t' && r.isPrefix w
  | .cons _ _ _ _ _, .nil => false

/-- decoding a value of this type consumes at least four bytes before anything else can happen: with fewer than four
    bytes left (the encapsulation padding) the decoder reports `NotEnoughData` -/
def needs4 : Ty → Bool
  | .prim p => decide (4 ≤ p.size)
  | .str => true
  | .wstr => true
  | .seq _ => true
  | _ => false

/-- the reader has the writer's members and more at the end; the first extra member is not optional and `needs4` -/
def Ms.readerLonger : Ms → Ms → Bool
  | .cons i o m t r, .cons i' o' m' t' w => i == i' && o == o' && m == m' && Ty.beq t t' && r.readerLonger w
  | .nil, .nil => true
  | .cons _ opt mu t r, .nil => !opt && needs4 t && (Ms.cons 0 opt mu t r).noMustUnderstand
  | .nil, .cons _ _ _ _ _ => false

/-- a writer member whose id equals the reader member's id modulo 2^16 is the same member:
    same id, same must-understand flag, same type -/
def compat1 (id : Nat) (mu : Bool) (t : Ty) : Ms → Bool
  | .nil => true
  | .cons id' _ mu' t' r =>
    (if id' % 2 ^ 16 == id % 2 ^ 16 then id' == id && mu' == mu && Ty.beq t' t else true) && compat1 id mu t r

def mutCompat : Ms → Ms → Bool
  | .nil, _ => true
  | .cons id _ mu t r, msw => compat1 id mu t msw && mutCompat r msw

def Ms.hasId (id : Nat) : Ms → Bool
  | .nil => false
  | .cons id' _ _ _ r => id' == id || r.hasId id

/-- members that are non-optional and must-understand exist on the other side too -/
def muBoth : Ms → Ms → Bool
  | .nil, _ => true
  | .cons id opt mu _ r, other => ((opt || !mu) || other.hasId id) && muBoth r other

def Ms.anyCommon : Ms → Ms → Bool
  | .nil, _ => false
  | .cons id _ _ _ r, other => other.hasId id || r.anyCommon other

/-- **the evolution relation**: appendable structures that differ by members at the end (at least one common member),
    mutable structures whose common members (matched by id, ids distinct modulo 2^16) agree in type. -/
def evolves (tr tw : Ty) : Bool :=
  match tr, tw with
  | .struct .appendable msr, .struct .appendable msw =>
    (msr.isPrefix msw && decide (0 < msr.length) && decide (msw.ids.Nodup)) ||
    (msr.readerLonger msw && decide (0 < msw.length) && decide (msr.ids.Nodup))
  | .struct .mutable msr, .struct .mutable msw =>
    mutCompat msr msw && decide (msr.lowIds.Nodup) && decide (msw.lowIds.Nodup) && msr.anyCommon msw &&
    muBoth msr msw && muBoth msw msr
  | _, _ => false

end DustVerif.Xcdr
